(* C04 driver: reads the lines of harness/c04_program.cpp on stdin. For every SOLVE line it rebuilds the caller's
   program as exact rationals, checks the three normalisation divisors against the exact squared norms, normalises
   the (reduced) program with the extracted model, recomputes objective / surrogate gap / dual and primal residuals
   from the returned (x,u,v), compares them with the reported ones, and re-takes the decision of solver_t::done
   (extracted from the translated source expressions) on the reported numbers.
   Independently of the model's decisions it verifies in exact arithmetic that the constructed optimum is a KKT point
   of the stated program (GENBAD otherwise: the generator is wrong, not the library) and re-applies the feasibility
   clause of the property exactly (PROPFAIL).
   For every REDUCE line (program::reduce of the library next to Eigen's fullPivLu of [A|b]^T): (a) the printed factors are a
   factorisation (the extracted [lu_valid_b] exactly; when the factors are not exact in doubles, P M^T Q = L U within 1e-12 of
   the summed terms and the same structural conditions), (b) the model's assembly of the reduced system from (P, L, U, rank)
   against the library's [A'|b'] (1e-9 of the summed terms; exactly for the early return), (c) the conclusion of
   C04_reduce_same_solutions on the implementation, by an elimination over Q coded here independently of the model: the row
   spaces of [A|b] and of the library's [A'|b'] coincide (equivalently: same solution set and same consistency) and the
   reduced system has exactly rank[A|b] rows (PROPFAIL reduce-...).
   Prints `MISMATCH <what> id=<id> ...`, `PROPFAIL ...`, `GENBAD ...` and a final `MODEL-DONE checked=<n> ...`.
   NB: compiled by tools/checks/c04.py after `open C04_model` (no zutil.ml.inc: Z is Zarith here). *)
module B = Big_int_Z

let mism = ref 0
let total = ref 0
let printed = ref 0
let decisions = ref 0
let ambiguous = ref 0
let kkt_ok = ref 0
let compared = ref 0
let report kind what id detail =
  incr mism;
  incr printed;
  if !printed <= 100 then Printf.printf "%s %s id=%s %s\n" kind what id detail

(* ---- exact conversion of doubles ---------------------------------------------------------------- *)
let qz = { qnum = B.zero_big_int; qden = B.unit_big_int }
let q_of_int n = { qnum = B.big_int_of_int n; qden = B.unit_big_int }
let q_of_float (x : float) : q =
  if x = 0.0 then qz
  else begin
    let (m, e) = Float.frexp x in
    let mi = Int64.of_float (Float.ldexp m 53) in
    let rec strip mi e = if Int64.rem mi 2L = 0L then strip (Int64.div mi 2L) (e + 1) else (mi, e) in
    let (mi, e) = strip mi (e - 53) in
    let n = B.big_int_of_int64 mi in
    if e >= 0 then { qnum = B.shift_left_big_int n e; qden = B.unit_big_int }
    else { qnum = n; qden = B.shift_left_big_int B.unit_big_int (- e) }
  end
let float_of_q (x : q) : float = Q.to_float (Q.make x.qnum x.qden)
let parse_float s = let s = String.trim s in
  if s = "nan" || s = "-nan" then Float.nan else if s = "inf" then Float.infinity else if s = "-inf" then Float.neg_infinity
  else float_of_string s
let split c s = if s = "" then [] else String.split_on_char c s
let fvec s = let s = String.trim s in if s = "-" || s = "" then [] else List.map parse_float (split ',' s)
let fmat s = let s = String.trim s in if s = "-" || s = "" then [] else List.map fvec (split ';' s)
let qvec = List.map q_of_float
let qmat = List.map qvec
let finite_vec = List.for_all Float.is_finite
let ( +/ ) = qplus and ( -/ ) = qminus and ( */ ) = qmult and ( // ) = qdiv
let qle = qle_bool
let qlt a b = not (qle b a)

let split_str sep s =
  let n = String.length sep and m = String.length s in
  let rec go i start acc =
    if i + n > m then List.rev (String.sub s start (m - start) :: acc)
    else if String.sub s i n = sep then go (i + n) (i + n) (String.sub s start (i - start) :: acc)
    else go (i + 1) start acc in
  go 0 0 []

let eps = ref (q_of_float 1e-10)
let eps2 = ref (q_of_float 1e-8)
let minn = ref (q_of_float 1e-3)
let feps = ref 1e-10
let feps2 = ref 1e-8

let qsqrt_f0 (x : q) = sqrt (Float.max 0.0 (float_of_q x))
let kv tok = match split '=' tok with [k; v] -> (k, v) | _ -> (tok, "")

(* float magnitudes of the summed terms (tolerances only; never part of a decision) *)
let fabs = Float.abs
let fdot_abs a b = List.fold_left2 (fun s x y -> s +. fabs (x *. y)) 0.0 a b
let safe_dot_abs a b = if List.length a = List.length b then fdot_abs a b else 0.0
let col j m = List.map (fun r -> List.nth r j) m

(* states returned with status unfeasible/unbounded may carry the objective and residuals of the last *trial* point of
   a failed line search while (x,u,v) are the previous iterate (solve_with_inequality, stage 2): for them a
   disagreement is what the code does -- counted (stale), not reported *)
let stale = ref 0
let neg_u = ref 0
let u_checked = ref 0
let stale_now = ref false
let gating = ref true
let close what id a b tol =
  incr compared;
  let d = qabs (a -/ b) in
  if not (qle d (q_of_float tol)) then begin
    if !gating then
      report "MISMATCH" what id (Printf.sprintf "model=%h impl=%h |diff|=%g tol=%g" (float_of_q a) (float_of_q b) (float_of_q d) tol)
    else stale_now := true
  end


(* ---- program::reduce ------------------------------------------------------------------------------------------------ *)
let rec nat_of_int n = if n <= 0 then O else S (nat_of_int (n - 1))
let ivec s = let s = String.trim s in if s = "-" || s = "" then [] else List.map (fun t -> int_of_string (String.trim t)) (split ',' s)
let red_total = ref 0 and red_exact = ref 0 and red_reduced = ref 0 and red_full = ref 0 and red_incons = ref 0
let red_exact_rowspace = ref 0 and red_empty = ref 0
let red_ranks = Hashtbl.create 16
let zq (x : q) : Q.t = Q.make x.qnum x.qden

(* reduced echelon basis with full pivoting over Q: list of (pivot column, row with pivot 1 and 0 at the other pivot columns) *)
let echelon_basis (rows : Q.t array list) (w : int) : (int * Q.t array) list =
  let rows = Array.of_list (List.map Array.copy rows) in
  let nr = Array.length rows in
  let used = Array.make nr false in
  let out = ref [] in
  let continue = ref true in
  while !continue do
    let best = ref Q.zero and bi = ref (-1) and bj = ref (-1) in
    for i = 0 to nr - 1 do
      if not used.(i) then
        for j = 0 to w - 1 do
          let a = Q.abs rows.(i).(j) in
          if Q.gt a !best then begin best := a; bi := i; bj := j end
        done
    done;
    if !bi < 0 then continue := false
    else begin
      let i0 = !bi and j0 = !bj in
      used.(i0) <- true;
      let pv = rows.(i0).(j0) in
      rows.(i0) <- Array.map (fun x -> Q.div x pv) rows.(i0);
      for i = 0 to nr - 1 do
        if i <> i0 && Q.sign rows.(i).(j0) <> 0 then begin
          let f = rows.(i).(j0) in
          rows.(i) <- Array.mapi (fun j x -> Q.sub x (Q.mul f rows.(i0).(j))) rows.(i)
        end
      done;
      out := (j0, i0) :: !out
    end
  done;
  List.rev_map (fun (j0, i0) -> (j0, rows.(i0))) !out

(* is v in the span of the basis?  residual of the elimination against the magnitude of the summed terms; (ok, exact) *)
let in_span (basis : (int * Q.t array) list) (v : Q.t array) (rtol : float) : bool * bool =
  let w = Array.length v in
  let res = Array.copy v and mag = Array.map (fun x -> Float.abs (Q.to_float x)) v in
  List.iter (fun (pc, row) ->
      let f = v.(pc) in
      if Q.sign f <> 0 then
        for j = 0 to w - 1 do
          res.(j) <- Q.sub res.(j) (Q.mul f row.(j));
          mag.(j) <- mag.(j) +. Float.abs (Q.to_float f) *. Float.abs (Q.to_float row.(j))
        done) basis;
  let exact = Array.for_all (fun x -> Q.sign x = 0) res in
  let scale = Array.fold_left Float.max 0.0 mag in
  let ok = ref true in
  Array.iteri (fun j x -> if Float.abs (Q.to_float x) > rtol *. (mag.(j) +. scale) then ok := false) res;
  (!ok, exact)

let handle_reduce line =
  let lp = Array.of_list (split_str " | " line) in
  if Array.length lp < 11 then failwith ("bad REDUCE line: " ^ line);
  let hdr = List.map kv (split ' ' (String.trim lp.(0))) in
  let id = match split ' ' (String.trim lp.(0)) with _ :: i :: _ -> i | _ -> "?" in
  let r = int_of_string (List.assoc "r" hdr) and n = int_of_string (List.assoc "n" hdr) in
  let fA = fmat lp.(1) and fb = fvec lp.(2) and pi = ivec lp.(3) and qi = ivec lp.(4) and fL = fmat lp.(5) and fU = fmat lp.(6) in
  let rank = int_of_string (String.trim lp.(7)) and ret = int_of_string (String.trim lp.(8)) in
  let fAr = fmat lp.(9) and fbr = fvec lp.(10) in
  incr red_total;
  let c = n + 1 in
  let qA = qmat fA and qb = qvec fb in
  let f = { lu_p = List.map nat_of_int pi; lu_q = List.map nat_of_int qi; lu_L = qmat fL; lu_U = qmat fU; lu_rank = nat_of_int rank } in
  Hashtbl.replace red_ranks rank (1 + (try Hashtbl.find red_ranks rank with Not_found -> 0));
  if List.length fA <> r || List.length fb <> r || List.exists (fun row -> List.length row <> n) fA then failwith "bad REDUCE sizes";
  let finite = List.for_all finite_vec fAr && finite_vec fbr && List.for_all finite_vec fL && List.for_all finite_vec fU in
  if not finite then report "MISMATCH" "reduce-not-finite" id ""
  else if r = 0 then begin
    incr red_empty;
    let (retm, (am, bm)) = reduce_model qA qb (nat_of_int n) f in
    if retm || ret <> 0 || am <> [] || bm <> [] || fAr <> [] || fbr <> [] then
      report "MISMATCH" "reduce-empty" id (Printf.sprintf "model returns %b, library returns %d with %d rows" retm ret (List.length fAr))
  end else begin
    let m = stack qA qb in
    let nr = nat_of_int r and nc = nat_of_int c in
    let nn = min r c in
    (* ---- (a) the oracle's answer is a factorisation of [A|b]^T ---------------------------------------------------- *)
    let exact = lu_valid_b m nr nc f in
    if exact then incr red_exact
    else begin
      let aL = Array.of_list (List.map Array.of_list fL) and aU = Array.of_list (List.map Array.of_list fU) in
      let okshape = Array.length aL = c && Array.for_all (fun row -> Array.length row = nn) aL
                    && Array.length aU = nn && Array.for_all (fun row -> Array.length row = r) aU in
      if not (okshape && perm_b f.lu_p nc && perm_b f.lu_q nr && rank <= nn) then
        report "MISMATCH" "reduce-factorisation" id (Printf.sprintf "shape/permutation/rank: L %dx? U %dx? rank=%d" (Array.length aL) (Array.length aU) rank)
      else begin
        let umax = Array.fold_left (fun s row -> Array.fold_left (fun s x -> Float.max s (fabs x)) s row) 0.0 aU in
        let bad = ref "" in
        for t = 0 to nn - 1 do
          for j = 0 to r - 1 do
            if j < t && aU.(t).(j) <> 0.0 then bad := Printf.sprintf "U(%d,%d)=%h below the diagonal" t j aU.(t).(j);
            if t >= rank && fabs aU.(t).(j) > 1e-12 *. umax then bad := Printf.sprintf "U(%d,%d)=%h in a row beyond the rank %d" t j aU.(t).(j) rank
          done;
          if t < rank && not (fabs aU.(t).(t) > 1e-12 *. umax) then bad := Printf.sprintf "pivot U(%d,%d)=%h" t t aU.(t).(t)
        done;
        for k = 0 to c - 1 do
          for t = 0 to nn - 1 do
            if k = t && aL.(k).(t) <> 1.0 then bad := Printf.sprintf "L(%d,%d)=%h on the diagonal" k t aL.(k).(t);
            if k < t && aL.(k).(t) <> 0.0 then bad := Printf.sprintf "L(%d,%d)=%h above the diagonal" k t aL.(k).(t)
          done
        done;
        let nin = inner_dim nr nc in
        for k = 0 to c - 1 do
          for j = 0 to r - 1 do
            let a = pmq_entry m f (nat_of_int k) (nat_of_int j) and b = lu_entry nin f (nat_of_int k) (nat_of_int j) in
            let mag = ref (fabs (float_of_q a)) in
            for t = 0 to nn - 1 do mag := !mag +. fabs (aL.(k).(t) *. aU.(t).(j)) done;
            let d = fabs (float_of_q (a -/ b)) in
            if d > 1e-12 *. !mag then bad := Printf.sprintf "(P M^T Q)(%d,%d)=%h but (L U)=%h" k j (float_of_q a) (float_of_q b)
          done
        done;
        if !bad <> "" then report "MISMATCH" "reduce-factorisation" id !bad
      end
    end;
    (* ---- (b) the model's assembly against the library's reduced system --------------------------------------------- *)
    let (retm, (am, bm)) = reduce_model qA qb (nat_of_int n) f in
    if rank = r then incr red_full else incr red_reduced;
    if retm <> (ret = 1) then report "MISMATCH" "reduce-returned-flag" id (Printf.sprintf "model=%b impl=%d" retm ret);
    if List.length am <> List.length fAr || List.length bm <> List.length fbr || List.length fAr <> List.length fbr
       || List.exists (fun row -> List.length row <> n) fAr || List.exists (fun row -> List.length row <> n) am then
      report "MISMATCH" "reduce-sizes" id (Printf.sprintf "model %d rows (rank=%d of %d), library %d rows / %d rhs" (List.length am) rank r (List.length fAr) (List.length fbr))
    else begin
      let aL = Array.of_list (List.map Array.of_list fL) and aU = Array.of_list (List.map Array.of_list fU) in
      let pa = Array.of_list pi in
      let mag i col =
        if rank = r then 0.0
        else begin
          let s = ref 0.0 in
          Array.iteri (fun k pk -> if pk = col then
                          for t = 0 to nn - 1 do
                            if k < Array.length aL && t < Array.length aL.(k) && t < Array.length aU && i < Array.length aU.(t) then
                              s := !s +. fabs (aU.(t).(i) *. aL.(k).(t))
                          done) pa;
          !s
        end in
      let cmp what i col a b =
        incr compared;
        let d = qabs (a -/ b) in
        if not (qle d (q_of_float (1e-9 *. mag i col))) then
          report "MISMATCH" what id (Printf.sprintf "row=%d col=%d model=%h impl=%h |diff|=%g summed=%g rank=%d of %d rows" i col (float_of_q a) (float_of_q b) (float_of_q d) (mag i col) rank r) in
      List.iteri (fun i (rm, rl) -> List.iteri (fun col (a, b) -> cmp "reduce-A" i col a (q_of_float b)) (List.combine rm rl)) (List.combine am fAr);
      List.iteri (fun i (a, b) -> cmp "reduce-b" i n a (q_of_float b)) (List.combine bm fbr)
    end;
    (* ---- (c) the theorem's conclusion on the implementation: same solution set (own elimination over Q) ------------ *)
    if List.length fAr = List.length fbr && List.for_all (fun row -> List.length row = n) fAr then begin
      let rows_of a b = List.map2 (fun row t -> Array.of_list (List.map Q.of_float row @ [Q.of_float t])) a b in
      let rm = rows_of fA fb and rr = rows_of fAr fbr in
      let bm_ = echelon_basis rm c and br_ = echelon_basis rr c in
      let exact_rank = List.length bm_ in
      if List.exists (fun (pc, row) -> pc = n && (let z = ref true in Array.iteri (fun j x -> if j < n && Q.sign x <> 0 then z := false) row; !z)) bm_ then incr red_incons;
      if List.length rr <> exact_rank then
        report "PROPFAIL" "reduce-row-count" id (Printf.sprintf "rank[A|b]=%d (exact) but the reduced system has %d rows (of %d; Eigen rank=%d)" exact_rank (List.length rr) r rank);
      let all_exact = ref true in
      let bad = ref "" in
      List.iteri (fun i v -> let (ok, ex) = in_span bm_ v 1e-9 in
                   if not ex then all_exact := false;
                   if not ok && !bad = "" then bad := Printf.sprintf "reduced row %d is not a combination of the rows of [A|b]: some solution of A x = b violates it (or the reduced system is inconsistent while A x = b is not)" i) rr;
      List.iteri (fun i v -> let (ok, ex) = in_span br_ v 1e-9 in
                   if not ex then all_exact := false;
                   if not ok && !bad = "" then begin
                     (* a witness when cheap: the particular solution of the reduced system with free variables 0 *)
                     let x = Array.make n Q.zero in
                     let consistent = not (List.exists (fun (pc, _) -> pc = n) br_) in
                     if consistent then List.iter (fun (pc, row) -> x.(pc) <- row.(n)) br_;
                     let dev = ref Q.zero in
                     for j = 0 to n - 1 do dev := Q.add !dev (Q.mul v.(j) x.(j)) done;
                     let dev = Q.sub !dev v.(n) in
                     bad := Printf.sprintf "row %d of [A|b] is not implied by the reduced system%s" i
                         (if consistent && Float.abs (Q.to_float dev) > 1e-9 then
                            Printf.sprintf ": x=(%s) solves A'x=b' but a_%d.x-b_%d=%g" (String.concat "," (Array.to_list (Array.map (fun t -> Printf.sprintf "%g" (Q.to_float t)) x))) i i (Q.to_float dev)
                          else "")
                   end) rm;
      if !bad <> "" then report "PROPFAIL" "reduce-solution-set" id !bad
      else if !all_exact then incr red_exact_rowspace
    end
  end

(* ==== REST stage: solve_without_inequality, make_strictly_feasible / make_x0 (C04_Rest_Defs) ================================== *)
let eq_total = ref 0 and eq_dec = ref 0 and eq_amb = ref 0 and eq_nonfinite = ref 0 and eq_conv = ref 0 and eq_prop = ref 0
let eq_worst_rel = ref 0.0
let msf_total = ref 0 and msf_found = ref 0 and msf_amb = ref 0 and msf_bits = ref 0 and msf_trials = ref 0 and msf_sys_ok = ref 0
let msf_sys_singular = ref 0 and msf_prop = ref 0 and msf_rounding = ref 0
let ms_total = ref 0 and ms_started = ref 0 and ms_zero_start = ref 0 and ms_rejected = ref 0 and ms_strict_rejected = ref 0
let ms_strict_total = ref 0 and ms_strict_nomsf = ref 0 and ms_amb = ref 0 and ms_feasible_rejected = ref 0 and ms_feasible_total = ref 0
let msf_tab : (string, int * bool * float list * float list list * float list * bool * q list) Hashtbl.t = Hashtbl.create 64

(* the decision of solve_without_inequality re-taken by the extracted model on the returned (x, v) *)
let eq_decision id pn mufx dA qx qv (x : float list) (v : float list) (rdual : float list) (rprim : float list) status fAr fbr =
  incr eq_total;
  let fres = sqrt (List.fold_left (fun s t -> s +. t *. t) 0.0 (rdual @ rprim)) in
  let valid = Float.is_finite fres in
  let st = eq_solve pn mufx (q_of_float 10.0) !eps2 { ea_x = qx; ea_v = qv; ea_valid = valid } in
  let lm = eq_lmat pn and lv = eq_lvec pn in
  let sol = qx @ qv in
  let lhs = mv lm sol in
  let r = qsqrt_f0 (sumsq (eq_sys_residual pn qx qv)) in
  let thr = !feps2 *. sqrt (Float.min (Float.max 0.0 (float_of_q (sumsq lhs))) (Float.max 0.0 (float_of_q (sumsq lv)))) in
  (* the implementation forms lmat * lsol in doubles: rounding of a row is bounded by (n + p) ulp of its summed magnitudes *)
  let fsol = List.map float_of_q sol in
  let rowmag = List.map (fun row -> List.fold_left2 (fun s a b -> s +. fabs (float_of_q a) *. fabs b) 0.0 row fsol) lm in
  let rnd = float_of_int (List.length sol + 2) *. 0x1p-52 *. sqrt (List.fold_left (fun s t -> s +. t *. t) 0.0 rowmag) in
  if thr > 0.0 && r /. thr > !eq_worst_rel && status = 1 then eq_worst_rel := r /. thr;
  if valid && fabs (r -. thr) <= 4.0 *. rnd +. 1e-6 *. thr then incr eq_amb
  else begin
    incr eq_dec;
    if B.int_of_big_int st.es_status <> status then
      report "MISMATCH" "eq-status" id (Printf.sprintf "model=%d impl=%d valid=%b aprox(model)=%b |lmat*lsol - lvec|=%g eps2*min(|lmat*lsol|,|lvec|)=%g rounding=%g"
                                          (B.int_of_big_int st.es_status) status valid st.es_aprox r thr rnd)
  end;
  (* direct oracle (own arithmetic, Zarith Q): what C04_eq_converged_rprim_bound states about a `converged` answer *)
  if status = 1 then begin
    incr eq_conv;
    let zx = Array.of_list (List.map Q.of_float x) in
    let zd = Q.of_float dA in
    let rp2 = List.fold_left2 (fun s row rhs ->
        let t = ref (Q.neg (Q.of_float rhs)) in
        List.iteri (fun j a -> t := Q.add !t (Q.mul (Q.of_float a) zx.(j))) row;
        let t = Q.div !t zd in Q.add s (Q.mul t t)) Q.zero fAr fbr in
    let cb2 = Q.to_float (Q.make (sumsq lv).qnum (sumsq lv).qden) in
    let bound = !feps2 *. !feps2 *. cb2 in
    let frp = sqrt (Q.to_float rp2) in
    if frp > 1.001 *. sqrt bound +. 4.0 *. rnd then begin
      incr eq_prop;
      report "PROPFAIL" "eq-rprim-bound" id (Printf.sprintf "converged with |A'x - b'|_2 = %g > epsilon2 * |(c', b')|_2 = %g (normalised program)" frp (sqrt bound))
    end
  end

(* small dyadics (multiples of 2^-8 up to 4096): a row g.x - h of at most 12 such terms is evaluated exactly in doubles in any order *)
let small_dyadic t = Float.is_finite t && fabs t <= 4096.0 && Float.of_int (Float.to_int (t *. 256.0)) = t *. 256.0
let exactly_evaluable (fG : float list list) (fh : float list) (x : float list) =
  List.length x <= 12 && List.for_all small_dyadic x && List.for_all small_dyadic fh && List.for_all (List.for_all small_dyadic) fG

let zrow_slack (g : float list) (h : float) (zx : Q.t array) =
  let t = ref (Q.neg (Q.of_float h)) in List.iteri (fun j a -> t := Q.add !t (Q.mul (Q.of_float a) zx.(j))) g; !t

let handle_msf line =
  let lp = Array.of_list (split_str " | " line) in
  if Array.length lp < 5 then failwith "bad MSF line";
  let toks = split ' ' (String.trim lp.(0)) in
  let id = List.nth toks 1 in
  let hdr = List.map kv toks in
  let n = int_of_string (List.assoc "n" hdr) and m = int_of_string (List.assoc "m" hdr) and ret = int_of_string (List.assoc "ret" hdr) = 1 in
  let strict_known = int_of_string (List.assoc "strict_known" hdr) = 1 in
  let fG = fmat lp.(1) and fh = fvec lp.(2) and xret = fvec lp.(3) in
  let trials = let t = String.trim lp.(4) in if t = "-" || t = "" then [] else
      List.map (fun tr -> match split ':' tr with [y; x] -> (parse_float y, fvec x) | _ -> failwith "bad MSF trial") (split ';' t) in
  if List.length fG <> m || List.length fh <> m || List.exists (fun r -> List.length r <> n) fG || List.exists (fun (_, x) -> List.length x <> n) trials then failwith "bad MSF sizes";
  incr msf_total;
  if ret then incr msf_found;
  msf_trials := !msf_trials + List.length trials;
  let qG = qmat fG and qh = qvec fh in
  let finite = List.for_all (fun (y, x) -> Float.is_finite y && finite_vec x) trials && finite_vec xret in
  let rounds_q = ref [] in
  let decided = ref false in
  if not finite then incr msf_amb
  else begin
    (* (a) the distances: bit-exact mirror of `ym = 1.0; yM = 1.0 / gamma; ym *= gamma; yM /= gamma` in evaluation order *)
    let gamma = 0.3 in
    let ym = ref 1.0 and yM = ref (1.0 /. gamma) in
    List.iteri (fun k (y, _) ->
        let e = if k mod 2 = 0 then !ym else !yM in
        if Int64.bits_of_float e <> Int64.bits_of_float y then report "MISMATCH" "msf-distance" id (Printf.sprintf "trial %d: y=%h, expected %h" k y e);
        if k mod 2 = 1 then begin ym := !ym *. gamma; yM := !yM /. gamma end) trials;
    (* (b) every answer solves its normal equations (G'G) x = G'(h - y 1): norm-wise 1e-9, required when G'G is regular (exact LDL') *)
    let gm = gram (nat_of_int n) qG in
    let regular =
      let k = Array.of_list (List.map (fun row -> Array.of_list (List.map zq row)) gm) in
      let ok = ref (Array.length k = n) in
      if !ok then begin
        let dmax = ref 0.0 in
        Array.iter (fun row -> Array.iter (fun t -> dmax := Float.max !dmax (fabs (Q.to_float t))) row) k;
        (try for c = 0 to n - 1 do
             let d = k.(c).(c) in
             if not (Q.to_float d > 1e-6 *. !dmax) then begin ok := false; raise Exit end;
             for i = c + 1 to n - 1 do
               let f = Q.div k.(i).(c) d in
               if Q.sign f <> 0 then for j = c to n - 1 do k.(i).(j) <- Q.sub k.(i).(j) (Q.mul f k.(c).(j)) done
             done
           done with Exit -> ())
      end; !ok in
    let ambiguous = ref false in
    let accept_exact (x : float list) =
      (* exact sign of max(G x - h); rounding level: within 2^-44 of the row's summed terms *)
      let zx = Array.of_list (List.map Q.of_float x) in
      let worst = ref (Q.of_int (-1)) and first = ref true and near = ref false in
      List.iter2 (fun g h -> let t = zrow_slack g h zx in
                   if !first || Q.gt t !worst then begin worst := t; first := false end;
                   if fabs (Q.to_float t) <= 0x1p-44 *. (fdot_abs g x +. fabs h) && not (exactly_evaluable fG fh x) then near := true) fG fh;
      (Q.sign !worst < 0, !near) in
    List.iter (fun (y, x) ->
        let res = msf_residual (nat_of_int n) qG qh (q_of_float y) (qvec x) in
        let rhs_mag = List.fold_left (fun s row -> Float.max s (List.fold_left2 (fun s a b -> s +. fabs (float_of_q a) *. fabs b) 0.0 row x)) 0.0 gm in
        let gt_mag = List.fold_left2 (fun s g h -> s +. (List.fold_left (fun s a -> Float.max s (fabs a)) 0.0 g) *. (fabs h +. fabs y)) 0.0 fG fh in
        let scale = rhs_mag +. gt_mag +. 1e-300 in
        let ratio = List.fold_left (fun s t -> Float.max s (fabs (float_of_q t) /. scale)) 0.0 res in
        if ratio <= 1e-9 then incr msf_sys_ok
        else if regular then report "MISMATCH" "msf-system" id (Printf.sprintf "the candidate for y=%h does not solve (G'G) x = G'(h - y 1): relative residual %g (G'G regular)" y ratio)
        else incr msf_sys_singular;
        let (_, near) = accept_exact x in if near then ambiguous := true) trials;
    (* (c) the model's loop on the recorded answers *)
    let rec group = function
      | (ya, xa) :: (yb, xb) :: rest -> { r_ym = q_of_float ya; r_xm = qvec xa; r_yM = q_of_float yb; r_xM = qvec xb } :: group rest
      | [(ya, xa)] -> [{ r_ym = q_of_float ya; r_xm = qvec xa; r_yM = q_of_float ya; r_xM = qvec xa }]
      | [] -> [] in
    let rounds = group trials in
    rounds_q := rounds;
    let rm = msf_run qG qh rounds in
    if !ambiguous then incr msf_amb
    else begin
      decided := true;
      (match rm, ret with
       | None, false ->
         if List.length trials <> 100 then report "MISMATCH" "msf-trial-count" id (Printf.sprintf "nothing returned after %d evaluated trials (100 expected)" (List.length trials))
       | Some xm, true ->
         let fm = List.map float_of_q xm in
         if List.length fm = List.length xret && List.for_all2 (fun a b -> Int64.bits_of_float a = Int64.bits_of_float b) fm xret then incr msf_bits
         else if List.length fm = List.length xret && List.for_all2 (fun a b -> fabs (a -. b) <= 1e-9 *. (fabs a +. fabs b) +. 1e-300) fm xret then ()
         else report "MISMATCH" "msf-result" id (Printf.sprintf "the library returns (%s), the model's loop on the recomputed candidates returns (%s)"
                                                   (String.concat "," (List.map (Printf.sprintf "%h") xret)) (String.concat "," (List.map (Printf.sprintf "%h") fm)));
         (match List.rev trials with
          | (_, xl) :: _ -> if xl <> fm then report "MISMATCH" "msf-short-circuit" id "the accepted candidate is not the last evaluated trial"
          | [] -> ())
       | None, true -> report "MISMATCH" "msf-result" id "the library returns a point, the model's loop on the recomputed candidates returns nothing"
       | Some _, false -> report "MISMATCH" "msf-result" id "the library returns nothing, the model's loop on the recomputed candidates accepts one")
    end;
    (* (d) direct oracles on the returned point (own arithmetic): strictly inside every inequality; a least-squares candidate for
       one of the distances of the sequence *)
    if ret then begin
      let (strict, near) = accept_exact xret in
      if not strict then begin
        if near then incr msf_rounding
        else begin incr msf_prop; report "PROPFAIL" "msf-not-strict" id (Printf.sprintf "the returned point (%s) does not satisfy G x < h" (String.concat "," (List.map (Printf.sprintf "%h") xret))) end
      end;
      if regular then begin
        let zx = Array.of_list (List.map Q.of_float xret) in
        let slack = List.map2 (fun g h -> zrow_slack g h zx) fG fh in
        (* the candidate is a double vector: its slacks carry the rounding of x, |g_i| |x| ulp; for tiny distances y that is all there is *)
        let sterms = List.map2 (fun g h -> 0x1p-26 *. (fdot_abs g xret +. fabs h)) fG fh in
        let best = ref infinity in
        let ym = ref 1.0 and yM = ref (1.0 /. gamma) in
        for _ = 1 to 50 do
          List.iter (fun y ->
              (* G' (G x - h + y 1), norm-wise against the summed magnitudes *)
              let zy = Q.of_float y in
              let worst = ref 0.0 and mag = ref 1e-300 in
              for j = 0 to n - 1 do
                let t = ref Q.zero and mg = ref 0.0 in
                List.iter2 (fun (g, st) sl -> let a = List.nth g j in
                             t := Q.add !t (Q.mul (Q.of_float a) (Q.add sl zy));
                             mg := !mg +. fabs a *. (fabs (Q.to_float sl) +. fabs y +. st)) (List.combine fG sterms) slack;
                worst := Float.max !worst (fabs (Q.to_float !t)); mag := Float.max !mag !mg
              done;
              best := Float.min !best (!worst /. !mag)) [!ym; !yM];
          ym := !ym *. gamma; yM := !yM /. gamma
        done;
        if !best > 1e-7 then begin incr msf_prop; report "PROPFAIL" "msf-not-least-squares" id (Printf.sprintf "the returned point solves G'(G x - h + y 1) = 0 for no distance y of the sequence (best relative residual %g)" !best) end
      end
    end
  end;
  (* the default start: the model's (make_x0 of the model's loop) unless an acceptance test was within rounding of zero or the state was
     not finite -- then make_x0 of what the library returned *)
  let x0m = if !decided then default_x0 { pQ = []; pc = List.init n (fun _ -> qz); pA = []; pb = []; pG = qG; ph = qh } !rounds_q
    else make_x0 (nat_of_int n) (if ret then Some (qvec xret) else None) in
  Hashtbl.replace msf_tab id (n, ret, xret, fG, fh, strict_known, x0m)

let handle_mstart line =
  let lp = Array.of_list (split_str " | " line) in
  if Array.length lp < 2 then failwith "bad MSTART line";
  let toks = split ' ' (String.trim lp.(0)) in
  let id = List.nth toks 1 in
  let hdr = List.map kv toks in
  let geti k = int_of_string (List.assoc k hdr) in
  let expect = geti "expect" and status = geti "status" and iters = geti "iters" and started = geti "started" = 1 in
  let x0ev = fvec lp.(1) in
  let (n, ret, xret, fG, fh, strict_known, x0m) = try Hashtbl.find msf_tab id with Not_found -> failwith "MSTART without MSF" in
  Hashtbl.remove msf_tab id;
  incr ms_total;
  let fx0m = List.map float_of_q x0m in
  let feasible_known = strict_known || expect = 1 in
  if strict_known then begin incr ms_strict_total; if not ret then incr ms_strict_nomsf end;
  if feasible_known then incr ms_feasible_total;
  let exact_max (x : float list) =
    let zx = Array.of_list (List.map Q.of_float x) in
    let worst = ref Q.zero and first = ref true and near = ref false in
    List.iter2 (fun g h -> let t = zrow_slack g h zx in
                 if !first || Q.gt t !worst then begin worst := t; first := false end;
                 (* G x - h is evaluated exactly in doubles at the zero vector: no ambiguity there *)
                 if List.exists (fun t -> t <> 0.0) x && not (exactly_evaluable fG fh x) && fabs (Q.to_float t) <= 0x1p-40 *. (fdot_abs g x +. fabs h) then near := true) fG fh;
    (Q.sign !worst, !near) in
  if List.length fx0m <> n then report "MISMATCH" "make-x0-size" id (Printf.sprintf "model x0 has %d entries, n=%d" (List.length fx0m) n)
  else if started then begin
    incr ms_started;
    if not ret then incr ms_zero_start;
    (* the point make_x0 handed to solve_with_inequality: the returned candidate or the zero vector, bit for bit *)
    if not (List.length x0ev = n && List.for_all2 (fun a b -> Int64.bits_of_float a = Int64.bits_of_float b || (a = 0.0 && b = 0.0)) x0ev fx0m) then
      report "MISMATCH" "make-x0" id (Printf.sprintf "ev_program_start carries x0=(%s), the model's default start is (%s) (make_strictly_feasible returned %s)"
                                        (String.concat "," (List.map (Printf.sprintf "%h") x0ev)) (String.concat "," (List.map (Printf.sprintf "%h") fx0m)) (if ret then "a point" else "nothing"));
    let (sg, near) = exact_max x0ev in
    if sg >= 0 && not near then begin incr msf_prop; report "PROPFAIL" "start-not-strict" id "the loop was entered from a point with max(G x0 - h) >= 0" end
  end else begin
    incr ms_rejected;
    if strict_known then incr ms_strict_rejected;
    if feasible_known then incr ms_feasible_rejected;
    if not (status = 3 && iters = 0) then report "MISMATCH" "start-rejected-status" id (Printf.sprintf "no iteration was started but status=%d iters=%d" status iters);
    let (sg, near) = exact_max fx0m in
    if near then incr ms_amb
    else if sg < 0 then report "MISMATCH" "default-start-decision" id (Printf.sprintf "the model's default start (%s) is strictly feasible but the loop was not entered" (String.concat "," (List.map (Printf.sprintf "%h") fx0m)))
  end;
  ignore xret

let handle_solve line =
  match split_str " = " line with
  | [lhs; rhs] ->
    let lp = Array.of_list (split_str " | " lhs) and rp = Array.of_list (split_str " | " rhs) in
    if Array.length lp < 14 || Array.length rp < 6 then failwith ("bad SOLVE line: " ^ line);
    let hdr = List.map kv (split ' ' (String.trim lp.(0))) in
    let id = match split ' ' (String.trim lp.(0)) with _ :: i :: _ -> i | _ -> "?" in
    let expect = int_of_string (List.assoc "expect" hdr) in
    let fQ = fmat lp.(1) and fc = fvec lp.(2) and fA = fmat lp.(3) and fb = fvec lp.(4) and fG = fmat lp.(5) and fh = fvec lp.(6) in
    let fAr = fmat lp.(7) and fbr = fvec lp.(8) in
    let (dQ, dA, dG) = match fvec lp.(9) with [a; b; c] -> (a, b, c) | _ -> failwith "bad denominators" in
    let fxs = fvec lp.(11) and fus = fvec lp.(12) and fvs = fvec lp.(13) in
    let (status, fx, eta) = match split ' ' (String.trim rp.(0)) with
      | [s; _; fx; _; eta] -> (int_of_string s, parse_float fx, parse_float eta)
      | _ -> failwith "bad state" in
    let x = fvec rp.(1) and u = fvec rp.(2) and v = fvec rp.(3) and rdual = fvec rp.(4) and rprim = fvec rp.(5) in
    incr total;
    let n = List.length fc in
    let user = { pQ = qmat fQ; pc = qvec fc; pA = qmat fA; pb = qvec fb; pG = qmat fG; ph = qvec fh } in
    (* ---- generator sanity: the constructed optimum is an exact KKT point of the program as stated -------------- *)
    if expect = 1 then begin
      let xs = qvec fxs and us = qvec fus and vs = qvec fvs in
      let is0 t = qeq_bool t qz in
      let rp_ = vsub (mv user.pA xs) user.pb and gx = vsub (mv user.pG xs) user.ph in
      let st = List.fold_left (fun acc g -> vadd acc g) (grad user xs)
          [ (match user.pA with [] -> List.map (fun _ -> qz) fc | _ -> mtv (C04_model.dim user) user.pA vs);
            (match user.pG with [] -> List.map (fun _ -> qz) fc | _ -> mtv (C04_model.dim user) user.pG us) ] in
      let ok = List.length xs = n && List.length us = List.length fG && List.length vs = List.length fA
               && List.for_all is0 rp_ && List.for_all (fun t -> qle t qz) gx && List.for_all (fun t -> qle qz t) us
               && List.for_all2 (fun a b -> is0 (a */ b)) us gx && List.for_all is0 st in
      if ok then incr kkt_ok else report "GENBAD" "constructed-optimum-is-not-a-KKT-point" id ""
    end;
    let all_finite = finite_vec x && finite_vec u && finite_vec v && finite_vec rdual && finite_vec rprim
                     && Float.is_finite fx && Float.is_finite eta in
    (* ---- normalisation divisors against the exact squared norms ------------------------------------------------ *)
    let minn2 = !minn */ !minn and tol = q_of_float 1e-12 in
    let red = { user with pA = qmat fAr; pb = qvec fbr } in
    if not (denom_ok minn2 tol (q_of_float dQ) user.pQ user.pc) then report "MISMATCH" "denominator-objective" id (Printf.sprintf "d=%h" dQ);
    if not (denom_ok minn2 tol (q_of_float dA) red.pA red.pb) then report "MISMATCH" "denominator-equalities" id (Printf.sprintf "d=%h" dA);
    if not (denom_ok minn2 tol (q_of_float dG) user.pG user.ph) then report "MISMATCH" "denominator-inequalities" id (Printf.sprintf "d=%h" dG);
    let pn = normalizeP (q_of_float dQ) (q_of_float dA) (q_of_float dG) red in
    let m = List.length fG and p = List.length fAr in
    if finite_vec x && List.length x = n && not (finite_vec u) && m > 0 then begin
      (* solve_with_inequality returned before the first iteration: the start was not strictly feasible *)
      let mg = float_of_q (vmaxc (gxh pn (qvec x))) in
      (* the sign of max(G'x0-h') is rounding when it is below 1e-12 of the summed terms (default starts of size 1e16 occur) *)
      let tg = List.fold_left2 (fun s g h -> Float.max s ((fdot_abs g x +. fabs h) /. dG)) 0.0 fG fh in
      if fabs mg <= 1e-13 +. 1e-12 *. tg then incr ambiguous
      else begin
        incr decisions;
        let dec = start_unfeasible_dec pn (qvec x) in
        if not (dec && status = 3) then
          report "MISMATCH" "start-decision" id (Printf.sprintf "model: start_unfeasible=%b (max(Gx0-h)=%g) impl status=%d with undefined multipliers" dec mg status)
      end
    end
    else if m = 0 && not all_finite then begin
      (* solve_without_inequality with a non-finite answer: `valid` is false, the model says failed *)
      incr eq_total; incr eq_nonfinite;
      let st = eq_solve pn (q_of_float dQ) (q_of_float 10.0) !eps2 { ea_x = []; ea_v = []; ea_valid = false } in
      if B.int_of_big_int st.es_status <> status then
        report "MISMATCH" "eq-status" id (Printf.sprintf "non-finite state: model=%d impl=%d" (B.int_of_big_int st.es_status) status)
    end
    else if all_finite && List.length x = n && List.length u = m && List.length v = p then begin
      let qx = qvec x and qu = qvec u and qv = qvec v in
      if B.int_of_big_int (sysdim pn) <> List.length x + List.length v then
        report "MISMATCH" "state-sizes" id (Printf.sprintf "model n+p=%d impl |x|+|v|=%d" (B.int_of_big_int (sysdim pn)) (List.length x + List.length v));
      if status = 1 && List.exists (fun t -> t < 0.0) u then incr neg_u;
      (* the invariant of the step-length kernel (C04_step_keeps_positive): the multipliers of every returned state of the
         inequality path are strictly positive (they start at -1/(G x0 - h) > 0 and every accepted step is s0 < 1 of the way
         to the boundary at most) *)
      if m > 0 then begin
        incr u_checked;
        if List.exists (fun t -> not (t > 0.0)) u then
          report "MISMATCH" "u-positive" id (Printf.sprintf "status=%d min(u)=%h: a returned multiplier is not positive" status (List.fold_left Float.min Float.infinity u))
      end;
      let r = recompute pn (q_of_float dQ) qx qu qv (q_of_float eta) (qvec rdual) (qvec rprim) !eps !eps2 in
      (* tolerances: 1e-9 of the summed magnitudes + 1e-12 (the reported numbers may be those of the last trial point
         of a failed line search, a step of rounding size away from the returned point) *)
      let t mag = 1e-9 *. mag +. 1e-12 in
      gating := not (m > 0 && (status = 3 || status = 4));
      stale_now := false;
      let mag_q = if fQ = [] then 0.0 else List.fold_left2 (fun s row xi -> s +. 0.5 *. fabs xi *. fdot_abs row x) 0.0 fQ x in
      let mag_fx = mag_q +. fdot_abs fc x in
      close "fx" id r.r_fx (q_of_float fx) (1e-9 *. mag_fx +. 1e-12 *. dQ);
      let mag_eta = List.fold_left2 (fun s (g, h) ui -> s +. fabs ui *. (fdot_abs g x +. fabs h) /. dG) 0.0 (List.combine fG fh) u in
      close "eta" id r.r_eta (q_of_float eta) (t mag_eta);
      if List.length r.r_rdual <> List.length rdual || List.length r.r_rprim <> List.length rprim then
        report "MISMATCH" "residual-sizes" id (Printf.sprintf "model %d/%d impl %d/%d" (List.length r.r_rdual) (List.length r.r_rprim) (List.length rdual) (List.length rprim))
      else begin
        List.iteri (fun j (a, b) ->
            let mq = (if fQ = [] then 0.0 else fdot_abs (List.nth fQ j) x) +. fabs (List.nth fc j) in
            let ma = safe_dot_abs (col j fAr) v and mg = safe_dot_abs (col j fG) u in
            close (Printf.sprintf "rdual[%d]" j) id a (q_of_float b) (t (mq /. dQ +. ma /. dA +. mg /. dG)))
          (List.combine r.r_rdual rdual);
        List.iteri (fun i (a, b) ->
            let ma = fdot_abs (List.nth fAr i) x +. fabs (List.nth fbr i) in
            close (Printf.sprintf "rprim[%d]" i) id a (q_of_float b) (t (ma /. dA)))
          (List.combine r.r_rprim rprim)
      end;
      if !stale_now then incr stale;
      gating := true;
      if m = 0 then eq_decision id pn (q_of_float dQ) dA qx qv x v rdual rprim status fAr fbr;
      (* the decision of done(), re-taken on the reported numbers (inequality path only; a state with defined
         multipliers and one of the three statuses done() assigns) *)
      if m > 0 && (status = 1 || status = 3 || status = 4) then begin
        let nrm l = sqrt (List.fold_left (fun s t -> s +. t *. t) 0.0 l) in
        let near a b = fabs (a -. b) <= 1e-9 *. b in
        let neq = sqrt (Float.max 0.0 (float_of_q (sumsq r.r_rprim))) and mg = float_of_q (vmaxc (gxh pn qx)) in
        (* a comparison with epsilon2 is ambiguous when the two sides differ by less than 0.1% of epsilon2 or by less than
           1e-12 of the magnitude of the summed terms (the implementation evaluates G'x-h' / A'x-b' in doubles: at a point
           of size 1e15 the sign of a cancelling sum is rounding) *)
        let tg = List.fold_left2 (fun s g h -> Float.max s ((fdot_abs g x +. fabs h) /. dG)) 0.0 fG fh in
        let ta = sqrt (List.fold_left2 (fun s a b -> let t = (fdot_abs a x +. fabs b) /. dA in s +. t *. t) 0.0 fAr fbr) in
        let band a terms = fabs (a -. !feps2) <= 1e-3 *. !feps2 +. 1e-12 *. terms in
        if near eta !feps || near (nrm rdual) !feps || near (nrm rprim) !feps || (p > 0 && band neq ta) || band mg tg then incr ambiguous
        else begin
          incr decisions;
          if B.int_of_big_int r.r_status <> status then
            report "MISMATCH" "status-decision" id
              (Printf.sprintf "model=%d impl=%d feasible=%b eta=%g |rdual|=%g |rprim|=%g |A'x-b'|=%g max(G'x-h')=%g"
                 (B.int_of_big_int r.r_status) status r.r_feasible eta (nrm rdual) (nrm rprim) neq mg)
        end
      end;
      (* the feasibility clause of the property, exactly, on the program as stated *)
      if status = 1 then begin
        let inf l = List.fold_left (fun s t -> Float.max s (fabs t)) 0.0 l in
        let ta = q_of_float 1e-6 */ (q_of_int 1 +/ q_of_float (inf fb)) and tg = q_of_float 1e-6 */ (q_of_int 1 +/ q_of_float (inf fh)) in
        (* rows whose deviation is below 2^-44 of their own terms are the defect candidate `converged at a huge point`
           (the harness prints the CAND line), not a failure of the feasibility logic *)
        let r44 = { qnum = B.unit_big_int; qden = B.shift_left_big_int B.unit_big_int 44 } in
        (* equality-only path: the deviation is within what the code's own acceptance test allows, |A'x - b'|_2 <= epsilon2 |(c', b')|_2 on
           the rows divided by dA (C04_eq_converged_rprim_bound; checked separately as PROPFAIL eq-rprim-bound): defect candidate
           `equality-tolerance-vs-row-scale` (the harness prints the CAND line) *)
        let nrm2 l = sqrt (List.fold_left (fun s t -> s +. t *. t) 0.0 l) in
        let solve_scale = if m = 0 then q_of_float (1.001 *. !feps2 *. dA *. sqrt ((nrm2 fc /. dQ) ** 2.0 +. (nrm2 fbr /. dA) ** 2.0)) else qz in
        let okrow tol row rhs dev = qle dev tol || qle dev (r44 */ q_of_float (fdot_abs row x +. fabs rhs)) || (m = 0 && qle dev solve_scale) in
        let rec all3 f a b c = match a, b, c with x :: a, y :: b, z :: c -> f x y z && all3 f a b c | _ -> true in
        let okA = all3 (fun row rhs t -> okrow ta row rhs (qabs t)) fA fb (vsub (mv user.pA qx) user.pb)
        and okG = all3 (fun row rhs t -> okrow tg row rhs t) fG fh (vsub (mv user.pG qx) user.ph) in
        if not (okA && okG) then report "PROPFAIL" "feasibility" id (Printf.sprintf "equalities_ok=%b inequalities_ok=%b" okA okG)
      end
    end
  | _ -> failwith ("bad SOLVE line: " ^ line)

(* ==== ITER stage: the Newton iteration of solve_with_inequality against the extracted model (C04_Iter_Defs) ================== *)
(* per ITER line (one pass of the loop, observed through the values hook): (a) the recorded (dx, dv) solves the model's reduced
   system [lmat (dx,dv) = lvec] within 1e-9 of the summed magnitudes (cancellation in G x - h included; systems beyond that are
   counted, not compared); (b) du, s0*smax, the two stage counters and step lengths, the exit kind, the new state, eta, residual
   and status are recomputed by [iter_core] on the implementation's own numbers (bit-exact mirrors for scalar double code, exact
   decisions unless within rounding of their thresholds: those are counted as ambiguous); (c) the proved properties are evaluated
   on the implementation's numbers by code that does not use the model (Zarith Q): PROPFAIL. *)
let it_events = ref 0 and it_solves = ref 0 and it_sys_ok = ref 0 and it_sys_bad = ref 0 and it_ambig = ref 0 and it_full = ref 0
let it_exact_counts = ref 0 and it_bits = ref 0 and it_prop = ref 0 and it_skipped = ref 0 and it_status_dec = ref 0
let it_rounding_feas = ref 0 and it_reverted = ref 0 and it_stale3 = ref 0 and it_start = ref 0 and it_final = ref 0
let it_worst_sys = ref 0.0
let it_sys_regular = ref 0
let it_rejected = ref 0 and it_underflow = ref 0 and it_boundary = ref 0 and it_budget = ref 0
let it_lu_checked = ref 0 and it_lu_bad = ref 0 and cur_lu_bad = ref false and it_conv_after_bad = ref 0 and it_conv_checked = ref 0
let it_exits = Array.make 6 0
let it_amb_kinds = Hashtbl.create 8
let amb what = incr it_ambig; Hashtbl.replace it_amb_kinds what (1 + (try Hashtbl.find it_amb_kinds what with Not_found -> 0))

type iprog = { ip_id : string; ip_n : int; ip_m : int; ip_p : int; ip_prog : program; ip_mufx : q; ip_maxls : int; ip_maxit : int;
               ip_eps : float; ip_eps0 : float; ip_Q : float array array; ip_c : float array; ip_A : float array array; ip_b : float array;
               ip_G : float array array; ip_h : float array; ip_x0 : float list }
let cur_prog : iprog option ref = ref None
let prev_eta : q option ref = ref None
let prev_status = ref 0
let last_event : (int * float list * float list * float list * float * int * resid option) option ref = ref None

let arr2 m = Array.of_list (List.map Array.of_list m)
let zbig = B.big_int_of_int
let dbl_max = q_of_float max_float
let qsqrt_f (x : q) = sqrt (Float.max 0.0 (float_of_q x))
let rel_close (a : q) (b : float) (rel : float) =
  let d = qabs (a -/ q_of_float b) in qle d (q_of_float (rel *. fabs b)) || (b = 0.0 && qeq_bool a qz)
let fnorm2 a = sqrt (Array.fold_left (fun s t -> s +. t *. t) 0.0 a)

(* summed magnitudes (tolerances only): |G_k| |x| + |h_k| per row, kappa_k = that / |G_k x - h_k| *)
let row_mag (row : float array) (x : float array) = let s = ref 0.0 in Array.iteri (fun j g -> s := !s +. fabs (g *. x.(j))) row; !s
let gxh_terms ip x = Array.mapi (fun k row -> row_mag row x +. fabs ip.ip_h.(k)) ip.ip_G
let mag_resid ip (x : float array) (u : float array) (v : float array) (miu : float) =
  let n = ip.ip_n and m = ip.ip_m and p = ip.ip_p in
  let gt = gxh_terms ip x in
  let eta_mag = let s = ref 0.0 in Array.iteri (fun k t -> s := !s +. fabs u.(k) *. t) gt; !s in
  let rd = Array.init n (fun i ->
      (if Array.length ip.ip_Q = 0 then 0.0 else row_mag ip.ip_Q.(i) x) +. fabs ip.ip_c.(i)
      +. (let s = ref 0.0 in for l = 0 to p - 1 do s := !s +. fabs (ip.ip_A.(l).(i) *. v.(l)) done; !s)
      +. (let s = ref 0.0 in for k = 0 to m - 1 do s := !s +. fabs (ip.ip_G.(k).(i) *. u.(k)) done; !s)) in
  let rp = Array.init p (fun l -> row_mag ip.ip_A.(l) x +. fabs ip.ip_b.(l)) in
  let rc = Array.init m (fun k -> eta_mag /. (miu *. float_of_int m) +. fabs u.(k) *. gt.(k)) in
  (eta_mag, rd, rp, rc)
let mag_total (_, rd, rp, rc) = sqrt (fnorm2 rd ** 2.0 +. fnorm2 rp ** 2.0 +. fnorm2 rc ** 2.0)

(* bit-exact mirror of make_smax / `s0 * make_smax(u, du)` (scalar double code) *)
let f_make_smax (u : float array) (du : float array) =
  let smax = ref max_float in
  Array.iteri (fun i d -> if d < 0.0 then smax := Float.min !smax (-. u.(i) /. d)) du;
  Float.min !smax 1.0

let zq_vec l = Array.of_list (List.map Q.of_float l)
let zq_mat m = Array.map (fun r -> Array.map Q.of_float r) m
let zdot (a : Q.t array) (b : Q.t array) = let s = ref Q.zero in Array.iteri (fun i t -> s := Q.add !s (Q.mul t b.(i))) a; !s

let handle_iprog line =
  let lp = Array.of_list (split_str " | " line) in
  if Array.length lp < 9 then failwith "bad IPROG line";
  let toks = split ' ' (String.trim lp.(0)) in
  let id = List.nth toks 1 in
  let hdr = List.map kv toks in
  let geti k = int_of_string (List.assoc k hdr) and getf k = parse_float (List.assoc k hdr) in
  let n = geti "n" and m = geti "m" and p = geti "p" and q = geti "q" in
  let mufx = parse_float (String.trim lp.(1)) in
  let fQ = fmat lp.(2) and fc = fvec lp.(3) and fA = fmat lp.(4) and fb = fvec lp.(5) and fG = fmat lp.(6) and fh = fvec lp.(7) and fx0 = fvec lp.(8) in
  if List.length fc <> n || List.length fA <> p || List.length fG <> m || List.length fh <> m || List.length fb <> p || (q = 1 && List.length fQ <> n) || (q = 0 && fQ <> []) then
    failwith "bad IPROG sizes";
  let prog = { pQ = qmat fQ; pc = qvec fc; pA = qmat fA; pb = qvec fb; pG = qmat fG; ph = qvec fh } in
  incr it_solves;
  cur_prog := Some { ip_id = id; ip_n = n; ip_m = m; ip_p = p; ip_prog = prog; ip_mufx = q_of_float mufx; ip_maxls = geti "maxls"; ip_maxit = geti "maxit";
                     ip_eps = getf "eps"; ip_eps0 = getf "eps0"; ip_Q = arr2 fQ; ip_c = Array.of_list fc; ip_A = arr2 fA; ip_b = Array.of_list fb;
                     ip_G = arr2 fG; ip_h = Array.of_list fh; ip_x0 = fx0 };
  prev_eta := None; prev_status := 0; last_event := None; cur_lu_bad := false

let mk_par ip miu alpha beta s0 =
  { p_s0 = q_of_float s0; p_miu = q_of_float miu; p_alpha = q_of_float alpha; p_beta = q_of_float beta; p_eps = q_of_float ip.ip_eps;
    p_eps0 = q_of_float ip.ip_eps0; p_eps2 = !eps2; p_maxls = zbig ip.ip_maxls; p_big = dbl_max }

(* is the decision of done() on these numbers within rounding of one of its thresholds? *)
let done_ambiguous ip (x : float array) (eta : float) (nrd : float) (nrp : float) (mags : float * float array * float array * float array) =
  let (em, rd, rp, _) = mags in
  let near a e mag = fabs (a -. e) <= 1e-9 *. e +. 1e-13 *. mag in
  let gt = gxh_terms ip x in
  let mg = ref neg_infinity and mgband = ref false in
  Array.iteri (fun k row -> let t = (let s = ref 0.0 in Array.iteri (fun j g -> s := !s +. g *. x.(j)) row; !s) -. ip.ip_h.(k) in
                if t > !mg then mg := t;
                if fabs (t -. !feps2) <= 1e-3 *. !feps2 +. 1e-12 *. gt.(k) then mgband := true) ip.ip_G;
  let neq = fnorm2 (Array.mapi (fun l row -> (let s = ref 0.0 in Array.iteri (fun j a -> s := !s +. a *. x.(j)) row; !s) -. ip.ip_b.(l)) ip.ip_A) in
  near eta ip.ip_eps em || near nrd ip.ip_eps (fnorm2 rd) || near nrp ip.ip_eps (fnorm2 rp)
  || (ip.ip_p > 0 && fabs (neq -. !feps2) <= 1e-3 *. !feps2 +. 1e-12 *. fnorm2 rp) || !mgband

let handle_iter line =
  let ip = match !cur_prog with Some ip -> ip | None -> failwith "ITER without IPROG" in
  let lp = Array.of_list (split_str " | " line) in
  if Array.length lp < 16 then failwith "bad ITER line";
  let toks = split ' ' (String.trim lp.(0)) in
  let id = List.nth toks 1 ^ "/" ^ List.nth toks 2 in
  if List.nth toks 1 <> ip.ip_id then failwith "ITER id does not match IPROG";
  let kidx = int_of_string (List.nth toks 2) in
  let exitk = int_of_string (List.assoc "exit" (List.map kv toks)) in
  let (sinit, s1, s2, it1, it2, r0) = match fvec lp.(1) with [a; b; c; d; e; f] -> (a, b, c, int_of_float d, int_of_float e, f) | _ -> failwith "bad step block" in
  let (miu, alpha, beta, s0) = match fvec lp.(2) with [a; b; c; d] -> (a, b, c, d) | _ -> failwith "bad parameter block" in
  let x = fvec lp.(3) and u = fvec lp.(4) and v = fvec lp.(5) and rd = fvec lp.(6) and rc = fvec lp.(7) and rp = fvec lp.(8) in
  let dx = fvec lp.(9) and du = fvec lp.(10) and dv = fvec lp.(11) and x' = fvec lp.(12) and u' = fvec lp.(13) and v' = fvec lp.(14) in
  let (eta', res', status') = match fvec lp.(15) with [a; b; c] -> (a, b, int_of_float c) | _ -> failwith "bad tail block" in
  let n = ip.ip_n and m = ip.ip_m and p = ip.ip_p in
  if List.length x <> n || List.length u <> m || List.length v <> p || List.length rd <> n || List.length rc <> m || List.length rp <> p
     || List.length dx <> n || List.length du <> m || List.length dv <> p || List.length x' <> n || List.length u' <> m || List.length v' <> p then
    failwith "bad ITER sizes";
  incr it_events;
  if exitk >= 0 && exitk <= 5 then it_exits.(exitk) <- it_exits.(exitk) + 1;
  let prog = ip.ip_prog in
  let par = mk_par ip miu alpha beta s0 in
  let ax = Array.of_list x and au = Array.of_list u and av = Array.of_list v and adx = Array.of_list dx and adu = Array.of_list du and adv = Array.of_list dv in
  let ax' = Array.of_list x' and au' = Array.of_list u' and av' = Array.of_list v' in
  let all_fin = List.for_all finite_vec [x; u; v; rd; rc; rp] in
  let dir_fin = List.for_all finite_vec [dx; du; dv] in
  let after_fin = List.for_all finite_vec [x'; u'; v'] && Float.is_finite eta' && Float.is_finite res' in
  let propfail what detail = incr it_prop; report "PROPFAIL" ("iter-" ^ what) id detail in
  let mism what detail = report "MISMATCH" ("iter-" ^ what) id detail in
  (* ---- (c0) status / exit discipline (no arithmetic) ------------------------------------------------------------------ *)
  if status' = 1 && not (exitk = 1 || exitk = 2 || exitk = 3 || exitk = 5) then propfail "converged-without-done" (Printf.sprintf "exit=%d status=converged" exitk);
  if exitk = 4 && status' <> 2 then propfail "nonfinite-not-failed" (Printf.sprintf "status=%d" status');
  if exitk = 0 && status' <> !prev_status then propfail "status-changed-without-exit" (Printf.sprintf "status=%d" status');
  if exitk = 1 || exitk = 2 || exitk = 3 then begin
    if not (x' = x && u' = u && v' = v) then propfail "state-moved-on-failed-step" (Printf.sprintf "exit=%d" exitk)
  end;
  let tiny t = t <> 0.0 && fabs t < 1e-280 in
  let underflow = List.exists tiny u || List.exists tiny u' || (exitk <> 1 && exitk <> 2 && r0 < 1e-150) || tiny eta' || tiny res' || List.exists (fun t -> t = 0.0) u in
  if not all_fin then begin incr it_skipped; prev_eta := None end
  else if underflow then begin
    (* denormal range (e.g. epsilon = 0: the loop runs on until the multipliers underflow): outside the rational model *)
    incr it_underflow; prev_eta := None; last_event := Some (exitk, x', u', v', eta', status', None)
  end
  else begin
    let qx = qvec x and qu = qvec u and qv = qvec v and qrd = qvec rd and qrc = qvec rc and qrp = qvec rp in
    let eta_before = match !prev_eta with Some e -> e | None -> m_eta prog qx qu in
    let res_before = { s_fx = qz; s_eta = eta_before; s_rdual = qrd; s_rprim = qrp; s_rcent = qrc } in
    let st = { i_x = qx; i_u = qu; i_v = qv; i_res = res_before; i_status = zbig !prev_status } in
    let gt = gxh_terms ip ax in
    let zG = zq_mat ip.ip_G and zh = Array.map Q.of_float ip.ip_h and zA = zq_mat ip.ip_A and zb = Array.map Q.of_float ip.ip_b in
    let zx = zq_vec x and zx' = zq_vec x' in
    let zgxh zxx = Array.mapi (fun k row -> Q.sub (zdot row zxx) zh.(k)) zG in
    let gx = zgxh zx in
    let fgx = Array.map Q.to_float gx in
    let on_boundary = (let b = ref false in Array.iteri (fun k t -> if fabs t <= 0x1p-40 *. gt.(k) then b := true) fgx; !b) in
    let over_budget = (it2 + it1 + 2) * (m + 1) * (n + m + p) * (m + 4) > 400000 in
    let kap = Array.mapi (fun k t -> gt.(k) /. (fabs t +. 1e-300)) fgx in
    (* ---- (c1) invariants on the implementation's numbers: strict feasibility and u > 0 before and after ---------------- *)
    let strict tag zxx terms =
      Array.iteri (fun k t -> if Q.sign t >= 0 then begin
                       if fabs (Q.to_float t) <= 0x1p-44 *. terms.(k) then incr it_rounding_feas
                       else propfail ("strict-feasibility-" ^ tag) (Printf.sprintf "row=%d (G x - h)=%g >= 0 terms=%g exit=%d" k (Q.to_float t) terms.(k) exitk) end) (zgxh zxx) in
    if kidx = 0 then strict "start" zx gt;
    if after_fin then strict "after" zx' (gxh_terms ip ax');
    if kidx = 0 && List.exists (fun t -> not (t > 0.0)) u then propfail "u-positive-start" (Printf.sprintf "min(u)=%h" (List.fold_left Float.min infinity u));
    if after_fin && List.exists (fun t -> not (t > 0.0)) u' then propfail "u-positive" (Printf.sprintf "min(u')=%h exit=%d s=%h" (List.fold_left Float.min infinity u') exitk s2);
    if after_fin && (exitk = 0 || exitk = 5) && not (eta' > 0.0) then begin
      (* the surrogate gap evaluated exactly at the recorded point: a non-positive double is a failure unless the exact value is
         positive or negative at rounding level only (a row of G x' - h evaluates to +1 ulp: `strict_feasibility_at_rounding`) *)
      let zu' = zq_vec u' and g' = zgxh zx' and t' = gxh_terms ip ax' in
      let ex = ref Q.zero and mag = ref 0.0 in
      Array.iteri (fun k t -> ex := Q.sub !ex (Q.mul zu'.(k) t); mag := !mag +. fabs au'.(k) *. t'.(k)) g';
      if (Q.sign !ex = 0 && eta' = 0.0) || (Q.sign !ex < 0 && fabs (Q.to_float !ex) > 0x1p-44 *. !mag) then
        propfail "eta-positive" (Printf.sprintf "eta'=%h exact=%g" eta' (Q.to_float !ex))
      else incr it_rounding_feas
    end;
    (* ---- stored residuals are those of the current point (update() at (x,u,v)) ----------------------------------------- *)
    let mg_before = mag_resid ip ax au av miu in
    let (em_b, rdm_b, rpm_b, rcm_b) = mg_before in
    let fresh = upd prog ip.ip_mufx par.p_miu qx qu qv res_before in
    let cmpv what (a : q list) (b : float list) (mag : float array) tolrel =
      List.iteri (fun i (am, bi) -> incr compared;
                   let d = qabs (am -/ q_of_float bi) in
                   if not (qle d (q_of_float (tolrel *. mag.(i) +. 1e-300))) then
                     mism what (Printf.sprintf "[%d] model=%h impl=%h |diff|=%g summed=%g exit=%d" i (float_of_q am) bi (float_of_q d) mag.(i) exitk)) (List.combine a b) in
    cmpv "stored-rdual" fresh.s_rdual rd rdm_b 1e-11;
    cmpv "stored-rprim" fresh.s_rprim rp rpm_b 1e-11;
    cmpv "stored-rcent" fresh.s_rcent rc rcm_b 1e-11;
    (match !prev_eta with None -> () | Some e -> incr compared;
      if not (qle (qabs (e -/ fresh.s_eta)) (q_of_float (1e-11 *. em_b +. 1e-300))) then mism "stored-eta" (Printf.sprintf "model=%h impl=%h" (float_of_q fresh.s_eta) (float_of_q e)));
    if kidx = 0 then begin
      (* the start of the iteration: u = -1 / (G x0 - h), v = 0 *)
      incr it_start;
      (match iter_start prog ip.ip_mufx par (qvec ip.ip_x0) with
       | None ->
         (* exact max(G x0 - h) >= 0 while the double evaluation was negative: only at rounding level *)
         let worst = ref false in
         Array.iteri (fun k t -> if Q.sign t >= 0 && fabs (Q.to_float t) > 0x1p-44 *. gt.(k) then worst := true) gx;
         if !worst then mism "start" "the model rejects the starting point (max(G x0 - h) >= 0) but the loop was entered" else incr it_boundary
       | Some st0 ->
         if x <> ip.ip_x0 then mism "start-x" "the first iterate is not x0";
         cmpv "start-u" st0.i_u u (Array.mapi (fun k t -> (1.0 +. kap.(k)) /. fabs t) fgx) 1e-11;
         if List.exists (fun t -> t <> 0.0) v then mism "start-v" "v0 is not zero")
    end;
    if exitk = 1 || not dir_fin then begin
      (* unstable system: the state is left as it is and done() decides on the stored numbers *)
      incr it_skipped;
      if exitk <> 1 then mism "exit-kind" (Printf.sprintf "non-finite direction but exit=%d" exitk)
    end else if on_boundary || over_budget then begin
      (* an inequality holds with equality within 2^-40 of its terms (G x - h is rounding: u / (G x - h) is not comparable), or
         the exact recomputation of this pass is too expensive (many trials on a large program): counted, not compared *)
      if on_boundary then incr it_boundary else incr it_budget;
      last_event := Some (exitk, x', u', v', eta', status', None)
    end else begin
      let qdx = qvec dx and qdu = qvec du and qdv = qvec dv in
      (* ---- (a) the oracle answer solves the model's reduced system ---------------------------------------------------- *)
      let w = Array.mapi (fun k t -> fabs (au.(k) /. t) *. (1.0 +. kap.(k))) fgx in
      let rcw = Array.mapi (fun k t -> fabs (Array.of_list rc).(k) /. fabs t *. (1.0 +. kap.(k))) fgx in
      let gdx_mag = Array.map (fun row -> row_mag row adx) ip.ip_G in
      let top_mag = Array.init n (fun i ->
          (if Array.length ip.ip_Q = 0 then 0.0 else row_mag ip.ip_Q.(i) adx)
          +. (let s = ref 0.0 in for k = 0 to m - 1 do s := !s +. fabs ip.ip_G.(k).(i) *. (w.(k) *. gdx_mag.(k) +. rcw.(k)) done; !s)
          +. (let s = ref 0.0 in for l = 0 to p - 1 do s := !s +. fabs (ip.ip_A.(l).(i) *. adv.(l)) done; !s)
          +. fabs (List.nth rd i)) in
      let bot_mag = Array.init p (fun l -> row_mag ip.ip_A.(l) adx +. fabs (List.nth rp l)) in
      (* the LDLT is backward stable norm-wise: the residual is measured against the largest row magnitude *)
      let scale = Float.max (Array.fold_left Float.max 0.0 top_mag) (Array.fold_left Float.max 0.0 bot_mag) in
      let sres = sys_residual prog qx qu qrd qrc qrp qdx qdv in
      let sys_ratio = ref 0.0 in
      if List.length sres <> n + p then mism "system-size" (Printf.sprintf "model %d rows, n+p=%d" (List.length sres) (n + p))
      else List.iteri (fun i t -> let r = fabs (float_of_q t) /. (scale +. 1e-300) in if r > !sys_ratio then sys_ratio := r) sres;
      (* [lu_ok_b] of C04_Rest_Defs (the checked hypothesis of the contraction theorems): every entry of lmat (dx, dv) - lvec within 1e-9 of
         the largest row magnitude *)
      let sys_ok = List.length sres = n + p && lu_ok_b prog qx qu qrd qrc qrp qdx qdv (q_of_float (1e-9 *. (scale +. 1e-300))) in
      incr it_lu_checked;
      if not sys_ok then begin incr it_lu_bad; cur_lu_bad := true end;
      (* Eigen's LDLT pivots on the original diagonal and is only reliable here when the block Q - hessvar is positive definite
         (a variable in no inequality row and without curvature gives a zero pivot: the factorisation fails, info() is not
         looked at by the solver): the block is factorised exactly (LDL' over Q, own code); a regular system must be solved *)
      let regular =
        (* exact LDL' of the whole matrix in the natural order: n positive pivots (Q - hessvar positive definite), then p negative
           ones (the Schur complement -A K^-1 A': A has full row rank), none smaller than 1e-6 of the largest entry of the matrix
           (of the largest diagonal entry of the Schur complement for the last p) *)
        let np = n + p in
        let k = Array.of_list (List.map (fun row -> Array.of_list (List.map zq row)) (lmat prog qx qu)) in
        let ok = ref (Array.length k = np && Array.for_all (fun r -> Array.length r = np) k) in
        if !ok then begin
          let dmax = ref 0.0 in
          Array.iter (fun row -> Array.iter (fun t -> dmax := Float.max !dmax (fabs (Q.to_float t))) row) k;
          (try
             for c = 0 to np - 1 do
               if c = n then begin dmax := 0.0; for i = n to np - 1 do dmax := Float.max !dmax (fabs (Q.to_float k.(i).(i))) done end;
               let d = k.(c).(c) in
               let fd = Q.to_float d in
               if not ((if c < n then fd else -. fd) > 1e-6 *. !dmax) then begin ok := false; raise Exit end;
               for i = c + 1 to np - 1 do
                 let f = Q.div k.(i).(c) d in
                 if Q.sign f <> 0 then for j = c to np - 1 do k.(i).(j) <- Q.sub k.(i).(j) (Q.mul f k.(c).(j)) done
               done
             done
           with Exit -> ())
        end;
        !ok in
      if sys_ok then incr it_sys_ok
      else if regular then mism "system" (Printf.sprintf "the recorded (dx, dv) does not solve the model's reduced system [[Q - G' diag(u/(Gx-h)) G, A'],[A, 0]] (dx, dv) = -(rdual + G' (rcent/(Gx-h)), rprim): relative residual %g (Q - hessvar positive definite, A of full row rank: exact LDL' with pivots above 1e-6)" !sys_ratio)
      else begin incr it_sys_bad; if !sys_ratio > !it_worst_sys then it_worst_sys := !sys_ratio end;
      if regular then incr it_sys_regular;
      (* ---- (b) du ----------------------------------------------------------------------------------------------------------- *)
      let du_m = back_subst prog qx qu qrc qdx in
      let du_mag = Array.mapi (fun k t -> (fabs (List.nth rc k) +. fabs au.(k) *. gdx_mag.(k)) *. (1.0 +. kap.(k)) /. fabs t) fgx in
      cmpv "du" du_m du du_mag 1e-10;
      (* ---- (c2) Newton system and residual contraction on the implementation's own numbers (own arithmetic) ------------ *)
      let zu = zq_vec u and zv = zq_vec v and zdx = zq_vec dx and zdu = zq_vec du and zdv = zq_vec dv and zrd = zq_vec rd and zrc = zq_vec rc and zrp = zq_vec rp in
      let zQ = zq_mat ip.ip_Q and zc = Array.map Q.of_float ip.ip_c in
      if sys_ok || regular then begin
        (* row block 2: -u .* (G dx) - (G x - h) .* du = -rcent *)
        for k = 0 to m - 1 do
          let t = Q.add (Q.add (Q.mul zu.(k) (zdot zG.(k) zdx)) (Q.mul gx.(k) zdu.(k))) (Q.neg zrc.(k)) in
          let mag = (fabs au.(k) *. gdx_mag.(k) +. fabs (fgx.(k) *. adu.(k)) +. fabs (List.nth rc k)) *. (1.0 +. kap.(k)) in
          if fabs (Q.to_float t) > 1e-9 *. mag +. 1e-300 then propfail "newton-centrality" (Printf.sprintf "row=%d residual=%g summed=%g" k (Q.to_float t) mag)
        done;
        (* row block 1: Q dx + G' du + A' dv = -rdual ; row block 3: A dx = -rprim *)
        for i = 0 to n - 1 do
          let t = ref zrd.(i) in
          if Array.length zQ > 0 then t := Q.add !t (zdot zQ.(i) zdx);
          for k = 0 to m - 1 do t := Q.add !t (Q.mul zG.(k).(i) zdu.(k)) done;
          for l = 0 to p - 1 do t := Q.add !t (Q.mul zA.(l).(i) zdv.(l)) done;
          let mag = top_mag.(i) +. (let s = ref 0.0 in for k = 0 to m - 1 do s := !s +. fabs (ip.ip_G.(k).(i) *. adu.(k)) *. (1.0 +. kap.(k)) done; !s) in
          if fabs (Q.to_float !t) > 2e-9 *. (mag +. scale) +. 1e-300 then propfail "newton-dual" (Printf.sprintf "row=%d residual=%g summed=%g" i (Q.to_float !t) mag)
        done;
        for l = 0 to p - 1 do
          let t = Q.add (zdot zA.(l) zdx) zrp.(l) in
          if fabs (Q.to_float t) > 2e-9 *. (bot_mag.(l) +. scale) +. 1e-300 then propfail "newton-primal" (Printf.sprintf "row=%d residual=%g summed=%g" l (Q.to_float t) bot_mag.(l))
        done;
        if (exitk = 0 || exitk = 5) && after_fin then begin
          let zs = Q.of_float s2 in
          let one_s = Q.sub Q.one zs in
          (* rprim(x + s dx) = (1 - s) rprim(x), both sides evaluated exactly at the recorded points *)
          for l = 0 to p - 1 do
            let a = Q.sub (zdot zA.(l) zx') zb.(l) and b = Q.mul one_s (Q.sub (zdot zA.(l) zx) zb.(l)) in
            let mag = row_mag ip.ip_A.(l) ax +. fabs ip.ip_b.(l) +. s2 *. row_mag ip.ip_A.(l) adx +. fabs (List.nth rp l) in
            if fabs (Q.to_float (Q.sub a b)) > 2e-9 *. (mag +. scale) +. 1e-300 then
              propfail "rprim-contraction" (Printf.sprintf "row=%d rprim(x')=%g (1-s)rprim(x)=%g s=%g summed=%g" l (Q.to_float a) (Q.to_float b) s2 mag)
          done;
          (* rdual(x + s dx, u + s du, v + s dv) = (1 - s) rdual(x, u, v) *)
          let zu' = zq_vec u' and zv' = zq_vec v' in
          let rdual_at zxx zuu zvv i =
            let t = ref zc.(i) in
            if Array.length zQ > 0 then t := Q.add !t (zdot zQ.(i) zxx);
            for k = 0 to m - 1 do t := Q.add !t (Q.mul zG.(k).(i) zuu.(k)) done;
            for l = 0 to p - 1 do t := Q.add !t (Q.mul zA.(l).(i) zvv.(l)) done; !t in
          for i = 0 to n - 1 do
            let a = rdual_at zx' zu' zv' i and b = Q.mul one_s (rdual_at zx zu zv i) in
            let mag = rdm_b.(i) +. s2 *. (top_mag.(i) +. (let s = ref 0.0 in for k = 0 to m - 1 do s := !s +. fabs (ip.ip_G.(k).(i) *. adu.(k)) *. (1.0 +. kap.(k)) done; !s)) in
            if fabs (Q.to_float (Q.sub a b)) > 4e-9 *. (mag +. scale) +. 1e-300 then
              propfail "rdual-contraction" (Printf.sprintf "row=%d rdual(x',u',v')=%g (1-s)rdual(x,u,v)=%g s=%g summed=%g" i (Q.to_float a) (Q.to_float b) s2 mag)
          done
        end
      end;
      (* ---- (c3) the acceptance tests, re-evaluated on the recorded doubles ------------------------------------------------ *)
      if exitk = 0 || exitk = 4 || exitk = 5 || exitk = 3 then begin
        if not (s2 > 0.0 && s2 <= s1 && s1 <= sinit && sinit <= s0) then propfail "step-order" (Printf.sprintf "s0=%h s0*smax=%h s1=%h s2=%h" s0 sinit s1 s2);
        (* stage 1 is the guard of strict feasibility: max(G (x + s1 dx) - h) < 0 *)
        let zs1 = Q.of_float s1 in
        let zt = Array.mapi (fun j t -> Q.add t (Q.mul zs1 zdx.(j))) zx in
        Array.iteri (fun k t -> if Q.sign t >= 0 && fabs (Q.to_float t) > 1e-12 *. (gt.(k) +. s1 *. gdx_mag.(k)) then
                        propfail "stage1-guard" (Printf.sprintf "row=%d (G (x + s1 dx) - h)=%g s1=%h" k (Q.to_float t) s1)) (zgxh zt)
      end;
      if (exitk = 0 || exitk = 5) && after_fin then begin
        (* stage 2 exits without exhaustion only with residual <= (1 - alpha s) r0: the same doubles, the same expression *)
        if not (res' <= (1.0 -. alpha *. s2) *. r0) then
          propfail "stage2-accept" (Printf.sprintf "residual'=%h > (1 - alpha s) r0=%h (alpha=%h s=%h r0=%h)" res' ((1.0 -. alpha *. s2) *. r0) alpha s2 r0)
      end;
      if exitk = 3 && it2 <> ip.ip_maxls then propfail "stage2-exhaustion" (Printf.sprintf "exit 3 after %d of %d trials" it2 ip.ip_maxls);
      if exitk = 2 && it1 <> ip.ip_maxls then propfail "stage1-exhaustion" (Printf.sprintf "exit 2 after %d of %d trials" it1 ip.ip_maxls);
      (* ---- (b) step lengths: bit-exact mirror of the scalar code, and the model ---------------------------------------------- *)
      let f_sinit = s0 *. f_make_smax au adu in
      incr it_bits;
      if Int64.bits_of_float f_sinit <> Int64.bits_of_float sinit then mism "sinit-bits" (Printf.sprintf "s0*make_smax(u,du): mirror=%h impl=%h" f_sinit sinit);
      let ans = { a_dx = qdx; a_dv = qdv; a_stable = true; a_finite = (exitk <> 4) } in
      let ((km, st'), tr) = iter_core prog ip.ip_mufx par st ans qdu in
      let km = B.int_of_big_int km in
      if not (rel_close tr.t_sinit sinit 0x1p-50) then mism "sinit" (Printf.sprintf "model=%h impl=%h" (float_of_q tr.t_sinit) sinit);
      let k1m = B.int_of_big_int tr.t_k1 and k2m = B.int_of_big_int tr.t_k2 in
      let stop = ref false in
      (* stage 1 *)
      if k1m <> it1 then begin
        stop := true;
        let j = min k1m it1 in
        let sj = List.fold_left (fun s _ -> s *. beta) sinit (List.init j (fun i -> i)) in
        let mgn = gxh prog (trial qx qdx (q_of_float sj)) in
        let band = ref false in
        List.iteri (fun k t -> if fabs (float_of_q t) <= 1e-12 *. (gt.(k) +. sj *. gdx_mag.(k)) then band := true) mgn;
        if !band then amb "stage1" else mism "stage1-count" (Printf.sprintf "model breaks after %d shrinks, impl after %d (max_lsearch_iters=%d) s0*smax=%h beta=%h" k1m it1 ip.ip_maxls sinit beta)
      end else begin
        incr it_exact_counts;
        if not (rel_close tr.t_s1 s1 (float_of_int (it1 + 4) *. 0x1p-51)) then mism "s1" (Printf.sprintf "model=%h impl=%h after %d shrinks" (float_of_q tr.t_s1) s1 it1)
      end;
      if not !stop && (km = 2 || exitk = 2) then begin
        stop := true;
        if km <> exitk then mism "exit-kind" (Printf.sprintf "model=%d impl=%d" km exitk)
      end;
      let mags_at (qxx : q list) (quu : q list) (qvv : q list) =
        mag_resid ip (Array.of_list (List.map float_of_q qxx)) (Array.of_list (List.map float_of_q quu)) (Array.of_list (List.map float_of_q qvv)) miu in
      (* a trial point x + s dx (u + s du, v + s dv) is formed in doubles: when the operands cancel (e.g. multipliers of size 1e16 of two
         dependent equality rows stepping to size 10) the point the implementation evaluates differs from the exact one by an ulp of
         the OPERANDS, i.e. by many ulps of the result. Trial points are not recorded: a residual at such a point is comparable only
         when that propagated rounding (2^-50 of the residual magnitudes taken at |x| + s|dx|, ...) stays below the band in use *)
      let cancelling sj at_total =
        let pre a d = Array.mapi (fun i t -> fabs t +. sj *. fabs d.(i)) a in
        0x1p-50 *. mag_total (mag_resid ip (pre ax adx) (pre au adu) (pre av adv) miu) > 1e-12 *. at_total in
      (* stage 2 *)
      if not !stop then begin
        if not (rel_close (q_of_float (r0 *. r0)) (float_of_q tr.t_r0sq) 1e-12) then mism "r0" (Printf.sprintf "model=%h impl=%h" (qsqrt_f tr.t_r0sq) r0);
        if k2m <> it2 then begin
          stop := true;
          let j = min k2m it2 in
          let sj = List.fold_left (fun s _ -> s *. beta) s1 (List.init j (fun i -> i)) in
          let qs = q_of_float sj in
          let tx = trial qx qdx qs and tu = trial qu qdu qs and tv = trial qv qdv qs in
          let rj = upd prog ip.ip_mufx par.p_miu tx tu tv res_before in
          let mg = mag_total (mags_at tx tu tv) in
          let margin = qsqrt_f (res2 rj) -. (1.0 -. alpha *. sj) *. r0 in
          if fabs margin <= 1e-12 *. (mg +. r0) then amb "stage2"
          else if cancelling sj (mg +. r0) then amb "cancelling-step"
          else mism "stage2-count" (Printf.sprintf "model accepts after %d shrinks, impl after %d (max_lsearch_iters=%d): residual - (1 - alpha s) r0 = %g at s=%h, r0=%h alpha=%h" k2m it2 ip.ip_maxls margin sj r0 alpha)
        end else begin
          incr it_exact_counts;
          if not (rel_close tr.t_s2 s2 (float_of_int (it1 + it2 + 6) *. 0x1p-51)) then mism "s2" (Printf.sprintf "model=%h impl=%h" (float_of_q tr.t_s2) s2)
        end
      end;
      let st_after = ref None in
      let status_model = ref (B.int_of_big_int st'.i_status) in
      if not !stop then begin
        let accepted = not (km = 3 || exitk = 3) in
        (* accepted step: the new state is recorded and compared on its own (bit-exact mirror + the model's point within ulps of the
           operands); eta / residual / exit 5 / status are then what update() / done() of the model give AT THE RECORDED STATE (the
           exact x + s dx may differ from it by many ulps of the result when the operands cancel) *)
        let qx' = if accepted && after_fin then qvec x' else st'.i_x and qu' = if accepted && after_fin then qvec u' else st'.i_u
        and qv' = if accepted && after_fin then qvec v' else st'.i_v in
        let res_m = if accepted && after_fin then upd prog ip.ip_mufx par.p_miu qx' qu' qv' res_before else st'.i_res in
        let cmp_after tag =
          let mg = mags_at qx' qu' qv' in
          let (em, _, _, _) = mg in
          incr compared;
          if not (qle (qabs (res_m.s_eta -/ q_of_float eta')) (q_of_float (1e-11 *. em +. 1e-300))) then
            mism ("eta-" ^ tag) (Printf.sprintf "model=%h impl=%h summed=%g" (float_of_q res_m.s_eta) eta' em);
          incr compared;
          if fabs (qsqrt_f (res2 res_m) -. res') > 1e-11 *. mag_total mg +. 1e-300 then
            mism ("residual-" ^ tag) (Printf.sprintf "model=%h impl=%h summed=%g" (qsqrt_f (res2 res_m)) res' (mag_total mg)) in
        if km = 3 || exitk = 3 then begin
          if km <> exitk then mism "exit-kind" (Printf.sprintf "model=%d impl=%d" km exitk)
          else begin
            (* exhausted stage 2: which numbers are left in the state (last trial point or reverted)? *)
            let sj = List.fold_left (fun s _ -> s *. beta) s1 (List.init (ip.ip_maxls - 1) (fun i -> i)) in
            let qs = q_of_float sj in
            let tx = trial qx qdx qs and tu = trial qu qdu qs and tv = trial qv qdv qs in
            let rj = upd prog ip.ip_mufx par.p_miu tx tu tv res_before in
            let mg = mag_total (mags_at tx tu tv) in
            if fabs (qsqrt_f (res2 rj) -. r0) <= 1e-12 *. (mg +. r0) then amb "revert"
            else if cancelling sj (mg +. r0) then amb "cancelling-step"
            else begin
              if revert_test (res2 rj) tr.t_r0sq then incr it_reverted else incr it_stale3;
              (* the tolerance is that of the trial point when the numbers are its *)
              let mgs = if revert_test (res2 rj) tr.t_r0sq then mags_at qx qu qv else mags_at tx tu tv in
              let (em, _, _, _) = mgs in
              incr compared;
              if not (qle (qabs (res_m.s_eta -/ q_of_float eta')) (q_of_float (1e-11 *. em +. 1e-300))) then
                mism "eta-exhausted" (Printf.sprintf "model=%h impl=%h reverted(model)=%b" (float_of_q res_m.s_eta) eta' (revert_test (res2 rj) tr.t_r0sq));
              incr compared;
              if fabs (qsqrt_f (res2 res_m) -. res') > 1e-11 *. mag_total mgs +. 1e-300 then
                mism "residual-exhausted" (Printf.sprintf "model=%h impl=%h r0=%h reverted(model)=%b" (qsqrt_f (res2 res_m)) res' r0 (revert_test (res2 rj) tr.t_r0sq));
              st_after := Some res_m
            end
          end
        end else begin
          (* accepted step: the new state, bit-exact mirror of `x += s * dx` and the model's point *)
          incr it_bits;
          let mirror a d = Array.mapi (fun i t -> t +. s2 *. d.(i)) a in
          if not (mirror ax adx = ax' && mirror au adu = au' && mirror av adv = av') then mism "state-bits" (Printf.sprintf "x + s*dx is not the recorded state (s=%h)" s2);
          cmpv "state-x" st'.i_x x' (Array.mapi (fun i t -> fabs t +. s2 *. fabs adx.(i)) ax) (float_of_int (it1 + it2 + 8) *. 0x1p-50);
          cmpv "state-u" st'.i_u u' (Array.mapi (fun i t -> fabs t +. s2 *. fabs adu.(i)) au) (float_of_int (it1 + it2 + 8) *. 0x1p-50);
          cmpv "state-v" st'.i_v v' (Array.mapi (fun i t -> fabs t +. s2 *. fabs adv.(i)) av) (float_of_int (it1 + it2 + 8) *. 0x1p-50);
          cmp_after "after";
          st_after := Some res_m;
          if exitk = 5 then status_model := B.int_of_big_int (model_done prog qx' res_m.s_eta res_m.s_rdual res_m.s_rprim par.p_eps par.p_eps2);
          if exitk = 4 then (if km <> 4 then mism "exit-kind" (Printf.sprintf "model=%d impl=4" km))
          else if km <> exitk then begin
            (* 0 against 5: the `very precise convergence` test; is one of the three differences within rounding of epsilon0? *)
            let (em', rdm', rpm', _) = mags_at qx' qu' qv' in
            let e0 = ip.ip_eps0 in
            let d1 = float_of_q (eta_before -/ res_m.s_eta) and d2 = fnorm2 (Array.of_list rd) -. qsqrt_f (sumsq res_m.s_rdual)
            and d3 = fnorm2 (Array.of_list rp) -. qsqrt_f (sumsq res_m.s_rprim) in
            let band d mag = fabs (d -. e0) <= 1e-13 *. mag in
            let km_at = if precise_test eta_before res_m.s_eta (sumsq qrd) (sumsq res_m.s_rdual) (sumsq qrp) (sumsq res_m.s_rprim) par.p_eps0 then 5 else 0 in
            if band d1 (em_b +. em') || band d2 (fnorm2 rdm_b +. fnorm2 rdm') || band d3 (fnorm2 rpm_b +. fnorm2 rpm') then amb "precise"
            else if km_at = exitk then amb "cancelling-step"
            else mism "exit-kind" (Printf.sprintf "model=%d impl=%d eps0=%g d_eta=%g d_rdual=%g d_rprim=%g" km exitk e0 d1 d2 d3)
          end
        end;
        (* status after the pass *)
        if !st_after <> None && km = exitk then begin
          incr it_full;
          let sm = !status_model in
          if km = 0 || km = 4 then (if sm <> status' then mism "status" (Printf.sprintf "model=%d impl=%d exit=%d" sm status' km))
          else begin
            let xf = Array.of_list (List.map float_of_q qx') in
            let r = res_m in
            if done_ambiguous ip xf (float_of_q r.s_eta) (qsqrt_f (sumsq r.s_rdual)) (qsqrt_f (sumsq r.s_rprim)) (mags_at qx' qu' qv') then amb "status"
            else begin incr it_status_dec; if sm <> status' then mism "status" (Printf.sprintf "model=%d impl=%d exit=%d eta=%g |rdual|=%g |rprim|=%g" sm status' km (float_of_q r.s_eta) (qsqrt_f (sumsq r.s_rdual)) (qsqrt_f (sumsq r.s_rprim))) end
          end
        end
      end;
      last_event := Some (exitk, x', u', v', eta', status', !st_after)
    end;
    prev_eta := (if Float.is_finite eta' then Some (q_of_float eta') else None);
    if exitk = 1 || not dir_fin then last_event := Some (exitk, x', u', v', eta', status', None)
  end;
  prev_status := status'

let handle_ifinal line =
  (* no IPROG: solve_with_inequality returned before the loop (start not strictly feasible) *)
  match !cur_prog with None -> incr it_rejected | Some ip ->
  let lp = Array.of_list (split_str " | " line) in
  if Array.length lp < 7 then failwith "bad IFINAL line";
  let toks = split ' ' (String.trim lp.(0)) in
  if List.nth toks 1 <> ip.ip_id then failwith "IFINAL id does not match IPROG";
  let id = ip.ip_id ^ "/final" in
  let status = int_of_string (List.nth toks 2) and iters = int_of_string (List.nth toks 3) in
  let eta = parse_float (List.nth toks 5) in
  let x = fvec lp.(1) and u = fvec lp.(2) and v = fvec lp.(3) and rd = fvec lp.(4) and rp = fvec lp.(5) and rc = fvec lp.(6) in
  incr it_final;
  (* C04_ldlt_failure_never_false_converged on the implementation (own arithmetic): a `converged` state is feasible for the program as
     solved, |A x - b|_2 < epsilon2 and max(G x - h) < epsilon2, whatever the directions were (also after passes violating lu_ok) *)
  if status = 1 && finite_vec x && List.length x = ip.ip_n then begin
    incr it_conv_checked;
    if !cur_lu_bad then incr it_conv_after_bad;
    let zx = zq_vec x and ax = Array.of_list x in
    let s2 = ref Q.zero and mag2 = ref 0.0 in
    Array.iteri (fun l row -> let t = Q.sub (zdot (Array.map Q.of_float row) zx) (Q.of_float ip.ip_b.(l)) in
                  s2 := Q.add !s2 (Q.mul t t); let mg = row_mag row ax +. fabs ip.ip_b.(l) in mag2 := !mag2 +. mg *. mg) ip.ip_A;
    let neq = sqrt (Q.to_float !s2) in
    if ip.ip_p > 0 && neq > !feps2 *. 1.001 +. 1e-12 *. sqrt !mag2 then
      report "PROPFAIL" "iter-converged-infeasible" id (Printf.sprintf "status=converged with |A x - b|_2 = %g >= epsilon2 (program as solved)%s" neq (if !cur_lu_bad then " after a pass violating lu_ok" else ""));
    Array.iteri (fun k row -> let t = Q.to_float (Q.sub (zdot (Array.map Q.of_float row) zx) (Q.of_float ip.ip_h.(k))) in
                  if t > !feps2 *. 1.001 +. 1e-12 *. (row_mag row ax +. fabs ip.ip_h.(k)) then
                    report "PROPFAIL" "iter-converged-infeasible" id (Printf.sprintf "status=converged with (G x - h)[%d] = %g >= epsilon2 (program as solved)%s" k t (if !cur_lu_bad then " after a pass violating lu_ok" else ""))) ip.ip_G
  end;
  (match !last_event with
   | None -> ()
   | Some (exitk, x', u', v', eta', status', res_m) ->
     let same a b = List.length a = List.length b && List.for_all2 (fun s t -> Int64.bits_of_float s = Int64.bits_of_float t) a b in
     if not (same x x' && same u u' && same v v' && Int64.bits_of_float eta = Int64.bits_of_float eta' && status = status') then
       report "MISMATCH" "iter-final-state" id (Printf.sprintf "the returned state is not the state after the last pass (exit=%d status %d/%d)" exitk status status');
     if exitk = 0 && not (iters = ip.ip_maxit && status = 0) then
       report "MISMATCH" "iter-loop-end" id (Printf.sprintf "the loop ended after a pass with exit 0: iters=%d max_iters=%d status=%d" iters ip.ip_maxit status);
     if List.for_all finite_vec [x; u; v; rd; rp; rc] && Float.is_finite eta && List.length rd = ip.ip_n && List.length rp = ip.ip_p && List.length rc = ip.ip_m then begin
       let ax = Array.of_list x and au = Array.of_list u and av = Array.of_list v in
       (* the residual fields left in the returned state are those the model leaves (last trial point / reverted / new point) *)
       (match res_m with
        | Some r when exitk = 0 || exitk = 5 || exitk = 4 ->
          let (_, rdm, rpm, rcm) = mag_resid ip ax au av 1.0 in
          let cmp what a b mag = List.iteri (fun i (am, bi) -> incr compared;
                                              if not (qle (qabs (am -/ q_of_float bi)) (q_of_float (1e-11 *. mag.(i) +. 1e-300))) then
                                                report "MISMATCH" ("iter-final-" ^ what) id (Printf.sprintf "[%d] model=%h impl=%h" i (float_of_q am) bi)) (List.combine a b) in
          if List.length r.s_rdual = ip.ip_n && List.length r.s_rprim = ip.ip_p then begin cmp "rdual" r.s_rdual rd rdm; cmp "rprim" r.s_rprim rp rpm end;
          ignore rcm
        | _ -> ());
       (* done() re-taken on the numbers stored in the returned state *)
       if exitk = 1 || exitk = 2 || exitk = 3 || exitk = 5 then begin
         let nrd = fnorm2 (Array.of_list rd) and nrp = fnorm2 (Array.of_list rp) in
         if done_ambiguous ip ax eta nrd nrp (mag_resid ip ax au av 1.0) then amb "final-status"
         else begin
           incr it_status_dec;
           let sm = B.int_of_big_int (model_done ip.ip_prog (qvec x) (q_of_float eta) (qvec rd) (qvec rp) (q_of_float ip.ip_eps) !eps2) in
           if sm <> status then report "MISMATCH" "iter-final-status" id (Printf.sprintf "done() on the stored numbers: model=%d impl=%d eta=%g |rdual|=%g |rprim|=%g" sm status eta nrd nrp)
         end
       end
     end);
  cur_prog := None

let () =
  (try
     while true do
       let line = input_line stdin in
       if String.length line > 6 && String.sub line 0 6 = "CONST " then
         List.iter (fun tok -> match kv tok with
             | ("eps", v) -> feps := parse_float v; eps := q_of_float !feps
             | ("eps2", v) -> feps2 := parse_float v; eps2 := q_of_float !feps2
             | ("minnorm", v) -> minn := q_of_float (parse_float v)
             | _ -> ()) (split ' ' line)
       else if String.length line > 6 && String.sub line 0 6 = "SOLVE " then
         (try handle_solve line with
          | Failure m -> report "MISMATCH" "driver-error" "?" m
          | Invalid_argument m -> report "MISMATCH" "driver-error" "?" (m ^ " :: " ^ String.sub line 0 (min 80 (String.length line)))
          | Not_found -> report "MISMATCH" "driver-error" "?" "Not_found")
       else if String.length line > 6 && (String.sub line 0 5 = "ITER " || String.sub line 0 6 = "IPROG " || String.sub line 0 7 = "IFINAL ") then
         (let h = if String.sub line 0 5 = "ITER " then handle_iter else if String.sub line 0 6 = "IPROG " then handle_iprog else handle_ifinal in
          try h line with
          | Failure m -> report "MISMATCH" "driver-error" "?" (m ^ " :: " ^ String.sub line 0 (min 80 (String.length line)))
          | Invalid_argument m -> report "MISMATCH" "driver-error" "?" (m ^ " :: " ^ String.sub line 0 (min 80 (String.length line)))
          | Not_found -> report "MISMATCH" "driver-error" "?" ("Not_found :: " ^ String.sub line 0 (min 80 (String.length line))))
       else if String.length line > 7 && (String.sub line 0 4 = "MSF " || String.sub line 0 7 = "MSTART ") then
         (let h = if String.sub line 0 4 = "MSF " then handle_msf else handle_mstart in
          try h line with
          | Failure m -> report "MISMATCH" "driver-error" "?" (m ^ " :: " ^ String.sub line 0 (min 80 (String.length line)))
          | Invalid_argument m -> report "MISMATCH" "driver-error" "?" (m ^ " :: " ^ String.sub line 0 (min 80 (String.length line)))
          | Not_found -> report "MISMATCH" "driver-error" "?" ("Not_found :: " ^ String.sub line 0 (min 80 (String.length line))))
       else if String.length line > 7 && String.sub line 0 7 = "REDUCE " then
         (try handle_reduce line with
          | Failure m -> report "MISMATCH" "driver-error" "?" (m ^ " :: " ^ String.sub line 0 (min 80 (String.length line)))
          | Invalid_argument m -> report "MISMATCH" "driver-error" "?" (m ^ " :: " ^ String.sub line 0 (min 80 (String.length line)))
          | Not_found -> report "MISMATCH" "driver-error" "?" ("Not_found :: " ^ String.sub line 0 (min 80 (String.length line))))
     done
   with End_of_file -> ());
  let ranks = String.concat "," (List.sort compare (Hashtbl.fold (fun k v acc -> Printf.sprintf "%d:%d" k v :: acc) red_ranks [])) in
  Printf.printf "MODEL-DONE checked=%d mismatches=%d compared=%d decisions=%d ambiguous=%d kkt_verified=%d stale_states=%d converged_with_negative_u=%d returned_states_u_checked=%d reduce_systems_checked=%d reduce_exact_factorisations=%d reduce_rows_removed=%d reduce_full_rank=%d reduce_empty=%d reduce_inconsistent=%d reduce_exact_rowspace=%d reduce_ranks=%s\n"
    !total !mism !compared !decisions !ambiguous !kkt_ok !stale !neg_u !u_checked !red_total !red_exact !red_reduced !red_full !red_empty !red_incons !red_exact_rowspace
    (if ranks = "" then "-" else ranks);
  if !eq_total > 0 || !msf_total > 0 then
    Printf.printf "REST-DONE eq_states=%d eq_status_decisions=%d eq_ambiguous=%d eq_nonfinite=%d eq_converged=%d eq_worst_residual_over_threshold=%g msf_calls=%d msf_found=%d msf_trials=%d msf_systems_solved=%d msf_systems_singular=%d msf_ambiguous=%d msf_bit_exact_results=%d msf_rounding_level=%d rest_propfails=%d default_starts=%d started=%d started_from_zero=%d rejected_without_iteration=%d start_ambiguous=%d strictly_feasible_known=%d strictly_feasible_known_msf_nothing=%d strictly_feasible_known_rejected=%d feasible_known=%d feasible_known_rejected=%d\n"
      !eq_total !eq_dec !eq_amb !eq_nonfinite !eq_conv !eq_worst_rel !msf_total !msf_found !msf_trials !msf_sys_ok !msf_sys_singular !msf_amb !msf_bits !msf_rounding
      (!eq_prop + !msf_prop) !ms_total !ms_started !ms_zero_start !ms_rejected !ms_amb !ms_strict_total !ms_strict_nomsf !ms_strict_rejected !ms_feasible_total !ms_feasible_rejected;
  if !it_solves > 0 || !it_events > 0 then begin
    let ambk = String.concat "," (List.sort compare (Hashtbl.fold (fun k v acc -> Printf.sprintf "%s:%d" k v :: acc) it_amb_kinds [])) in
    Printf.printf "ITER-DONE solves=%d events=%d mismatches=%d systems_solved=%d systems_inaccurate_singular_block=%d systems_regular=%d worst_system_ratio=%g full_passes_compared=%d exact_stage_counts=%d bit_exact_mirrors=%d status_decisions=%d ambiguous=%d ambiguous_kinds=%s skipped=%d starts_rejected=%d underflow_events=%d boundary_events=%d over_budget_events=%d propfails=%d strict_feasibility_at_rounding=%d stage2_exhausted_reverted=%d stage2_exhausted_stale=%d starts=%d finals=%d lu_ok_checked=%d lu_ok_violations=%d converged_after_lu_ok_violation=%d converged_finals_checked=%d exits=%s\n"
      !it_solves !it_events !mism !it_sys_ok !it_sys_bad !it_sys_regular !it_worst_sys !it_full !it_exact_counts !it_bits !it_status_dec !it_ambig (if ambk = "" then "-" else ambk) !it_skipped !it_rejected !it_underflow !it_boundary !it_budget !it_prop
      !it_rounding_feas !it_reverted !it_stale3 !it_start !it_final !it_lu_checked !it_lu_bad !it_conv_after_bad !it_conv_checked
      (String.concat "," (Array.to_list (Array.mapi (fun i c -> Printf.sprintf "%d:%d" i c) it_exits)))
  end
