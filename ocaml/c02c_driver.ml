(* C02 extension 3 driver: replays every recorded whole run of the real ellipsoid / osga / pgm / dgm / fgm / asga2 / asga4 solvers
   (harness/c02_bodies2.cpp) with the extracted model `body2_run` (coq/theories/C02_Bodies2_Defs.v).
   The oracles of the model are answered from the recording:
     o2_eval k x   -> the k-th recorded evaluation; the requested point x must be the recorded point BIT FOR BIT
     o2_dot a b    -> sum of a_i * b_i in Eigen's order (3.4, SSE2: two lanes, two accumulators, lanes added at the end, then the tail);
                      the DOT lines of the harness tie this order to the real library on every run; cross-checked against the
                      sequential sum within n * eps * sum |a_i b_i|
     o2_norm2 v    -> sqrt of the same reduction of v_i * v_i
     o2_exp v      -> libm exp (Stdlib.exp is C's exp)
     o2_gHg k g H  -> the gHg of the k-th ev_ellipsoid_update event; (g, H) must be the recorded ones bit for bit. When the library
                      took the early exit at that pass (no event) the decision is trusted here (0 is answered) -- the harness checks it
                      against a long double recomputation
     o2_ell k ..   -> the updated (x, H) of the k-th event; all inputs must be the recorded ones bit for bit; the answer is compared with
                      C03's deep-cut step over binary64 operations (ell_ref_step = C03_Defs.en_step) within a tolerance
   and the model must: request ALL recorded evaluations and no other, make as many done() calls, and end in the same returned
   state (x, fx, gx, status, fcalls, gcalls), function counters, flags of the last done() call, kind of exit and
   value_test(patience) of the returned state.
   PROPFAIL: the conclusions of the C02_bodies2 theorems evaluated on the recorded data. *)
let tf = Float64.to_float
let ff = Float64.of_float
let fl s = ff (float_of_string (trim s))
let flist s = let s = trim s in if s = "-" || s = "" then [] else List.map fl (split_on ',' s)
let bits x = Int64.bits_of_float (tf x)
let same a b = (Float.is_nan (tf a) && Float.is_nan (tf b)) || Int64.equal (bits a) (bits b)
let same_list a b = List.length a = List.length b && List.for_all2 same a b
let hex x = let x = tf x in if Float.is_nan x then "nan" else Printf.sprintf "%h" x
let hexl l = if l = [] then "-" else String.concat "," (List.map hex l)
let words s = List.filter (fun t -> t <> "") (String.split_on_char ' ' (trim s))
let nanf = ff Float.nan
let has_nan l = List.exists (fun v -> Float.is_nan (tf v)) l

let mism = ref 0
let propfail = ref 0
let checked = ref 0
let evals = ref 0
let passes = ref 0
let ambiguous = ref 0
let dots = ref 0
let dot_lines = ref 0
let exps = ref 0
let ell_updates = ref 0
let ell_ref_checked = ref 0
let ell_ref_worst = ref 0.0
let hist : (string, int) Hashtbl.t = Hashtbl.create 16
let count k = Hashtbl.replace hist k (1 + (match Hashtbl.find_opt hist k with Some n -> n | None -> 0))

(* Eigen's redux (LinearVectorizedTraversal, packets of two doubles, unrolled by two packets) *)
let eig_sum (c : float array) : float =
  let n = Array.length c in
  if n = 0 then 0.0
  else begin
    let asz = (n / 2) * 2 and asz2 = (n / 4) * 4 in
    if asz = 0 then begin
      let r = ref c.(0) in
      for i = 1 to n - 1 do r := !r +. c.(i) done;
      !r
    end else begin
      let p0a = ref c.(0) and p0b = ref c.(1) in
      if asz > 2 then begin
        let p1a = ref c.(2) and p1b = ref c.(3) in
        let i = ref 4 in
        while !i < asz2 do
          p0a := !p0a +. c.(!i); p0b := !p0b +. c.(!i + 1);
          p1a := !p1a +. c.(!i + 2); p1b := !p1b +. c.(!i + 3);
          i := !i + 4
        done;
        p0a := !p0a +. !p1a; p0b := !p0b +. !p1b;
        if asz > asz2 then (p0a := !p0a +. c.(asz2); p0b := !p0b +. c.(asz2 + 1))
      end;
      let r = ref (!p0a +. !p0b) in
      for i = asz to n - 1 do r := !r +. c.(i) done;
      !r
    end
  end

let eig_dot (a : Float64.t list) (b : Float64.t list) : Float64.t =
  let a = Array.of_list (List.map tf a) and b = Array.of_list (List.map tf b) in
  let n = min (Array.length a) (Array.length b) in
  ff (eig_sum (Array.init n (fun i -> a.(i) *. b.(i))))

type ev = { e_wg : bool; e_f : Float64.t; e_x : Float64.t list; e_g : Float64.t list }
type el = { l_f : Float64.t; l_fb : Float64.t; l_gHg : Float64.t; l_x : Float64.t list; l_g : Float64.t list; l_H : Float64.t list;
            l_x' : Float64.t list; l_H' : Float64.t list }
type dn = { d_ok : bool; d_conv : bool; d_ret : bool; d_evals : int; d_calls : int; d_fx : Float64.t; d_valid : bool }
type run = { mutable hdr : string; mutable evs : ev list; mutable els : el list; mutable dns : dn list; mutable ret : string }
let cur = { hdr = ""; evs = []; els = []; dns = []; ret = "" }

let eps_m = epsilon_float

let finish_run () =
  let line = cur.hdr in
  let short = if String.length line > 500 then String.sub line 0 500 ^ "..." else line in
  let report why = incr mism; Printf.printf "MISMATCH %s // %s\n" short why in
  let preport why = incr propfail; Printf.printf "PROPFAIL %s // %s\n" short why in
  (match split_str " | " line with
   | [h; c; x0s] ->
     let hw = Array.of_list (words h) in
     let id = hw.(1) and body = int_of_string hw.(3) and n = int_of_string hw.(5) in
     let cw = Array.of_list (words c) in
     let eps = fl cw.(0) and maxev = int_of_string cw.(1) and patience = int_of_string cw.(2) and lsmax = int_of_string cw.(3) in
     let sc = fl cw.(4) and eps0 = fl cw.(5) and p1 = fl cw.(6) and p2 = fl cw.(7) and p3 = fl cw.(8) and p4 = fl cw.(9) in
     let x0 = flist x0s in
     let evs = Array.of_list (List.rev cur.evs) and dns = Array.of_list (List.rev cur.dns) and els = Array.of_list (List.rev cur.els) in
     let ne = Array.length evs and nd = Array.length dns and nl = Array.length els in
     evals := !evals + ne;
     let zero_exit = nd > 0 && dns.(nd - 1).d_evals = (if nd >= 2 then dns.(nd - 2).d_evals else 1) in
     let problems = ref [] in
     let note s = if List.length !problems < 4 && not (List.mem s !problems) then problems := s :: !problems in
     let requested = Array.make (ne + 1) false in
     let o_eval k x =
       let k = int_of_z k in
       if k < 0 || k >= ne then (note (Printf.sprintf "the model requests evaluation %d, the library made %d" k ne); (nanf, List.map (fun _ -> nanf) x))
       else begin
         requested.(k) <- true;
         if not (same_list x evs.(k).e_x) then
           note (Printf.sprintf "evaluation %d: the model requests %s, the library evaluated %s" k (hexl x) (hexl evs.(k).e_x));
         (evs.(k).e_f, evs.(k).e_g)
       end in
     let o_dot a b =
       incr dots;
       let r = eig_dot a b in
       (* sanity of the oracle answer: against the sequential sum *)
       let seq = List.fold_left2 (fun acc x y -> acc +. tf x *. tf y) 0.0 a b in
       let mag = List.fold_left2 (fun acc x y -> acc +. Float.abs (tf x *. tf y)) 0.0 a b in
       if Float.is_finite mag && Float.is_finite seq && not (Float.abs (tf r -. seq) <= float_of_int (List.length a + 1) *. eps_m *. mag) then
         note (Printf.sprintf "dot: the answer %s in Eigen's order is far from the sequential sum %h" (hex r) seq);
       r in
     let o_norm2 v = incr dots; ff (Stdlib.sqrt (tf (eig_dot v v))) in
     let o_exp v = incr exps; ff (Stdlib.exp (tf v)) in
     let o_gHg k g hh =
       let k = int_of_z k in
       if k < nl then begin
         if not (same_list g els.(k).l_g && same_list hh els.(k).l_H) then
           note (Printf.sprintf "ellipsoid pass %d: the model's (g, H) differ from the recorded ones (H model %s, library %s)" k (hexl hh) (hexl els.(k).l_H));
         els.(k).l_gHg
       end else if k = nl && zero_exit then ff 0.0
       else (note (Printf.sprintf "ellipsoid pass %d: the model needs gHg, the library made %d updates" k nl); nanf) in
     let o_ell k x g hh f fb ghg =
       let k = int_of_z k in
       if k < nl then begin
         let e = els.(k) in
         incr ell_updates;
         if not (same_list x e.l_x && same_list g e.l_g && same_list hh e.l_H && same f e.l_f && same fb e.l_fb && same ghg e.l_gHg) then
           note (Printf.sprintf "ellipsoid update %d: inputs of the model (f=%s best=%s gHg=%s x=%s) differ from the recorded ones (f=%s best=%s gHg=%s x=%s)"
                   k (hex f) (hex fb) (hex ghg) (hexl x) (hex e.l_f) (hex e.l_fb) (hex e.l_gHg) (hexl e.l_x));
         (* the recorded update against C03's deep-cut step over binary64 operations *)
         let (rx, rh) = ell_ref_step (z_of_int n) x hh fb f g (ff (Stdlib.sqrt (tf ghg))) in
         let rh = List.concat rh in
         let all = rx @ rh @ e.l_x' @ e.l_H' in
         if List.for_all (fun v -> Float.is_finite (tf v)) all && List.length rx = List.length e.l_x' && List.length rh = List.length e.l_H' then begin
           let scale l = List.fold_left (fun a v -> Float.max a (Float.abs (tf v))) 0.0 l in
           let dev a b = List.fold_left2 (fun acc u v -> Float.max acc (Float.abs (tf u -. tf v))) 0.0 a b in
           let sx = Float.max (scale e.l_x') (scale x) and sh = Float.max (scale e.l_H') (scale hh) in
           incr ell_ref_checked;
           let dx = if sx > 0.0 then dev rx e.l_x' /. sx else 0.0 and dh = if sh > 0.0 then dev rh e.l_H' /. sh else 0.0 in
           let w = Float.max dx dh in
           if w > !ell_ref_worst then ell_ref_worst := w;
           (* conditioning: alpha = (f - best) / sqrt(gHg) near 1 cancels in (1 - alpha^2) *)
           let alpha = (tf f -. tf fb) /. Stdlib.sqrt (tf ghg) in
           if w > 1e-6 then count "ellipsoid_update_ill_conditioned_deviation_above_1e-6";
           if w > 1e-3 && Float.abs alpha < 0.999 then
             note (Printf.sprintf "ellipsoid update %d: the recorded (x', H') is far from C03's en_step over binary64 (relative deviation %h, alpha %h)" k w alpha)
         end;
         (e.l_x', e.l_H')
       end else (note (Printf.sprintf "ellipsoid update %d requested, the library made %d" k nl); (x, hh)) in
     let orc = { o2_eval = o_eval; o2_dot = o_dot; o2_norm2 = o_norm2; o2_exp = o_exp; o2_gHg = o_gHg; o2_ell = o_ell } in
     let cfg = { c2_eps = eps; c2_maxev = z_of_int maxev; c2_patience = z_of_int patience; c2_lsmax = z_of_int lsmax; c2_n = z_of_int n;
                 c2_sc = sc; c2_eps0 = eps0; c2_p1 = p1; c2_p2 = p2; c2_p3 = p3; c2_p4 = p4 } in
     let b = body2_of_Z (z_of_int body) in
     (* Eigen's lpNorm<Infinity> on a vector with NaN is unspecified: osga's early test and asga's gradient test read g(x0) *)
     let amb = ne > 0 && (body = 1 || body >= 5) && has_nan evs.(0).e_g in
     if amb then incr ambiguous
     else begin
       let r = body2_run b orc cfg (b2_fuel cfg) x0 in
       let s = r.rs_s in
       incr checked;
       passes := !passes + int_of_z r.rs_iters;
       (* ---- correspondence ---- *)
       List.iter report (List.rev_map (fun q -> Printf.sprintf "RUN %s %s" id q) !problems);
       let m_ne = int_of_z r.rs_c.c_ne in
       if m_ne <> ne then report (Printf.sprintf "RUN %s the model makes %d evaluations, the library %d" id m_ne ne)
       else begin
         let missing = ref (-1) in
         for k = ne - 1 downto 0 do if not requested.(k) then missing := k done;
         if !missing >= 0 then report (Printf.sprintf "RUN %s evaluation %d of the library is never requested by the model" id !missing)
       end;
       if int_of_z r.rs_dones <> nd then report (Printf.sprintf "RUN %s the model makes %d done() calls, the library %d" id (int_of_z r.rs_dones) nd);
       if body = 0 && int_of_z r.rs_iters <> nl then report (Printf.sprintf "RUN %s the model makes %d ellipsoid updates, the library %d" id (int_of_z r.rs_iters) nl);
       (match split_str " | " cur.ret with
        | [a; xs; gs] ->
          let w = Array.of_list (words a) in
          let status = int_of_string w.(2) and fc = int_of_string w.(3) and gc = int_of_string w.(4)
          and ffc = int_of_string w.(5) and fgc = int_of_string w.(6) and vtest = fl w.(7) and fx = fl w.(8) in
          let rx = flist xs and rg = flist gs in
          if not (same s.sfx fx && same_list s.sx rx && same_list s.sgx rg) then
            report (Printf.sprintf "RUN %s returned state: model fx=%s x=%s, library fx=%s x=%s" id (hex s.sfx) (hexl s.sx) (hex fx) (hexl rx));
          if int_of_z s.sstatus <> status then report (Printf.sprintf "RUN %s status: model %d, library %d" id (int_of_z s.sstatus) status);
          if int_of_z s.sfcalls <> fc || int_of_z s.sgcalls <> gc then
            report (Printf.sprintf "RUN %s reported calls: model %d|%d, library %d|%d" id (int_of_z s.sfcalls) (int_of_z s.sgcalls) fc gc);
          if int_of_z r.rs_c.c_fc <> ffc || int_of_z r.rs_c.c_gc <> fgc then
            report (Printf.sprintf "RUN %s function counters: model %d|%d, library %d|%d" id (int_of_z r.rs_c.c_fc) (int_of_z r.rs_c.c_gc) ffc fgc);
          let ex = int_of_z r.rs_exit in
          if ex = 0 then report (Printf.sprintf "RUN %s the model runs out of fuel" id);
          let vt_model = value_test_ref s (z_of_int patience) in
          if not (same vt_model vtest) then
            report (Printf.sprintf "RUN %s value_test(patience) of the returned state: model %s, library %s" id (hex vt_model) (hex vtest));
          if nd > 0 then begin
            let l = dns.(nd - 1) in
            if l.d_ok <> r.rs_ok || l.d_conv <> r.rs_conv then
              report (Printf.sprintf "RUN %s flags of the last done(): model iter_ok=%b converged=%b, library iter_ok=%b converged=%b" id r.rs_ok r.rs_conv l.d_ok l.d_conv);
            if l.d_ret <> (ex = 2 || ex = 3) then report (Printf.sprintf "RUN %s exit: model %d, library's last done() returned %b" id ex l.d_ret);
            if zero_exit <> (ex = 3) then report (Printf.sprintf "RUN %s exit: model %d, library's early exit %b" id ex zero_exit)
          end else if ex <> 1 && ex <> 4 then report (Printf.sprintf "RUN %s exit: model %d, the library made no done() call" id ex);
          count (Printf.sprintf "exit=%d" ex);
          count (Printf.sprintf "status=%d" status);
          (* ---- the conclusions of the theorems on the recorded data ---- *)
          (* (1) budget: fcalls + gcalls <= max(2, max_evals - 1 + B), B the proved per-pass bound; every pass within B *)
          (* B written WITHOUT the translated kernels (2, 3, then 2 / 3 / 4 / 4 / 4 x lsearch_max_iters): a cap read from another parameter
             is then a concrete failing input here even though the regenerated model follows the source *)
          let bb = (match body with 0 -> 2 | 1 -> 3 | 2 -> 2 * lsmax | 3 -> 3 * lsmax | _ -> 4 * lsmax) in
          if int_of_z (pass_bound b cfg) <> bb then
            preport (Printf.sprintf "RUN %s C02_bodies2_kernels: the model's per-pass bound is %d, lsearch_max_iters gives %d (which parameter caps the inner loop?)" id (int_of_z (pass_bound b cfg)) bb);
          if ffc + fgc > max 2 (maxev - 1 + bb) then
            preport (Printf.sprintf "RUN %s C02_bodies2_budget: %d evaluations with max_evals = %d, B = %d" id (ffc + fgc) maxev bb);
          let prev = ref 2 in
          Array.iteri (fun j d ->
              if d.d_calls - !prev > bb then preport (Printf.sprintf "RUN %s C02_bodies2_budget: pass %d costs %d > B = %d" id j (d.d_calls - !prev) bb);
              prev := d.d_calls) dns;
          if fc > ffc || gc > fgc then preport (Printf.sprintf "RUN %s C02_bodies2_budget: reported calls above the function's counters" id);
          (* (2) honest; best; valid unless failed *)
          if not (Array.exists (fun e -> same_list e.e_x rx && same e.e_f fx && (body = 1 || (e.e_wg && same_list e.e_g rg))) evs) then
            preport (Printf.sprintf "RUN %s C02_bodies2_honest: the returned point / value%s is not a recorded evaluation" id (if body = 1 then "" else " / gradient"));
          if ne > 0 && Float.is_finite (tf evs.(0).e_f) && not (tf fx <= tf evs.(0).e_f) then
            preport (Printf.sprintf "RUN %s C02_bodies2_best: f=%s above f(x0)=%s" id (hex fx) (hex evs.(0).e_f));
          let v = valid { s with sx = rx; sfx = fx; sgx = rg } in
          if status <> 2 && nd > 0 && not v then preport (Printf.sprintf "RUN %s C02_bodies2_status: invalid state with status %d" id status);
          (* (3) status *)
          if status = 1 && (nd = 0 || not (dns.(nd - 1).d_ok && dns.(nd - 1).d_conv && dns.(nd - 1).d_ret)) then
            preport (Printf.sprintf "RUN %s C02_bodies2_status: converged without done(true, true)" id);
          if status = 2 && nd > 0 && dns.(nd - 1).d_ok && dns.(nd - 1).d_valid then preport (Printf.sprintf "RUN %s C02_bodies2_status: failed with iter_ok and a valid state" id);
          if status = 2 && nd = 0 then preport (Printf.sprintf "RUN %s C02_bodies2_status: failed without a done() call" id);
          (* (4) what converged means, per body *)
          if status = 1 && nd > 0 && not zero_exit then begin
            if body = 0 && nl > 0 && not (Stdlib.sqrt (tf els.(nl - 1).l_gHg) < tf eps) then
              preport (Printf.sprintf "RUN %s C02_bodies2_converged: ellipsoid converged with sqrt(gHg) = %h >= epsilon" id (Stdlib.sqrt (tf els.(nl - 1).l_gHg)));
            if body >= 2 && not (tf vtest < tf eps) then
              preport (Printf.sprintf "RUN %s C02_bodies2_converged: converged with value_test = %s >= epsilon" id (hex vtest))
          end;
          if body = 0 then Array.iteri (fun j e -> if tf e.l_gHg < eps_m then preport (Printf.sprintf "RUN %s C02_ellipsoid_guard: update %d executed with gHg = %s" id j (hex e.l_gHg))) els
        | _ -> report (Printf.sprintf "RUN %s bad CRET line" id))
     end
   | _ -> report "bad CRUN line");
  cur.hdr <- ""; cur.evs <- []; cur.els <- []; cur.dns <- []; cur.ret <- ""

let starts p line = String.length line > String.length p && String.sub line 0 (String.length p) = p

let () =
  (try
     while true do
       let line = input_line stdin in
       (try
          if starts "CRUN " line then (cur.hdr <- line; cur.evs <- []; cur.els <- []; cur.dns <- []; cur.ret <- "")
          else if starts "CEV " line then begin
            match split_str " | " line with
            | [a; xs; gs] ->
              let w = Array.of_list (words a) in
              cur.evs <- { e_wg = (w.(3) = "1"); e_f = fl w.(4); e_x = flist xs; e_g = flist gs } :: cur.evs
            | _ -> incr mism; Printf.printf "MISMATCH bad CEV line %s\n" (String.sub line 0 (min 200 (String.length line)))
          end
          else if starts "CEL " line then begin
            match split_str " | " line with
            | [a; x; g; hh; x'; hh'] ->
              let w = Array.of_list (words a) in
              cur.els <- { l_f = fl w.(3); l_fb = fl w.(4); l_gHg = fl w.(5); l_x = flist x; l_g = flist g; l_H = flist hh; l_x' = flist x'; l_H' = flist hh' } :: cur.els
            | _ -> incr mism; Printf.printf "MISMATCH bad CEL line %s\n" (String.sub line 0 (min 200 (String.length line)))
          end
          else if starts "CDN " line then begin
            let w = Array.of_list (words line) in
            cur.dns <- { d_ok = (w.(3) = "1"); d_conv = (w.(4) = "1"); d_ret = (w.(5) = "1"); d_evals = int_of_string w.(6); d_calls = int_of_string w.(7);
                         d_fx = fl w.(8); d_valid = (w.(9) = "1") } :: cur.dns
          end
          else if starts "CRET " line then cur.ret <- line
          else if starts "CEND " line then finish_run ()
          else if starts "DOT " line then begin
            match split_str " | " line with
            | [_; a; b; r] ->
              let a = flist a and b = flist b and w = Array.of_list (words r) in
              let d = List.map2 (fun x y -> ff (tf x -. tf y)) a b in
              incr dot_lines;
              let chk what mine lib = if not (same mine lib) then (incr mism; Printf.printf "MISMATCH DOT n=%d %s: Eigen's order as the driver implements it gives %s, the library %s\n" (List.length a) what (hex mine) (hex lib)) in
              chk "a.dot(b)" (eig_dot a b) (fl w.(0));
              chk "(a-b).dot(a-b)" (eig_dot d d) (fl w.(1));
              chk "(a-b).squaredNorm()" (eig_dot d d) (fl w.(2));
              chk "a.lpNorm<2>()" (ff (Stdlib.sqrt (tf (eig_dot a a)))) (fl w.(3))
            | _ -> incr mism; Printf.printf "MISMATCH bad DOT line\n"
          end
        with Failure m | Invalid_argument m -> incr mism; Printf.printf "MISMATCH driver cannot parse (%s): %s\n" m (String.sub line 0 (min 200 (String.length line))))
     done
   with End_of_file -> ());
  if !dot_lines = 0 then (incr mism; Printf.printf "MISMATCH no DOT line: the summation order of the driver is not tied to the library\n");
  let kv = List.sort Stdlib.compare (Hashtbl.fold (fun k n acc -> (k, n) :: acc) hist []) in
  Printf.printf "HIST %s\n" (String.concat " " (List.map (fun (k, n) -> Printf.sprintf "%s=%d" k n) kv));
  Printf.printf "ELLREF worst_relative_deviation=%h\n" !ell_ref_worst;
  Printf.printf "MODEL-DONE checked=%d mismatches=%d propfails=%d evaluations=%d passes=%d ambiguous_skipped=%d dots=%d dot_lines=%d exp_calls=%d ellipsoid_updates=%d ellipsoid_updates_checked_against_C03=%d\n"
    !checked !mism !propfail !evals !passes !ambiguous !dots !dot_lines !exps !ell_updates !ell_ref_checked
