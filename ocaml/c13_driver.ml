(* C13 driver: reads the implementation's lines (see harness/c13_tuner.cpp) and re-computes them with the extracted
   model.  LS and TUNE lines are compared exactly.  An OPT line (one run of tuner_t::optimize) is *accepted* when
   there are answers of the two oracles of the model -- which minimiser std::sort left first among equal values
   (pick), which grid point the surrogate proposed (prop) -- such that the verified `optimize_pick` reproduces the
   observed callback batches, the outcome and the returned steps.  The answers are found by a depth-first search
   with the extracted transition function `step1_pick`; the final verdict comes from one run of `optimize_pick`. *)
let mism = ref 0
let total = ref 0
let accepted_default = ref 0
let accepted_search = ref 0
let report line model = incr mism; Printf.printf "MISMATCH %s // model: %s\n" (if String.length line > 1500 then String.sub line 0 1500 ^ "..." else line) model

let rec pos_of_int64 (n : int64) : positive =
  if n = 1L then XH
  else if Int64.logand n 1L = 0L then XO (pos_of_int64 (Int64.shift_right_logical n 1))
  else XI (pos_of_int64 (Int64.shift_right_logical n 1))
let z_of_key (s : string) : z =
  let n = Int64.of_string s in
  if n = 0L then Z0 else if n > 0L then Zpos (pos_of_int64 n) else Zneg (pos_of_int64 (Int64.neg n))

let words s = List.filter (fun t -> t <> "") (String.split_on_char ' ' (trim s))
let semis s = if trim s = "" then [] else List.map trim (String.split_on_char ';' s)
let gkey (g : z list) = string_of_zlist g


(* ---------- stage SURR: exact dyadic rationals `n@e` = n * 2^e ---------- *)
let near_ties = ref 0
let surr_checked = ref 0
let surr_replayed = ref 0
let surr_fallback = ref 0
let surr_q_agree = ref 0
let rec shl_pos (p : positive) (k : int) : positive = if k <= 0 then p else shl_pos (XO p) (k - 1)
let q_of_string (t : string) : q =
  let t = trim t in
  match String.index_opt t '@' with
  | None -> { qnum = z_of_int (int_of_string t); qden = XH }
  | Some i ->
    let n = int_of_string (String.sub t 0 i) and e = int_of_string (String.sub t (i + 1) (String.length t - i - 1)) in
    if e >= 0 then
      { qnum = (match z_of_int n with Z0 -> Z0 | Zpos p -> Zpos (shl_pos p e) | Zneg p -> Zneg (shl_pos p e)); qden = XH }
    else { qnum = z_of_int n; qden = shl_pos XH (- e) }
let commas s = if trim s = "" then [] else List.map trim (String.split_on_char ',' s)
(* the same numbers as binary64 (n has at most 53 bits: exact) *)
let f_of_string (t : string) : Float64.t =
  let t = trim t in
  if t = "nf" then Float64.of_float nan else
  match String.index_opt t '@' with
  | None -> Float64.of_float (float_of_string t)
  | Some i ->
    let n = int_of_string (String.sub t 0 i) and e = int_of_string (String.sub t (i + 1) (String.length t - i - 1)) in
    Float64.of_float (Float.ldexp (float_of_int n) e)
let flist_of_string (s : string) : Float64.t list = List.map f_of_string (commas s)
let fbits (x : Float64.t) = Int64.bits_of_float (Float64.to_float x)
let qlist_of_string (s : string) : q list = List.map q_of_string (commas s)
let qeq a b = qeq_bool a b
let qlist_eq a b = List.length a = List.length b && List.for_all2 qeq a b
let rec string_of_pos_bits (p : positive) : string = match p with XH -> "1" | XO r -> string_of_pos_bits r ^ "0" | XI r -> string_of_pos_bits r ^ "1"
let string_of_z_bits (x : z) = match x with Z0 -> "0" | Zpos p -> "0b" ^ string_of_pos_bits p | Zneg p -> "-0b" ^ string_of_pos_bits p
let string_of_q (x : q) = let r = qred x in string_of_z_bits r.qnum ^ "/" ^ string_of_z_bits (Zpos r.qden)
let string_of_qlist l = String.concat "," (List.map string_of_q l)
let q_eps : q = { qnum = z_of_int 1; qden = shl_pos XH 52 }
let qdist x t = qabs (qminus x t)
(* the implementation rounds |x - t|: two grid points whose exact distances differ by less than the rounding error of one
   subtraction may be ordered differently -- such a disagreement is counted (near_ties), not reported *)
let near_tie (ts : q list) (x : q) (a : int) (b : int) : bool =
  a >= 0 && b >= 0 && a < List.length ts && b < List.length ts &&
  (let ta = List.nth ts a and tb = List.nth ts b in
   let da = qdist x ta and db = qdist x tb in
   let tol = qmult q_eps (qplus (qabs x) (qplus (qabs ta) (qabs tb))) in
   not (qeq da db) && qle_bool (qabs (qminus da db)) tol)
let has_near_tie (ts : q list) (x : q) : bool =
  match ts with
  | [] -> false
  | t0 :: _ ->
    let ds = List.map (qdist x) ts in
    let m = List.fold_left (fun a d -> if qle_bool d a then d else a) (qdist x t0) ds in
    let amax = List.fold_left (fun a t -> if qle_bool (qabs t) a then a else qabs t) (qabs t0) ts in
    let tol = qmult q_eps (qplus (qabs x) (qplus amax amax)) in
    List.exists (fun d -> not (qeq d m) && qle_bool (qminus d m) tol) ds
(* |x| >= 2^60: every subtraction x - t rounds, the exact-rational model is not expected to agree *)
let huge (t : string) : bool =
  match String.index_opt t '@' with
  | Some i -> (try int_of_string (String.sub t (i + 1) (String.length t - i - 1)) > 7 with _ -> true)
  | None -> false

exception Diverged of string

(* "i,j:key" *)
let parse_point (t : string) : string * string =
  match String.index_opt t ':' with
  | Some i -> (String.sub t 0 i, String.sub t (i + 1) (String.length t - i - 1))
  | None -> (t, "nf")

let batch_string (b : z list list) = String.concat " " (List.map gkey b)

let canon_steps (l : (string * string) list) : string =
  let l' = List.sort (fun (g1, k1) (g2, k2) ->
      let c = compare (Int64.of_string k1) (Int64.of_string k2) in if c <> 0 then c else compare g1 g2) l in
  String.concat " " (List.map (fun (g, k) -> g ^ ":" ^ k) l')

let opt_line line rest =
  let fields = split_str " | " rest in
  (* stage SURR: surrogate runs carry the grid images and the recorded inner-solver answers *)
  let surr : (Float64.t list list * (int, (bool * Float64.t list)) Hashtbl.t) option =
    match fields with
    | [_; _; _; _; stss; sans] ->
      let tss = List.map flist_of_string (semis stss) in
      let tbl = Hashtbl.create 16 in
      List.iter (fun a -> match String.split_on_char ':' a with
          | [n; v; xs] -> Hashtbl.replace tbl (int_of_string (trim n)) (v = "1", if v = "1" then flist_of_string xs else [])
          | _ -> ()) (semis sans);
      Some (tss, tbl)
    | _ -> None in
  (* the exact-rational model must agree with the binary64 twin wherever no rounding can matter *)
  (match fields with
   | [_; _; _; _; stss; sans] ->
     let qtss = List.map qlist_of_string (semis stss) in
     List.iter (fun a -> match String.split_on_char ':' a with
         | [_; "1"; xs] ->
           let qx = (if List.exists huge (commas xs) then [] else qlist_of_string xs) and fx = flist_of_string xs in
           if List.length qx = List.length qtss && not (List.exists huge (commas xs)) && not (List.exists2 has_near_tie qtss qx) then begin
             incr surr_q_agree;
             let pq = sg_proposal qtss qx and pf = sg_proposal_f (List.map flist_of_string (semis stss)) fx in
             if gkey pq <> gkey pf then report line ("exact-rational proposal " ^ gkey pq ^ " differs from the binary64 proposal " ^ gkey pf ^ " without a near-tie")
           end
         | _ -> ()) (semis sans)
   | _ -> ());
  match (match fields with [a; b; c; d] -> [a; b; c; d] | [a; b; c; d; _; _] -> [a; b; c; d] | l -> l) with
  | [hd; sbatches; outcome; ssteps] ->
    (match words hd with
     | [_case; kind; smax; ssizes] ->
       incr total;
       let sizes = zlist_of_string ssizes in
       let isizes = List.map int_of_z sizes in
       let cfg = { c_kind = (if kind = "S" then KSurrogate else KLocal); c_sizes = sizes; c_max_evals = z_of_int (int_of_string smax) } in
       let obs : (string * string) list list = List.map (fun b -> List.map parse_point (words b)) (semis sbatches) in
       let obs_b : string array = Array.of_list (List.map (fun b -> String.concat " " (List.map fst b)) obs) in
       let obs_first : int list array =
         Array.of_list (List.map (fun b -> match b with (g, _) :: _ -> List.map int_of_z (zlist_of_string g) | [] -> []) obs) in
       let obs_pts : int list list array =
         Array.of_list (List.map (fun b -> List.map (fun (g, _) -> List.map int_of_z (zlist_of_string g)) b) obs) in
       let nb = Array.length obs_b in
       let tbl : (string, z option) Hashtbl.t = Hashtbl.create 64 in
       List.iter (List.iter (fun (g, k) -> Hashtbl.replace tbl g (if k = "nf" then None else Some (z_of_key k)))) obs;
       let ktbl : (string, string) Hashtbl.t = Hashtbl.create 64 in
       List.iter (List.iter (fun (g, k) -> Hashtbl.replace ktbl g k)) obs;
       let f (g : z list) : z option =
         match Hashtbl.find_opt tbl (gkey g) with Some v -> v | None -> raise (Diverged (gkey g)) in
       let obs_steps = List.map parse_point (words ssteps) in
       let outcome = trim outcome in
       (* verdict of one full run of the verified model under the given oracle answers *)
       let ansf (tbl : (int, (bool * Float64.t list)) Hashtbl.t) steps =
         match Hashtbl.find_opt tbl (List.length steps) with Some (true, xs) -> Some xs | _ -> None in
       let use_answers = ref (surr <> None && kind = "S") in
       let verdict (pick : (int, z list) Hashtbl.t) (prop : (int, z list option) Hashtbl.t) : string option =
         let pickf n = Hashtbl.find_opt pick (int_of_nat n) in
         let propf steps = match Hashtbl.find_opt prop (List.length steps) with Some r -> r | None -> None in
         let run () = match surr with
           | Some (tss, tbl) when !use_answers -> optimize_pick_sg_f pickf tss (ansf tbl) f cfg   (* the proposal is computed by the model *)
           | _ -> optimize_pick pickf propf f cfg in
         match (try Ok (run ()) with Diverged g -> Error g) with
         | Error g -> Some ("the model evaluates " ^ g ^ " which the implementation never evaluated")
         | Ok o ->
           let calls = calls_of o in
           let mb = List.map batch_string calls in
           if mb <> Array.to_list obs_b then
             Some ("callback batches differ: model " ^ String.concat ";" mb)
           else
             (match o with
              | Finished st ->
                if outcome <> "ok" then Some "model finishes normally, implementation threw"
                else
                  (* values are carried as the implementation's key strings (they may exceed OCaml's int) *)
                  let ms = List.map (fun (g, _) ->
                      let k = gkey g in
                      (k, (match Hashtbl.find_opt ktbl k with Some s -> s | None -> "?"))) st.st_steps in
                  if canon_steps ms <> canon_steps obs_steps then Some ("returned steps differ (as sets): model " ^ canon_steps ms)
                  else
                    (* model order vs implementation order may differ only among equal values *)
                    let vals l = List.map (fun (_, k) -> k) l in
                    if vals ms <> vals obs_steps then Some "returned steps are not in the model's value order" else None
              | Thrown _ -> if outcome = "nonfinite" then None else Some "model throws on a non-finite value, implementation did not"
              | Aborted _ -> if outcome = "abort" then None else Some "model aborts (surrogate failure), implementation did not"
              | OutOfFuel _ -> Some "model ran out of fuel (contradicts C13_fuel_suffices)") in
       (* fast path: stable order, no proposals needed (local search, tie-free or lucky) *)
       let empty_pick : (int, z list) Hashtbl.t = Hashtbl.create 1 in
       let empty_prop : (int, z list option) Hashtbl.t = Hashtbl.create 1 in
       let fast = if kind = "L" then verdict empty_pick empty_prop else Some "search" in
       if fast = None then incr accepted_default
       else begin
         (* ---- acceptor search ---- *)
         let pick : (int, z list) Hashtbl.t = Hashtbl.create 16 in
         let prop : (int, z list option) Hashtbl.t = Hashtbl.create 16 in
         let failed : (string, unit) Hashtbl.t = Hashtbl.create 64 in
         let deepest = ref 0 in
         let nopick _ = None in
         let within r (c : int list) (pts : int list list) =
           List.for_all (fun b -> List.length b = List.length c &&
                                  List.for_all2 (fun x y -> let o = x - y in o = 0 || o = r || o = - r) b c) pts in
         let ints g = List.map int_of_z g in
         let zs g = List.map z_of_int g in
         let rec neighbours (c : int list) (sz : int list) : int list list =
           match c, sz with
           | [], _ | _, [] -> [[]]
           | x :: c', s :: sz' ->
             let rest = neighbours c' sz' in
             List.concat (List.map (fun o -> let y = x + o in if y < 0 || y >= s then [] else List.map (fun r -> y :: r) rest) [-1; 0; 1]) in
         (* explore from ms having matched k batches; fixed = the front may not be re-chosen (no sort since) *)
         let rec explore (ms : mstate) (k : int) (fixed : bool) : bool =
           if k > !deepest then deepest := k;
           let steps = ms.ms_st.st_steps in
           let n = List.length steps in
           let key = Printf.sprintf "%d/%s/%b/%s" k
               (match ms.ms_phase with PCoarse r -> "c" ^ string_of_int (int_of_z r) | PRefine -> "r") fixed
               (if fixed then (match steps with (g, _) :: _ -> gkey g | [] -> "") else "") in
           if Hashtbl.mem failed key then false
           else begin
             let surrogate_refine = (kind = "S" && ms.ms_phase = PRefine) in
             let fronts : z list list =
               if fixed || surrogate_refine then (match steps with (g, _) :: _ -> [g] | [] -> [[]])
               else begin
                 let cands = minimisers steps in
                 if k < nb && kind = "L" then
                   let r = (match ms.ms_phase with PCoarse r -> int_of_z r | PRefine -> 1) in
                   List.filter (fun c -> let ci = ints c in within r ci obs_pts.(k) || within 1 ci obs_pts.(k)) cands
                 else cands
               end in
             let props : z list option list =
               if not surrogate_refine then [None]
               else if !use_answers then
                 (match surr with
                  | Some (tss, tbl) -> [sg_prop_f tss (ansf tbl) steps]
                  | None -> [None])
               else if k < nb then List.map (fun c -> Some (zs c)) (neighbours obs_first.(k) isizes)
               else if outcome = "abort" then [None]
               else List.map (fun (g, _) -> Some g) steps in
             let try_one (c : z list) (p : z list option) : bool =
               let ms_c = { ms with ms_st = { ms.ms_st with st_steps = set_front c steps } } in
               let ncalls = List.length ms.ms_st.st_calls in
               match (try Some (step1_pick nopick (fun _ -> p) f cfg ms_c) with Diverged _ -> None) with
               | None -> false
               | Some (SContinue ms') ->
                 let calls' = ms'.ms_st.st_calls in
                 if List.length calls' = ncalls then explore ms' k true
                 else if k < nb && batch_string (List.nth calls' ncalls) = obs_b.(k) then explore ms' (k + 1) false
                 else false
               | Some (SDone o) ->
                 (match o with
                  | Finished st -> outcome = "ok" && k = nb && List.length st.st_calls = ncalls
                  | Aborted _ -> outcome = "abort" && k = nb
                  | Thrown calls -> outcome = "nonfinite" && k + 1 = nb && List.length calls = nb
                                    && batch_string (List.nth calls ncalls) = obs_b.(k)
                  | OutOfFuel _ -> false) in
             let ok = List.exists (fun c ->
                 List.exists (fun p ->
                     if try_one c p then begin
                       if not fixed && not surrogate_refine && n > 0 then Hashtbl.replace pick n c;
                       if surrogate_refine then Hashtbl.replace prop n p;
                       true
                     end else false) props) fronts in
             if not ok then Hashtbl.replace failed key ();
             ok
           end in
         let search () =
           Hashtbl.reset pick; Hashtbl.reset prop; Hashtbl.reset failed; deepest := 0;
           match (try Some (init_pick nopick f cfg) with Diverged _ -> None) with
           | None -> false
           | Some (SDone (Thrown calls)) ->
             outcome = "nonfinite" && nb = 1 && List.length calls = 1 && batch_string (List.hd calls) = obs_b.(0)
           | Some (SDone _) -> false
           | Some (SContinue ms) ->
             (match ms.ms_st.st_calls with
              | [b] when nb >= 1 && batch_string b = obs_b.(0) -> explore ms 1 false
              | _ -> false) in
         let found = search () in
         if !use_answers then incr surr_replayed;
         if found then begin
           match verdict pick prop with
           | None -> incr accepted_search
           | Some why -> report line ("acceptor found oracle answers but the full model run disagrees: " ^ why)
         end else
           report line (Printf.sprintf "no tie-breaking / surrogate proposal makes the model reproduce this run; the trace is matched up to batch %d of %d%s"
                          !deepest nb (match fast with Some w when w <> "search" -> "; with the stable order: " ^ w | _ -> ""))
       end
     | _ -> ())
  | _ -> ()

let () =
  (try
    while true do
      let line = input_line stdin in
      match String.index_opt line ' ' with
      | None -> ()
      | Some sp ->
        let op = String.sub line 0 sp in
        let rest = String.sub line (sp + 1) (String.length line - sp - 1) in
        (match op with
         | "LS" ->
           (match split_str " = " rest with
            | [lhs; rhs] ->
              (match split_str " | " lhs with
               | [lo; hi; src; r] ->
                 incr total;
                 let out = local_search (zlist_of_string lo) (zlist_of_string hi) (zlist_of_string src) (z_of_int (int_of_string (trim r))) in
                 let s = String.concat ";" (List.map gkey out) in
                 if s <> trim rhs then report line s
               | _ -> ())
            | _ -> ())
         | "OPT" -> opt_line line rest
         | "SGV" ->
           (* SGV id d | model | x = size | value | grad *)
           (match split_str " = " rest with
            | [lhs; rhs] ->
              (match split_str " | " lhs, split_str " | " rhs with
               | [_hd; sm; sx], [ssize; sval; sgrad] ->
                 incr total; incr surr_checked;
                 let m = qlist_of_string sm and x = qlist_of_string sx in
                 let size = int_of_z (dim_of_size (z_of_int (List.length m))) in
                 if size <> int_of_string (trim ssize) then report line (Printf.sprintf "size %d" size)
                 else if size = List.length x then begin
                   let v = sg_value m x and g = sg_grad m x in
                   if trim sval = "nf" || not (qeq v (q_of_string sval)) then report line ("value " ^ string_of_q v)
                   else if not (qlist_eq g (qlist_of_string sgrad)) then report line ("gradient " ^ string_of_qlist g)
                   (* the walk of the value and the walk of the fit's features agree (C13_sg_value_features, on this input) *)
                   else if List.length m = int_of_z (fit_size (z_of_int (List.length x))) && not (qeq v (qdot m (quad_terms x))) then
                     report line "value differs from model . quad_terms(x)"
                 end
               | _ -> ())
            | _ -> ())
         | "SGF" ->
           (* SGF id d n | p rows | y | c = size | value | grad | convex *)
           (match split_str " = " rest with
            | [lhs; rhs] ->
              (match split_str " | " lhs, split_str " | " rhs with
               | [hd; sp; sy; sc], [ssize; sval; sgrad; sconv] ->
                 incr total; incr surr_checked;
                 let d = (match words hd with _ :: sd :: _ -> int_of_string sd | _ -> 0) in
                 let ps = List.map qlist_of_string (semis sp) and y = qlist_of_string sy and c = qlist_of_string sc in
                 let size = int_of_z (fit_size (z_of_int d)) in
                 if size <> int_of_string (trim ssize) then report line (Printf.sprintf "size %d" size)
                 else begin
                   let rows = fit_rows ps in
                   let v = fit_value rows y c and g = fit_grad rows y c in
                   if List.exists (fun r -> List.length r <> size) rows then report line "a row of m_p2 has the wrong length"
                   else if trim sval = "nf" || not (qeq v (q_of_string sval)) then report line ("value " ^ string_of_q v)
                   else if not (qlist_eq g (qlist_of_string sgrad)) then report line ("gradient " ^ string_of_qlist g)
                   else if (trim sconv = "1") <> fit_declared_convex then report line "declared convexity differs"
                 end
               | _ -> ())
            | _ -> ())
         | "MAP" ->
           (* MAP id lin|log exact | grid | ts | x | v = point | closest value | from_surrogate(x) | to_surrogate(v) or throw *)
           (match split_str " = " rest with
            | [lhs; rhs] ->
              (match split_str " | " lhs, split_str " | " rhs with
               | [hd; sgrid; sts; sx; sv], [spoint; scv; sfrom; sto] ->
                 incr total; incr surr_checked;
                 let kind, exact = (match words hd with [_; k; e] -> (k, e = "1") | _ -> ("", false)) in
                 let grid = qlist_of_string sgrid and ts = qlist_of_string sts and x = q_of_string sx and v = q_of_string sv in
                 let point = int_of_string (trim spoint) in
                 let fgrid = flist_of_string sgrid and fts = flist_of_string sts and fx = f_of_string sx and fv = f_of_string sv in
                 let fp = int_of_z (closest_point_f fts fx) in
                 let fmin = List.hd fgrid and fmax = List.nth fgrid (List.length fgrid - 1) in
                 let mp = int_of_z (closest_point dbl_max ts x) in
                 if fp <> point then report line (Printf.sprintf "binary64 closest point %d" fp)
                 else if kind = "lin" && not (List.for_all2 (fun v t -> match to_surrogate_lin_f fmin fmax v with Some r -> fbits r = fbits t | None -> false) fgrid fts) then
                   report line "binary64 to_surrogate of the grid values"
                 else if kind = "lin" && fbits (from_surrogate_lin_f fmin fmax fx) <> fbits (f_of_string sfrom) then report line "binary64 from_surrogate"
                 else if kind = "lin" && (match to_surrogate_lin_f fmin fmax fv with None -> trim sto <> "throw" | Some r -> trim sto = "throw" || fbits r <> fbits (f_of_string sto)) then
                   report line "binary64 to_surrogate"
                 else if mp <> point && near_tie ts x mp point && qle_bool (qdist x (List.nth ts mp)) (qdist x (List.nth ts point)) then incr near_ties
                 else if mp <> point then report line (Printf.sprintf "closest point %d" mp)
                 else if not (qeq (closest_value dbl_max grid ts x) (q_of_string scv)) then report line "closest value"
                 else if kind = "lin" && exact then begin
                   let vmin = List.hd grid and vmax = List.nth grid (List.length grid - 1) in
                   let imgs = List.map (to_surrogate_lin vmin vmax) grid in
                   if not (List.for_all2 (fun a b -> match a with Some a -> qeq a b | None -> false) imgs ts) then
                     report line "to_surrogate of the grid values"
                   else if not (qeq (from_surrogate_lin vmin vmax x) (q_of_string sfrom)) then
                     report line ("from_surrogate " ^ string_of_q (from_surrogate_lin vmin vmax x))
                   else (match to_surrogate_lin vmin vmax v with
                       | None -> if trim sto <> "throw" then report line "to_surrogate: the model throws"
                       | Some r -> if trim sto = "throw" || not (qeq r (q_of_string sto)) then report line ("to_surrogate " ^ string_of_q r))
                 end
               | _ -> ())
            | _ -> ())
         | "TUNE" ->
           (match split_str " | " rest with
            | [hd; sb; stasks; stable; sopt] ->
              (match words hd with
               | [_case; sfolds] ->
                 incr total;
                 let folds = z_of_int (int_of_string sfolds) in
                 let batches = zlist_of_string sb in
                 let show l = String.concat " " (List.map (fun (t, f) -> Printf.sprintf "%d:%d" (int_of_z t) (int_of_z f)) l) in
                 (* per batch: the decoded (trial, fold) tasks *)
                 let rec go old bs acc = match bs with
                   | [] -> List.rev acc
                   | n :: r -> go (old + int_of_z n) r (show (batch_tasks folds (z_of_int old) n) :: acc) in
                 let model_tasks = String.concat ";" (go 0 batches []) in
                 if model_tasks <> String.concat ";" (semis stasks) then report line ("tasks " ^ model_tasks)
                 else begin
                   (* slots of all tasks: a permutation of [0, folds * trials) *)
                   let all = all_tasks folds Z0 batches in
                   let slots = List.sort compare (List.map (fun tf -> int_of_z (slot folds tf)) all) in
                   if slots <> List.init (List.length all) (fun i -> i) then report line "slots are not a permutation"
                   else begin
                     let table = List.map zlist_of_string (semis stable) in
                     let vmax = z_of_key "9218868437227405311" in
                     let o = int_of_z (optimum_trial vmax (trial_sums table)) in
                     if o <> int_of_string (trim sopt) then report line (Printf.sprintf "optimum_trial %d" o)
                   end
                 end
               | _ -> ())
            | _ -> ())
         | _ -> ())
    done
  with End_of_file -> ());
  Printf.printf "MODEL-DONE checked=%d mismatches=%d accepted_stable=%d accepted_by_search=%d surr_lines=%d surr_runs_replayed=%d surr_near_ties=%d surr_answers_exact_rational_agree=%d\n"
    !total !mism !accepted_default !accepted_search !surr_checked !surr_replayed !near_ties !surr_q_agree
