(* C11, extension stage "STATS": recomputes what harness/c11_stats.cpp observed on the real ml::store_stats / ml::result_t with
   the model extracted from Coq (C11_Stats_Defs; Z = Zarith, Q exact, floats = binary64).

   STAT lines:  count and the nine percentile POSITIONS exactly (st_positions), the nine percentile values bit for bit
                (f_stats: selected elements or midpoints, scalar code), mean and deviation against the exact rationals q_mean /
                q_stdev2 within the any-order summation bound (C14_fl_sum_any_order / C14_fl_gamma, C09_fp_tree_sum: a sum of n
                binary64 numbers evaluated in ANY order is within ((1+u)^(n-1) - 1) sum|x_i| of the exact sum; the bound used
                below is that one propagated through the one-pass variance, the division and the square root);
                for short lists the exact percentiles of q_stats against the binary64 ones.
   RNEW / RADD / RSTORE / RFINAL / RCELL / RVALUE / ROPT / RCLOSE lines: the model state (flat buffers of C11_Stats_Defs) follows
                every operation; the records a store writes are the model's (percentiles, count) with the run's mean / deviation
                (checked against the rationals first); every read-back, every dump of every cell, value() and optimum_trial()
                are compared bit for bit, closest_trial() against the exact first minimum of the squared distances.
   STATREC lines (harness/c11_gboost.cpp, real fits): per-sample values recomputed by predicting with the stored model +
                the stored record: the model's record within 1e-9 relative (the values are recomputed, not the library's own).
   Output: MISMATCH ... / PROPFAIL ... / MODEL-DONE checked=<n> mismatches=<m>.
   NB: compiled after `open C11_stats_model` (no zutil.ml.inc: Z is Zarith here). *)
module B = Big_int_Z

let checked = ref 0
let mism = ref 0
let printed = ref 0
let skipped_sd = ref 0
let report kind what detail =
  Stdlib.incr mism; Stdlib.incr printed;
  if !printed <= 40 then Printf.printf "%s %s %s\n" kind what detail

let zi (n : int) = B.big_int_of_int n
let iz (z : B.big_int) = B.int_of_big_int z
let fo (x : float) : Float64.t = Float64.of_float x
let ff (x : Float64.t) : float = Float64.to_float x
let bits x = Int64.bits_of_float x
let same a b = bits a = bits b || (Float.is_nan a && Float.is_nan b) || (a = 0.0 && b = 0.0)
let hx = Printf.sprintf "%h"

let parse_float s = let s = String.trim s in
  if s = "nan" || s = "-nan" then Float.nan else if s = "inf" then Float.infinity else if s = "-inf" then Float.neg_infinity
  else float_of_string s
let split c s = if String.trim s = "" || String.trim s = "-" then [] else String.split_on_char c (String.trim s)
let floats_of s = List.map parse_float (split ',' s)
let split_str sep s =
  let n = String.length sep and m = String.length s in
  let rec go i start acc =
    if i + n > m then List.rev (String.sub s start (m - start) :: acc)
    else if String.sub s i n = sep then go (i + n) (i + n) (String.sub s start (i - start) :: acc)
    else go (i + 1) start acc in
  go 0 0 []
let words s = List.filter (fun t -> t <> "") (String.split_on_char ' ' (String.trim s))
let fstr l = String.concat "," (List.map hx l)

(* exact rationals *)
let toQ (x : q) : Q.t = Q.make x.qnum x.qden
let ofQ (x : Q.t) : q = { qnum = Q.num x; qden = Q.den x }
let qf (x : float) : Q.t = Q.of_float x
let u = Q.of_float (ldexp 1.0 (-53))
let qi n = Q.of_int n
let tiny n = Q.mul (qi (n + 4)) (Q.of_float (ldexp 1.0 (-1070)))
let ( +/ ) = Q.add and ( */ ) = Q.mul and ( // ) = Q.div and ( -/ ) = Q.sub

(* mean: |fl - exact| <= 1.01 (n + 1) u sum|x| / n;  radicand of the deviation: the one-pass variance
   fl(fl(fl(sum x^2) / n) - fl(m^2)) clamped, divided by n - 1, then sqrt: see the header *)
let bounds (vals : float list) =
  let n = List.length vals in
  let xs = List.map qf vals in
  let sumabs = List.fold_left (fun a x -> a +/ Q.abs x) Q.zero xs in
  let sumsq = List.fold_left (fun a x -> a +/ (x */ x)) Q.zero xs in
  let c = Q.of_string "101/100" in
  let tol_mean = (c */ qi (n + 1) */ u */ sumabs // qi n) +/ tiny n in
  (n, xs, sumabs, sumsq, tol_mean)

let check_mean_sd what (vals : float list) (mean : float) (sd : float) =
  let (n, xs, sumabs, sumsq, tol_mean) = bounds vals in
  let qxs = List.map ofQ xs in
  let qm = toQ (q_mean qxs) in
  if not (Float.is_finite mean) || Q.gt (Q.abs (qf mean -/ qm)) tol_mean then
    report "MISMATCH" "stats-mean" (Printf.sprintf "real %s, exact %s (n=%d, bound %s) ;; %s" (hx mean) (hx (Q.to_float qm)) n (hx (Q.to_float tol_mean)) what);
  let maxabs = List.fold_left (fun a x -> Float.max a (Float.abs x)) 0.0 vals in
  if maxabs > 1e150 then Stdlib.incr skipped_sd
  else begin
    let s2 = toQ (q_stdev2 qxs) in
    if n <= 1 then begin
      if not (sd = 0.0) then report "MISMATCH" "stats-stdev" (Printf.sprintf "real %s for a single value ;; %s" (hx sd) what)
    end else begin
      let c = Q.of_string "101/100" in
      let ev = c */ ((qi (n + 2) */ u */ sumsq // qi n) +/ (qi 2 */ Q.abs qm */ tol_mean) +/ (tol_mean */ tol_mean) +/ (qi 3 */ u */ qm */ qm)) +/ tiny n in
      let es2 = (c */ ev // qi (n - 1)) +/ (qi 4 */ u */ s2) +/ tiny n in
      let r2 = qf sd */ qf sd in
      let tol = es2 +/ (qi 4 */ u */ r2) in
      if not (Float.is_finite sd) || sd < 0.0 || Q.gt (Q.abs (r2 -/ s2)) tol then
        report "MISMATCH" "stats-stdev" (Printf.sprintf "real %s (squared %s), exact radicand variance/(n-1) = %s (n=%d, bound %s) ;; %s"
                                           (hx sd) (hx (Q.to_float r2)) (hx (Q.to_float s2)) n (hx (Q.to_float tol)) what)
    end
  end

(* the model's record for a list of values, with the run's mean / deviation *)
let model_record (vals : float list) (mean : float) (sd : float) : float list =
  let n = List.length vals in
  List.map ff (f_stats [fo mean; fo sd; fo (float_of_int n)] (List.map fo vals))

let compare_record kind what (model : float list) (real : float list) =
  let names = [| "mean"; "stdev"; "count"; "per01"; "per05"; "per10"; "per20"; "per50"; "per80"; "per90"; "per95"; "per99" |] in
  if List.length model <> 12 || List.length real <> 12 then report "MISMATCH" kind ("record length ;; " ^ what)
  else
    List.iteri (fun i (m, r) ->
        if not (same m r) then report "MISMATCH" (kind ^ "-" ^ names.(i)) (Printf.sprintf "model %s, implementation %s ;; %s" (hx m) (hx r) what))
      (List.combine model real)

(* ---- STAT ---- *)
let do_stat line =
  match split_str " | " line with
  | [head; vs; rs; ps] ->
    let vals = floats_of vs and real = floats_of rs in
    Stdlib.incr checked;
    let what = Printf.sprintf "%s | %s" head vs in
    let what = if String.length what > 3000 then String.sub what 0 3000 ^ "..." else what in
    (match real with
     | mean :: sd :: _ ->
       check_mean_sd what vals mean sd;
       compare_record "stats" what (model_record vals mean sd) real;
       (* positions *)
       let n = List.length vals in
       let mp = List.map (fun (l, r) -> (iz l, iz r)) (st_positions (zi n)) in
       let rp = List.map (fun t -> match String.split_on_char ':' t with [l; r] -> (int_of_string l, int_of_string r) | _ -> (-1, -1)) (split ',' ps) in
       if mp <> rp then
         report "MISMATCH" "stats-positions" (Printf.sprintf "model [%s], implementation [%s] n=%d ;; %s"
                                                (String.concat "," (List.map (fun (l, r) -> Printf.sprintf "%d:%d" l r) mp)) ps n head);
       (* short lists: the exact record *)
       if n <= 24 then begin
         let qr = List.map toQ (q_stats (List.map (fun x -> ofQ (qf x)) vals)) in
         List.iteri (fun i (q, r) ->
             if i = 2 && not (Q.equal q (qf r)) then report "MISMATCH" "stats-count-exact" what;
             if i >= 3 && Float.is_finite r then begin
               (* an element, or a midpoint rounded once or twice *)
               let tol = (qi 2 */ u */ Q.abs q) +/ tiny 1 in
               if Q.gt (Q.abs (q -/ qf r)) tol then
                 report "MISMATCH" "stats-percentile-exact" (Printf.sprintf "column %d: exact %s, implementation %s ;; %s" i (hx (Q.to_float q)) (hx r) what)
             end) (List.combine qr real)
       end
     | _ -> report "MISMATCH" "stats-line" line)
  | _ -> failwith ("bad STAT: " ^ line)

(* ---- ml::result_t scenarios ---- *)
let st = ref (f_new (zi 1))
let params : float list list ref = ref []
let recs_of s = List.map floats_of (String.split_on_char ';' s)

let do_rnew line = match words line with
  | [_; folds; _] -> st := f_new (zi (int_of_string folds)); params := []
  | _ -> failwith ("bad RNEW: " ^ line)
let do_radd line = match split_str " | " line with
  | [head; ps] ->
    (match words head with
     | [_; n] ->
       let n = int_of_string n in
       st := f_add !st (zi n);
       let rows = if String.trim ps = "-" then List.init n (fun _ -> []) else List.map floats_of (String.split_on_char ';' ps) in
       params := !params @ rows
     | _ -> failwith ("bad RADD: " ^ line))
  | _ -> failwith ("bad RADD: " ^ line)

let short s = if String.length s > 1500 then String.sub s 0 1500 ^ "..." else s
let do_rstore line = match split_str " = " line with
  | [lhs; rhs] ->
    (match split_str " | " lhs with
     | [head; a; b; c; d] ->
       (match words head with
        | [_; t; f] ->
          let t = int_of_string t and f = int_of_string f in
          let vals = [| floats_of a; floats_of b; floats_of c; floats_of d |] in
          let back = Array.of_list (recs_of rhs) in
          Stdlib.incr checked;
          let what = short (Printf.sprintf "RSTORE %d %d (folds=%d trials=%d)" t f (iz !st.r_folds) (iz !st.r_trials)) in
          (* slot c of the line: (train, errors), (train, losses), (valid, errors), (valid, losses) *)
          let recd = Array.init 4 (fun k ->
              match back.(k) with
              | mean :: sd :: _ -> check_mean_sd (what ^ Printf.sprintf " slot %d [%s]" k (short (fstr vals.(k)))) vals.(k) mean sd;
                model_record vals.(k) mean sd
              | _ -> []) in
          let rec_fn who row = List.map fo recd.(2 * iz who + iz row) in
          st := f_store !st (zi t) (zi f) rec_fn;
          Array.iteri (fun k r ->
              let m = List.map ff (f_stats_of !st (zi t) (zi f) (k < 2) (k mod 2 = 0)) in
              compare_record "result-store" (what ^ Printf.sprintf " slot %d [%s]" k (short (fstr vals.(k)))) m r) back
        | _ -> failwith ("bad RSTORE: " ^ line))
     | _ -> failwith ("bad RSTORE: " ^ line))
  | _ -> failwith ("bad RSTORE: " ^ line)

let do_rfinal line = match split_str " = " line with
  | [lhs; rhs] ->
    (match split_str " | " lhs with
     | [_; e; l] ->
       let vals = [| floats_of e; floats_of l |] in
       let back = Array.of_list (recs_of rhs) in
       Stdlib.incr checked;
       let recd = Array.init 2 (fun k -> match back.(k) with
           | mean :: sd :: _ -> check_mean_sd (Printf.sprintf "RFINAL slot %d [%s]" k (short (fstr vals.(k)))) vals.(k) mean sd; model_record vals.(k) mean sd
           | _ -> []) in
       st := f_store_final !st (fun row -> List.map fo recd.(iz row));
       Array.iteri (fun k r -> compare_record "result-final" (Printf.sprintf "RFINAL slot %d [%s]" k (short (fstr vals.(k)))) (List.map ff (f_stats_final !st (k = 0))) r) back
     | _ -> failwith ("bad RFINAL: " ^ line))
  | _ -> failwith ("bad RFINAL: " ^ line)

let do_rcell line = match split_str " = " line with
  | [lhs; rhs] ->
    (match words lhs with
     | [_; t; f] ->
       let t = int_of_string t and f = int_of_string f in
       Stdlib.incr checked;
       List.iteri (fun k r ->
           compare_record "result-cell" (Printf.sprintf "stats(%d, %d) slot %d (folds=%d trials=%d)" t f k (iz !st.r_folds) (iz !st.r_trials))
             (List.map ff (f_stats_of !st (zi t) (zi f) (k < 2) (k mod 2 = 0))) r) (recs_of rhs)
     | _ -> failwith ("bad RCELL: " ^ line))
  | _ -> failwith ("bad RCELL: " ^ line)

let do_rvalue line = match split_str " = " line with
  | [lhs; rhs] ->
    (match words lhs with
     | [_; t; sp; kd] ->
       Stdlib.incr checked;
       let m = ff (f_value !st (zi (int_of_string t)) (sp = "0") (kd = "0")) and r = parse_float rhs in
       if not (same m r) then report "MISMATCH" "result-value" (Printf.sprintf "value(%s, split %s, kind %s): model %s, implementation %s (folds=%d)" t sp kd (hx m) (hx r) (iz !st.r_folds))
     | _ -> failwith ("bad RVALUE: " ^ line))
  | _ -> failwith ("bad RVALUE: " ^ line)

let do_ropt line = match split_str " | " line with
  | [head; vals] ->
    (match words head with
     | [_; _; t] ->
       Stdlib.incr checked;
       let m = iz (f_optimum !st) in
       if m <> int_of_string t then report "MISMATCH" "result-optimum" (Printf.sprintf "model %d, implementation %s, value(trial) = [%s]" m t vals)
     | _ -> failwith ("bad ROPT: " ^ line))
  | _ -> failwith ("bad ROPT: " ^ line)

let do_rclose line = match split_str " = " line with
  | [lhs; rhs] ->
    (match split_str " | " lhs with
     | [head; q] ->
       (match words head with
        | [_; maxt] ->
          Stdlib.incr checked;
          let big = ofQ (Q.of_float 1e300) in
          let ps = List.map (fun row -> List.map (fun x -> ofQ (qf x)) row) !params in
          let m = iz (q_closest big ps (List.map (fun x -> ofQ (qf x)) (floats_of q)) (zi (int_of_string maxt))) in
          if m <> int_of_string (String.trim rhs) then
            report "MISMATCH" "result-closest" (Printf.sprintf "closest_trial([%s], %s): model %d, implementation %s" q maxt m rhs)
        | _ -> failwith ("bad RCLOSE: " ^ line))
     | _ -> failwith ("bad RCLOSE: " ^ line))
  | _ -> failwith ("bad RCLOSE: " ^ line)

(* ---- STATREC: a stored record of a real fit + the per-sample values recomputed from the stored model ---- *)
let fits = ref 0
let do_statrec line =
  match split_str " | " line with
  | [head; vs; rs] ->
    let vals = floats_of vs and real = floats_of rs in
    if vals <> [] && List.for_all Float.is_finite vals && List.length real = 12 then begin
      Stdlib.incr checked; Stdlib.incr fits;
      let n = List.length vals in
      let model = model_record vals (List.nth real 0) (List.nth real 1) in
      let maxabs = List.fold_left (fun a x -> Float.max a (Float.abs x)) 0.0 vals in
      let close a b = Float.abs (a -. b) <= 1e-9 *. (1.0 +. Float.max (Float.abs a) (Float.abs b)) in
      List.iteri (fun i (m, r) ->
          if i >= 2 && not (close m r) then
            report "PROPFAIL" "fit-record" (Printf.sprintf "column %d: the model's statistic of the recomputed per-sample values is %s, stored %s ;; %s" i (hx m) (hx r) (short line)))
        (List.combine model real);
      let qm = Q.to_float (toQ (q_mean (List.map (fun x -> ofQ (qf x)) vals))) in
      if not (close qm (List.nth real 0)) then
        report "PROPFAIL" "fit-record" (Printf.sprintf "mean: exact mean of the recomputed per-sample values %s, stored %s ;; %s" (hx qm) (hx (List.nth real 0)) (short line));
      if maxabs <= 1e150 && n > 1 then begin
        let s2 = Q.to_float (toQ (q_stdev2 (List.map (fun x -> ofQ (qf x)) vals))) in
        let sd = List.nth real 1 in
        if not (Float.abs (sd -. sqrt s2) <= 2e-7 *. (1.0 +. maxabs)) then
          report "PROPFAIL" "fit-record" (Printf.sprintf "stdev: sqrt of the exact radicand %s, stored %s ;; %s" (hx (sqrt s2)) (hx sd) (short line))
      end
    end
  | _ -> failwith ("bad STATREC: " ^ line)

let starts p s = String.length s >= String.length p && String.sub s 0 (String.length p) = p
let () =
  (try
     while true do
       let line = input_line stdin in
       if starts "STAT " line then do_stat line
       else if starts "RSTORE " line then do_rstore line
       else if starts "RCELL " line then do_rcell line
       else if starts "RVALUE " line then do_rvalue line
       else if starts "RNEW " line then do_rnew line
       else if starts "RADD " line then do_radd line
       else if starts "RFINAL " line then do_rfinal line
       else if starts "ROPT " line then do_ropt line
       else if starts "RCLOSE " line then do_rclose line
       else if starts "STATREC " line then do_statrec line
     done
   with End_of_file -> ());
  Printf.printf "MODEL-DONE checked=%d mismatches=%d stdev_not_comparable=%d fit_records=%d\n" !checked !mism !skipped_sd !fits
