(* C19 driver: reads the protocol lines of harness/c19_param.cpp on stdin, replays every construction, assignment,
   read, registration, clone and write+read on the extracted model (C19_Defs) and prints
     MISMATCH <line> // model: <value>     model and implementation disagree on this concrete operation
     PROPFAIL <line> // <why>              the property's oracle (evaluated with the model's own `make`) fails on
                                           data the implementation returned (factory defaults)
     TABFAIL PARAM|OBJECT|USE <index> ...  (stage FACTTAB) an entry of the table regenerated from the source fails its check
     MISMATCH FACTTAB ...                  (stage FACTTAB) a factory object of the compiled library registers other parameters
                                           (names / kinds / bounds / comparison operators / defaults, bit for bit, in order)
                                           than the constructor chain of its class in the table
     FACTTAB-UNREACHED <label>             table objects no factory returned (listed, not failed)
     TABFAIL CLONE|COPYCTOR <index> ...    (stage CLONETAB) a record of the clone table fails its check
     MISMATCH CLONETAB ...                 (stage CLONETAB) clone() of a factory object by the source table differs from the library's clone
     CLONETAB-UNREACHED <class>            clone() records of classes no factory object / component has (listed)
   and finally MODEL-DONE checked=<n> mismatches=<m> ub=<k> (k = reads the model marks undefined and the harness skipped).
   Integers travel as int64 decimal strings, doubles as C %a strings, strings hex-encoded. *)
let mism = ref 0
let total = ref 0
let ubs = ref 0
let report line model = incr mism; if !mism <= 200 then Printf.printf "MISMATCH %s // model: %s\n" line model
let propfail line why = incr mism; if !mism <= 200 then Printf.printf "PROPFAIL %s // %s\n" line why

(* ---- int64 <-> z -------------------------------------------------------------------------------- *)
let rec pos_of_u64 (n : int64) : positive =
  if Int64.equal n 1L then XH
  else if Int64.equal (Int64.logand n 1L) 0L then XO (pos_of_u64 (Int64.shift_right_logical n 1))
  else XI (pos_of_u64 (Int64.shift_right_logical n 1))
let z_of_i64 (n : int64) : z =
  if Int64.equal n 0L then Z0 else if Int64.compare n 0L > 0 then Zpos (pos_of_u64 n) else Zneg (pos_of_u64 (Int64.neg n))
let rec u64_of_pos (p : positive) : int64 =
  match p with XH -> 1L | XO q -> Int64.shift_left (u64_of_pos q) 1 | XI q -> Int64.logor (Int64.shift_left (u64_of_pos q) 1) 1L
let i64_of_z (x : z) : int64 = match x with Z0 -> 0L | Zpos p -> u64_of_pos p | Zneg p -> Int64.neg (u64_of_pos p)
let z_of_dec (s : string) : z = z_of_i64 (Int64.of_string s)
let dec_of_z (x : z) : string = Int64.to_string (i64_of_z x)

(* ---- strings ------------------------------------------------------------------------------------ *)
let str_of_hex (h : string) : z list =
  if h = "-" then []
  else List.init (String.length h / 2) (fun i -> z_of_int (int_of_string ("0x" ^ String.sub h (2 * i) 2)))
let hex_of_str (s : z list) : string =
  if s = [] then "-" else String.concat "" (List.map (fun c -> Printf.sprintf "%02x" (int_of_z c)) s)

(* ---- floats ------------------------------------------------------------------------------------- *)
(* the extracted model computes on Float64.t (coq-core.kernel), an abstract wrapper of OCaml's float *)
let fl (s : string) : Float64.t = Float64.of_float (float_of_string s)
let fbits (x : Float64.t) : int64 = let f = Float64.to_float x in if f <> f then 0x7ff8000000000000L else Int64.bits_of_float f
let feq a b = Int64.equal (fbits a) (fbits b)
let sfl (x : Float64.t) : string =
  let f = Float64.to_float x in
  if f <> f then "nan" else if f = Stdlib.infinity then "inf" else if f = Stdlib.neg_infinity then "-inf" else Printf.sprintf "%h" f
let ofl (s : string) : Float64.t option = if s = "x" then None else Some (fl s)

(* ---- states ------------------------------------------------------------------------------------- *)
let cmp_of s = if s = "le" then LE else LT
let scmp c = match c with LE -> "le" | LT -> "lt"

let rec take n l = if n = 0 then ([], l) else match l with x :: r -> let (a, b) = take (n - 1) r in (x :: a, b) | [] -> ([], [])

(* parse a state from a token list; returns the state and the unread tokens *)
let parse_st (t : string list) : storage * string list =
  match t with
  | "N" :: r -> (SNone, r)
  | "E" :: v :: n :: r ->
    let (d, r') = take (int_of_string n) r in
    (SEnum (str_of_hex v, List.map str_of_hex d), r')
  | "I" :: v :: mn :: mx :: c1 :: c2 :: r -> (SIRange (z_of_dec v, z_of_dec mn, z_of_dec mx, cmp_of c1, cmp_of c2), r)
  | "F" :: v :: mn :: mx :: c1 :: c2 :: r -> (SFRange (fl v, fl mn, fl mx, cmp_of c1, cmp_of c2), r)
  | "IP" :: v1 :: v2 :: mn :: mx :: c1 :: c2 :: c3 :: r ->
    (SIPair (z_of_dec v1, z_of_dec v2, z_of_dec mn, z_of_dec mx, cmp_of c1, cmp_of c2, cmp_of c3), r)
  | "FP" :: v1 :: v2 :: mn :: mx :: c1 :: c2 :: c3 :: r ->
    (SFPair (fl v1, fl v2, fl mn, fl mx, cmp_of c1, cmp_of c2, cmp_of c3), r)
  | "S" :: v :: r -> (SString (str_of_hex v), r)
  | _ -> failwith ("cannot parse state: " ^ String.concat " " t)

let show_st (s : storage) : string =
  match s with
  | SNone -> "N"
  | SEnum (v, d) -> Printf.sprintf "E %s %d%s" (hex_of_str v) (List.length d) (String.concat "" (List.map (fun x -> " " ^ hex_of_str x) d))
  | SIRange (v, mn, mx, c1, c2) -> Printf.sprintf "I %s %s %s %s %s" (dec_of_z v) (dec_of_z mn) (dec_of_z mx) (scmp c1) (scmp c2)
  | SFRange (v, mn, mx, c1, c2) -> Printf.sprintf "F %s %s %s %s %s" (sfl v) (sfl mn) (sfl mx) (scmp c1) (scmp c2)
  | SIPair (a, b, mn, mx, c1, c2, c3) ->
    Printf.sprintf "IP %s %s %s %s %s %s %s" (dec_of_z a) (dec_of_z b) (dec_of_z mn) (dec_of_z mx) (scmp c1) (scmp c2) (scmp c3)
  | SFPair (a, b, mn, mx, c1, c2, c3) ->
    Printf.sprintf "FP %s %s %s %s %s %s %s" (sfl a) (sfl b) (sfl mn) (sfl mx) (scmp c1) (scmp c2) (scmp c3)
  | SString v -> "S " ^ hex_of_str v

let zeq a b = Int64.equal (i64_of_z a) (i64_of_z b)
let seq (a : z list) (b : z list) = List.length a = List.length b && List.for_all2 zeq a b
let st_eq (a : storage) (b : storage) : bool =
  match a, b with
  | SNone, SNone -> true
  | SEnum (v, d), SEnum (v', d') -> seq v v' && List.length d = List.length d' && List.for_all2 seq d d'
  | SIRange (v, mn, mx, c1, c2), SIRange (v', mn', mx', c1', c2') -> zeq v v' && zeq mn mn' && zeq mx mx' && c1 = c1' && c2 = c2'
  | SFRange (v, mn, mx, c1, c2), SFRange (v', mn', mx', c1', c2') -> feq v v' && feq mn mn' && feq mx mx' && c1 = c1' && c2 = c2'
  | SIPair (a1, b1, mn, mx, c1, c2, c3), SIPair (a2, b2, mn', mx', c1', c2', c3') ->
    zeq a1 a2 && zeq b1 b2 && zeq mn mn' && zeq mx mx' && c1 = c1' && c2 = c2' && c3 = c3'
  | SFPair (a1, b1, mn, mx, c1, c2, c3), SFPair (a2, b2, mn', mx', c1', c2', c3') ->
    feq a1 a2 && feq b1 b2 && feq mn mn' && feq mx mx' && c1 = c1' && c2 = c2' && c3 = c3'
  | SString v, SString v' -> seq v v'
  | _, _ -> false

let words s = List.filter (fun t -> t <> "") (String.split_on_char ' ' s)

(* ---- assignments -------------------------------------------------------------------------------- *)
(* parse "SETI 5 ub=0" style left-hand sides into the model argument and the harness' ub flag *)
let parse_set (t : string list) : (arg * bool) option =
  let ubf s = s = "ub=1" in
  match t with
  | ["SETI"; v; u] -> Some (AInt (z_of_dec v), ubf u)
  | ["SETD"; v; u] -> Some (AFlt (fl v), ubf u)
  | ["SETIP"; a; b; u] | ["SETIP32"; a; b; u] -> Some (AIPair (z_of_dec a, z_of_dec b), ubf u)
  | ["SETFP"; a; b; u] -> Some (AFPair (fl a, fl b), ubf u)
  | ["SETS"; s; _; _; d0; d1; d2; u] -> Some (AStr (str_of_hex s, ofl d0, ofl d1, ofl d2), ubf u)
  | ["SETE"; s; u] -> Some (AEnum (str_of_hex s), ubf u)
  | ["WR"; n; u] -> Some (AWriteRead (str_of_hex n), ubf u)
  | _ -> None

let show_rres (r : rres) : string =
  match r with
  | RI z -> dec_of_z z
  | RF f -> sfl f
  | RIP (a, b) -> dec_of_z a ^ " " ^ dec_of_z b
  | RFP (a, b) -> sfl a ^ " " ^ sfl b
  | RS s -> hex_of_str s
  | RThrow -> "THROW"
  | RUB -> "SKIPUB"

(* compare a read result with the implementation's text *)
let rres_matches (r : rres) (txt : string) : bool =
  match r, words txt with
  | RI z, [a] when a <> "THROW" && a <> "SKIPUB" -> (try zeq z (z_of_dec a) with _ -> false)
  | RF f, [a] when a <> "THROW" && a <> "SKIPUB" -> (try feq f (fl a) with _ -> false)
  | RIP (x, y), [a; b] -> (try zeq x (z_of_dec a) && zeq y (z_of_dec b) with _ -> false)
  | RFP (x, y), [a; b] -> (try feq x (fl a) && feq y (fl b) with _ -> false)
  | RS s, [a] when a <> "THROW" && a <> "SKIPUB" -> hex_of_str s = a
  | RThrow, ["THROW"] -> true
  | RUB, ["SKIPUB"] -> true
  | _, _ -> false

let reader (name : string) : (storage -> rres) option =
  match name with
  | "RDI" -> Some read_i64 | "RDF" -> Some read_f64 | "RDIP" -> Some read_ip | "RDFP" -> Some read_fp
  | "RDS" -> Some read_str | "RDE" -> Some read_enum | _ -> None

(* the split the harness computed independently must be the model's split_pair *)
let check_split line (t : string list) =
  match t with
  | "SETS" :: s :: t1 :: t2 :: _ ->
    let (m1, m2) = split_pair (str_of_hex s) in
    incr total;
    if hex_of_str m1 <> t1 || hex_of_str m2 <> t2 then report line (Printf.sprintf "split_pair = (%s, %s)" (hex_of_str m1) (hex_of_str m2))
  | _ -> ()

(* ---- configurables ------------------------------------------------------------------------------ *)
let show_cfg (c : param list) : string =
  if c = [] then "." else String.concat " ; " (List.map (fun p -> hex_of_str p.pname ^ " " ^ show_st p.pstore) c)

let parse_cfg (s : string) : param list =
  if trim s = "." then []
  else List.map (fun part -> match words part with
      | n :: r -> let (st, _) = parse_st r in { pname = str_of_hex n; pstore = st }
      | [] -> failwith "empty parameter") (split_str " ; " s)

let cfg_eq (a : param list) (b : param list) =
  List.length a = List.length b && List.for_all2 (fun p q -> seq p.pname q.pname && st_eq p.pstore q.pstore) a b

let rec set_nth l i x = match l with [] -> [] | y :: r -> if i = 0 then x :: r else y :: set_nth r (i - 1) x

(* ---- stage FACTTAB: the table regenerated from the source vs the compiled library -------------------- *)
let ascii_of_str (s : z list) : string = String.concat "" (List.map (fun c -> String.make 1 (Char.chr ((int_of_z c) land 255))) s)
let ascii_of_hex (h : string) : string = ascii_of_str (str_of_hex h)
let tab_fail = ref 0
let facttab_checked = ref 0
let facttab_objects = ref 0
let facttab_params = ref 0
let facttab_noparam = ref 0
let reached : (string, bool) Hashtbl.t = Hashtbl.create 64

(* strip namespaces and blanks from a demangled class name: nano::base_solver_gs_t<nano::gsample::fixed_sampler_t, ...> *)
let norm_class (s : string) : string =
  let s = Str.global_replace (Str.regexp "[A-Za-z_][A-Za-z_0-9]*::") "" s in
  Str.global_replace (Str.regexp " ") "" s

let table_checks () =
  List.iteri (fun i (((file, line), st), ok) ->
      incr total;
      if not ok then begin
        incr tab_fail; incr mism;
        Printf.printf "TABFAIL PARAM %d %s:%s %s\n" i (ascii_of_str file) (dec_of_z line)
          (match st with Some s -> show_st s | None -> "CAST-UB (an argument does not convert into int64: static_cast is undefined)")
      end) param_table;
  List.iteri (fun i ((((label, _), _), cfg), ok) ->
      incr total;
      if not ok then begin
        incr tab_fail; incr mism;
        (* locate the first statement of the constructor chain that throws *)
        let where = (match List.nth object_ops_table i with
            | None -> "an entry has no storage (cast UB / unknown record)"
            | Some ops ->
              let rec go c k = function
                | [] -> Printf.sprintf "all %d statements succeed but the number of parameters differs from the number of registrations" k
                | o :: r -> (match cstep c o with
                    | COk c' -> go c' (k + 1) r
                    | _ -> Printf.sprintf "statement %d of the constructor chain throws (%s) after %s" k
                             (match o with CRegister (n, st) -> "register " ^ ascii_of_str n ^ " " ^ show_st st
                                         | CAssign (n, _) -> "assignment to " ^ ascii_of_str n) (show_cfg c)) in
              go [] 0 ops) in
        Printf.printf "TABFAIL OBJECT %d %s :: %s\n" i (ascii_of_str label) where
      end) object_table;
  List.iteri (fun i (((file, line), name), ok) ->
      incr total;
      if not ok then begin
        incr tab_fail; incr mism;
        Printf.printf "TABFAIL USE %d %s:%s %s\n" i (ascii_of_str file) (dec_of_z line) (ascii_of_str name)
      end) use_table

(* ---- stage CLONETAB: the clone table regenerated from the source vs the compiled library ---------------- *)
let clone_fail = ref 0
let clonetab_lines = ref 0
let clonetab_comps = ref 0
let clone_reached : (string, bool) Hashtbl.t = Hashtbl.create 64
let chars_of_string (s : string) : char list = List.init (String.length s) (String.get s)
let string_of_chars (l : char list) : string = String.concat "" (List.map (String.make 1) l)
let key_of_class (s : string) : string =
  let s = norm_class s in match String.index_opt s '<' with Some k -> String.sub s 0 k | None -> s

let clone_table_checks () =
  List.iteri (fun i (((((file, line), cls), key), this), ok) ->
      incr total;
      if not (this && ok) then begin
        incr clone_fail; incr mism;
        Printf.printf "TABFAIL CLONE %d %s:%s %s :: %s\n" i (ascii_of_str file) (dec_of_z line) (ascii_of_str cls)
          (if not this then "clone() does not return std::make_unique<own class>(*this) (C19_clones_copy_this fails for this record)"
           else "a copy constructor along the class chain of " ^ ascii_of_str key ^ " does not hand `other` to its bases or does not deep-clone an owning member (class_clone_ok false)")
      end) clone_table;
  List.iteri (fun i ((((name, file), line), complete), memberwise) ->
      incr total;
      if not (complete && memberwise) then begin
        incr clone_fail; incr mism;
        Printf.printf "TABFAIL COPYCTOR %d %s:%s %s :: %s\n" i (ascii_of_str file) (dec_of_z line) (ascii_of_str name)
          (if not complete then "the user-written copy constructor does not copy / deep-clone every data member, does not pass `other` to every base, has another initialiser or a non-empty body (C19_copy_ctors_complete fails)"
           else "a member-wise copy of this class is ill-formed or aliases mutable state: owning pointer without user-written copy constructor, raw pointer / reference to non-const / shared_ptr member, or deleted copy (C19_copies_no_aliasing fails)")
      end) class_table

(* `<clshex> <cfg> [## <memberhex> <clshex> <cfg>]*` *)
let parse_node (s : string) : string * param list =
  match words s with
  | c :: rest -> (key_of_class (ascii_of_hex c), parse_cfg (String.concat " " rest))
  | [] -> failwith "empty object"
let parse_tree (s : string) : obj =
  match split_str " ## " s with
  | root :: comps ->
    let (cls, cfg) = parse_node root in
    Obj (chars_of_string cls, cfg,
         List.map (fun c -> match words c with
             | m :: rest -> let (ccls, ccfg) = parse_node (String.concat " " rest) in
               incr clonetab_comps;
               (chars_of_string (ascii_of_hex m), Obj (chars_of_string ccls, ccfg, []))
             | [] -> failwith "empty component") comps)
  | [] -> failwith "empty tree"
let rec show_tree (o : obj) : string = match o with
  | Obj (cls, cfg, comps) ->
    string_of_chars cls ^ " {" ^ String.concat "; " (List.map (fun p -> ascii_of_str p.pname ^ " " ^ show_st p.pstore) cfg) ^ "}" ^
    String.concat "" (List.map (fun (m, c) -> " ## " ^ string_of_chars m ^ " = " ^ show_tree c) comps)
let rec tree_eq (a : obj) (b : obj) : bool = match a, b with
  | Obj (c1, f1, l1), Obj (c2, f2, l2) ->
    c1 = c2 && cfg_eq f1 f2 && List.length l1 = List.length l2 && List.for_all2 (fun (m1, o1) (m2, o2) -> m1 = m2 && tree_eq o1 o2) l1 l2
let rec mark_reached (o : obj) = match o with
  | Obj (cls, _, comps) -> Hashtbl.replace clone_reached (string_of_chars cls) true; List.iter (fun (_, c) -> mark_reached c) comps

let clonetab_object (line : string) (fname : string) (idhex : string) (orig : string) (clone : string) =
  incr clonetab_lines; incr total;
  let o = parse_tree orig and c = parse_tree clone in
  mark_reached o;
  let id = ascii_of_hex idhex in
  if not (src_shaped o) then begin
    incr mism; Printf.printf "MISMATCH CLONETAB %s %s // the clone table regenerated from the source has no clone() record for the dynamic class of this object (or of one of its components), or the component does not hang on an owning member of its class chain: %s\n" fname id (show_tree o) end
  else match src_oclone o with
    | None -> incr mism; Printf.printf "MISMATCH CLONETAB %s %s // source table: clone() of this object is not a copy of itself (see TABFAIL CLONE / COPYCTOR); object: %s // library clone: %s\n" fname id (show_tree o) (show_tree c)
    | Some m ->
      if not (tree_eq m c) then begin
        incr mism; Printf.printf "MISMATCH CLONETAB %s %s // object: %s // clone by the source table: %s // clone by the library: %s\n" fname id (show_tree o) (show_tree m) (show_tree c) end

let defaults_buf : (z list * storage) list ref = ref []

let facttab_object (line : string) (fname : string) (idhex : string) (clshex : string) =
  let got = List.rev !defaults_buf in
  defaults_buf := [];
  incr facttab_objects;
  let cls = norm_class (ascii_of_hex clshex) in
  let id = ascii_of_hex idhex in
  let found = List.filter (fun ((((_, key), _), _), _) -> ascii_of_str key = cls) object_table in
  let found = if found <> [] then found else
      (* template class registered under its own name (no alias instance in the table) *)
      List.filter (fun ((((_, key), _), _), _) -> ascii_of_str key = (match String.index_opt cls '<' with Some k -> String.sub cls 0 k | None -> cls)) object_table in
  match found with
  | [] ->
    if got = [] then incr facttab_noparam
    else begin incr mism; Printf.printf "MISMATCH FACTTAB %s %s class=%s // the table regenerated from the source has no constructor chain for this class, the library registers: %s\n"
        fname id cls (show_cfg (List.map (fun (n, s) -> { pname = n; pstore = s }) got)) end
  | ((((label, _), tid), cfg), _) :: _ ->
    Hashtbl.replace reached (ascii_of_str label) true;
    incr total; incr facttab_checked;
    facttab_params := !facttab_params + List.length got;
    let impl = List.map (fun (n, s) -> { pname = n; pstore = s }) got in
    (match cfg with
     | None -> incr mism; Printf.printf "MISMATCH FACTTAB %s %s class=%s // source table: the constructor chain of %s does not complete (see TABFAIL), the library registers: %s\n"
                 fname id cls (ascii_of_str label) (show_cfg impl)
     | Some c ->
       if not (cfg_eq c impl) then begin
         incr mism;
         (* first differing position *)
         let rec first k a b = match a, b with
           | p :: a', q :: b' -> if seq p.pname q.pname && st_eq p.pstore q.pstore then first (k + 1) a' b'
             else Printf.sprintf "position %d: source %s %s | library %s %s" k (ascii_of_str p.pname) (show_st p.pstore) (ascii_of_str q.pname) (show_st q.pstore)
           | p :: _, [] -> Printf.sprintf "position %d: source %s %s | library has no further parameter" k (ascii_of_str p.pname) (show_st p.pstore)
           | [], q :: _ -> Printf.sprintf "position %d: source has no further parameter | library %s %s" k (ascii_of_str q.pname) (show_st q.pstore)
           | [], [] -> "" in
         Printf.printf "MISMATCH FACTTAB %s %s class=%s // %s // source: %s // library: %s\n" fname id cls (first 0 c impl) (show_cfg c) (show_cfg impl)
       end);
    let t = ascii_of_str tid in
    if t <> "" && t <> id then begin
      incr mism; Printf.printf "MISMATCH FACTTAB %s %s class=%s // type id in the source table: %s\n" fname id cls t end

(* ---- main loop ---------------------------------------------------------------------------------- *)
let cur : storage option ref = ref None
let objs : param list list ref = ref []
let pending : (int * z list * storage * bool) option ref = ref None   (* object, name, spec, constructed *)
let resync = ref false

let handle_set line (lhs : string list) (rhs : string) (s : storage) : storage =
  (* returns the state to continue from (the implementation's, so that one mismatch is reported once) *)
  match parse_set lhs, split_str " | " rhs with
  | Some (a, ubflag), [flag; st] ->
    check_split line lhs;
    let impl = if trim st = "-" then s else fst (parse_st (words st)) in
    incr total;
    (match step s a with
     | UB -> report line "UB in the model (unreachable since fix 0c6dfeb: proved in C19_nonconvertible_rejected)"; impl
     | r ->
       if ubflag then report line "defined in the model, harness flags undefined behaviour";
       let (mflag, mst) = (match r with Ok s' -> ("OK", s') | _ -> ("THROW", s)) in
       if trim flag <> mflag || not (st_eq mst impl) then report line (mflag ^ " | " ^ show_st mst);
       impl)
  | _, _ -> report line "unparsable assignment line"; s

let () =
  table_checks ();
  clone_table_checks ();
  (try
    while true do
      let line = input_line stdin in
      (try
        match split_str " = " line with
        | lhs :: rest when rest <> [] ->
          let rhs = String.concat " = " rest in
          let lw = words lhs in
          (match lw with
           | "MAKE" :: spec ->
             let (sp, _) = parse_st spec in
             incr total;
             (match make sp, words rhs with
              | Ok s', "OK" :: st -> let (impl, _) = parse_st st in
                if not (st_eq s' impl) then report line ("OK " ^ show_st s'); cur := Some impl
              | Ok s', _ -> report line ("OK " ^ show_st s'); cur := None
              | _, "OK" :: st -> report line "THROW"; cur := Some (fst (parse_st st))
              | _, _ -> cur := None)
           | ("SETI" | "SETD" | "SETIP" | "SETIP32" | "SETFP" | "SETS" | "SETE" | "WR") :: _ ->
             (match !cur with
              | Some s -> cur := Some (handle_set line lw rhs s)
              | None -> report line "assignment without a constructed parameter")
           | [("RDI" | "RDF" | "RDIP" | "RDFP" | "RDS" | "RDE") as rn] ->
             (match !cur, reader rn with
              | Some s, Some rd -> incr total; let r = rd s in
                (match r with RUB -> incr ubs | _ -> ());
                if not (rres_matches r rhs) then report line (show_rres r)
              | _, _ -> report line "read without a constructed parameter")
           | "CFG" :: o :: "REG" :: name :: "MK" :: spec ->
             let (sp, _) = parse_st spec in
             let made = (match words rhs with "OK" :: _ -> true | _ -> false) in
             incr total;
             (match make sp, made with
              | Ok s', true -> (match words rhs with _ :: st -> if not (st_eq s' (fst (parse_st st))) then report line ("OK " ^ show_st s') | _ -> ())
              | Ok s', false -> report line ("OK " ^ show_st s')
              | _, true -> report line "THROW"
              | _, false -> ());
             pending := Some (int_of_string o, str_of_hex name, sp, made)
           | ["CFG"; o; "REGD"] ->
             let oi = int_of_string o in
             (match !pending, split_str " | " rhs with
              | Some (po, name, sp, _), [flag; cs] when po = oi ->
                let c = List.nth !objs oi in
                incr total;
                let (mflag, mc) = (match cstep c (CRegister (name, sp)) with COk c' -> ("OK", c') | _ -> ("THROW", c)) in
                let impl = parse_cfg cs in
                if trim flag <> mflag || not (cfg_eq mc impl) then report line (mflag ^ " | " ^ show_cfg mc);
                objs := set_nth !objs oi impl
              | _, _ -> report line "registration without its MK line");
             pending := None
           | "CFG" :: o :: "SET" :: name :: setop ->
             let oi = int_of_string o in
             let c = List.nth !objs oi in
             let nm = str_of_hex name in
             (match parse_set setop, split_str " | " rhs with
              | Some (a, ubflag), [flag; st] ->
                incr total;
                check_split line setop;
                (match cassign c nm a with
                 | CUB -> resync := true; report line "UB in the model (unreachable since fix 0c6dfeb)"
                 | r ->
                   if ubflag then report line "defined in the model, harness flags undefined behaviour";
                   let (mflag, mc) = (match r with COk c' -> ("OK", c') | _ -> ("THROW", c)) in
                   if trim flag <> mflag then report line mflag;
                   (* the target's state on this line, the whole object on the following STATE line *)
                   (if trim st <> "-" then
                      let impl = fst (parse_st (words st)) in
                      match List.filter (fun p -> seq p.pname nm) mc with
                      | p :: _ -> if not (st_eq p.pstore impl) then report line (mflag ^ " | " ^ show_st p.pstore)
                      | [] -> report line "unknown name in the model");
                   objs := set_nth !objs oi mc)
              | _, _ -> report line "unparsable CFG SET line")
           | ["CFG"; o; "STATE"] ->
             let oi = int_of_string o in
             let impl = parse_cfg rhs in
             incr total;
             (* after an operation whose conversion is undefined the model has no prediction: continue from the implementation *)
             if not !resync && not (cfg_eq (List.nth !objs oi) impl) then report line (show_cfg (List.nth !objs oi));
             resync := false;
             objs := set_nth !objs oi impl
           | ["CFG"; o; "GET"; name; rn] ->
             let c = List.nth !objs (int_of_string o) in
             (match reader rn with
              | Some rd -> incr total; let r = cread c (str_of_hex name) rd in
                (match r with RUB -> incr ubs | _ -> ());
                if not (rres_matches r rhs) then report line (show_rres r)
              | None -> report line "unknown read")
           | ["CFG"; o; "CLONE"] ->
             let oi = int_of_string o in
             (match split_str " | " rhs with
              | [n; cs] ->
                incr total;
                let st' = sclone !objs (nat_of_int oi) in
                let impl = parse_cfg cs in
                if List.length st' <> int_of_string (trim n) + 1 || not (cfg_eq (List.nth st' (List.length st' - 1)) impl)
                then report line (show_cfg (List.nth !objs oi));
                objs := !objs @ [impl]
              | _ -> report line "unparsable CLONE line")
           | ["CFG"; o; "CWR"] ->
             (* write+read of every parameter: decode (encode p) in the model *)
             let c = List.nth !objs (int_of_string o) in
             incr total;
             let mc = List.map (fun p -> match decode (encode p.pname p.pstore) with
                 | Some (n, s) -> { pname = n; pstore = s } | None -> { pname = []; pstore = SNone }) c in
             if not (cfg_eq mc (parse_cfg rhs)) then report line (show_cfg mc)
           | ["CFG"; "ALL"] ->
             let impl = List.map parse_cfg (split_str " || " rhs) in
             incr total;
             if List.length impl <> List.length !objs || not (List.for_all2 cfg_eq !objs impl)
             then report line (String.concat " || " (List.map show_cfg !objs))
           | _ -> ())
        | _ ->
          (match words line with
           | ["CFG"; "NEW"] -> objs := [[]]; pending := None
           | "DEFAULT" :: _ :: _ :: _ :: st ->
             (* every default registered by a real object is a parameter the model's construction accepts unchanged *)
             let (s, _) = parse_st st in
             incr total;
             (match words line with _ :: _ :: _ :: nm :: _ -> defaults_buf := (str_of_hex nm, s) :: !defaults_buf | _ -> ());
             (match make s with
              | Ok s' when st_eq s s' -> ()
              | Ok s' -> propfail line ("construction in the model gives " ^ show_st s')
              | _ -> propfail line "default value is outside the declared domain (model construction throws)")
           | ["FACT"; fname; idhex; _; cls] when String.length cls > 4 && String.sub cls 0 4 = "cls=" ->
             facttab_object line fname idhex (String.sub cls 4 (String.length cls - 4))
           | "FACT" :: _ -> defaults_buf := []
           | "CLONED" :: fname :: idhex :: "::" :: _ ->
             (match split_str " :: " line with
              | [_; orig; clone] -> clonetab_object line fname idhex orig clone
              | _ -> report line "unparsable CLONED line")
           | _ -> ())
      with
      | End_of_file -> raise End_of_file
      | ex -> report line ("driver exception " ^ Printexc.to_string ex))
    done
  with End_of_file -> ());
  List.iter (fun ((((label, _), _), _), _) ->
      if not (Hashtbl.mem reached (ascii_of_str label)) then Printf.printf "FACTTAB-UNREACHED %s\n" (ascii_of_str label)) object_table;
  Printf.printf "FACTTAB-DONE objects=%d matched=%d params=%d without_parameters_and_not_in_table=%d table_params=%d table_objects=%d table_uses=%d tabfail=%d\n"
    !facttab_objects !facttab_checked !facttab_params !facttab_noparam (List.length param_table) (List.length object_table) (List.length use_table) !tab_fail;
  List.iter (fun (((((_, _), _), key), _), _) ->
      if not (Hashtbl.mem clone_reached (ascii_of_str key)) then Printf.printf "CLONETAB-UNREACHED %s\n" (ascii_of_str key)) clone_table;
  Printf.printf "CLONETAB-DONE cloned_objects=%d components=%d clone_records=%d classes=%d tabfail=%d\n"
    !clonetab_lines !clonetab_comps (List.length clone_table) (List.length class_table) !clone_fail;
  Printf.printf "MODEL-DONE checked=%d mismatches=%d ub=%d\n" !total !mism !ubs
