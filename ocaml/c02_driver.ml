(* C02 / C01 driver: reads the lines of harness/c02_solver.cpp on stdin and
   (a) replays every client op sequence (S lines) on the extracted value model of solver_state_t, comparing the
       result of each operation and the observable state bit for bit;
   (b) replays every solver run (RUN/EV/AL/RET/END) on the extracted trace acceptor: each done() event must be the
       decision the model derives, the returned state must be the snapshot the solver's return shape designates,
       for line-search solvers the `converged` flag must be gradient_test(snapshot) < epsilon recomputed here;
   (c) applies the executable mirrors of the theorems to what the implementation returned (PROPFAIL).
   Output: MISMATCH / PROPFAIL lines and a final MODEL-DONE line. *)
let tf = Float64.to_float
let ff = Float64.of_float
let fl s = ff (float_of_string (trim s))
let flist s = let s = trim s in if s = "-" || s = "" then [] else List.map fl (split_on ',' s)
let bits x = Int64.bits_of_float (tf x)
let same a b = (Float.is_nan (tf a) && Float.is_nan (tf b)) || Int64.equal (bits a) (bits b)
let same_list a b = List.length a = List.length b && List.for_all2 same a b
let hex x = let x = tf x in if Float.is_nan x then "nan" else Printf.sprintf "%h" x
let hexl l = if l = [] then "-" else String.concat "," (List.map hex l)
let has_nan l = List.exists (fun v -> Float.is_nan (tf v)) l
let b01 s = trim s = "1"
let zi s = z_of_int (int_of_string (trim s))

let mism = ref 0
let propfail = ref 0
let checked = ref 0
let seq_ops = ref 0
let runs = ref 0
let events = ref 0
let ambiguous = ref 0
let accepted = ref 0

let report fmt = incr mism; Printf.printf ("MISMATCH " ^^ fmt ^^ "\n")
let preport fmt = incr propfail; Printf.printf ("PROPFAIL " ^^ fmt ^^ "\n")

(* ---------------------------------------------------------------------------------------------- *)
(* (a) op sequences                                                                               *)
(* ---------------------------------------------------------------------------------------------- *)
let cur_seq = ref (-1)
let cur_world = ref (init_world [] [] (ff 0.0) true)
let prev_fx = ref (ff 0.0)

let state_str w =
  let s = w.wst in
  Printf.sprintf "%s | %s | %s | %d %d %d %d %d" (hex s.sfx) (hexl s.sx) (hexl s.sgx) (int_of_z s.sstatus)
    (int_of_z s.sfcalls) (int_of_z s.sgcalls) (int_of_z w.wfc) (int_of_z w.wgc)

let handle_seq line =
  incr checked; incr seq_ops;
  match split_str " # " line with
  | [lhs; obs] ->
    (match split_str " = " lhs with
     | [left; res] ->
       let toks = split_on ' ' left in
       let seq = int_of_string (List.nth toks 1) and op = List.nth toks 2 in
       let args = let p = String.length (List.nth toks 0) + String.length (List.nth toks 1) + String.length op + 3 in
         if p >= String.length left then "" else String.sub left p (String.length left - p) in
       let parts = List.map trim (split_str " | " args) in
       let w = !cur_world in
       let bres r = if r then "1" else "0" in
       let (w', mres) =
         match op, parts with
         | "I", [x; g; f] -> cur_seq := seq; (init_world (flist x) (flist g) (fl f) true, "-")
         | "E", [wg] -> let (w', _) = step w (OEval (b01 wg)) in (w', "-")
         | "C", _ -> let (w', _) = step w OCalls in (w', "-")
         | "U", [x; g; f] -> let (w', r) = step w (OUpdate (flist x, flist g, fl f)) in (w', bres r)
         | "V", [x; g; f] -> let (w1, _) = step w (OEval true) in
           let (w', r) = step w1 (OUpdate (flist x, flist g, fl f)) in (w', bres r)
         | "B", [x; g; f] -> let (w', r) = step w (OBetter3 (flist x, flist g, fl f)) in (w', bres r)
         | "b", [x; f] -> let (w', r) = step w (OBetter2 (flist x, fl f)) in (w', bres r)
         | "T", [p] -> (w, hex (value_test w.wst (zi p)))
         | "G", _ -> if has_nan w.wst.sgx then (incr ambiguous; (w, "ambiguous")) else (w, hex (gradient_test w.wst))
         | "K", _ -> (w, bres (valid w.wst))
         | "D", [ic] -> (match split_on ' ' ic with
             | [i; c] -> let (w', r) = step w (ODone (b01 i, b01 c)) in (w', bres r)
             | _ -> (w, "?"))
         | _ -> (w, "?") in
       if seq <> !cur_seq then report "SEQ %d line without an initial state: %s" seq line
       else begin
         cur_world := w';
         let res = trim res in
         (* executable mirrors of C02_value_test_spec / C02_done_decision (kernel-free references) on the
            implementation's own answers; C02_counts for the function counters *)
         (match op, parts with
          | "T", [p] ->
            let rv = value_test_ref w.wst (zi p) in
            if not (try same (fl res) rv with _ -> false) then
              preport "value-test-spec: value_test(%s) = %s but the specification gives %s: %s" p res (hex rv) line
          | "D", [ic] ->
            (match split_on ' ' ic with
             | [i; c] ->
               (* the state's counters are refreshed first; validity does not depend on them *)
               let (rr, rst) = done_ref w.wst (b01 i) (b01 c) in
               let ost = (match split_str " | " (trim obs) with
                          | [_; _; _; tail] -> (match List.filter (fun t -> t <> "") (split_on ' ' tail) with st :: _ -> int_of_string st | [] -> -1)
                          | _ -> -1) in
               if bres rr <> res || int_of_z rst <> ost then
                 preport "done-decision: done(iter_ok=%s, converged=%s) returned %s with status %d, the specification gives %s with status %d: %s"
                   i c res ost (bres rr) (int_of_z rst) line
             | _ -> ())
          | "E", [wg] ->
            (match split_str " | " (trim obs) with
             | [_; _; _; tail] ->
               (match List.filter (fun t -> t <> "") (split_on ' ' tail) with
                | [_; _; _; ffc; fgc] ->
                  if int_of_string ffc <> int_of_z w.wfc + 1 || int_of_string fgc <> int_of_z w.wgc + (if b01 wg then 1 else 0) then
                    preport "counts: function counters after an evaluation (with gradient: %s) are %s|%s, expected %d|%d: %s" wg ffc fgc
                      (int_of_z w.wfc + 1) (int_of_z w.wgc + (if b01 wg then 1 else 0)) line
                | _ -> ())
             | _ -> ())
          | _ -> ());
         let res_ok = mres = "ambiguous" || mres = res ||
                      ((op = "T" || op = "G") && (try same (fl res) (fl mres) with _ -> false)) in
         let ostr = trim obs in
         (* compare the observable state field by field *)
         let obs_ok =
           match split_str " | " ostr with
           | [fx; x; gx; tail] ->
             (match List.filter (fun t -> t <> "") (split_on ' ' tail) with
              | [st; fc; gc; ffc; fgc] ->
                let s = w'.wst in
                same (fl fx) s.sfx && same_list (flist x) s.sx && same_list (flist gx) s.sgx &&
                int_of_string st = int_of_z s.sstatus && int_of_string fc = int_of_z s.sfcalls &&
                int_of_string gc = int_of_z s.sgcalls && int_of_string ffc = int_of_z w'.wfc &&
                int_of_string fgc = int_of_z w'.wgc
              | _ -> false)
           | _ -> false in
         if not (res_ok && obs_ok) then
           report "SEQ %s // model: %s # %s" line mres (state_str w');
         (* executable mirror of C02_monotone_best on the implementation's own observations *)
         (match split_str " | " ostr with
          | fx :: _ ->
            let fx = fl fx in
            if (op = "B" || op = "b") then begin
              let p = tf !prev_fx and c = tf fx in
              if Float.is_finite p && not (Float.is_finite c && c <= p) then
                preport "monotone-best: update_if_better moved the best value from %s to %s: %s" (hex !prev_fx) (hex fx) line;
              if res = "1" && Float.is_finite p && not (c < p) then
                preport "monotone-best: update_if_better returned true without a strict decrease: %s" line
            end;
            prev_fx := fx
          | _ -> ())
       end
     | _ -> report "SEQ unparsable: %s" line)
  | _ -> report "SEQ unparsable: %s" line

(* ---------------------------------------------------------------------------------------------- *)
(* (b) solver runs                                                                                *)
(* ---------------------------------------------------------------------------------------------- *)
type runinfo = { rid : int; solver : string; kind : kind; typ : string; eps : Float64.t; header : string }
let cur_run = ref None
let cur_events = ref ([] : event list)      (* level 0, reversed *)
let cur_ret = ref None
let cur_al = ref None
let run_bad = ref false

let kv header key =
  let toks = split_on ' ' header in
  let pre = key ^ "=" in
  let n = String.length pre in
  match List.filter (fun t -> String.length t >= n && String.sub t 0 n = pre) toks with
  | t :: _ -> String.sub t n (String.length t - n)
  | [] -> ""

let mk_state fx x gx fin st fc gc =
  { sx = x; sfx = fx; sgx = gx; scfin = fin; sstatus = st; sfcalls = fc; sgcalls = gc; shist = [] }

let handle_run line =
  let toks = split_on ' ' line in
  let rid = int_of_string (List.nth toks 1) in
  let k = match kv line "kind" with "gd" -> KGd | "ls" -> KLs | "loose" -> KLoose | _ -> KTight in
  cur_run := Some { rid; solver = kv line "solver"; kind = k; typ = kv line "type"; eps = fl (kv line "eps"); header = line };
  cur_events := []; cur_ret := None; cur_al := None; run_bad := false;
  incr runs

let handle_ev line =
  incr events; incr checked;
  match !cur_run, split_str " | " line with
  | Some ri, [head; x; gx] ->
    (match List.filter (fun t -> t <> "") (split_on ' ' head) with
     | [_; _; level; iter_ok; conv; ret; st; fc; gc; ffc; fgc; st'; fc'; gc'; same; fin; fx] ->
       let s = mk_state (fl fx) (flist x) (flist gx) (b01 fin) (zi st) (zi fc) (zi gc) in
       let e = { ev_s = s; ev_iter_ok = b01 iter_ok; ev_conv = b01 conv; ev_fc = zi ffc; ev_gc = zi fgc; ev_ret = b01 ret;
                 ev_status' = zi st'; ev_fcalls' = zi fc'; ev_gcalls' = zi gc'; ev_same = b01 same } in
       (let (rr, rst) = done_ref s e.ev_iter_ok e.ev_conv in
        if rr <> e.ev_ret || int_of_z rst <> int_of_z e.ev_status' then
          preport "done-decision: RUN %d (%s) done() returned %b with status %d, the specification gives %b with status %d: %s"
            ri.rid ri.solver e.ev_ret (int_of_z e.ev_status') rr (int_of_z rst) line);
       if not (event_ok e) then begin
         run_bad := true;
         let (s', r) = done_step s e.ev_fc e.ev_gc e.ev_iter_ok e.ev_conv in
         report "RUN %d (%s) done() event differs from the model's decision: %s // model: ret=%b status=%d fcalls=%d gcalls=%d valid=%b"
           ri.rid ri.solver line r (int_of_z s'.sstatus) (int_of_z s'.sfcalls) (int_of_z s'.sgcalls) (valid s)
       end;
       if trim level = "0" then begin
         (match !cur_al with
          | Some (crit, eps, aio, aconv) ->
            if aio <> e.ev_iter_ok || aconv <> e.ev_conv || (aconv && not (tf crit <= tf eps)) then begin
              run_bad := true;
              report "RUN %d (%s) augmented-lagrangian outer event inconsistent with the done() arguments: %s" ri.rid ri.solver line
            end;
            cur_al := None
          | None -> ());
         cur_events := e :: !cur_events
       end
     | _ -> report "EV unparsable: %s" line)
  | _ -> report "EV unparsable or outside a run: %s" line

let handle_al line =
  match List.filter (fun t -> t <> "") (split_on ' ' line) with
  | [_; _; crit; _; _; eps; io; conv; _] -> cur_al := Some (fl crit, fl eps, b01 io, b01 conv)
  | _ -> report "AL unparsable: %s" line

let handle_ret line =
  match split_str " | " line with
  | [head; x; gx] ->
    (match List.filter (fun t -> t <> "") (split_on ' ' head) with
     | [_; _; st; fc; gc; _; fx] -> cur_ret := Some (mk_state (fl fx) (flist x) (flist gx) true (zi st) (zi fc) (zi gc), line)
     | _ -> report "RET unparsable: %s" line)
  | _ -> report "RET unparsable: %s" line

let handle_end () =
  incr checked;
  match !cur_run, !cur_ret with
  | Some ri, Some (r, rline) ->
    let evs = List.rev !cur_events in
    let a1 = accept_first ri.kind evs and a2 = accept_events ri.kind ri.eps sT_MAX_ITERS evs and a3 = accept_return ri.kind evs r in
    if a1 && a2 && a3 && not !run_bad then incr accepted
    else if not (a1 && a2 && a3) then begin
      (* locate the first offending event for the replay *)
      let rec first_bad i = function
        | [] -> "-"
        | e :: rest ->
          if not (event_ok e) then Printf.sprintf "event %d: decision" i
          else if is_ls ri.kind && not (ls_flag_ok ri.eps e) then
            Printf.sprintf "event %d: converged flag %b but gradient_test(snapshot) = %s, epsilon = %s" i e.ev_conv
              (hex (gradient_test e.ev_s)) (hex ri.eps)
          else if rest <> [] && e.ev_ret then Printf.sprintf "event %d: done() returned true but the solver went on" i
          else first_bad (i + 1) rest in
      report "RUN %d (%s) trace rejected by the acceptor: first=%b events=%b return=%b; %s; nevents=%d; %s // %s" ri.rid ri.solver a1 a2 a3
        (first_bad 0 evs) (List.length evs) rline ri.header
    end;
    (* executable mirrors of the theorems on what the implementation returned *)
    let st = int_of_z r.sstatus in
    if st < 0 || st > 2 then preport "status: RUN %d (%s) returned status %d" ri.rid ri.solver st;
    if st = 1 && not (List.exists (fun e -> e.ev_conv && e.ev_iter_ok && e.ev_ret) evs) then
      preport "status: RUN %d (%s) returned `converged` but no done() call had the converged flag with iter_ok (repo 85997bc)" ri.rid ri.solver;
    if st = 1 && is_ls ri.kind && not (has_nan r.sgx) && not (tf (gradient_test_of r.sgx r.sfx) < tf ri.eps) then
      preport "truthful: RUN %d (%s) returned `converged` with gradient_test = %s >= epsilon = %s // %s" ri.rid ri.solver
        (hex (gradient_test_of r.sgx r.sfx)) (hex ri.eps) rline;
    cur_run := None
  | _ -> ()

let () =
  (try
    while true do
      let line = input_line stdin in
      match String.index_opt line ' ' with
      | None -> ()
      | Some sp ->
        (match String.sub line 0 sp with
         | "S" -> handle_seq line
         | "RUN" -> handle_run line
         | "EV" -> handle_ev line
         | "AL" -> handle_al line
         | "RET" -> handle_ret line
         | "END" -> handle_end ()
         | _ -> ())
    done
  with End_of_file -> ());
  Printf.printf "MODEL-DONE checked=%d mismatches=%d propfail=%d seq_ops=%d runs=%d accepted=%d events=%d ambiguous_skipped=%d\n"
    !checked !mism !propfail !seq_ops !runs !accepted !events !ambiguous
