(* C17 driver: trace acceptor for the thread-pool protocol.
   Reads the scenarios printed by harness/c17_pool.cpp, rebuilds the configuration in the extracted model,
   translates the implementation's linearised hook events to model events and requires the model to accept
   them (modulo the unobservable steps: spurious wake-ups, and the completion of a task, which really
   happens when the promise is set, i.e. possibly before the worker logs DONE).  Then compares what the
   model derives (who ran what, what was dropped, map results, chunk bounds) with what the operators saw.

   FAST stage (extension): ALL traces, whatever their size, are replayed through `stepN` (C17_Fast_Defs: binary
   ids, positional lists, tries), which C17_Fast.v proves to be a refinement of the proved model `step`
   (C17_fast_refines / C17_fast_reachable): an accepted trace is an execution of the proved model.
   LOCKED stage: lock-protected hook events carry the queue length / stop flag read under the verified lock;
   they must equal the model's queue / stop at that step.
   CROSS stage: for scenarios with at most `max_cross_tasks` tasks the accepted event sequence is replayed through
   the unary model `run` as well and the observable parts of the final states are compared (a run-time test of
   the refinement theorem and of the extraction). *)
let max_cross_tasks = 400

let total = ref 0 and mism = ref 0 and accepted = ref 0 and crossed = ref 0 and events_checked = ref 0
let locked_checked = ref 0 and max_tasks = ref 0 and model_steps = ref 0
let bad fmt = Printf.ksprintf (fun s -> incr mism; print_endline ("MISMATCH " ^ s)) fmt

let words s = List.filter (fun x -> x <> "") (String.split_on_char ' ' s)
let ints s = List.map int_of_string (List.filter (fun x -> x <> "") (String.split_on_char ',' s))

(* binary naturals of the extracted model *)
let n_of_int (k : int) : n = if k <= 0 then N0 else Npos (pos_of_int k)
let int_of_n (x : n) : int = match x with N0 -> 0 | Npos p -> int_of_pos p

type scen = {
  mutable id : int; mutable hang : bool; mutable nw : int;
  mutable progs : (string list) list;     (* raw call words per submitter, in order *)
  mutable throws : int list; mutable events : string list; mutable exec : string list;
  mutable results : (int * int * int * string) list;   (* sub, call index, id0, outcome *)
  mutable chunks : (int * int * string list) list;
}

let nat = nat_of_int
let rec range a b = if a >= b then [] else a :: range (a + 1) b
let range_tr a b = let rec go k acc = if k < a then acc else go (k - 1) (k :: acc) in go (b - 1) []

let stage_name = function
  | SReadyN -> "SReady" | SNotifyOneN -> "SNotifyOne" | SNotifyAllN _ -> "SNotifyAll" | SGetN _ -> "SGet"
  | SWaitN _ -> "SWait" | SNotifyStopN -> "SNotifyStop" | SJoinN -> "SJoin"

let event_name = function
  | EPushN s -> Printf.sprintf "EPush %d" (int_of_n s)
  | ENotifyN (s, None) -> Printf.sprintf "ENotify %d None" (int_of_n s)
  | ENotifyN (s, Some w) -> Printf.sprintf "ENotify %d (Some %d)" (int_of_n s) (int_of_n w)
  | EGetN s -> Printf.sprintf "EGet %d" (int_of_n s) | EWaitN s -> Printf.sprintf "EWait %d" (int_of_n s)
  | ECheckN w -> Printf.sprintf "ECheck %d" (int_of_n w) | EFinishN w -> Printf.sprintf "EFinish %d" (int_of_n w)
  | ESpuriousN w -> Printf.sprintf "ESpurious %d" (int_of_n w) | EStopN s -> Printf.sprintf "EStop %d" (int_of_n s)
  | ENotifyStopN s -> Printf.sprintf "ENotifyStop %d" (int_of_n s) | EJoinN s -> Printf.sprintf "EJoin %d" (int_of_n s)

(* the abstraction of C17_Fast.v on events and calls (abs_e, abs_call), for the CROSS stage *)
let un (x : n) : nat = nat (int_of_n x)
let abs_event = function
  | EPushN s -> EPush (un s) | ENotifyN (s, w) -> ENotify (un s, (match w with None -> None | Some w -> Some (un w)))
  | EGetN s -> EGet (un s) | EWaitN s -> EWait (un s) | ECheckN w -> ECheck (un w) | EFinishN w -> EFinish (un w)
  | ESpuriousN w -> ESpurious (un w) | EStopN s -> EStop (un s) | ENotifyStopN s -> ENotifyStop (un s) | EJoinN s -> EJoin (un s)
let abs_call = function
  | CEnqueueN t -> CEnqueue (un t) | CMapN (ts, r) -> CMap (List.map un ts, r) | CDestroyN -> CDestroy

exception Reject of string

let nth_sub (p : poolN) (s : int) : subN = List.nth p.f_subs s
let nth_worker (p : poolN) (w : int) : wstateN = List.nth p.f_workers w

let process (sc : scen) =
  incr total;
  (* configuration *)
  let ntasks = ref 0 in
  let call_of w =
    match String.split_on_char ',' w with
    | "MAP" :: id0 :: count :: rz :: _ ->
      let id0 = int_of_string id0 and count = int_of_string count in
      ntasks := max !ntasks (id0 + count);
      CMapN (List.map n_of_int (range_tr id0 (id0 + count)), rz = "1")
    | "CHUNK" :: id0 :: count :: rz :: _ ->
      let id0 = int_of_string id0 and count = int_of_string count in
      ntasks := max !ntasks (id0 + count);
      CMapN (List.map n_of_int (range_tr id0 (id0 + count)), rz = "1")
    | "ENQ" :: id0 :: _ -> ntasks := max !ntasks (int_of_string id0 + 1); CEnqueueN (n_of_int (int_of_string id0))
    | "DESTROY" :: _ -> CDestroyN
    | _ -> failwith ("bad call " ^ w) in
  let progs = List.map (fun ws -> List.map call_of ws) sc.progs in
  let nsubs = List.length progs in
  if !ntasks > !max_tasks then max_tasks := !ntasks;
  (* chunk bounds: model vs what the operators saw (always checked, whatever the size) *)
  List.iter (fun (el, cs, seen) ->
      let m = chunks (z_of_int el) (z_of_int cs) in
      let ms = List.map (fun (b, e) -> Printf.sprintf "%d,%d" (int_of_z b) (int_of_z e)) m in
      let mi = List.map (fun (b, e) -> Printf.sprintf "%d,%d" (int_of_z b) (int_of_z e)) (chunks_inline (z_of_int el) (z_of_int cs)) in
      (* a chunk that was never executed (dropped / aborted) prints -1,-1 *)
      let ok = List.length ms = List.length seen && List.for_all2 (fun a b -> b = "-1,-1" || a = b) ms seen in
      if not ok then bad "scenario %d: chunks of map(%d, %d): model %s, operators saw %s" sc.id el cs (String.concat " " ms) (String.concat " " seen);
      if mi <> ms then bad "scenario %d: fast-path chunks differ from pool chunks in the model for map(%d,%d)" sc.id el cs)
    sc.chunks;
  begin
    let tbl = Hashtbl.create 16 in
    List.iter (fun t -> Hashtbl.replace tbl t ()) sc.throws;
    let thr t = Hashtbl.mem tbl (int_of_n t) in
    if not (wf_configN (nat sc.nw) progs) then bad "scenario %d: configuration not well-formed in the model" sc.id
    else begin
      let p = ref (initN (nat sc.nw) thr progs) in
      let applied = ref [] in                  (* the model events applied, newest first (CROSS stage) *)
      let early = Hashtbl.create 8 in          (* workers whose EFinish was applied before their DONE event *)
      let idx = ref 0 in
      let apply e =
        incr model_steps;
        match stepN !p e with
        | Some q -> p := q; applied := e :: !applied
        | None -> raise (Reject (Printf.sprintf "model step %s not enabled" (event_name e))) in
      (* make task t complete if it is still running in the model (the promise is set before DONE is logged) *)
      let force_complete t =
        if not (completeN !p t) then begin
          let found = ref false in
          List.iteri (fun w st ->
              match st with
              | WRunningN t' when t' = t && not !found -> found := true; apply (EFinishN (n_of_int w)); Hashtbl.replace early w ()
              | _ -> ()) !p.f_workers;
          if not !found then raise (Reject (Printf.sprintf "future of task %d reported ready but the task is neither finished, dropped nor running in the model" (int_of_n t)))
        end in
      let rec silent s =
        match (nth_sub !p s).stgN with
        | SGetN ([], _, _) -> apply (EGetN (n_of_int s)); silent s
        | SWaitN ([], _, _, _) -> apply (EWaitN (n_of_int s)); silent s
        | _ -> () in
      (* LOCKED stage: what the hook read under the verified lock against the model's protected state.
         The queue is compared by length; long queues are compared on a sample of the pops (cost) and on every push / stop / exit *)
      let check_locked kind q st ~before =
        if q >= 0 then begin
          let frequent = (kind = "POP") in
          if (not frequent) || q <= 64 || !idx mod 61 = 0 then begin
            incr locked_checked;
            ignore before;   (* EXIT is compared before the model step (the hook fires before m_tasks.clear()), the others after *)
            if List.compare_length_with !p.f_queue q <> 0 then
              raise (Reject (Printf.sprintf "%s: the implementation's queue holds %d tasks under the lock, the model's %d" kind q (List.length !p.f_queue)));
            if st >= 0 && (st = 1) <> !p.f_stop then
              raise (Reject (Printf.sprintf "%s: m_stop is %d under the lock, the model's stop flag is %b" kind st !p.f_stop))
          end
        end in
      (try
         List.iter (fun ev ->
             incr idx; incr events_checked;
             let kind, actor, a, q, st =
               match String.split_on_char ':' ev with
               | [kind; actor; a] -> kind, int_of_string actor, int_of_string a, -1, -1
               | [kind; actor; a; q; st] -> kind, int_of_string actor, int_of_string a, int_of_string q, int_of_string st
               | _ -> raise (Reject ("bad event " ^ ev)) in
             let an = n_of_int actor in
             (match kind with
              | "PUSH1" -> silent actor; apply (EPushN an);
                if (nth_sub !p actor).stgN <> SNotifyOneN then raise (Reject "enqueue: the model did not push one task");
                check_locked kind q st ~before:false
              | "NOTIFY1" -> apply (ENotifyN (an, None))
              | "INLINE" -> silent actor; apply (EPushN an);
                if (nth_sub !p actor).stgN <> SReadyN then raise (Reject "implementation took the fast path, the model the pool path")
              | "PUSHN" -> silent actor; apply (EPushN an);
                (match (nth_sub !p actor).stgN with
                 | SNotifyAllN (ts, _) -> if List.compare_length_with ts a <> 0 then raise (Reject (Printf.sprintf "map pushed %d tasks, the model %d" a (List.length ts)))
                 | _ -> raise (Reject "implementation took the pool path, the model the fast path"));
                check_locked kind q st ~before:false
              | "NOTIFYN" -> apply (ENotifyN (an, None))
              | "VISIT" ->
                (* a throwing get() leaves block(raise) without an event: if the model is still in block(raise)
                   at a future that re-throws, the visit belongs to ~section_t *)
                let rec go () =
                  match (nth_sub !p actor).stgN with
                  | SGetN ([], _, _) -> apply (EGetN an); go ()
                  | SGetN (t :: _, _, rz) ->
                    force_complete t;
                    if rz && failsN !p t then begin
                      if a = 1 then raise (Reject (Printf.sprintf "block(raise) passed the future of task %d although it must re-throw" (int_of_n t)));
                      apply (EGetN an); go ()
                    end else apply (EGetN an)
                  | SWaitN (t :: _, _, _, _) -> force_complete t; apply (EWaitN an)
                  | st -> raise (Reject ("future visited while the model thread is in stage " ^ stage_name st)) in
                go ()
              | "MAPEND" -> silent actor;
                if (nth_sub !p actor).stgN <> SReadyN then raise (Reject ("map returned while the model thread is in stage " ^ stage_name (nth_sub !p actor).stgN))
              | "POP" ->
                if actor >= sc.nw then raise (Reject "pop by a worker id >= pool size");
                (match nth_worker !p actor with WSleepingN -> apply (ESpuriousN an) | _ -> ());
                apply (ECheckN an);
                (match nth_worker !p actor with WRunningN _ -> () | _ -> raise (Reject "worker popped a task but the model worker did not"));
                check_locked kind q st ~before:false
              | "DONE" ->
                if Hashtbl.mem early actor then Hashtbl.remove early actor else apply (EFinishN an)
              | "EXIT" ->
                if actor >= sc.nw then raise (Reject "exit of a worker id >= pool size");
                (match nth_worker !p actor with WSleepingN -> apply (ESpuriousN an) | _ -> ());
                (* the hook fires before m_tasks.clear(): the queue it saw is the model's queue before the step *)
                check_locked kind q st ~before:true;
                apply (ECheckN an);
                (match nth_worker !p actor with WExitedN -> () | _ -> raise (Reject "worker exited but the model worker did not"))
              | "STOP" -> List.iter silent (range 0 nsubs); apply (EStopN an);
                check_locked kind q st ~before:false
              | "NOTIFYSTOP" -> apply (ENotifyStopN an)
              | "JOINED" -> apply (EJoinN an)
              | k -> raise (Reject ("unknown event " ^ k)))) sc.events;
         (* a throwing get(): ~section_t ran, then the exception left map() without MAPEND *)
         List.iter (fun s -> silent s) (range 0 nsubs);
         if sc.hang then begin
           let en = enabledN !p in
           Printf.printf "HANG-ANALYSIS scenario %d: model state after the trace has %d enabled steps: %s\n" sc.id
             (List.length en) (String.concat "; " (List.map event_name en));
           bad "scenario %d: the implementation hangs in a state where the model %s" sc.id
             (if en = [] then "is stuck too (model defect?)" else "has enabled steps (deadlock freedom is proved for the model)")
         end else begin
           incr accepted;
           if not (finalN !p) then bad "scenario %d: trace accepted but the model is not in a final state (stages: %s)" sc.id
               (String.concat "," (List.map (fun s -> stage_name (nth_sub !p s).stgN) (range 0 nsubs)));
           (* who ran what *)
           let ran = Hashtbl.create 64 in
           List.iter (fun (t, w) -> Hashtbl.add ran (int_of_n t) (int_of_n w)) !p.f_ran;
           List.iter (fun (t, _) -> Hashtbl.add ran (int_of_n t) 0) !p.f_inline;
           List.iter (fun e ->
               match List.map int_of_string (String.split_on_char ':' e) with
               | [t; count; tnum] ->
                 let m = Hashtbl.find_all ran t in
                 if List.length m <> count then bad "scenario %d: task %d executed %d times, model %d" sc.id t count (List.length m)
                 else if count = 1 && List.hd m <> tnum then bad "scenario %d: task %d got tnum %d, model worker %d" sc.id t tnum (List.hd m)
               | _ -> ()) sc.exec;
           (* results of the map calls, in program order per submitter *)
           List.iter (fun s ->
               let rs = (nth_sub !p s).resultsN in
               let mine = List.sort compare (List.filter (fun (s', _, _, _) -> s' = s) sc.results) in
               if List.length rs <> List.length mine then bad "scenario %d: thread %d returned from %d map calls, model %d" sc.id s (List.length mine) (List.length rs)
               else List.iter2 (fun r (_, ci, _, outcome) ->
                   let m = match r.rn_exn with None -> "none" | Some t -> Printf.sprintf "exn %d" (int_of_n t) in
                   if m <> outcome then bad "scenario %d: thread %d call %d outcome `%s`, model `%s`" sc.id s ci outcome m) rs mine)
             (range 0 (nsubs - 1));
           (* CROSS stage: the same event sequence through the proved unary model *)
           if !ntasks <= max_cross_tasks then begin
             incr crossed;
             let uprogs = List.map (List.map abs_call) progs in
             let uthr t = Hashtbl.mem tbl (int_of_nat t) in
             if not (wf_config (nat sc.nw) uprogs) then bad "scenario %d: CROSS: wf_configN holds but wf_config does not" sc.id
             else match run (init (nat sc.nw) uthr uprogs) (List.rev_map abs_event !applied) with
               | None -> bad "scenario %d: CROSS: the event sequence accepted by stepN is rejected by the proved model step" sc.id
               | Some u ->
                 let pairs l = List.map (fun (t, w) -> (int_of_nat t, int_of_nat w)) l in
                 let pairsN l = List.rev_map (fun (t, w) -> (int_of_n t, int_of_n w)) l in
                 if not (final u) then bad "scenario %d: CROSS: final differs" sc.id;
                 if pairs u.ran <> pairsN !p.f_ran then bad "scenario %d: CROSS: ran differs" sc.id;
                 if pairs u.inline <> pairsN !p.f_inline then bad "scenario %d: CROSS: inline differs" sc.id;
                 if List.map int_of_nat u.finished <> List.rev_map int_of_n !p.f_finished then bad "scenario %d: CROSS: finished differs" sc.id;
                 if List.map int_of_nat u.dropped <> List.map int_of_n !p.f_dropped then bad "scenario %d: CROSS: dropped differs" sc.id;
                 if List.map int_of_nat u.queue <> List.map int_of_n !p.f_queue || u.stop <> !p.f_stop then bad "scenario %d: CROSS: queue/stop differ" sc.id;
                 List.iter (fun s ->
                     let a = (u.subs (nat s)).results and b = (nth_sub !p s).resultsN in
                     let ex = function None -> -1 | Some t -> int_of_nat t and exn = function None -> -1 | Some t -> int_of_n t in
                     if List.map (fun r -> (List.map int_of_nat r.r_tasks, r.r_raise, r.r_inline, ex r.r_exn)) a
                        <> List.map (fun r -> (List.map int_of_n r.rn_tasks, r.rn_raise, r.rn_inline, exn r.rn_exn)) b
                     then bad "scenario %d: CROSS: results of thread %d differ" sc.id s) (range 0 nsubs)
           end
         end
       with Reject why ->
         bad "scenario %d: trace rejected at event %d (%s): %s" sc.id !idx
           (try List.nth sc.events (!idx - 1) with _ -> "?") why)
    end
  end

let () =
  let cur = ref None in
  (try
     while true do
       let line = input_line stdin in
       match words line with
       | "SCENARIO" :: k :: rest ->
         let nw = ref 1 in
         List.iter (fun w -> match String.split_on_char '=' w with ["nw"; v] -> nw := int_of_string v | _ -> ()) rest;
         cur := Some { id = int_of_string k; hang = List.mem "HANG" rest; nw = !nw; progs = []; throws = []; events = [];
                       exec = []; results = []; chunks = [] }
       | "PROG" :: _ :: calls -> (match !cur with Some sc -> sc.progs <- sc.progs @ [calls] | None -> ())
       | "THROWS" :: ts -> (match !cur with Some sc -> sc.throws <- List.map int_of_string ts | None -> ())
       | "EVENTS" :: es -> (match !cur with Some sc -> sc.events <- es | None -> ())
       | "EXEC" :: es -> (match !cur with Some sc -> sc.exec <- es | None -> ())
       | "RESULT" :: s :: ci :: id0 :: "=" :: out ->
         (match !cur with Some sc -> sc.results <- sc.results @ [(int_of_string s, int_of_string ci, int_of_string id0, String.concat " " out)] | None -> ())
       | "CHUNKS" :: el :: cs :: "=" :: seen ->
         (match !cur with Some sc -> sc.chunks <- sc.chunks @ [(int_of_string el, int_of_string cs, seen)] | None -> ())
       | "END" :: _ -> (match !cur with Some sc -> process sc; cur := None | None -> ())
       | _ -> ()
     done
   with End_of_file -> ());
  Printf.printf "FAST-STAGE traces=%d model_steps=%d largest_tasks=%d locked_state_checks=%d crossed_with_unary_model=%d\n"
    !accepted !model_steps !max_tasks !locked_checked !crossed;
  Printf.printf "MODEL-DONE checked=%d accepted=%d skipped_large=%d events=%d mismatches=%d\n" !total !accepted 0 !events_checked !mism
