(* C17 driver: trace acceptor for the thread-pool protocol.
   Reads the scenarios printed by harness/c17_pool.cpp, rebuilds the configuration in the extracted model,
   translates the implementation's linearised hook events to model events and requires `step` to accept
   them (modulo the unobservable steps: spurious wake-ups, and the completion of a task, which really
   happens when the promise is set, i.e. possibly before the worker logs DONE).  Then compares what the
   model derives (who ran what, what was dropped, map results, chunk bounds) with what the operators saw. *)
let max_model_tasks = 400

let total = ref 0 and mism = ref 0 and accepted = ref 0 and skipped = ref 0 and events_checked = ref 0
let bad fmt = Printf.ksprintf (fun s -> incr mism; print_endline ("MISMATCH " ^ s)) fmt

let words s = List.filter (fun x -> x <> "") (String.split_on_char ' ' s)
let ints s = List.map int_of_string (List.filter (fun x -> x <> "") (String.split_on_char ',' s))

type scen = {
  mutable id : int; mutable hang : bool; mutable nw : int;
  mutable progs : (string list) list;     (* raw call words per submitter, in order *)
  mutable throws : int list; mutable events : string list; mutable exec : string list;
  mutable results : (int * int * int * string) list;   (* sub, call index, id0, outcome *)
  mutable chunks : (int * int * string list) list;
}

let nat = nat_of_int
let rec range a b = if a >= b then [] else a :: range (a + 1) b

let stage_name = function
  | SReady -> "SReady" | SNotifyOne -> "SNotifyOne" | SNotifyAll _ -> "SNotifyAll" | SGet _ -> "SGet"
  | SWait _ -> "SWait" | SNotifyStop -> "SNotifyStop" | SJoin -> "SJoin"

let event_name = function
  | EPush s -> Printf.sprintf "EPush %d" (int_of_nat s)
  | ENotify (s, None) -> Printf.sprintf "ENotify %d None" (int_of_nat s)
  | ENotify (s, Some w) -> Printf.sprintf "ENotify %d (Some %d)" (int_of_nat s) (int_of_nat w)
  | EGet s -> Printf.sprintf "EGet %d" (int_of_nat s) | EWait s -> Printf.sprintf "EWait %d" (int_of_nat s)
  | ECheck w -> Printf.sprintf "ECheck %d" (int_of_nat w) | EFinish w -> Printf.sprintf "EFinish %d" (int_of_nat w)
  | ESpurious w -> Printf.sprintf "ESpurious %d" (int_of_nat w) | EStop s -> Printf.sprintf "EStop %d" (int_of_nat s)
  | ENotifyStop s -> Printf.sprintf "ENotifyStop %d" (int_of_nat s) | EJoin s -> Printf.sprintf "EJoin %d" (int_of_nat s)

exception Reject of string

let process (sc : scen) =
  incr total;
  (* configuration *)
  let ntasks = ref 0 in
  let call_of w =
    match String.split_on_char ',' w with
    | "MAP" :: id0 :: count :: rz :: _ ->
      let id0 = int_of_string id0 and count = int_of_string count in
      ntasks := max !ntasks (id0 + count);
      CMap (List.map nat (range id0 (id0 + count)), rz = "1")
    | "CHUNK" :: id0 :: count :: rz :: _ ->
      let id0 = int_of_string id0 and count = int_of_string count in
      ntasks := max !ntasks (id0 + count);
      CMap (List.map nat (range id0 (id0 + count)), rz = "1")
    | "ENQ" :: id0 :: _ -> ntasks := max !ntasks (int_of_string id0 + 1); CEnqueue (nat (int_of_string id0))
    | "DESTROY" :: _ -> CDestroy
    | _ -> failwith ("bad call " ^ w) in
  let progs = List.map (fun ws -> List.map call_of ws) sc.progs in
  (* chunk bounds: model vs what the operators saw (always checked, whatever the size) *)
  List.iter (fun (el, cs, seen) ->
      let m = chunks (z_of_int el) (z_of_int cs) in
      let ms = List.map (fun (b, e) -> Printf.sprintf "%d,%d" (int_of_z b) (int_of_z e)) m in
      let mi = List.map (fun (b, e) -> Printf.sprintf "%d,%d" (int_of_z b) (int_of_z e)) (chunks_inline (z_of_int el) (z_of_int cs)) in
      (* a chunk that was never executed (dropped / aborted) prints -1,-1 *)
      let ok = List.length ms = List.length seen && List.for_all2 (fun a b -> b = "-1,-1" || a = b) ms seen in
      if not ok then bad "scenario %d: chunks of map(%d, %d): model %s, operators saw %s" sc.id el cs (String.concat " " ms) (String.concat " " seen);
      if mi <> ms then bad "scenario %d: fast-path chunks differ from pool chunks in the model for map(%d,%d)" sc.id el cs)
    sc.chunks;
  if !ntasks > max_model_tasks then incr skipped
  else begin
    let tbl = Hashtbl.create 16 in
    List.iter (fun t -> Hashtbl.replace tbl t ()) sc.throws;
    let thr t = Hashtbl.mem tbl (int_of_nat t) in
    if not (wf_config (nat sc.nw) progs) then bad "scenario %d: configuration not well-formed in the model" sc.id
    else begin
      let p = ref (init (nat sc.nw) thr progs) in
      let early = Hashtbl.create 8 in          (* workers whose EFinish was applied before their DONE event *)
      let idx = ref 0 in
      let apply e =
        match step !p e with
        | Some q -> p := q
        | None -> raise (Reject (Printf.sprintf "model step %s not enabled" (event_name e))) in
      (* make task t complete if it is still running in the model (the promise is set before DONE is logged) *)
      let force_complete t =
        if not (complete !p t) then begin
          let found = ref false in
          List.iter (fun w ->
              match !p.workers (nat w) with
              | WRunning t' when t' = t -> found := true; apply (EFinish (nat w)); Hashtbl.replace early w ()
              | _ -> ()) (range 0 sc.nw);
          if not !found then raise (Reject (Printf.sprintf "future of task %d reported ready but the task is neither finished, dropped nor running in the model" (int_of_nat t)))
        end in
      let rec silent s =
        match (!p.subs (nat s)).stg with
        | SGet ([], _, _) -> apply (EGet (nat s)); silent s
        | SWait ([], _, _, _) -> apply (EWait (nat s)); silent s
        | _ -> () in
      (try
         List.iter (fun ev ->
             incr idx; incr events_checked;
             match String.split_on_char ':' ev with
             | [kind; actor; a] ->
               let actor = int_of_string actor in
               let a = int_of_string a in
               (match kind with
                | "PUSH1" -> silent actor; apply (EPush (nat actor));
                  if (!p.subs (nat actor)).stg <> SNotifyOne then raise (Reject "enqueue: the model did not push one task")
                | "NOTIFY1" -> apply (ENotify (nat actor, None))
                | "INLINE" -> silent actor; apply (EPush (nat actor));
                  if (!p.subs (nat actor)).stg <> SReady then raise (Reject "implementation took the fast path, the model the pool path")
                | "PUSHN" -> silent actor; apply (EPush (nat actor));
                  (match (!p.subs (nat actor)).stg with
                   | SNotifyAll (ts, _) -> if List.length ts <> a then raise (Reject (Printf.sprintf "map pushed %d tasks, the model %d" a (List.length ts)))
                   | _ -> raise (Reject "implementation took the pool path, the model the fast path"))
                | "NOTIFYN" -> apply (ENotify (nat actor, None))
                | "VISIT" ->
                  (* a throwing get() leaves block(raise) without an event: if the model is still in block(raise)
                     at a future that re-throws, the visit belongs to ~section_t *)
                  let rec go () =
                    match (!p.subs (nat actor)).stg with
                    | SGet ([], _, _) -> apply (EGet (nat actor)); go ()
                    | SGet (t :: _, _, rz) ->
                      force_complete t;
                      if rz && fails !p t then begin
                        if a = 1 then raise (Reject (Printf.sprintf "block(raise) passed the future of task %d although it must re-throw" (int_of_nat t)));
                        apply (EGet (nat actor)); go ()
                      end else apply (EGet (nat actor))
                    | SWait (t :: _, _, _, _) -> force_complete t; apply (EWait (nat actor))
                    | st -> raise (Reject ("future visited while the model thread is in stage " ^ stage_name st)) in
                  go ()
                | "MAPEND" -> silent actor;
                  if (!p.subs (nat actor)).stg <> SReady then raise (Reject ("map returned while the model thread is in stage " ^ stage_name (!p.subs (nat actor)).stg))
                | "POP" ->
                  (match !p.workers (nat actor) with WSleeping -> apply (ESpurious (nat actor)) | _ -> ());
                  apply (ECheck (nat actor));
                  (match !p.workers (nat actor) with WRunning _ -> () | _ -> raise (Reject "worker popped a task but the model worker did not"))
                | "DONE" ->
                  if Hashtbl.mem early actor then Hashtbl.remove early actor else apply (EFinish (nat actor))
                | "EXIT" ->
                  (match !p.workers (nat actor) with WSleeping -> apply (ESpurious (nat actor)) | _ -> ());
                  apply (ECheck (nat actor));
                  (match !p.workers (nat actor) with WExited -> () | _ -> raise (Reject "worker exited but the model worker did not"))
                | "STOP" -> List.iter silent (range 0 (List.length progs)); apply (EStop (nat actor))
                | "NOTIFYSTOP" -> apply (ENotifyStop (nat actor))
                | "JOINED" -> apply (EJoin (nat actor))
                | k -> raise (Reject ("unknown event " ^ k)))
             | _ -> raise (Reject ("bad event " ^ ev))) sc.events;
         (* a throwing get(): ~section_t ran, then the exception left map() without MAPEND *)
         List.iter (fun s -> silent s) (range 0 (List.length progs));
         if sc.hang then begin
           Printf.printf "HANG-ANALYSIS scenario %d: model state after the trace has %d enabled steps: %s\n" sc.id
             (List.length (enabled !p)) (String.concat "; " (List.map event_name (enabled !p)));
           bad "scenario %d: the implementation hangs in a state where the model %s" sc.id
             (if enabled !p = [] then "is stuck too (model defect?)" else "has enabled steps (deadlock freedom is proved for the model)")
         end else begin
           incr accepted;
           if not (final !p) then bad "scenario %d: trace accepted but the model is not in a final state (stages: %s)" sc.id
               (String.concat "," (List.map (fun s -> stage_name (!p.subs (nat s)).stg) (range 0 (List.length progs))));
           (* who ran what *)
           let ran = Hashtbl.create 64 in
           List.iter (fun (t, w) -> Hashtbl.add ran (int_of_nat t) (int_of_nat w)) !p.ran;
           List.iter (fun (t, _) -> Hashtbl.add ran (int_of_nat t) 0) !p.inline;
           List.iter (fun e ->
               match List.map int_of_string (String.split_on_char ':' e) with
               | [t; count; tnum] ->
                 let m = Hashtbl.find_all ran t in
                 if List.length m <> count then bad "scenario %d: task %d executed %d times, model %d" sc.id t count (List.length m)
                 else if count = 1 && List.hd m <> tnum then bad "scenario %d: task %d got tnum %d, model worker %d" sc.id t tnum (List.hd m)
               | _ -> ()) sc.exec;
           (* results of the map calls, in program order per submitter *)
           List.iter (fun s ->
               let rs = (!p.subs (nat s)).results in
               let mine = List.sort compare (List.filter (fun (s', _, _, _) -> s' = s) sc.results) in
               if List.length rs <> List.length mine then bad "scenario %d: thread %d returned from %d map calls, model %d" sc.id s (List.length mine) (List.length rs)
               else List.iter2 (fun r (_, ci, _, outcome) ->
                   let m = match r.r_exn with None -> "none" | Some t -> Printf.sprintf "exn %d" (int_of_nat t) in
                   if m <> outcome then bad "scenario %d: thread %d call %d outcome `%s`, model `%s`" sc.id s ci outcome m) rs mine)
             (range 0 (List.length progs - 1))
         end
       with Reject why ->
         bad "scenario %d: trace rejected at event %d (%s): %s" sc.id !idx
           (try List.nth sc.events (!idx - 1) with _ -> "?") why)
    end
  end

let () =
  let cur = ref None in
  (try
     while true do
       let line = input_line stdin in
       match words line with
       | "SCENARIO" :: k :: rest ->
         let nw = ref 1 in
         List.iter (fun w -> match String.split_on_char '=' w with ["nw"; v] -> nw := int_of_string v | _ -> ()) rest;
         cur := Some { id = int_of_string k; hang = List.mem "HANG" rest; nw = !nw; progs = []; throws = []; events = [];
                       exec = []; results = []; chunks = [] }
       | "PROG" :: _ :: calls -> (match !cur with Some sc -> sc.progs <- sc.progs @ [calls] | None -> ())
       | "THROWS" :: ts -> (match !cur with Some sc -> sc.throws <- List.map int_of_string ts | None -> ())
       | "EVENTS" :: es -> (match !cur with Some sc -> sc.events <- es | None -> ())
       | "EXEC" :: es -> (match !cur with Some sc -> sc.exec <- es | None -> ())
       | "RESULT" :: s :: ci :: id0 :: "=" :: out ->
         (match !cur with Some sc -> sc.results <- sc.results @ [(int_of_string s, int_of_string ci, int_of_string id0, String.concat " " out)] | None -> ())
       | "CHUNKS" :: el :: cs :: "=" :: seen ->
         (match !cur with Some sc -> sc.chunks <- sc.chunks @ [(int_of_string el, int_of_string cs, seen)] | None -> ())
       | "END" :: _ -> (match !cur with Some sc -> process sc; cur := None | None -> ())
       | _ -> ()
     done
   with End_of_file -> ());
  Printf.printf "MODEL-DONE checked=%d accepted=%d skipped_large=%d events=%d mismatches=%d\n" !total !accepted !skipped !events_checked !mism
