(* C02 extension driver: replays every recorded whole run of a real line-search solver (harness/c02_lsloop.cpp) with the
   extracted model `ls_solver_run` (coq/theories/C02_LsLoop_Defs.v).
   The oracles of the model are answered from the recording:
     o_eval k x   -> the k-th recorded evaluation; the requested point x must be the recorded point BIT FOR BIT
     o_dot g d    -> the recorded g.dot(d) of that (gradient, direction) pair (the own Eigen reduction)
     o_dir i ..   -> the direction recorded at the i-th lsearch_t::get (cgd / lbfgs / quasi; gd computes -gx itself and the
                     direction of the model is compared with the recorded one)
     o_trial/o_t0 -> the recorded lsearch0 value-only trial step and t0; the m_last_step_size the model hands over must be the
                     recorded one bit for bit
   and the model must: request ALL recorded evaluations and no other, run as many line searches, and end in the same
   returned state (x, fx, gx, status, fcalls, gcalls), function counters, last iter_ok and kind of exit.
   PROPFAIL: the conclusions of the theorems (the C02_lsloop family) evaluated on the recorded data. *)
let tf = Float64.to_float
let ff = Float64.of_float
let fl s = ff (float_of_string (trim s))
let flist s = let s = trim s in if s = "-" || s = "" then [] else List.map fl (split_on ',' s)
let bits x = Int64.bits_of_float (tf x)
let same a b = (Float.is_nan (tf a) && Float.is_nan (tf b)) || Int64.equal (bits a) (bits b)
let same_list a b = List.length a = List.length b && List.for_all2 same a b
let hex x = let x = tf x in if Float.is_nan x then "nan" else Printf.sprintf "%h" x
let hexl l = if l = [] then "-" else String.concat "," (List.map hex l)
let key l = String.concat "," (List.map (fun v -> if Float.is_nan (tf v) then "nan" else Int64.to_string (bits v)) l)
let words s = List.filter (fun t -> t <> "") (String.split_on_char ' ' (trim s))
let nanf = ff Float.nan

let mism = ref 0
let propfail = ref 0
let checked = ref 0
let evals = ref 0
let iters = ref 0
let hist : (string, int) Hashtbl.t = Hashtbl.create 16
let count k = Hashtbl.replace hist k (1 + (match Hashtbl.find_opt hist k with Some n -> n | None -> 0))

type ev = { e_withg : bool; e_it : int; e_f : Float64.t; e_x : Float64.t list; e_g : Float64.t list; e_dg : Float64.t }
type it = { i_last : Float64.t; i_t0 : Float64.t; i_ntrial : int; i_trial : Float64.t; i_dg0 : Float64.t; i_before : int; i_d : Float64.t list }
type dn = { d_ok : bool; d_conv : bool; d_ret : bool; d_evals : int; d_fx : Float64.t }

type run = { mutable hdr : string; mutable evs : ev list; mutable its : it list; mutable dns : dn list; mutable ret : string }
let cur = { hdr = ""; evs = []; its = []; dns = []; ret = "" }

let finish_run () =
  let line = cur.hdr in
  let short = if String.length line > 600 then String.sub line 0 600 ^ "..." else line in
  let report why = incr mism; Printf.printf "MISMATCH %s // %s\n" short why in
  let preport why = incr propfail; Printf.printf "PROPFAIL %s // %s\n" short why in
  (match split_str " | " line with
   | [h; lsk; slv; x0s] ->
     let hw = Array.of_list (words h) in
     let id = hw.(1) and body = int_of_string hw.(3) in
     let c = Array.of_list (words lsk) in
     let f i = fl c.(i) in
     let algi = int_of_string c.(0) and maxit = int_of_string c.(1) in
     let prm = { c1 = f 3; c2 = f 4; maxit = z_of_int maxit; interp = z_of_int (int_of_string c.(2));
                 safeguard = f 5; tau1 = f 6; tau2 = f 7; tau3 = f 8; mt_delta = f 9;
                 cg_epsilon = f 10; cg_theta = f 11; cg_gamma = f 12; cg_ro = f 13 } in
     let sw = Array.of_list (words slv) in
     let eps = fl sw.(0) and maxev = int_of_string sw.(1) in
     let x0 = flist x0s in
     let evs = Array.of_list (List.rev cur.evs) and its = Array.of_list (List.rev cur.its) and dns = Array.of_list (List.rev cur.dns) in
     let ne = Array.length evs and ni = Array.length its in
     evals := !evals + ne; iters := !iters + ni;
     (* the dot table: (g, d) -> recorded reduction *)
     let dots : (string, Float64.t) Hashtbl.t = Hashtbl.create 64 in
     let add_dot g d v =
       let k = key g ^ "|" ^ key d in
       (match Hashtbl.find_opt dots k with
        | Some v0 when not (same v0 v) -> report (Printf.sprintf "RUN %s the library's g.dot(d) is not a function of (g, d): %s vs %s" id (hex v0) (hex v))
        | _ -> ());
       Hashtbl.replace dots k v in
     Array.iteri (fun i r ->
         (* state.dg(descent) at the origin of line search i: the gradient of the state on entry = the last gradient evaluated before *)
         let rec last_g k = if k < 0 then [] else if evs.(k).e_withg then evs.(k).e_g else last_g (k - 1) in
         ignore i; add_dot (last_g (r.i_before - 1)) r.i_d r.i_dg0) its;
     Array.iter (fun e -> if e.e_withg && e.e_it >= 0 && e.e_it < ni then add_dot e.e_g its.(e.e_it).i_d e.e_dg) evs;
     let problems = ref [] in
     let note s = if List.length !problems < 4 && not (List.mem s !problems) then problems := s :: !problems in
     let requested = Array.make (ne + 1) false in
     let o_eval k x =
       let k = int_of_z k in
       if k < 0 || k >= ne then (note (Printf.sprintf "the model requests evaluation %d, the library made %d" k ne); (nanf, []))
       else begin
         requested.(k) <- true;
         if not (same_list x evs.(k).e_x) then
           note (Printf.sprintf "evaluation %d: the model requests %s, the library evaluated %s" k (hexl x) (hexl evs.(k).e_x));
         (evs.(k).e_f, evs.(k).e_g)
       end in
     let o_dot g d =
       match Hashtbl.find_opt dots (key g ^ "|" ^ key d) with
       | Some v -> v
       | None -> note "the model needs a g.dot(d) the library never computed (different gradient or direction)"; nanf in
     let the_it i = let i = int_of_z i in if i >= 0 && i < ni then Some its.(i) else (note (Printf.sprintf "the model starts line search %d, the library made %d" i ni); None) in
     let o_dir i _ _ = match the_it i with Some r -> r.i_d | None -> [] in
     let check_common i last d =
       (match the_it i with
        | Some r ->
          if not (same last r.i_last) then note (Printf.sprintf "line search %d: last step size of the model %s, of the library %s" (int_of_z i) (hex last) (hex r.i_last));
          if not (same_list d r.i_d) then note (Printf.sprintf "line search %d: direction of the model %s, of the library %s" (int_of_z i) (hexl d) (hexl r.i_d))
        | None -> ()) in
     let o_trial i last _ d =
       check_common i last d;
       match the_it i with Some r when r.i_ntrial > 0 -> Some r.i_trial | _ -> None in
     let o_t0 i _ _ _ _ = match the_it i with Some r -> r.i_t0 | None -> nanf in
     let orc = { o_eval = o_eval; o_dot = o_dot; o_dir = o_dir; o_trial = o_trial; o_t0 = o_t0 } in
     let cfg = { lc_body = body_of_Z (z_of_int body); lc_alg = alg_of_Z (z_of_int algi); lc_prm = prm; lc_eps = eps; lc_maxev = z_of_int maxev } in
     let r = ls_solver_run orc cfg (ls_fuel cfg) x0 in
     let s = ls_result cfg r in
     incr checked;
     (* ---- correspondence ---- *)
     List.iter report (List.rev_map (fun p -> Printf.sprintf "RUN %s %s" id p) !problems);
     if int_of_z r.lr_ne <> ne then report (Printf.sprintf "RUN %s the model makes %d evaluations, the library %d" id (int_of_z r.lr_ne) ne)
     else begin
       let missing = ref (-1) in
       for k = ne - 1 downto 0 do if not requested.(k) then missing := k done;
       if !missing >= 0 then report (Printf.sprintf "RUN %s evaluation %d of the library is never requested by the model" id !missing)
     end;
     if int_of_z r.lr_iters <> ni then report (Printf.sprintf "RUN %s the model makes %d line searches, the library %d" id (int_of_z r.lr_iters) ni);
     (match split_str " | " cur.ret with
      | [a; xs; gs] ->
        let w = Array.of_list (words a) in
        let status = int_of_string w.(2) and fc = int_of_string w.(3) and gc = int_of_string w.(4)
        and ffc = int_of_string w.(5) and fgc = int_of_string w.(6) and fx = fl w.(7) in
        let rx = flist xs and rg = flist gs in
        if not (same s.sfx fx && same_list s.sx rx && same_list s.sgx rg) then
          report (Printf.sprintf "RUN %s returned state: model fx=%s x=%s, library fx=%s x=%s" id (hex s.sfx) (hexl s.sx) (hex fx) (hexl rx));
        if int_of_z s.sstatus <> status then report (Printf.sprintf "RUN %s status: model %d, library %d" id (int_of_z s.sstatus) status);
        if int_of_z s.sfcalls <> fc || int_of_z s.sgcalls <> gc then
          report (Printf.sprintf "RUN %s reported calls: model %d|%d, library %d|%d" id (int_of_z s.sfcalls) (int_of_z s.sgcalls) fc gc);
        if int_of_z r.lr_fc <> ffc || int_of_z r.lr_gc <> fgc then
          report (Printf.sprintf "RUN %s function counters: model %d|%d, library %d|%d" id (int_of_z r.lr_fc) (int_of_z r.lr_gc) ffc fgc);
        let nd = Array.length dns in
        let ex = int_of_z r.lr_exit in
        if ex = 0 then report (Printf.sprintf "RUN %s the model runs out of fuel" id);
        if nd > 0 then begin
          let l = dns.(nd - 1) in
          if l.d_ok <> r.lr_ok then report (Printf.sprintf "RUN %s last iter_ok: model %b, library %b" id r.lr_ok l.d_ok);
          if l.d_ret <> (ex = 2 || ex = 3) then report (Printf.sprintf "RUN %s exit: model %d, library's last done() returned %b" id ex l.d_ret);
          if nd <> ni + 1 then report (Printf.sprintf "RUN %s %d done() calls for %d line searches" id nd ni)
        end;
        count (Printf.sprintf "exit=%d" ex);
        count (Printf.sprintf "status=%d" status);
        (* ---- the conclusions of the theorems on the recorded data ---- *)
        (* (1) budget *)
        let lsb = (match algi with 0 -> 3 * maxit | 1 -> 3 * maxit - 1 | 2 -> 4 * maxit - 1 | 3 -> 3 * maxit | _ -> 9 * maxit + 1) in
        if ffc + fgc > max 2 (maxev - 1 + 2 * lsb + 1) then preport (Printf.sprintf "RUN %s C02_lsloop_budget: %d evaluations" id (ffc + fgc));
        if 2 * ni > max 2 (ffc + fgc) then preport (Printf.sprintf "RUN %s C02_lsloop_budget: %d line searches with %d evaluations" id ni (ffc + fgc));
        (* (2) honest *)
        if not (Array.exists (fun e -> e.e_withg && same_list e.e_x rx && same e.e_f fx && same_list e.e_g rg) evs) then
          preport (Printf.sprintf "RUN %s C02_lsloop_honest: the returned triple is not a recorded evaluation" id);
        (* (3) monotone for the Armijo-type searches *)
        if algi <= 2 then
          Array.iteri (fun j d -> if j > 0 && d.d_ok && not (tf d.d_fx <= tf dns.(j - 1).d_fx) then
                          preport (Printf.sprintf "RUN %s C02_lsloop_step_decrease: done %d f=%s after f=%s" id j (hex d.d_fx) (hex dns.(j - 1).d_fx))) dns;
        (* (4) status *)
        let v = valid { s with sx = rx; sfx = fx; sgx = rg } in
        if status = 1 && not (v && tf (gradient_test { s with sx = rx; sfx = fx; sgx = rg }) < tf eps) then
          preport (Printf.sprintf "RUN %s C02_lsloop_status: converged without the gradient criterion at the returned point" id);
        if status = 1 && nd > 0 && not dns.(nd - 1).d_ok then
          preport (Printf.sprintf "RUN %s C02_lsloop_status: converged after a failed line search (repo 85997bc)" id);
        if algi <= 2 && status <> 2 && nd > 0 && not (tf fx <= tf dns.(0).d_fx) then
          preport (Printf.sprintf "RUN %s C02_lsloop_not_worse_unless_failed: f=%s f0=%s status=%d" id (hex fx) (hex dns.(0).d_fx) status);
        if status = 2 && nd > 0 && dns.(nd - 1).d_ok && v then preport (Printf.sprintf "RUN %s C02_lsloop_status: failed with iter_ok and a valid state" id)
      | _ -> report (Printf.sprintf "RUN %s bad LSRET line" id))
   | _ -> report "bad LSRUN line");
  cur.hdr <- ""; cur.evs <- []; cur.its <- []; cur.dns <- []; cur.ret <- ""

let () =
  (try
     while true do
       let line = input_line stdin in
       (try
          if String.length line > 6 && String.sub line 0 6 = "LSRUN " then (cur.hdr <- line; cur.evs <- []; cur.its <- []; cur.dns <- []; cur.ret <- "")
          else if String.length line > 5 && String.sub line 0 5 = "LSEV " then begin
            match split_str " | " line with
            | [a; xs; gs; dg] ->
              let w = Array.of_list (words a) in
              cur.evs <- { e_withg = (w.(3) = "1"); e_it = int_of_string w.(4); e_f = fl w.(5); e_x = flist xs; e_g = flist gs; e_dg = fl dg } :: cur.evs
            | _ -> incr mism; Printf.printf "MISMATCH bad LSEV line %s\n" (String.sub line 0 (min 200 (String.length line)))
          end
          else if String.length line > 5 && String.sub line 0 5 = "LSIT " then begin
            match split_str " | " line with
            | [a; ds] ->
              let w = Array.of_list (words a) in
              cur.its <- { i_last = fl w.(3); i_t0 = fl w.(4); i_ntrial = int_of_string w.(5); i_trial = fl w.(6); i_dg0 = fl w.(7);
                           i_before = int_of_string w.(8); i_d = flist ds } :: cur.its
            | _ -> incr mism; Printf.printf "MISMATCH bad LSIT line\n"
          end
          else if String.length line > 5 && String.sub line 0 5 = "LSDN " then begin
            let w = Array.of_list (words line) in
            cur.dns <- { d_ok = (w.(3) = "1"); d_conv = (w.(4) = "1"); d_ret = (w.(5) = "1"); d_evals = int_of_string w.(6); d_fx = fl w.(7) } :: cur.dns
          end
          else if String.length line > 6 && String.sub line 0 6 = "LSRET " then cur.ret <- line
          else if String.length line > 6 && String.sub line 0 6 = "LSEND " then finish_run ()
        with Failure m | Invalid_argument m -> incr mism; Printf.printf "MISMATCH driver cannot parse (%s): %s\n" m (String.sub line 0 (min 200 (String.length line))))
     done
   with End_of_file -> ());
  let kv = List.sort compare (Hashtbl.fold (fun k n acc -> (k, n) :: acc) hist []) in
  Printf.printf "HIST %s\n" (String.concat " " (List.map (fun (k, n) -> Printf.sprintf "%s=%d" k n) kv));
  Printf.printf "MODEL-DONE checked=%d mismatches=%d propfails=%d evaluations=%d line_searches=%d\n" !checked !mism !propfail !evals !iters
