(* C11 driver: recomputes every ES / LOOP / GBH line of harness/c11_gboost.cpp with the model extracted from Coq
   (C11_Defs: fes_done, fobs, stat_row, fboost, ...) and compares bit-exactly. *)
let fbits (x : Float64.t) = Int64.bits_of_float (Float64.to_float x)
let fos (s : string) : Float64.t = Float64.of_float (float_of_string (String.trim s))
let feq (a : Float64.t) (b : Float64.t) = fbits a = fbits b
let rec feql a b = match a, b with
  | [], [] -> true
  | x :: a', y :: b' -> feq x y && feql a' b'
  | _ -> false
let flist (s : string) : Float64.t list =
  List.map fos (List.filter (fun t -> String.trim t <> "") (split_on ',' s))
let hx (x : Float64.t) = Printf.sprintf "%h" (Float64.to_float x)
let fstr (l : Float64.t list) = String.concat "," (List.map hx l)
let fvals_of (s : string) : fvals =
  match split_on ';' s with
  | [e; l] -> (flist e, flist l)
  | _ -> failwith ("bad values: " ^ s)
let parts sep s = List.map trim (split_str sep s)
let words s = List.filter (fun t -> t <> "") (split_on ' ' (trim s))
let zi s = z_of_int (int_of_string s)

let checked = ref 0
let mismatches = ref 0
let propfails = ref 0
let report kind msg =
  (if kind = "MISMATCH" then incr mismatches else incr propfails);
  if !mismatches + !propfails <= 25 then print_endline (kind ^ " " ^ msg)

(* ---- ES: one monitor context, a stack of model states indexed by depth ---- *)
let es_cfg = ref ""                      (* the ESNEW line (replay) *)
let es_eps = ref (Float64.of_float 0.0)
let es_pat = ref Z0
let es_train = ref []
let es_valid = ref []
let es_stack : (Float64.t, fvals) es array ref = ref [||]
let es_path : string array = Array.make 128 ""

let do_esnew line =
  match parts " | " line with
  | [head; tr; va; e0; l0] ->
    (match words head with
     | [_; eps; pat] ->
       es_cfg := line;
       es_eps := fos eps; es_pat := zi pat;
       es_train := zlist_of_string tr; es_valid := zlist_of_string va;
       es_stack := Array.make 128 (fes_init (flist e0, flist l0))
     | _ -> failwith ("bad ESNEW: " ^ line))
  | _ -> failwith ("bad ESNEW: " ^ line)

let do_es line =
  match split_str " = " line with
  | [lhs; rhs] ->
    (match parts " | " lhs, parts " | " rhs with
     | [head; e; l], [res; ve; vl] ->
       (match words head, words res with
        | [_; depth; size], [d; round; value] ->
          let depth = int_of_string depth in
          let o = fobs (flist e, flist l) !es_train !es_valid (zi size) in
          let (md, ms) = fes_done !es_eps !es_pat (!es_stack).(depth) o in
          (!es_stack).(depth + 1) <- ms;
          es_path.(depth) <- line;
          incr checked;
          let (mve, mvl) = ms.es_values in
          if md <> (d = "1") || int_of_z ms.es_round <> int_of_string round
             || not (feq ms.es_value (fos value)) || not (feql mve (flist ve)) || not (feql mvl (flist vl))
          then begin
            let hist = String.concat " ;; " (Array.to_list (Array.sub es_path 0 (depth + 1))) in
            report "MISMATCH" (Printf.sprintf "ES model: done=%d round=%d value=%s values=[%s|%s] ;; history: %s ;; %s"
                                 (if md then 1 else 0) (int_of_z ms.es_round) (hx ms.es_value) (fstr mve) (fstr mvl) !es_cfg hist)
          end
        | _ -> failwith ("bad ES: " ^ line))
     | _ -> failwith ("bad ES: " ^ line))
  | _ -> failwith ("bad ES: " ^ line)

(* ---- LOOP ---- *)
let do_loop line =
  match split_str " = " line with
  | [lhs; rhs] ->
    (match split_str " | " lhs, split_str " | " rhs with
     | [head; tr; va; v0; evs], [res; rows; snapv] ->
       (match words head, words res with
        | [_; eps; pat; maxr], [round; nkept; nrows; value] ->
          let train = zlist_of_string tr and valid = zlist_of_string va in
          let v0 = fvals_of (trim v0) in
          let evl = List.filter (fun t -> t <> "") (List.map trim (split_str " # " evs)) in
          let vals = ref [v0] in
          let id = ref 0 in
          let events = List.map (fun t ->
              incr id;
              if t = "F" then EvScaleFail (z_of_int !id)
              else if t = "N" then EvNoFit
              else begin
                let v = fvals_of (trim (String.sub t 2 (String.length t - 2))) in
                vals := v :: !vals;
                EvRound (z_of_int !id, fobs v train valid Z0)
              end) evl in
          let st = fboost (fos eps) (zi pat) (nat_of_int (int_of_string maxr)) (fobs v0 train valid Z0) events in
          incr checked;
          let mround = int_of_z st.ls_es.es_round in
          let kept = List.map int_of_z (fkept_learners st) in
          let mrows = int_of_z (fkept_rows st) in
          let bad = ref [] in
          if mround <> int_of_string round then bad := "round" :: !bad;
          if List.length kept <> int_of_string nkept then bad := "kept" :: !bad;
          if kept <> List.init (List.length kept) (fun i -> i + 1) then bad := "kept-ids" :: !bad;
          if mrows <> int_of_string nrows then bad := "rows" :: !bad;
          if not (feq st.ls_es.es_value (fos value)) then bad := "value" :: !bad;
          let (se, sl) = fvals_of (trim snapv) in
          let (me, ml) = st.ls_es.es_values in
          if not (feql me se && feql ml sl) then bad := "values" :: !bad;
          (* statistics rows 0..round: the four means of the values after each round *)
          let allvals = Array.of_list (List.rev !vals) in
          let rowl = List.filter (fun t -> t <> "") (List.map trim (split_str " # " rows)) in
          List.iteri (fun i r ->
              if i < Array.length allvals then begin
                if not (feql (stat_row allvals.(i) train valid) (flist r)) then bad := (Printf.sprintf "statrow%d" i) :: !bad
              end else bad := "statrow-extra" :: !bad) rowl;
          if !bad <> [] then
            report "MISMATCH" (Printf.sprintf "LOOP differs in [%s] model: round=%d kept=%d rows=%d value=%s ;; %s"
                                 (String.concat "," !bad) mround (List.length kept) mrows (hx st.ls_es.es_value) line)
        | _ -> failwith ("bad LOOP: " ^ line))
     | _ -> failwith ("bad LOOP: " ^ line))
  | _ -> failwith ("bad LOOP: " ^ line)

(* ---- GBH: per-round (train error, validation error) stored by a fitted fold: the model monitor, fed with exactly these
   means, must not stop before the last stored round and must report the last stored round ---- *)
let do_gbh line =
  match parts " | " line with
  | [head; rows] ->
    (match words head with
     | [_; eps; pat; nvalid] ->
       let eps = fos eps and pat = zi pat and nvalid = zi nvalid in
       let rs = List.filter (fun t -> t <> "") (split_on ';' rows) in
       let n = List.length rs in
       let s = ref (fes_init ([], [])) in
       let early = ref (-1) in
       List.iteri (fun k r ->
           match flist r with
           | [t; v] ->
             let o = { o_train = t; o_valid = v; o_nvalid = nvalid; o_size = z_of_int k; o_values = ([], []) } in
             let (d, s') = fes_done eps pat !s o in
             s := s';
             if d && k < n - 1 && !early < 0 then early := k
           | _ -> failwith ("bad GBH row: " ^ r)) rs;
       incr checked;
       if !early >= 0 then
         report "PROPFAIL" (Printf.sprintf "GBH the stored history stops at round %d before the kept round %d ;; %s" !early (n - 1) line)
       else if int_of_z !s.es_round <> n - 1 then
         report "PROPFAIL" (Printf.sprintf "GBH the kept round %d is not the monitor's round %d on the stored history ;; %s"
                              (n - 1) (int_of_z !s.es_round) line)
     | _ -> failwith ("bad GBH: " ^ line))
  | _ -> failwith ("bad GBH: " ^ line)

let () =
  (try
     while true do
       let line = input_line stdin in
       let n = String.length line in
       if n > 6 && String.sub line 0 3 = "ES " then do_es line
       else if n > 6 && String.sub line 0 6 = "ESNEW " then do_esnew line
       else if n > 6 && String.sub line 0 5 = "LOOP " then do_loop line
       else if n > 6 && String.sub line 0 4 = "GBH " then do_gbh line
     done
   with End_of_file -> ());
  Printf.printf "MODEL-DONE checked=%d mismatches=%d propfails=%d\n" !checked !mismatches !propfails
