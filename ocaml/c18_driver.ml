(* C18 driver: reads the lines of harness/c18_shared.cpp on stdin and confronts what the instrumented implementation
   was observed to do with the extracted access-discipline model (coq/theories/C18_Defs.v):
     LOOP   chunk list = model chunks (C17 chunk loop), fast-path decision = translated test, tnum indexes an existing
            buffer of every family, tasks that overlapped in time have conflict-free MODEL footprints (within the call
            and across the calls of the same group = same dataset pool), reduced checksum = sum_reduce (bins assignment)
     TUNEB  task count = folds * new_trials, (trial, fold) decode, closest read is a trial below old_trials of the same
            fold, first batch single, tasks that overlapped in time have conflict-free model footprints
     TUNET  the table read back: slot (trial, fold) is row-major and holds what the task of (trial, fold) stored
     USER   the model's verdict on the sharing pattern (pairwise_free of the user footprints) vs. result=same|diff
   Prints `MISMATCH <what> :: <line>` and a final `MODEL-DONE checked=<n> mismatches=<m> ...`. *)
let mism = ref 0
let checked = ref 0
let pairs = ref 0
let nloops = ref 0 and ngroups = ref 0 and ntuneb = ref 0 and ntunet = ref 0 and nusers = ref 0 and nfits = ref 0 and nwfits = ref 0 and nwties = ref 0
let report what line =
  incr mism;
  if !mism <= 60 then Printf.printf "MISMATCH %s :: %s\n" what (if String.length line > 600 then String.sub line 0 600 ^ "..." else line)

let kv toks key =
  let p = key ^ "=" in
  let n = String.length p in
  match List.find_opt (fun t -> String.length t >= n && String.sub t 0 n = p) toks with
  | Some t -> String.sub t n (String.length t - n)
  | None -> raise Not_found
let ikv toks key = int_of_string (kv toks key)
let words s = List.filter (fun t -> t <> "") (String.split_on_char ' ' (trim s))
let zi = z_of_int
let ints_of sep s = List.map int_of_string (String.split_on_char sep s)

let kinds_of = function
  | "flatten" -> [KFlatten] | "flattent" -> [KFlatten; KTargets] | "targets" -> [KTargets]
  | "select" -> [KSelScalar] | "cachef" -> [KFlattenCache] | "cachet" -> [KTargetsCache]
  | "selectc" -> [KSelSclass]
  | _ -> [KFlatten]

(* ---- LOOP ------------------------------------------------------------------------------------------ *)
let group_id = ref (-1)
let group_obs : obs list ref = ref []
let group_line = ref ""
let flush_group () =
  if !group_obs <> [] then begin
    incr ngroups; incr checked;
    let l = !group_obs in
    let n = List.length l in
    pairs := !pairs + n * (n - 1) / 2;
    if not (overlaps_free l) then
      report (Printf.sprintf "group %d: two tasks that overlapped in time have conflicting model footprints (same owner+family+tnum, or same rows)" !group_id) !group_line
  end;
  group_obs := []

let do_loop line =
  incr nloops;
  match split_str " | " line with
  | [hd; tasks; tl] ->
    let h = words hd and t = words tl in
    let g = ikv h "group" and kind = kv h "kind" and owner = ikv h "owner" and pool = ikv h "pool"
    and n = ikv h "n" and chunk = ikv h "chunk" and caller = ikv h "caller" in
    let total = ikv t "total" and expect = ikv t "expect" in
    if g <> !group_id then (flush_group (); group_id := g);
    group_line := line;
    let ks = kinds_of kind in
    let recs = List.map (fun w -> match ints_of ':' w with
        | [b; e; tnum; tid; t0; t1; s] -> (b, e, tnum, tid, t0, t1, s)
        | _ -> failwith "bad task") (words tasks) in
    let obs = List.map (fun (b, e, tnum, _, t0, t1, _) ->
        { o_owner = nat_of_int owner; o_kinds = ks; o_lo = zi b; o_hi = zi e; o_tnum = zi tnum; o_t0 = zi t0; o_t1 = zi t1 }) recs in
    (* 1. chunks *)
    incr checked;
    let is_sel = (kind = "select" || kind = "selectc") in
    if is_sel then begin
      let mc = int_of_z (select_chunk (zi n) (zi pool)) in
      if mc <> chunk then report (Printf.sprintf "features_per_thread: model %d" mc) line;
      if List.length recs <> n then report "select: number of callback invocations differs from the number of features" line
    end else begin
      let model = List.map (fun (b, e) -> (int_of_z b, int_of_z e)) (loop_chunks (zi n) (zi chunk)) in
      let seen = List.sort compare (List.map (fun (b, e, _, _, _, _, _) -> (b, e)) recs) in
      if model <> seen then
        report (Printf.sprintf "chunk list differs from the model's (%s)"
                  (String.concat " " (List.map (fun (b, e) -> Printf.sprintf "%d:%d" b e) model))) line
    end;
    (* 2. fast path *)
    incr checked;
    let eff_chunk = chunk in
    let inl = loop_inline (zi pool) (zi eff_chunk) (zi n) in
    if inl then begin
      if List.exists (fun (_, _, tnum, tid, _, _, _) -> tnum <> 0 || tid <> caller) recs then
        report "model takes the fast path (caller thread, tnum 0) but a task ran elsewhere" line
    end else begin
      if List.exists (fun (_, _, _, tid, _, _, _) -> tid = caller) recs then
        report "model submits to the pool but a task ran in the calling thread" line
    end;
    (* 3. tnum indexes an existing buffer *)
    incr checked;
    if not (List.for_all (fun o -> tnum_in_range (zi pool) o) obs) then
      report "a task was handed a tnum outside [0, number of per-thread buffers)" line;
    (* 4. overlapping tasks (group-wide, checked when the group ends) *)
    group_obs := obs @ !group_obs;
    (* 5. reduction *)
    incr checked;
    let assign = List.map (fun (_, _, tnum, _, _, _, s) -> (nat_of_int (max 0 tnum), zi s)) recs in
    let reduced = int_of_z (sum_reduce (bins (nat_of_int pool) assign)) in
    if reduced <> expect || total <> expect then
      report (Printf.sprintf "sum_reduce over the observed assignment = %d, total = %d, sequential = %d" reduced total expect) line
  | _ -> report "unparsable LOOP line" line

(* ---- TUNE ------------------------------------------------------------------------------------------ *)
let do_tuneb line =
  incr ntuneb;
  match split_str " | " line with
  | hd :: rest ->
    let tasks = (match rest with [t] -> t | _ -> "") in
    let h = words hd in
    let pool = ikv h "pool" and old = ikv h "old" and nw = ikv h "new" and folds = ikv h "folds" in
    let recs = List.map (fun w -> match ints_of ':' w with
        | [trial; fold; ct; cf; tid; t0; t1] -> (trial, fold, ct, cf, tid, t0, t1)
        | _ -> failwith "bad tune task") (words tasks) in
    let zf = zi folds and zo = zi old in
    incr checked;
    let ntasks = int_of_z (src_c18_tasks zf (zi nw)) in
    if List.length recs <> ntasks then report (Printf.sprintf "number of tasks differs from folds * new_trials = %d" ntasks) line;
    if old = 0 && nw <> 1 then report "the first batch has more than one trial (premise of the race-freedom theorem)" line;
    let tobs = List.map (fun (trial, fold, ct, _, _, t0, t1) ->
        { u_trial = zi trial; u_fold = zi fold; u_closest = zi ct; u_t0 = zi t0; u_t1 = zi t1 }) recs in
    incr checked;
    if not (List.for_all (fun u -> tune_decodes zf zo u) tobs) then report "a (trial, fold) is not the decoding of its task index" line;
    let idx = List.sort compare (List.map (fun u -> int_of_z (tune_index zf zo u)) tobs) in
    if idx <> List.init ntasks (fun i -> i) then report "the task indices are not 0 .. folds*new_trials-1 exactly once" line;
    incr checked;
    List.iter (fun (_, fold, ct, cf, _, _, _) ->
        if ct < 0 then (if old <> 0 then report "no warm-start model although earlier trials exist" line)
        else begin
          if not (closest_okb zo (zi ct)) || ct >= old then report "the closest trial is not below old_trials" line;
          if cf <> fold then report "the warm-start model comes from another fold" line
        end) recs;
    incr checked;
    let n = List.length tobs in
    pairs := !pairs + n * (n - 1) / 2;
    if not (tune_overlaps_free zf zo tobs) then
      report "two tune tasks that overlapped in time have conflicting model footprints" line;
    incr checked;
    if tune_batch_inline (zi pool) zf (zi nw) then begin
      match recs with
      | (_, _, _, _, tid0, _, _) :: _ ->
        if List.exists (fun (_, _, _, _, tid, _, _) -> tid <> tid0) recs then
          report "model takes the fast path but the tasks ran on several threads" line
      | [] -> ()
    end
  | _ -> report "unparsable TUNEB line" line

let do_tunet line =
  incr ntunet;
  match split_str " | " line with
  | [hd; toks] ->
    let h = words hd in
    let folds = ikv h "folds" and trials = ikv h "trials" in
    let ws = Array.of_list (words toks) in
    incr checked;
    if Array.length ws <> folds * trials then report "table size differs from folds * trials" line
    else
      for trial = 0 to trials - 1 do
        for fold = 0 to folds - 1 do
          let k = trial * folds + fold in
          let slot = int_of_z (tune_slot (zi folds) (zi trial) (zi fold)) in
          if slot <> k then report (Printf.sprintf "slot(%d,%d) = %d is not row-major" trial fold slot) line;
          (match String.split_on_char '=' ws.(k) with
           | [e; r] -> if e <> r then report (Printf.sprintf "extra(%d,%d) read back %s, the task stored %s" trial fold r e) line
           | _ -> report "bad table token" line)
        done
      done
  | _ -> report "unparsable TUNET line" line

(* ---- USER ------------------------------------------------------------------------------------------ *)
let do_user line =
  incr nusers;
  let h = words line in
  let kind = kv h "kind" and shared = ikv h "shared" and result = kv h "result" in
  let objs = ints_of ',' (kv h "objs") in
  let sh = nat_of_int shared in
  let calls = List.map (fun o ->
      let p = nat_of_int o in
      match kind with
      | "minimize" -> UMinimize (sh, p)
      | "loss" -> ULoss (sh, S sh, S (S sh), p)
      | "dataset" -> UDataset (sh, p)
      | _ -> UPredict (sh, S sh, p)) objs in
  incr checked;
  let free = pairwise_free (user_fps O calls) in
  if free && result <> "same" then report "model: conflict-free sharing pattern, implementation: result differs from the sequential one" line;
  if not free then report "model: the sharing pattern of this scenario conflicts (scenario bug?)" line

(* ---- WFIT ------------------------------------------------------------------------------------------ *)
(* weak-learner fit with a dataset pool of P workers vs one worker. The model (selection with the SOURCE's comparisons,
   fit_select_src, proved schedule independent without ties) allows exactly two outcomes: the same (features, score), or -- when
   two features have exactly the same score -- another feature with the SAME score (result=tie). A different score is excluded. *)
let do_wfit line =
  incr nwfits; incr checked;
  let h = words line in
  let result = kv h "result" in
  let split_at s = match String.index_opt s '@' with
    | Some i -> (String.sub s 0 i, String.sub s (i + 1) (String.length s - i - 1)) | None -> (s, "") in
  let (rf, rs) = split_at (kv h "ref") and (gf, gs) = split_at (kv h "got") in
  if rs <> gs then
    report "model: the selected score is the minimum over all features for every assignment of features to workers (C18_fit_select_src_schedule_independent / C18_fit_select_minimal); implementation: the score differs from the one-worker fit" line
  else if rf <> gf then begin
    incr nwties;
    if result <> "tie" then report "same score on other features must be classified as tie" line
  end else if result <> "same" then report "same features and score but result is not `same`" line

let () =
  (try
     while true do
       let line = input_line stdin in
       let op = (match String.index_opt line ' ' with Some sp -> String.sub line 0 sp | None -> line) in
       (try
          match op with
          | "LOOP" -> do_loop line
          | "TUNEB" -> do_tuneb line
          | "TUNET" -> do_tunet line
          | "USER" -> do_user line
          | "FIT" -> incr nfits
          | "WFIT" -> do_wfit line
          | _ -> ()
        with Not_found | Failure _ | Invalid_argument _ -> report "unparsable line" line)
     done
   with End_of_file -> ());
  flush_group ();
  Printf.printf "MODEL-DONE checked=%d mismatches=%d loops=%d groups=%d pairs=%d tunebatches=%d tunetables=%d users=%d fits=%d wfits=%d wties=%d\n"
    !checked !mism !nloops !ngroups !pairs !ntuneb !ntunet !nusers !nfits !nwfits !nwties
