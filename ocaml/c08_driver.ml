(* C08 driver: rebuilds every case of harness/c08_dataset.cpp in the extracted Coq model (C08_Defs: concrete
   storage pools + bit masks, generators' fit, dataset_t::update bookkeeping, drop/shuffle flags, select / flatten /
   targets) from the DS/FEAT/SET/GEN/OP lines and compares every observation line of the implementation with
   what the model computes: `MISMATCH <case> <line prefix> // model: ...`.  Exact comparison (all values are
   integers or NaN).  The columns of gradient features are compared twice: by their missing pattern against the
   integer model (placeholder zeros), and by VALUE against the PrimFloat model C08_Gradient (flatten_f / select_f):
   gx, gy, magnitude bit for bit (Int64.bits_of_float), angle within 1e-12 absolute (std::atan2 is libm; the model's
   section variable atan2 is instantiated with OCaml's Float.atan2). *)
let mism = ref 0
let total = ref 0
let case_id = ref ""
let clip s = if String.length s > 400 then String.sub s 0 400 ^ "..." else s
let report line model =
  incr mism;
  if !mism <= 200 then Printf.printf "MISMATCH %s %s // model: %s\n" !case_id (clip line) (clip model)

let sentinel = 987654321
let tok_of_string (t : string) : int option =
  let t = String.trim t in
  if t = "nan" then None else (match int_of_string_opt t with Some v -> Some v | None -> Some sentinel)
let row_of_string (s : string) : int option list =
  if String.trim s = "" then [] else List.map tok_of_string (String.split_on_char ',' s)
let rows_of_string (s : string) : int option list list = List.map row_of_string (String.split_on_char ';' s)
let string_of_tok = function None -> "nan" | Some v -> string_of_int v
let string_of_row r = String.concat "," (List.map string_of_tok r)
let string_of_rows rs = String.concat ";" (List.map string_of_row rs)
let ioz = function None -> None | Some x -> Some (int_of_z x)

let ftype_of_string = function
  | "int8" -> TI08 | "int16" -> TI16 | "int32" -> TI32 | "int64" -> TI64
  | "uint8" -> TU08 | "uint16" -> TU16 | "uint32" -> TU32 | "uint64" -> TU64
  | "float32" -> TF32 | "float64" -> TF64 | "sclass" -> TSclass | "mclass" -> TMclass
  | s -> failwith ("bad type " ^ s)
let string_of_ftype = function
  | TI08 -> "int8" | TI16 -> "int16" | TI32 -> "int32" | TI64 -> "int64"
  | TU08 -> "uint8" | TU16 -> "uint16" | TU32 -> "uint32" | TU64 -> "uint64"
  | TF32 -> "float32" | TF64 -> "float64" | TSclass -> "sclass" | TMclass -> "mclass"
let gkind_of_string = function
  | "sclass" -> GSclass | "mclass" -> GMclass | "scalar" -> GScalar | "struct" -> GStruct
  | "product" -> GProduct | "gradient" -> GGradient | s -> failwith ("bad kind " ^ s)

(* ---- per-case state ---------------------------------------------------------------------------- *)
let n = ref 0
let target = ref (-1)
let feats : feature list ref = ref []
let store : store option ref = ref None
let gens_rev : gfeat list list ref = ref []
let gens_cache : gfeat list list option ref = ref None
let kerns_rev : kernel3 list ref = ref []
let gcells = ref 0      (* gradient values compared bit for bit *)
let acells = ref 0      (* angle values compared within tolerance *)
let worst_angle = ref 0.0
let flags_st : flag list list option ref = ref None

let get_store () =
  match !store with
  | Some s -> s
  | None ->
    let s = resize (z_of_int !n) (List.rev !feats) (z_of_int (if !target < 0 then 1000000 else !target)) in
    store := Some s; s
let get_gens () =
  match !gens_cache with Some g -> g | None -> let g = List.rev !gens_rev in gens_cache := Some g; g
let get_flags () =
  match !flags_st with Some f -> f | None -> let f = flags_init (get_gens ()) in flags_st := Some f; f
let reader () = ds_reader (get_store ())

let is_gradient (g : gfeat) = (match g.g_kind with GGradient -> true | _ -> false)
(* per column: belongs to a gradient feature? *)
let gradient_columns () : bool array =
  let gs = get_gens () in
  Array.of_list (List.concat_map (fun g -> List.init (max 0 (int_of_z (desc_cols g.g_desc))) (fun _ -> is_gradient g)) (all_feats gs))
let norm_grad (v : int option) = match v with None -> None | Some _ -> Some 0

(* ---- value-level comparison of gradient features (PrimFloat model) ------------------------------- *)
let kernel_of_string = function
  | "sobel" -> Sobel | "scharr" -> Scharr | "prewitt" -> Prewitt | s -> failwith ("bad kernel " ^ s)
let atan2_m (y : Float64.t) (x : Float64.t) : Float64.t =
  Float64.of_float (Float.atan2 (Float64.to_float y) (Float64.to_float x))
let get_kerns () = List.rev !kerns_rev
(* per column: -1 = not a gradient feature, else the mode 0 gx, 1 gy, 2 magnitude, 3 angle *)
let feature_mode (g : gfeat) = if is_gradient g then int_of_z (grad_mode g) else -1
let column_modes () : int array =
  let gs = get_gens () in
  Array.of_list (List.concat_map (fun g -> List.init (max 0 (int_of_z (desc_cols g.g_desc))) (fun _ -> feature_mode g)) (all_feats gs))
let raw_rows (s : string) : string list list =
  List.map (fun r -> if String.trim r = "" then [] else List.map String.trim (String.split_on_char ',' r)) (String.split_on_char ';' s)
let hexs (v : float) = if Float.is_nan v then "nan" else Printf.sprintf "%h" v
let fcell_ok (mode : int) (t : string) (m : Float64.t option) : bool =
  match m with
  | None -> t = "nan"
  | Some x ->
    let x = Float64.to_float x in
    if t = "nan" then Float.is_nan x
    else (match float_of_string_opt t with
        | None -> false
        | Some v ->
          if mode = 3 then begin
            incr acells;
            let d = Float.abs (v -. x) in
            if d > !worst_angle then worst_angle := d;
            d <= 1e-12
          end else begin
            incr gcells;
            Int64.bits_of_float v = Int64.bits_of_float x
          end)
let string_of_fcell = function None -> "nan" | Some x -> hexs (Float64.to_float x)
(* compare the cells selected by `mode_of column >= 0`; returns the first difference *)
let compare_grad line (impl : string list list) (model : Float64.t option list list) (mode_of : int -> int) =
  let bad = ref None in
  (try
     List.iteri (fun i (ri, rm) ->
         if List.length ri <> List.length rm then begin bad := Some (Printf.sprintf "row %d: %d cells, model %d" i (List.length ri) (List.length rm)); raise Exit end;
         List.iteri (fun c (t, m) ->
             let md = mode_of c in
             if md >= 0 && not (fcell_ok md t m) then begin
               bad := Some (Printf.sprintf "gradient value (mode %d %s) row %d column %d: impl %s model %s" md
                              (match md with 0 -> "gx" | 1 -> "gy" | 2 -> "magnitude" | _ -> "angle, tolerance 1e-12") i c t (string_of_fcell m));
               raise Exit end) (List.combine ri rm))
       (List.combine impl model)
   with Exit -> () | Invalid_argument _ -> bad := Some (Printf.sprintf "row count impl %d model %d" (List.length impl) (List.length model)));
  match !bad with Some m -> report line m | None -> ()

let rows_of_view_list (vs : view list) : int option list list =
  List.map (function
      | VSclass l -> [Some (int_of_z l)]
      | VMclass h -> List.map (fun x -> Some (int_of_z x)) h
      | VScalar x -> [ioz x]
      | VStruct xs -> List.map ioz xs) vs

let compare_rows line (impl : int option list list) (model : int option list list) =
  incr total;
  if impl <> model then begin
    (* locate the first difference *)
    let rec first i a b = match a, b with
      | [], [] -> "?"
      | ra :: a', rb :: b' -> if ra <> rb then Printf.sprintf "row %d: impl [%s] model [%s]" i (clip (string_of_row ra)) (clip (string_of_row rb)) else first (i + 1) a' b'
      | _, _ -> Printf.sprintf "row count impl %d model %d" (List.length impl) (List.length model) in
    report line (first 0 impl model)
  end

let handle line =
  let op, rest = (match String.index_opt line ' ' with
      | None -> (line, "")
      | Some sp -> (String.sub line 0 sp, String.sub line (sp + 1) (String.length line - sp - 1))) in
  let lhs, rhs = (match split_str " = " (" " ^ rest) with
      | [a; b] -> (trim a, trim b)
      | a :: b :: more -> (trim a, trim (String.concat " = " (b :: more)))
      | _ -> (trim rest, "")) in
  let bar s = (match split_str " | " (s ^ " ") with
      | [a; b] -> (trim a, trim b)
      | [a] -> (trim a, "")
      | _ -> (s, "")) in
  let words s = List.filter (fun w -> w <> "") (String.split_on_char ' ' s) in
  match op with
  | "CASE" ->
    case_id := (match words rest with w :: _ -> w | [] -> "?");
    n := 0; target := -1; feats := []; store := None; gens_rev := []; gens_cache := None; flags_st := None; kerns_rev := []
  | "DS" ->
    (match words rest with
     | [a; _; c] -> n := int_of_string a; target := int_of_string c
     | _ -> report line "bad DS line")
  | "FEAT" ->
    (match words rest with
     | [_; ty; cl; d0; d1; d2] ->
       feats := { f_type = ftype_of_string ty; f_classes = z_of_int (int_of_string cl); f_d0 = z_of_int (int_of_string d0);
                  f_d1 = z_of_int (int_of_string d1); f_d2 = z_of_int (int_of_string d2) } :: !feats
     | _ -> report line "bad FEAT line")
  | "SET" ->
    let a, vals = bar rest in
    (match words a with
     | [fi; s] ->
       (match ds_set (get_store ()) (z_of_int (int_of_string fi)) (z_of_int (int_of_string s)) (zlist_of_string vals) with
        | Some st -> store := Some st; incr total
        | None -> report line "the model rejects this write")
     | _ -> report line "bad SET line")
  | "SETBAD" ->
    let a, vals = bar lhs in
    (match words a with
     | [fi; s] ->
       incr total;
       let m = (match ds_set (get_store ()) (z_of_int (int_of_string fi)) (z_of_int (int_of_string s)) (zlist_of_string vals) with
           | Some _ -> "accepted" | None -> "rejected") in
       if m <> rhs then report line m
     | _ -> report line "bad SETBAD line")
  | "LOADED" ->
    (match words rest with
     | [a; b] ->
       incr total;
       let st = get_store () in
       let m = Printf.sprintf "%d %d" (int_of_z st.s_samples) (int_of_z (ds_features st)) in
       if m <> a ^ " " ^ b then report line m
     | _ -> report line "bad LOADED line")
  | "LAYOUT" ->
    (match words rest with
     | [raw; pool; off; size; msize] ->
       incr total;
       let st = get_store () in
       let fi = z_of_int (int_of_string raw) in
       let f = znth fi st.s_feats dflt_feature in
       let m = Printf.sprintf "%s %d %d %d" (string_of_ftype (pool_visit f)) (int_of_z (cell_addr st fi Z0))
           (int_of_z (width f) * int_of_z st.s_samples) (List.length (znth fi st.s_mask [])) in
       if m <> String.concat " " [pool; off; size; msize] then report line m;
       (* resize() and visit() must pick the same pool *)
       if pool_resize f <> pool_visit f then report line "pool_resize <> pool_visit"
     | _ -> report line "bad LAYOUT line")
  | "GEN" ->
    let a, ids2 = bar rest in
    (match words a with
     | kind :: more ->
       let ids1 = String.concat "" more in
       (* "gradient@<kernel>": the generator's kernel3x3_type *)
       let kind, kern = (match String.split_on_char '@' kind with
           | [k; kn] -> (k, kernel_of_string kn)
           | _ -> (kind, Sobel)) in
       kerns_rev := kern :: !kerns_rev;
       gens_rev := fit (get_store ()) (gkind_of_string kind) (zlist_of_string ids1) (zlist_of_string ids2) :: !gens_rev;
       gens_cache := None; flags_st := None
     | [] -> report line "bad GEN line")
  | "NFEAT" -> incr total; let m = string_of_int (int_of_z (features (get_gens ()))) in if m <> rhs then report line m
  | "NCOLS" -> incr total; let m = string_of_int (int_of_z (columns (get_gens ()))) in if m <> rhs then report line m
  | "TDIMS" ->
    incr total;
    let ((a, b), c) = target_dims (get_store ()) in
    let m = Printf.sprintf "%d,%d,%d" (int_of_z a) (int_of_z b) (int_of_z c) in
    if m <> rhs then report line m
  | "GFEAT" ->
    incr total;
    let gs = get_gens () in
    let f = z_of_int (int_of_string lhs) in
    (match locate gs Z0 f, (let (gi, li) = znth f (feature_mapping gs) (Z0, Z0) in (gi, li)) with
     | Some (gi, li), (gi', li') ->
       if int_of_z gi <> int_of_z gi' || int_of_z li <> int_of_z li' then report line "feature_mapping <> locate";
       let g = znth li (znth gi gs []) { g_kind = GScalar; g_o1 = Z0; g_o2 = Z0; g_desc = dflt_feature; g_colsize = Z0 } in
       let d = g.g_desc in
       let cl = (match d.f_type with TSclass | TMclass -> int_of_z d.f_classes | _ -> 0) in
       let (d0, d1, d2) = (match d.f_type with TSclass | TMclass -> (1, 1, 1) | _ -> (int_of_z d.f_d0, int_of_z d.f_d1, int_of_z d.f_d2)) in
       let m = Printf.sprintf "%s %d %d %d %d" (string_of_ftype d.f_type) cl d0 d1 d2 in
       if m <> rhs then report line m;
       (* process()'s colsize agrees with update()'s column count *)
       if int_of_z g.g_colsize <> int_of_z (desc_cols d) then report line "generator colsize <> dataset column count"
     | None, _ -> report line "no such feature in the model")
  | "C2F" ->
    incr total;
    let gs = get_gens () in
    let m = String.concat "," (List.map (fun c -> string_of_int (int_of_z (column2feature gs (z_of_int c)))) (List.init (int_of_z (columns gs)) (fun c -> c))) in
    if m <> rhs then report line m
  | "FLAT" ->
    let samples = zlist_of_string lhs in
    (match flatten (reader ()) (z_of_int !n) (get_gens ()) (get_flags ()) samples with
     | None -> incr total; report line "the model rejects these samples"
     | Some rows ->
       let gc = gradient_columns () in
       let isg c = c < Array.length gc && gc.(c) in
       let impl = List.map (fun r -> List.mapi (fun c v -> if isg c then norm_grad v else v) r) (rows_of_string rhs) in
       let model = List.map (fun r -> List.map ioz r) rows in
       compare_rows line impl model;
       (* the VALUES of the gradient columns, from the PrimFloat model *)
       if Array.exists (fun b -> b) gc then begin
         let cm = column_modes () in
         (match flatten_f atan2_m (get_kerns ()) (reader ()) (z_of_int !n) (get_gens ()) (get_flags ()) samples with
          | None -> report line "the float model rejects these samples"
          | Some frows -> compare_grad line (raw_rows rhs) frows (fun c -> if c < Array.length cm then cm.(c) else -1))
       end)
  | "SELS" | "SELM" | "SELC" | "SELT" ->
    let fs, ss = bar lhs in
    let f = z_of_int (int_of_string fs) in
    (match select (reader ()) (z_of_int !n) (get_gens ()) (get_flags ()) (zlist_of_string ss) f with
     | None -> incr total; report line "the model rejects this query"
     | Some vs ->
       let gs = get_gens () in
       let grad = (match locate gs Z0 f with
           | Some (gi, li) -> is_gradient (znth li (znth gi gs []) { g_kind = GScalar; g_o1 = Z0; g_o2 = Z0; g_desc = dflt_feature; g_colsize = Z0 })
           | None -> false) in
       let impl = rows_of_string rhs in
       let impl = if grad then List.map (List.map norm_grad) impl else impl in
       let kind_ok = (match op, vs with
           | "SELS", (VSclass _ :: _) | "SELM", (VMclass _ :: _) | "SELC", (VScalar _ :: _) | "SELT", (VStruct _ :: _) -> true
           | _, [] -> true | _ -> false) in
       if not kind_ok then report line "view kind differs in the model";
       compare_rows line impl (rows_of_view_list vs);
       if grad then begin
         let md = (match locate gs Z0 f with
             | Some (gi, li) -> feature_mode (znth li (znth gi gs []) { g_kind = GScalar; g_o1 = Z0; g_o2 = Z0; g_desc = dflt_feature; g_colsize = Z0 })
             | None -> -1) in
         (match select_f atan2_m (get_kerns ()) (reader ()) (z_of_int !n) gs (get_flags ()) (zlist_of_string ss) f with
          | None -> report line "the float model rejects this query"
          | Some frows -> compare_grad line (raw_rows rhs) frows (fun _ -> md))
       end)
  | "TARGETS" ->
    (match targets (get_store ()) (zlist_of_string lhs) with
     | None -> incr total; report line "the model rejects this query"
     | Some rows -> compare_rows line (rows_of_string rhs) (List.map (List.map ioz) rows))
  | "TSEL" ->
    (match target_select (get_store ()) (zlist_of_string lhs) with
     | None -> incr total; report line "the model rejects this query"
     | Some vs -> compare_rows line (rows_of_string rhs) (rows_of_view_list vs))
  | "SHUF" ->
    let fs, ss = bar lhs in
    incr total;
    let m = string_of_zlist (shuffled (flag_of (get_gens ()) (get_flags ()) (z_of_int (int_of_string fs))) (zlist_of_string ss)) in
    if m <> rhs then report line m
  | "REJ" ->
    let what, args = bar lhs in
    incr total;
    let gs = get_gens () in
    let nz = z_of_int !n in
    let rejected = (match what with
        | "flatten" -> not (check_samples nz (zlist_of_string args))
        | "targets" | "tselect" -> not (check_samples nz (zlist_of_string args) && has_target (get_store ()))
        | "select" ->
          (match split_str " ; " args with
           | [f; ss] -> (match select (reader ()) nz gs (get_flags ()) (zlist_of_string ss) (z_of_int (int_of_string (trim f))) with None -> true | Some _ -> false)
           | _ -> false)
        | "fselect-sclass" | "fselect-scalar" | "fselect-struct" | "fselect-mclass" | "feature" ->
          not (check_feature gs (z_of_int (int_of_string args)))
        | "drop" -> (match apply_op gs (get_flags ()) (ODrop (z_of_int (int_of_string args))) with None -> true | Some _ -> false)
        | "shuffle" -> (match apply_op gs (get_flags ()) (OShuffle (z_of_int (int_of_string args), [])) with None -> true | Some _ -> false)
        | _ -> false) in
    let m = if rejected then "rejected" else "accepted" in
    if m <> rhs then report line m
  | "OP" ->
    incr total;
    let gs = get_gens () in
    let o = (match words rest with
        | ["drop"; f] -> Some (ODrop (z_of_int (int_of_string f)))
        | ["undrop"] -> Some OUndrop
        | ["unshuffle"] -> Some OUnshuffle
        | "shuffle" :: f :: more -> Some (OShuffle (z_of_int (int_of_string f), zlist_of_string (String.concat "" more)))
        | _ -> None) in
    (match o with
     | None -> report line "bad OP line"
     | Some o ->
       (match apply_op gs (get_flags ()) o with
        | Some fl -> flags_st := Some fl
        | None -> report line "the model rejects this operation"))
  | _ -> ()

let () =
  (try
     while true do
       let line = input_line stdin in
       (try handle line with
        | Failure m -> report line ("driver failure: " ^ m)
        | Not_found -> report line "driver failure: Not_found"
        | Invalid_argument m -> report line ("driver failure: " ^ m))
     done
   with End_of_file -> ());
  Printf.printf "MODEL-DONE checked=%d mismatches=%d gradient_values_bitexact=%d angle_values=%d worst_angle_diff=%g\n" !total !mism !gcells !acells !worst_angle
