(* C14 driver: reads the lines of harness/c14_scaling.cpp on stdin, recomputes every statistic / scaled /
   up-scaled value / converted weight with the extracted exact-rational model (C14_model, Z mapped to Zarith)
   and compares within the rounding tolerance relative to the magnitude of the summed terms (exact for the
   discrete data: counts, min, max, the untouched and the missing values).
   Prints `MISMATCH <what> <line id> ...` and a final `MODEL-DONE checked=<n> mismatches=<m>`.
   Extension (second stage, see "the binary64 twin" below): bit-for-bit comparison with the PrimFloat twin
   (`MISMATCH twin-...`) and the PROVED floating-point bounds on the implementation's values (`PROPFAIL fl-...`).
   NB: compiled by tools/checks/c14.py after `open C14_model` (no zutil.ml.inc: Z is not an inductive here). *)
module B = Big_int_Z

let mism = ref 0
let total = ref 0
let printed = ref 0
let report what id detail =
  incr mism;
  incr printed;
  if !printed <= 200 then Printf.printf "MISMATCH %s %s %s\n" what id detail

(* ---- exact conversion of doubles ---------------------------------------------------------------- *)
let qz = { qnum = B.zero_big_int; qden = B.unit_big_int }
let q_of_int n = { qnum = B.big_int_of_int n; qden = B.unit_big_int }
let q_of_float (x : float) : q =
  if x = 0.0 then qz
  else begin
    let (m, e) = Float.frexp x in
    let mi = Int64.of_float (Float.ldexp m 53) in
    let rec strip mi e = if Int64.rem mi 2L = 0L then strip (Int64.div mi 2L) (e + 1) else (mi, e) in
    let (mi, e) = strip mi (e - 53) in
    let n = B.big_int_of_int64 mi in
    if e >= 0 then { qnum = B.shift_left_big_int n e; qden = B.unit_big_int }
    else { qnum = n; qden = B.shift_left_big_int B.unit_big_int (- e) }
  end
let float_of_q (x : q) : float = Q.to_float (Q.make x.qnum x.qden)

let parse_float s = let s = String.trim s in
  if s = "nan" then Float.nan else if s = "inf" then Float.infinity else if s = "-inf" then Float.neg_infinity
  else float_of_string s
let opt_of_float f = if Float.is_finite f then Some (q_of_float f) else None

let split c s = if s = "" then [] else String.split_on_char c s
let floats_of s = List.map parse_float (split ',' (String.trim s))

let ( +/ ) = qplus and ( -/ ) = qminus and ( */ ) = qmult and ( // ) = qdiv
let qabs x = if qle_bool qz x then x else qopp x
let qle = qle_bool
let u53 = { qnum = B.unit_big_int; qden = B.shift_left_big_int B.unit_big_int 53 }
let tiny = { qnum = B.unit_big_int; qden = B.shift_left_big_int B.unit_big_int 1000 }
(* |a - b| <= tol *)
let close a b tol = qle (qabs (a -/ b)) tol
(* |a - b| <= k u |b| *)
let relclose k a b = close a b (q_of_int k */ u53 */ qabs b)

let eps = ref qz
let big = ref qz

type istats = { n : int; f : float array }   (* min max mean stdev divr mulr divs muls *)
let parse_stats s =
  match split ';' (String.trim s) with
  | n :: rest when List.length rest = 8 -> { n = int_of_string (String.trim n); f = Array.of_list (List.map parse_float rest) }
  | _ -> failwith ("bad stats: " ^ s)
let stats_finite st = Array.for_all Float.is_finite st.f
let model_stats st =
  { s_n = B.big_int_of_int st.n; s_min = q_of_float st.f.(0); s_max = q_of_float st.f.(1); s_mean = q_of_float st.f.(2);
    s_stdev = q_of_float st.f.(3); s_div_range = q_of_float st.f.(4); s_mul_range = q_of_float st.f.(5);
    s_div_stdev = q_of_float st.f.(6); s_mul_stdev = q_of_float st.f.(7) }

let split_str sep s =
  let n = String.length sep and m = String.length s in
  let rec go i start acc =
    if i + n > m then List.rev (String.sub s start (m - start) :: acc)
    else if String.sub s i n = sep then go (i + n) (i + n) (String.sub s start (i - start) :: acc)
    else go (i + 1) start acc in
  go 0 0 []

let mode_of_string s = (* "mode=2" / "fm=1" *)
  match split '=' s with [_; v] -> mode_of_Z (B.big_int_of_int (int_of_string v)) | _ -> failwith ("bad mode " ^ s)

let off_of m st = match m with MNone -> qz | MMinMax -> st.s_min | _ -> st.s_mean
let div_of m st = match m with MNone -> q_of_int 1 | MStandard -> st.s_div_stdev | _ -> st.s_div_range
let mul_of m st = match m with MNone -> q_of_int 1 | MStandard -> st.s_mul_stdev | _ -> st.s_mul_range

(* ---- COL: statistics of one column ------------------------------------------------------------------ *)
let check_col id en ci csize lhs rhs =
  let col = List.map opt_of_float (floats_of lhs) in
  let ist = parse_stats rhs in
  incr total;
  if not (stats_finite ist) then report "stats" id ("a statistic of the implementation is not finite: " ^ rhs ^ " column=" ^ lhs)
  else begin
    let eflag = B.big_int_of_int en in
    let a = accumulate (acc0 !big) col in
    let sd = q_of_float ist.f.(3) in
    let st = done1 !eps sd (B.big_int_of_int ci) (B.big_int_of_int csize) eflag a in
    let im = model_stats ist in
    let bad what model = report ("stats-" ^ what) id (Printf.sprintf "model=%h impl: %s column=%s" (float_of_q model) rhs lhs) in
    let nn = B.int_of_big_int a.a_n in
    if nn <> ist.n then bad "n" (q_of_int nn)
    else begin
      if not (qeq_bool st.s_min im.s_min) then bad "min" st.s_min;
      if not (qeq_bool st.s_max im.s_max) then bad "max" st.s_max;
      let many = en <> 0 && nn > 1 in
      if not many then begin
        if not (qeq_bool st.s_mean im.s_mean) then bad "mean" st.s_mean;
        if not (qeq_bool st.s_stdev im.s_stdev) then bad "stdev" st.s_stdev;
        if not (qeq_bool st.s_div_range im.s_div_range) then bad "div_range" st.s_div_range;
        if not (qeq_bool st.s_mul_range im.s_mul_range) then bad "mul_range" st.s_mul_range;
        if not (qeq_bool st.s_div_stdev im.s_div_stdev) then bad "div_stdev" st.s_div_stdev;
        if not (qeq_bool st.s_mul_stdev im.s_mul_stdev) then bad "mul_stdev" st.s_mul_stdev
      end else begin
        let fin = finite col in
        let asum = List.fold_left (fun s x -> s +/ qabs x) qz fin in
        let qn = q_of_int nn in
        (* mean: rounding of the running sum relative to sum |x| *)
        if not (close im.s_mean st.s_mean (q_of_int (2 * (nn + 2)) */ u53 */ asum // qn)) then bad "mean" st.s_mean;
        (* stdev: sd >= 0 and sd^2 within the rounding of the one-pass variance relative to sum x^2 *)
        let v = qmax (var_of a) qz in
        let tolv = (q_of_int (8 * nn + 16) */ u53 */ a.a_sq // q_of_int (nn - 1)) +/ (q_of_int 4 */ u53 */ sd */ sd) +/ tiny in
        if not (qle qz sd) || not (close (sd */ sd) v tolv) then bad "stdev^2" v;
        if not (relclose 4 im.s_div_range st.s_div_range) then bad "div_range" st.s_div_range;
        if not (relclose 2 im.s_mul_range st.s_mul_range) then bad "mul_range" st.s_mul_range;
        if not (relclose 2 im.s_div_stdev st.s_div_stdev) then bad "div_stdev" st.s_div_stdev;
        if not (qeq_bool im.s_mul_stdev st.s_mul_stdev) then bad "mul_stdev" st.s_mul_stdev
      end
    end
  end

(* ---- SC: scale then upscale of (a part of) one column, statistics taken from the implementation --------- *)
let check_sc id m stats_s lhs rhs =
  let ist = parse_stats stats_s in
  incr total;
  if not (stats_finite ist) then report "scale" id ("statistics not finite: " ^ stats_s)
  else begin
    let st = model_stats ist in
    let xs = floats_of lhs in
    match split_str " ; " rhs with
    | [ss; us] ->
      let ss = floats_of ss and us = floats_of us in
      if List.length ss <> List.length xs || List.length us <> List.length xs then report "scale" id "length mismatch"
      else begin
        let off = off_of m st and div = div_of m st and mul = mul_of m st in
        let exact = (m = MNone) in
        let rec go xs ss us =
          match xs, ss, us with
          | x :: xs', s :: ss', up :: us' ->
            let bad what model =
              report what id (Printf.sprintf "x=%h scaled=%h upscaled=%h model=%h stats=%s" x s up (float_of_q model) stats_s) in
            if not (Float.is_finite s) || not (Float.is_finite up) then bad "scale-nonfinite" qz
            else begin
              let v = opt_of_float x in
              let ms = scale1 m st v in
              let sq = q_of_float s in
              (match v with
               | None -> if not (qeq_bool ms sq) then bad "scale-missing" ms
               | Some xq ->
                 let tol = if exact then qz else (q_of_int 4 */ u53 */ (qabs xq +/ qabs off) */ qabs div) +/ tiny in
                 if not (close sq ms tol) then bad "scale" ms);
              let mu = upscale1 m st sq in
              let tol = if exact then qz else (q_of_int 4 */ u53 */ (qabs off +/ qabs (sq */ mul))) +/ tiny in
              if not (close (q_of_float up) mu tol) then bad "upscale" mu;
              go xs' ss' us'
            end
          | _ -> () in
        go xs ss us
      end
    | _ -> report "scale" id "cannot parse"
  end

(* ---- AFF: nano::upscale(flatten_stats, fm, targets_stats, tm, W, b) ---------------------------------------- *)
let check_aff id fm tm fs_s ts_s w_s b_s w2_s b2_s =
  incr total;
  let fis = List.map parse_stats (split '/' fs_s) and tis = List.map parse_stats (split '/' ts_s) in
  if not (List.for_all stats_finite fis && List.for_all stats_finite tis) then report "affine" id "statistics not finite"
  else begin
    let fs = List.map model_stats fis and ts = List.map model_stats tis in
    let rows s = List.map floats_of (split '/' s) in
    let w = rows w_s and w2 = rows w2_s in
    let b = floats_of b_s and b2 = floats_of b2_s in
    let c = List.length fs in
    let fb = List.map (scaling_b fm) fs in
    let rec go i ts w b w2 b2 =
      match ts, w, b, w2, b2 with
      | t :: ts', wr :: w', bi :: b', wr2 :: w2', bi2 :: b2' ->
        if not (List.for_all Float.is_finite wr2) || not (Float.is_finite bi2) then
          report "affine-nonfinite" id (Printf.sprintf "output=%d fm/tm line: up-scaled weights or bias not finite (b'=%h)" i bi2)
        else begin
          let wq = List.map q_of_float wr in
          let mw = up_wrow fm tm fs t wq in
          List.iteri (fun j (mv, iv) ->
              if not (relclose 4 (q_of_float iv) mv) then
                report "affine-w" id (Printf.sprintf "output=%d column=%d w=%h w'=%h model=%h" i j (List.nth wr j) iv (float_of_q mv)))
            (List.combine mw wr2);
          let bq = q_of_float bi in
          let mb = up_bias fm tm fs t wq bq in
          let tw = scaling_w tm t and tb = scaling_b tm t in
          let magn = List.fold_left2 (fun s wv fbv -> s +/ qabs (wv */ fbv)) (qabs bq +/ qabs tb) wq fb in
          let tol = (q_of_int (2 * c + 16) */ u53 */ magn // qabs tw) +/ tiny in
          if not (close (q_of_float bi2) mb tol) then
            report "affine-b" id (Printf.sprintf "output=%d b=%h b'=%h model=%h tol=%h" i bi bi2 (float_of_q mb) (float_of_q tol));
          go (i + 1) ts' w' b' w2' b2'
        end
      | [], [], [], [], [] -> ()
      | _ -> report "affine" id "shape mismatch" in
    go 0 ts w b w2 b2
  end


(* ==== extension: the binary64 twin (C14_FloatDefs.v, extracted into the same module) ============================= *)
(* every statistic / scaled / up-scaled value / up-scaled weight is recomputed with the PrimFloat twin and compared BIT FOR
   BIT (`MISMATCH twin-...`); the bounds PROVED in C14_Float.v are checked on the implementation's own values in exact
   rational arithmetic, independently of the model, whenever their hypotheses hold (`PROPFAIL fl-...`). *)
let epsf = ref 0.0
let bigf = ref 0.0
let twin_values = ref 0      (* values compared bit for bit *)
let bound_values = ref 0     (* values on which the proved round-trip bound was applicable and checked *)
let minmax_values = ref 0    (* values on which the proved min-max range theorem was applicable and checked *)
let chain_overflow = ref 0   (* values with an overflow in the chain (hypothesis of the theorem fails): not checked *)
let bias_bound = ref 0       (* biases checked against the proved g (C + 4) bound *)
let pred_bound = ref 0      (* probe predictions checked against the proved bound of C14_fl_prediction *)
let finite_cols = ref 0     (* columns on which the proved finiteness of the statistics was applicable and checked *)
let bias_fallback = ref 0    (* biases where a no-underflow hypothesis is not decidable / fails: empirical tolerance *)
let pf = ref 0
let pfprinted = ref 0
let propfail clause id detail =
  incr pf; incr pfprinted;
  if !pfprinted <= 200 then Printf.printf "PROPFAIL %s %s %s\n" clause id detail

(* Coq's primitive floats are extracted to Float64.t of coq-core.kernel (= OCaml's native binary64 floats) *)
let ff = Float64.of_float
let tf = Float64.to_float
(* same bits (any NaN equals any NaN; +0 and -0 differ) *)
let same (a : float) (b : float) = Int64.bits_of_float a = Int64.bits_of_float b || (a <> a && b <> b)
let fstats_of (st : istats) : fstats =
  { f_n = B.big_int_of_int st.n; f_min = ff st.f.(0); f_max = ff st.f.(1); f_mean = ff st.f.(2); f_stdev = ff st.f.(3);
    f_div_range = ff st.f.(4); f_mul_range = ff st.f.(5); f_div_stdev = ff st.f.(6); f_mul_stdev = ff st.f.(7) }
let fstats_str (s : fstats) =
  Printf.sprintf "%s;%h;%h;%h;%h;%h;%h;%h;%h" (B.string_of_big_int s.f_n) (tf s.f_min) (tf s.f_max) (tf s.f_mean) (tf s.f_stdev)
    (tf s.f_div_range) (tf s.f_mul_range) (tf s.f_div_stdev) (tf s.f_mul_stdev)

let pow2 k = if k >= 0 then { qnum = B.shift_left_big_int B.unit_big_int k; qden = B.unit_big_int }
  else { qnum = B.unit_big_int; qden = B.shift_left_big_int B.unit_big_int (- k) }
let q1 = q_of_int 1
let eta2 = pow2 (-1074)                                   (* 2 eta *)
let u_1p3u = u53 */ (q1 +/ (q_of_int 3 */ u53))           (* u (1 + 3u) *)
let two1022 = pow2 1022
let tiny1022 = pow2 (-1022)
(* the bound of C14_fl_roundtrip *)
let rt_bound x off mul = (((q_of_int 5 */ qabs x) +/ (q_of_int 4 */ qabs off)) */ u_1p3u) +/ (eta2 */ (mul +/ q1))
(* g n = (1 + u)^n - 1, exactly *)
let g_cache = Hashtbl.create 16
let gq n =
  match Hashtbl.find_opt g_cache n with
  | Some v -> v
  | None ->
    let rec pw k = if k = 0 then q1 else qred (pw (k - 1) */ (q1 +/ u53)) in
    let v = pw n -/ q1 in Hashtbl.add g_cache n v; v
let nu t = qeq_bool t qz || qle tiny1022 (qabs t)

(* COL: the twin of update() + done() on the whole column *)
let check_col_twin id en ci csize lhs rhs =
  let ist = parse_stats rhs in
  let col = floats_of lhs in
  let tw = fcol_stats (ff !epsf) (ff !bigf) (B.big_int_of_int ci) (B.big_int_of_int csize) (B.big_int_of_int en) (List.map ff col) in
  let im = fstats_of ist in
  incr total;
  let names = [| "min"; "max"; "mean"; "stdev"; "div_range"; "mul_range"; "div_stdev"; "mul_stdev" |] in
  let tv = Array.map tf [| tw.f_min; tw.f_max; tw.f_mean; tw.f_stdev; tw.f_div_range; tw.f_mul_range; tw.f_div_stdev; tw.f_mul_stdev |] in
  if B.int_of_big_int tw.f_n <> ist.n then
    report "twin-stats-n" id (Printf.sprintf "twin=%s impl: %s column=%s" (fstats_str tw) rhs lhs)
  else
    Array.iteri (fun k nm ->
        incr twin_values;
        if not (same tv.(k) ist.f.(k)) then
          report ("twin-stats-" ^ nm) id (Printf.sprintf "twin=%h impl=%h (twin record %s) impl: %s column=%s" tv.(k) ist.f.(k) (fstats_str tw) rhs lhs))
      names;
  ignore im;
  (* C14_fl_stats_finite on the implementation's record: no NaN / negative deviation / non-positive (de)normaliser when
     the sums do not overflow (hypotheses evaluated on the twin's accumulators) *)
  let acc = faccumulate (facc0 (ff !bigf)) (List.map ff col) in
  let n = B.int_of_big_int acc.fa_n in
  let amin = tf acc.fa_min and amax = tf acc.fa_max in
  if en <> 0 && ci < csize && n >= 2 && var_finite acc && Float.is_finite amin && Float.is_finite amax
     && Float.is_finite (amax -. amin) && Float.is_finite !epsf && !epsf >= 0x1p-1022 then begin
    incr finite_cols;
    (* C14_fl_minmax_structure on the implementation's record (native binary64 operations on its own fields) *)
    let fmaxc a b = if a < b then b else a in
    if stats_finite ist && not (same ist.f.(5) (fmaxc (ist.f.(1) -. ist.f.(0)) !epsf) && same ist.f.(4) (1.0 /. ist.f.(5))
                                && same ist.f.(7) (fmaxc ist.f.(3) !epsf) && same ist.f.(6) (1.0 /. ist.f.(7))) then
      propfail "fl-structure" id (Printf.sprintf "the record is not mul = max(spread, eps), div = 1.0 / mul in binary64: %s column=%s" rhs lhs);
    if not (stats_finite ist && ist.f.(3) >= 0.0 && ist.f.(4) > 0.0 && ist.f.(5) > 0.0 && ist.f.(6) > 0.0 && ist.f.(7) > 0.0) then
      propfail "fl-stats-finite" id (Printf.sprintf "a statistic is not finite / stdev < 0 / a (de)normaliser <= 0 although the sums do not overflow: %s column=%s" rhs lhs)
  end

(* SC / FSC: the twin of scale / upscale on every listed value + the proved bounds on the implementation's values *)
let check_sc_twin id m stats_s xs ss us =
  let ist = parse_stats stats_s in
  let st = fstats_of ist in
  incr total;
  let off = tf (f_off m st) and dv = tf (f_div m st) and mul = tf (f_mul m st) in
  let denorm = same dv (1.0 /. mul) in
  let mul_ok = Float.is_finite mul && mul > 0.0 && mul <= 0x1p1022 in
  (* C14_fl_denormalisers on the implementation's record: the divisor is 1.0 / multiplier, bit for bit *)
  if Float.is_finite mul && Float.is_finite dv && not denorm then
    propfail "fl-denorm" id (Printf.sprintf "the record violates div = 1.0 / mul (binary64): div=%h mul=%h 1.0/mul=%h stats=%s" dv mul (1.0 /. mul) stats_s);
  (* hypotheses of C14_fl_minmax that do not depend on x *)
  let smin = ist.f.(0) and smax = ist.f.(1) and sdivr = ist.f.(4) and smulr = ist.f.(5) in
  let range = smax -. smin in
  let mm_ok = (m = MMinMax) && !epsf > 0.0 && Float.is_finite smin && Float.is_finite smax && Float.is_finite range
              && range <= 0x1p1022 && Float.is_finite sdivr
              && same smulr (tf (fmax_cpp (ff range) (ff !epsf))) && same sdivr (1.0 /. smulr) in
  let rec go xs ss us =
    match xs, ss, us with
    | x :: xs', s :: ss', up :: us' ->
      let dsc () = Printf.sprintf "x=%h scaled=%h upscaled=%h stats=%s" x s up stats_s in
      (* bit for bit *)
      twin_values := !twin_values + 2;
      let ts = tf (fscale_one m st (ff x)) in
      if not (same ts s) then report "twin-scale" id (Printf.sprintf "twin=%h %s" ts (dsc ()));
      let tu = tf (fupscale_one m st (ff s)) in
      if not (same tu up) then report "twin-upscale" id (Printf.sprintf "twin=%h %s" tu (dsc ()));
      (* C14_fl_roundtrip_any_stats on the implementation's values *)
      if Float.is_finite x then begin
        if denorm && mul_ok && chain_finite m st (ff x) then begin
          incr bound_values;
          let xq = q_of_float x in
          if Float.is_finite up then begin
            if not (qle (qabs (q_of_float up -/ xq)) (rt_bound xq (q_of_float off) (q_of_float mul))) then
              propfail "fl-roundtrip" id ("|upscale(scale(x)) - x| exceeds the proved bound (5|x|+4|off|)u(1+3u)+2^-1074(mul+1): " ^ dsc ())
          end else propfail "fl-roundtrip" id ("up-scaled value not finite although no intermediate overflows: " ^ dsc ())
        end else incr chain_overflow;
        (* C14_fl_minmax on the implementation's values *)
        if mm_ok && smin <= x && x <= smax then begin
          incr minmax_values;
          if not (Float.is_finite s && 0.0 <= s && s <= 1.0) then
            propfail "fl-minmax" id ("min-max scaled value of a value in [min, max] outside [0, 1]: " ^ dsc ())
          else if x = smin && s <> 0.0 then propfail "fl-minmax" id ("the minimum is not scaled to 0: " ^ dsc ())
          else if x = smax && !epsf <= range && s < 1.0 -. 0x1p-53 then
            propfail "fl-minmax" id ("the maximum is scaled below 1 - u: " ^ dsc ())
        end
      end;
      go xs' ss' us'
    | [], [], [] -> ()
    | _ -> report "twin-scale" id "length mismatch" in
  go xs ss us

let floats_of_bits s =
  List.map (fun t -> Int64.float_of_bits (Int64.of_string ("0x" ^ String.trim t))) (split ',' (String.trim s))

(* AFF: the element-wise part of nano::upscale bit for bit; the bias against the PROVED bound g (C + 4) M / |tw| *)
let check_aff_twin id fm tm fs_s ts_s w_s b_s w2_s b2_s =
  let fis = List.map parse_stats (split '/' fs_s) and tis = List.map parse_stats (split '/' ts_s) in
  if List.for_all stats_finite fis && List.for_all stats_finite tis then begin
    incr total;
    let ffs = List.map fstats_of fis and fts = List.map fstats_of tis in
    let qfs = List.map model_stats fis and qts = List.map model_stats tis in
    let rows s = List.map floats_of (split '/' s) in
    let w = rows w_s and w2 = rows w2_s in
    let b = floats_of b_s and b2 = floats_of b2_s in
    let c = List.length ffs in
    let fbx = List.map (scaling_b fm) qfs in                  (* exact - offset * div *)
    let fbf = List.map (fun f -> tf (fmk_b fm f)) ffs in                       (* rnd of it: the twin of make_scaling *)
    let rec go i fts qts w b w2 b2 =
      match fts, qts, w, b, w2, b2 with
      | ft :: fts', qt :: qts', wr :: w', bi :: b', wr2 :: w2', bi2 :: b2' ->
        if List.for_all Float.is_finite wr2 && Float.is_finite bi2 then begin
          let twf = tf (fmk_w tm ft) in
          (* weights: bit for bit *)
          List.iteri (fun j (wv, iv) ->
              incr twin_values;
              let f = List.nth ffs j in
              let tv = tf (fup_w fm tm f ft (ff wv)) in
              let fwf = tf (fmk_w fm f) in
              if not (same tv iv) then
                report "twin-affine-w" id (Printf.sprintf "output=%d column=%d w=%h tw=%h fw=%h w'=%h twin=%h" i j wv twf fwf iv tv);
              (* C14_fl_up_weight: relative error g 2 when nothing underflows *)
              let q1w = q_of_float wv // q_of_float twf in
              let r1 = wv /. twf in
              let fwq = q_of_float fwf in
              if Float.is_finite r1 && nu q1w && nu (q_of_float r1 */ fwq) then begin
                let ex = q1w */ fwq in
                if not (close (q_of_float iv) ex (gq 2 */ qabs ex)) then
                  propfail "fl-up-weight" id (Printf.sprintf "output=%d column=%d W' off (W/tw)*fw by more than g(2)=2u+u^2 relative: w=%h tw=%h fw=%h w'=%h" i j wv twf fwf iv)
              end)
            (List.combine wr wr2);
          (* bias: hypotheses of C14_fl_up_bias *)
          let wq = List.map q_of_float wr in
          let bq = q_of_float bi in
          let tbx = scaling_b tm qt and twq = scaling_w tm qt in
          let hyp = c >= 1 && List.length wr = c
                    && List.for_all2 (fun fx ff -> nu fx && Float.is_finite ff) fbx fbf
                    && List.for_all2 (fun wv ff -> nu (wv */ q_of_float ff)) wq fbf
                    && nu tbx && not (qeq_bool twq qz) && Float.abs bi2 > 0x1p-1022 in
          if hyp then begin
            incr bias_bound;
            let mb = up_bias fm tm qfs qt wq bq in
            let magn = List.fold_left2 (fun s wv fbv -> s +/ qabs (wv */ fbv)) (qabs bq +/ qabs tbx) wq fbx in
            let tol = gq (c + 4) */ magn // qabs twq in
            if not (close (q_of_float bi2) mb tol) then
              propfail "fl-up-bias" id (Printf.sprintf "output=%d C=%d b=%h b'=%h exact=%h proved tolerance g(C+4)*M/|tw|=%h" i c bi bi2 (float_of_q mb) (float_of_q tol))
          end else incr bias_fallback;
          (* C14_fl_prediction: the converted model (W', b' of the implementation) on three probe inputs per output -- the
             column minima, maxima and mean + deviation -- against the exact up-scaled original model, exact arithmetic *)
          let dvs = List.map (scaling_w fm) qfs and offs = List.map (off_of fm) qfs in
          let wnu = List.for_all2 (fun wv dvq ->
              let r1 = wv /. twf in
              Float.is_finite r1 && nu (q_of_float wv // twq) && nu (q_of_float r1 */ dvq)) wr dvs in
          if hyp && wnu then begin
            let toff = off_of tm qt in
            let magn = List.fold_left2 (fun s wv fbv -> s +/ qabs (wv */ fbv)) (qabs bq +/ qabs tbx) wq fbx in
            let w2q = List.map q_of_float wr2 in
            List.iter (fun pick ->
                incr pred_bound;
                let xs = List.map pick qfs in
                let lhs = List.fold_left2 (fun s w2 x -> s +/ (w2 */ x)) (q_of_float bi2) w2q xs in
                let rec sum3 f a b c = match a, b, c with
                  | x :: a', y :: b', z :: c' -> f x y z +/ sum3 f a' b' c'
                  | _ -> qz in
                let inner = List.fold_left2 (fun s (wv, x) (o, d) -> s +/ (wv */ ((x -/ o) */ d))) bq
                    (List.combine wq xs) (List.combine offs dvs) in
                let rhs = toff +/ (inner // twq) in
                let wsum = sum3 (fun wv d x -> qabs (wv // twq */ d */ x)) wq dvs xs in
                let bnd = (gq 2 */ wsum) +/ (gq (c + 4) */ magn // qabs twq) in
                if not (close lhs rhs bnd) then
                  propfail "fl-prediction" id (Printf.sprintf "output=%d C=%d W'x+b'=%h exact upscale(W scale(x)+b)=%h proved bound=%h x=%s w'=%s b'=%h"
                                                 i c (float_of_q lhs) (float_of_q rhs) (float_of_q bnd)
                                                 (String.concat "," (List.map (fun x -> Printf.sprintf "%h" (float_of_q x)) xs))
                                                 (String.concat "," (List.map (Printf.sprintf "%h") wr2)) bi2))
              [(fun st -> st.s_min); (fun st -> st.s_max); (fun st -> st.s_mean +/ st.s_mul_stdev)]
          end
        end;
        go (i + 1) fts' qts' w' b' w2' b2'
      | _ -> () in
    go 0 fts qts w b w2 b2
  end


(* ==== second extension: accuracy of the statistics, advertised properties of the scaled columns (C14_Float2.v), and the
   wrappers linear_t::fit / predict (C14_Wrap.v) ================================================================================ *)
(* PROVED bounds evaluated in exact rational arithmetic on the implementation's own values (explicit formulas, independent of the
   extracted model) whenever the no-overflow / no-underflow hypotheses hold; counted as fallback otherwise *)
let acc_mean = ref 0 and acc_stdev = ref 0 and acc_fallback = ref 0
let zm_cols = ref 0 and range_vals = ref 0 and unit_cols = ref 0 and scaled_fallback = ref 0
let lin_models = ref 0 and lin_preds = ref 0 and lin_missing = ref 0 and lin_discrepancy = ref 0 and lin_fallback = ref 0
let enabled_cols : (string, int * bool) Hashtbl.t = Hashtbl.create 1024     (* id -> (number of finite entries, enabled) *)
let one_p_u = q1 +/ u53 and one_m_u = q1 -/ u53
let sqq x = x */ x

(* this stage works on whole columns (up to 300 entries, three passes each): Zarith's normalised rationals (module Q) instead of
   the extracted record [q] whose sums are not reduced *)
module R = Q
let rf (x : float) : R.t = R.of_float x                       (* exact for finite doubles *)
let r2 k = if k >= 0 then R.of_bigint (B.shift_left_big_int B.unit_big_int k) else R.inv (R.of_bigint (B.shift_left_big_int B.unit_big_int (- k)))
let ru = r2 (-53)
let rsq x = R.mul x x
let rsumf f l = List.fold_left (fun s x -> R.add s (f x)) R.zero l
let rle a b = R.leq a b
let rclose a b tol = rle (R.abs (R.sub a b)) tol
(* gamma_k = k u / (1 - k u) >= g k = (1 + u)^k - 1  (C14_fl_gamma): a proved bound with a small numerator / denominator *)
let gam k = R.div (R.mul (R.of_int k) ru) (R.sub R.one (R.mul (R.of_int k) ru))
let rnu t = R.equal t R.zero || rle (r2 (-1022)) (R.abs t)
let r1pu2 = rsq (R.add R.one ru) and r1mu2 = rsq (R.sub R.one ru)

(* exact statistics of the finite entries and the hypotheses of C14_fl_mean_accuracy / C14_fl_stdev_accuracy *)
type colx = { cn : int; cS : R.t; cA : R.t; cQ : R.t; cvar : R.t; cerr : R.t; cmean_ok : bool; cvar_ok : bool }
let column_exact (col : float list) : colx =
  let fin = List.filter Float.is_finite col in
  let n = List.length fin in
  let qs = List.map rf fin in
  let s = rsumf (fun x -> x) qs and a = rsumf R.abs qs and q2 = rsumf rsq qs in
  let nq = R.of_int n in
  (* the running sums as update() computes them (binary64, left to right) *)
  let fs = List.fold_left (fun acc x -> acc +. x) 0.0 fin in
  let fq = List.fold_left (fun acc x -> acc +. x *. x) 0.0 fin in
  if n < 2 then { cn = n; cS = s; cA = a; cQ = q2; cvar = R.zero; cerr = R.zero; cmean_ok = false; cvar_ok = false }
  else begin
    let n1 = R.of_int (n - 1) in
    let var = R.div (R.sub q2 (R.div (rsq s) nq)) n1 in
    let err = R.div (R.add (R.mul (gam (n + 2)) q2) (R.mul (gam (2 * n + 2)) (R.div (rsq a) nq))) n1 in
    let p = fs *. fs in
    let qf = p /. float_of_int n in
    let r = fq -. qf in
    let finite_ok = Float.is_finite fs && Float.is_finite fq && Float.is_finite p && Float.is_finite r in
    let mean_ok = finite_ok && rnu (R.div (rf fs) nq) in
    let var_ok = finite_ok && List.for_all (fun x -> rnu (rsq x)) qs && rnu (rsq (rf fs)) && rnu (R.div (rf p) nq)
                 && rnu (R.div (rf r) n1) in
    { cn = n; cS = s; cA = a; cQ = q2; cvar = var; cerr = err; cmean_ok = mean_ok; cvar_ok = var_ok }
  end
let rstr x = Printf.sprintf "%h" (R.to_float x)

(* COL: C14_fl_mean_accuracy and C14_fl_stdev_accuracy on the implementation's record *)
let check_col_accuracy id en ci csize lhs rhs =
  let ist = parse_stats rhs in
  let col = floats_of lhs in
  let cx = column_exact col in
  Hashtbl.replace enabled_cols id (cx.cn, en <> 0 && ci < csize);
  if en <> 0 && ci < csize && cx.cn >= 2 && stats_finite ist && ist.n = cx.cn then begin
    let nq = R.of_int cx.cn in
    if cx.cmean_ok then begin
      incr acc_mean;
      let bnd = R.div (R.mul (gam cx.cn) cx.cA) nq in
      if not (rclose (rf ist.f.(2)) (R.div cx.cS nq) bnd) then
        propfail "fl-mean" id (Printf.sprintf "|mean - S/N| exceeds the proved g(N) * sum|x| / N: mean=%h exact=%s bound=%s column=%s"
                                 ist.f.(2) (rstr (R.div cx.cS nq)) (rstr bnd) lhs)
    end else incr acc_fallback;
    if cx.cvar_ok then begin
      incr acc_stdev;
      let sd = rf ist.f.(3) in
      let sd2 = rsq sd in
      if not (rle R.zero sd && rle sd2 (R.mul (R.add cx.cvar cx.cerr) r1pu2) && rle (R.mul (R.sub cx.cvar cx.cerr) r1mu2) sd2) then
        propfail "fl-stdev" id (Printf.sprintf "stdev^2 outside [(var - E)(1-u)^2, (var + E)(1+u)^2], E = (g(N+2) sum x^2 + g(2N+2) (sum|x|)^2/N)/(N-1): stdev=%h var=%s E=%s column=%s"
                                  ist.f.(3) (rstr cx.cvar) (rstr cx.cerr) lhs)
    end else incr acc_fallback
  end

(* SC / FSC of a COMPLETE data column (tags f / t): zero mean, range of mean scaling, unit variance of standard scaling *)
let check_scaled_column id m stats_s (xs : float list) (ss : float list) =
  let base = match split ' ' id with b :: _ -> b | [] -> id in
  let ist = parse_stats stats_s in
  match Hashtbl.find_opt enabled_cols base with
  | Some (n, true) when n >= 2 && stats_finite ist && ist.n = n && (m = MMean || m = MStandard)
                        && List.length (List.filter Float.is_finite xs) = n && List.length xs = List.length ss ->
    let cx = column_exact xs in
    let pairs = List.filter (fun (x, _) -> Float.is_finite x) (List.combine xs ss) in
    let mean = ist.f.(2) and d = (if m = MStandard then ist.f.(6) else ist.f.(4)) in
    let mq = rf mean and dq = rf d in
    let nq = R.of_int n and n1 = R.of_int (n - 1) in
    let scale_nu = List.for_all (fun (x, s) -> Float.is_finite s && Float.is_finite (x -. mean) && rnu (R.mul (rf (x -. mean)) dq)) pairs in
    if cx.cmean_ok && scale_nu && d >= 0.0 then begin
      let ys = List.map (fun (_, s) -> rf s) pairs in
      let devs = List.map (fun (x, _) -> R.sub (rf x) mq) pairs in
      let adev = rsumf R.abs devs in
      (* C14_fl_zero_mean: |sum y| <= d (g N A + g 2 sum |x - m|) *)
      incr zm_cols;
      let sy = rsumf (fun y -> y) ys in
      let bnd = R.mul dq (R.add (R.mul (gam n) cx.cA) (R.mul (gam 2) adev)) in
      if not (rle (R.abs sy) bnd) then
        propfail "fl-zero-mean" id (Printf.sprintf "|sum of the scaled column| = %s exceeds the proved div * (g(N) sum|x| + g(2) sum|x - mean|) = %s stats=%s column=%s"
                                      (rstr sy) (rstr bnd) stats_s (String.concat "," (List.map (Printf.sprintf "%h") xs)));
      (* C14_fl_mean_range: |y| <= ((max - min) + delta) d (1+u)^2 + eta, delta = g N A / N *)
      if m = MMean then begin
        let mn = rf ist.f.(0) and mx = rf ist.f.(1) in
        let delta = R.div (R.mul (gam n) cx.cA) nq in
        let rb = R.add (R.mul (R.mul (R.add (R.sub mx mn) delta) dq) r1pu2) (r2 (-1075)) in
        List.iter (fun (x, s) ->
            if ist.f.(0) <= x && x <= ist.f.(1) then begin
              incr range_vals;
              if not (rle (R.abs (rf s)) rb) then
                propfail "fl-mean-range" id (Printf.sprintf "|mean-scaled value| = %h exceeds the proved ((max-min) + g(N) sum|x|/N) div (1+u)^2 + eta = %s x=%h stats=%s"
                                               (Float.abs s) (rstr rb) x stats_s)
            end) pairs
      end;
      (* C14_fl_scaled_variance + C14_fl_unit_variance: sample variance of the standardised column *)
      if m = MStandard then begin
        let svy = R.div (R.sub (rsumf rsq ys) (R.div (rsq sy) nq)) n1 in
        let spread2 = R.add (rsumf rsq devs) (R.div (rsq adev) nq) in
        let b1 = R.div (R.mul (R.mul (gam 4) (rsq dq)) spread2) n1 in
        incr unit_cols;
        if not (rclose svy (R.mul (rsq dq) cx.cvar) b1) then
          propfail "fl-scaled-variance" id (Printf.sprintf "|var(scaled) - div^2 var| = %s exceeds the proved g(4) div^2 (sum (x-m)^2 + (sum|x-m|)^2/N)/(N-1) = %s stats=%s"
                                              (rstr (R.abs (R.sub svy (R.mul (rsq dq) cx.cvar)))) (rstr b1) stats_s);
        let sd = ist.f.(3) in
        if cx.cvar_ok && sd >= !epsf && sd > 0.0 && same d (1.0 /. sd) then begin
          let sdq = rf sd in
          let k1 = R.sub (R.div r1pu2 r1mu2) R.one in
          let b2 = R.add (R.add b1 k1) (R.div (R.mul r1pu2 cx.cerr) (rsq sdq)) in
          if not (rclose svy R.one b2) then
            propfail "fl-unit-variance" id (Printf.sprintf "|var(standardised column) - 1| = %s exceeds the proved bound %s (rounding of the one-pass variance E/sd^2 = %s) stats=%s"
                                              (rstr (R.abs (R.sub svy R.one))) (rstr b2) (rstr (R.div cx.cerr (rsq sdq))) stats_s)
        end
      end
    end else incr scaled_fallback
  | _ -> ()

(* LIN / LPR: the wrappers. The stored model must be the twin of nano::upscale of the fitted (W, b) with the translated mode
   pair (bit for bit on the weights, proved bound on the bias: the AFF checks); linear_t::predict on raw rows (missing -> raw 0)
   within the proved floating-point bound of the exact composition wrap_predict (fit_store ...) and of the explicit formula *)
type lin = { lp : mode; lfis : istats list; ltis : istats list; lw : float list list; lb : float list; lw2 : float list list; lb2 : float list }
let lins : (string, lin) Hashtbl.t = Hashtbl.create 64
let model_stats_wf st = let s = model_stats st in { s with s_mul_range = q1 // s.s_div_range; s_mul_stdev = q1 // s.s_div_stdev }
let rec qlist_eq a b = match a, b with
  | [], [] -> true | x :: a', y :: b' -> qeq_bool x y && qlist_eq a' b' | _ -> false

let check_lin id p fs_s ts_s w_s b_s w2_s b2_s =
  let fm = fit_mode_f p and tm = fit_mode_t p in
  incr lin_models;
  (* same checks as an AFF line, with the mode pair the wrapper hands to nano::upscale (translated from linear.cpp) *)
  check_aff ("lin " ^ id) fm tm fs_s ts_s w_s b_s w2_s b2_s;
  check_aff_twin ("lin " ^ id) fm tm fs_s ts_s w_s b_s w2_s b2_s;
  let rows s = List.map floats_of (split '/' s) in
  Hashtbl.replace lins id { lp = p; lfis = List.map parse_stats (split '/' fs_s); ltis = List.map parse_stats (split '/' ts_s);
                            lw = rows w_s; lb = floats_of b_s; lw2 = rows w2_s; lb2 = floats_of b2_s }

let check_lpr id (xs : float list) (ps : float list) =
  match Hashtbl.find_opt lins id with
  | None -> ()
  | Some l when List.for_all stats_finite l.lfis && List.for_all stats_finite l.ltis && List.for_all Float.is_finite ps ->
    incr total; incr lin_preds;
    let fm = fit_mode_f l.lp and tm = fit_mode_t l.lp in
    let qfs = List.map model_stats_wf l.lfis and qts = List.map model_stats_wf l.ltis in
    let wq = List.map (List.map q_of_float) l.lw and bq = List.map q_of_float l.lb in
    let raw = List.map opt_of_float xs in
    let missing = List.exists (fun v -> v = None) raw in
    if missing then incr lin_missing;
    let c = List.length qfs in
    (* the extracted composition: exact store, then predict as do_predict reads the row *)
    let stored = fit_store l.lp qfs qts wq bq in
    let pm = wrap_predict qfs stored raw in
    let x0 = zero_missing raw in
    let ref0 = ref_predict fm tm qfs qts wq bq (List.map (fun x -> Some x) x0) in
    if not (qlist_eq pm ref0) then
      report "lin-theorem" id "wrap_predict (fit_store ..) raw differs from ref_predict on the row with missing -> raw 0 (C14_wrap_predict_missing_is_raw_zero)";
    if missing then begin
      let refs = ref_predict fm tm qfs qts wq bq raw in
      let mt = miss_terms fm tm qfs qts wq raw in
      if not (qlist_eq pm (qadd_list refs mt)) then report "lin-theorem" id "C14_wrap_predict_missing fails on this row";
      if not (qlist_eq pm refs) then begin
        incr lin_discrepancy;
        (* observation (not a violation, see notes/C14.md): the first such row of a run is shown for the record *)
        if !lin_discrepancy = 1 then
          Printf.printf "NOTE lin-missing %s mode=%d x=%s exact model with missing -> raw 0 (what linear_t::predict computes): %s ; with missing -> scaled 0 (training convention): %s ; library: %s\n"
            id (B.int_of_big_int (z_of_mode l.lp)) (String.concat "," (List.map (Printf.sprintf "%h") xs))
            (String.concat "," (List.map (fun v -> Printf.sprintf "%.17g" (float_of_q v)) pm))
            (String.concat "," (List.map (fun v -> Printf.sprintf "%.17g" (float_of_q v)) refs))
            (String.concat "," (List.map (Printf.sprintf "%.17g") ps))
      end
    end;
    (* the library's prediction against the explicit exact formula, within the proved bound *)
    let offs = List.map (off_of fm) qfs and dvs = List.map (scaling_w fm) qfs and fbx = List.map (scaling_b fm) qfs in
    let rec go i qts w b w2 b2 ps pm =
      match qts, w, b, w2, b2, ps, pm with
      | t :: qts', wr :: w', bi :: b', wr2 :: w2', bi2 :: b2', pv :: ps', pmv :: pm' ->
        let twq = scaling_w tm t and tbx = scaling_b tm t and toff = off_of tm t in
        let inner = List.fold_left2 (fun s wv (x, (o, d)) -> s +/ (wv */ ((x -/ o) */ d))) bi
            wr (List.combine x0 (List.combine offs dvs)) in
        let exact = toff +/ (inner // twq) in
        let w2q = List.map q_of_float wr2 in
        let magn = List.fold_left2 (fun s wv fbv -> s +/ qabs (wv */ fbv)) (qabs bi +/ qabs tbx) wr fbx in
        let wsum = List.fold_left2 (fun s wv (d, x) -> s +/ qabs (wv // twq */ d */ x)) qz wr (List.combine dvs x0) in
        let dsum = List.fold_left2 (fun s w2v x -> s +/ qabs (w2v */ x)) (qabs (q_of_float bi2)) w2q x0 in
        let bnd = (gq 2 */ wsum) +/ (gq (c + 4) */ magn // qabs twq) +/ (gq (c + 1) */ dsum) in
        let twf = float_of_q twq in
        let hyp = List.for_all nu fbx && nu tbx && Float.abs bi2 > 0x1p-1022
                  && List.for_all2 (fun wv fbv -> nu (wv */ fbv)) wr fbx
                  && List.for_all2 (fun wv d -> nu (wv // twq) && nu (q_of_float (float_of_q wv /. twf) */ d)) wr dvs
                  && List.for_all2 (fun w2v x -> nu (w2v */ x)) w2q x0 in
        let bnd = if hyp then bnd else begin incr lin_fallback; (q_of_int 4 */ bnd) +/ tiny end in
        let pq = q_of_float pv in
        if not (close pq exact bnd) then
          propfail "fl-lin-predict" id (Printf.sprintf "output=%d linear_t::predict = %h but the exact up-scaled model on the scaled row (missing -> raw 0) = %h, proved bound %h; x=%s stored w'=%s b'=%h"
                                          i pv (float_of_q exact) (float_of_q bnd)
                                          (String.concat "," (List.map (Printf.sprintf "%h") xs))
                                          (String.concat "," (List.map (Printf.sprintf "%h") wr2)) bi2);
        if not (close pq pmv bnd) then
          report "lin-predict" id (Printf.sprintf "output=%d predict=%h extracted wrap_predict (fit_store ..)=%h bound=%h" i pv (float_of_q pmv) (float_of_q bnd));
        go (i + 1) qts' w' b' w2' b2' ps' pm'
      | _ -> () in
    go 0 qts wq bq l.lw2 l.lb2 ps pm
  | Some _ -> report "lin-nonfinite" id "statistics or predictions of the linear model are not finite"

let () =
  (try
    while true do
      let line = input_line stdin in
      match String.index_opt line ' ' with
      | None -> ()
      | Some sp ->
        let op = String.sub line 0 sp in
        let rest = String.sub line (sp + 1) (String.length line - sp - 1) in
        (try
          (match op with
           | "CONST" ->
             (match split ' ' rest with
              | [e; b] -> eps := q_of_float (parse_float e); big := q_of_float (parse_float b);
                epsf := parse_float e; bigf := parse_float b
              | _ -> ())
           | "COL" ->
             (match split_str " = " rest with
              | [l; rhs] ->
                (match split_str " | " l with
                 | [hd; vals] ->
                   (match split ' ' (String.trim hd) with
                    | [id; en; ci; cs] ->
                      let v s = int_of_string (List.nth (split '=' s) 1) in
                      check_col id (v en) (v ci) (v cs) vals rhs;
                      check_col_twin id (v en) (v ci) (v cs) vals rhs;
                      check_col_accuracy id (v en) (v ci) (v cs) vals rhs
                    | _ -> ())
                 | _ -> ())
              | _ -> ())
           | "SC" ->
             (match split_str " = " rest with
              | [l; rhs] ->
                (match split_str " | " l with
                 | [hd; st; vals] ->
                   (match split ' ' (String.trim hd) with
                    | [id; m] ->
                      check_sc (id ^ " " ^ m) (mode_of_string m) st vals rhs;
                      (match split_str " ; " rhs with
                       | [ss; us] -> check_sc_twin (id ^ " " ^ m) (mode_of_string m) st (floats_of vals) (floats_of ss) (floats_of us);
                         (* a column of at most 20 entries is listed completely (longer ones come as FSC lines) *)
                         if List.length (floats_of vals) <= 20 then
                           check_scaled_column (id ^ " " ^ m) (mode_of_string m) st (floats_of vals) (floats_of ss)
                       | _ -> ())
                    | _ -> ())
                 | _ -> ())
              | _ -> ())
           | "FSC" ->
             (* all values of a long column (bit patterns): twin + proved bounds only *)
             (match split_str " = " rest with
              | [l; rhs] ->
                (match split_str " | " l, split_str " ; " rhs with
                 | [hd; st; vals], [ss; us] ->
                   (match split ' ' (String.trim hd) with
                    | [id; m] -> check_sc_twin (id ^ " " ^ m) (mode_of_string m) st (floats_of_bits vals) (floats_of_bits ss) (floats_of_bits us);
                      check_scaled_column (id ^ " " ^ m) (mode_of_string m) st (floats_of_bits vals) (floats_of_bits ss)
                    | _ -> ())
                 | _ -> ())
              | _ -> ())
           | "AFF" ->
             (match split_str " = " rest with
              | [l; rhs] ->
                (match split_str " | " l, split_str " | " rhs with
                 | [hd; fs; ts; w; b], [w2; b2] ->
                   (match split ' ' (String.trim hd) with
                    | [id; fm; tm] ->
                      check_aff (id ^ " " ^ fm ^ " " ^ tm) (mode_of_string fm) (mode_of_string tm) fs ts w b w2 b2;
                      check_aff_twin (id ^ " " ^ fm ^ " " ^ tm) (mode_of_string fm) (mode_of_string tm) fs ts w b w2 b2
                    | _ -> ())
                 | _ -> ())
              | _ -> ())
           | "LIN" ->
             (match split_str " = " rest with
              | [l; rhs] ->
                (match split_str " | " l, split_str " | " rhs with
                 | [hd; fs; ts; w; b], [w2; b2] ->
                   (match split ' ' (String.trim hd) with
                    | [id; _model; m] -> check_lin id (mode_of_string m) fs ts w b w2 b2
                    | _ -> ())
                 | _ -> ())
              | _ -> ())
           | "LPR" ->
             (match split_str " = " rest with
              | [l; rhs] ->
                (match split_str " | " l with
                 | [hd; xs] ->
                   (match split ' ' (String.trim hd) with
                    | id :: _ -> check_lpr id (floats_of xs) (floats_of rhs)
                    | _ -> ())
                 | _ -> ())
              | _ -> ())
           | _ -> ())
        with Failure msg | Invalid_argument msg -> report "driver" op ("cannot process line: " ^ msg))
    done
  with End_of_file -> ());
  Printf.printf "MODEL-DONE checked=%d mismatches=%d propfails=%d twin_values=%d bound_values=%d minmax_values=%d chain_overflow=%d bias_bound=%d bias_fallback=%d finite_cols=%d pred_bound=%d acc_mean=%d acc_stdev=%d acc_fallback=%d zm_cols=%d range_vals=%d unit_cols=%d scaled_fallback=%d lin_models=%d lin_preds=%d lin_missing=%d lin_discrepancy=%d lin_fallback=%d\n"
    !total !mism !pf !twin_values !bound_values !minmax_values !chain_overflow !bias_bound !bias_fallback !finite_cols !pred_bound
    !acc_mean !acc_stdev !acc_fallback !zm_cols !range_vals !unit_cols !scaled_fallback !lin_models !lin_preds !lin_missing !lin_discrepancy !lin_fallback
