(* C14 driver: reads the lines of harness/c14_scaling.cpp on stdin, recomputes every statistic / scaled /
   up-scaled value / converted weight with the extracted exact-rational model (C14_model, Z mapped to Zarith)
   and compares within the rounding tolerance relative to the magnitude of the summed terms (exact for the
   discrete data: counts, min, max, the untouched and the missing values).
   Prints `MISMATCH <what> <line id> ...` and a final `MODEL-DONE checked=<n> mismatches=<m>`.
   NB: compiled by tools/checks/c14.py after `open C14_model` (no zutil.ml.inc: Z is not an inductive here). *)
module B = Big_int_Z

let mism = ref 0
let total = ref 0
let printed = ref 0
let report what id detail =
  incr mism;
  incr printed;
  if !printed <= 200 then Printf.printf "MISMATCH %s %s %s\n" what id detail

(* ---- exact conversion of doubles ---------------------------------------------------------------- *)
let qz = { qnum = B.zero_big_int; qden = B.unit_big_int }
let q_of_int n = { qnum = B.big_int_of_int n; qden = B.unit_big_int }
let q_of_float (x : float) : q =
  if x = 0.0 then qz
  else begin
    let (m, e) = Float.frexp x in
    let mi = Int64.of_float (Float.ldexp m 53) in
    let rec strip mi e = if Int64.rem mi 2L = 0L then strip (Int64.div mi 2L) (e + 1) else (mi, e) in
    let (mi, e) = strip mi (e - 53) in
    let n = B.big_int_of_int64 mi in
    if e >= 0 then { qnum = B.shift_left_big_int n e; qden = B.unit_big_int }
    else { qnum = n; qden = B.shift_left_big_int B.unit_big_int (- e) }
  end
let float_of_q (x : q) : float = Q.to_float (Q.make x.qnum x.qden)

let parse_float s = let s = String.trim s in
  if s = "nan" then Float.nan else if s = "inf" then Float.infinity else if s = "-inf" then Float.neg_infinity
  else float_of_string s
let opt_of_float f = if Float.is_finite f then Some (q_of_float f) else None

let split c s = if s = "" then [] else String.split_on_char c s
let floats_of s = List.map parse_float (split ',' (String.trim s))

let ( +/ ) = qplus and ( -/ ) = qminus and ( */ ) = qmult and ( // ) = qdiv
let qabs x = if qle_bool qz x then x else qopp x
let qle = qle_bool
let u53 = { qnum = B.unit_big_int; qden = B.shift_left_big_int B.unit_big_int 53 }
let tiny = { qnum = B.unit_big_int; qden = B.shift_left_big_int B.unit_big_int 1000 }
(* |a - b| <= tol *)
let close a b tol = qle (qabs (a -/ b)) tol
(* |a - b| <= k u |b| *)
let relclose k a b = close a b (q_of_int k */ u53 */ qabs b)

let eps = ref qz
let big = ref qz

type istats = { n : int; f : float array }   (* min max mean stdev divr mulr divs muls *)
let parse_stats s =
  match split ';' (String.trim s) with
  | n :: rest when List.length rest = 8 -> { n = int_of_string (String.trim n); f = Array.of_list (List.map parse_float rest) }
  | _ -> failwith ("bad stats: " ^ s)
let stats_finite st = Array.for_all Float.is_finite st.f
let model_stats st =
  { s_n = B.big_int_of_int st.n; s_min = q_of_float st.f.(0); s_max = q_of_float st.f.(1); s_mean = q_of_float st.f.(2);
    s_stdev = q_of_float st.f.(3); s_div_range = q_of_float st.f.(4); s_mul_range = q_of_float st.f.(5);
    s_div_stdev = q_of_float st.f.(6); s_mul_stdev = q_of_float st.f.(7) }

let split_str sep s =
  let n = String.length sep and m = String.length s in
  let rec go i start acc =
    if i + n > m then List.rev (String.sub s start (m - start) :: acc)
    else if String.sub s i n = sep then go (i + n) (i + n) (String.sub s start (i - start) :: acc)
    else go (i + 1) start acc in
  go 0 0 []

let mode_of_string s = (* "mode=2" / "fm=1" *)
  match split '=' s with [_; v] -> mode_of_Z (B.big_int_of_int (int_of_string v)) | _ -> failwith ("bad mode " ^ s)

let off_of m st = match m with MNone -> qz | MMinMax -> st.s_min | _ -> st.s_mean
let div_of m st = match m with MNone -> q_of_int 1 | MStandard -> st.s_div_stdev | _ -> st.s_div_range
let mul_of m st = match m with MNone -> q_of_int 1 | MStandard -> st.s_mul_stdev | _ -> st.s_mul_range

(* ---- COL: statistics of one column ------------------------------------------------------------------ *)
let check_col id en ci csize lhs rhs =
  let col = List.map opt_of_float (floats_of lhs) in
  let ist = parse_stats rhs in
  incr total;
  if not (stats_finite ist) then report "stats" id ("a statistic of the implementation is not finite: " ^ rhs ^ " column=" ^ lhs)
  else begin
    let eflag = B.big_int_of_int en in
    let a = accumulate (acc0 !big) col in
    let sd = q_of_float ist.f.(3) in
    let st = done1 !eps sd (B.big_int_of_int ci) (B.big_int_of_int csize) eflag a in
    let im = model_stats ist in
    let bad what model = report ("stats-" ^ what) id (Printf.sprintf "model=%h impl: %s column=%s" (float_of_q model) rhs lhs) in
    let nn = B.int_of_big_int a.a_n in
    if nn <> ist.n then bad "n" (q_of_int nn)
    else begin
      if not (qeq_bool st.s_min im.s_min) then bad "min" st.s_min;
      if not (qeq_bool st.s_max im.s_max) then bad "max" st.s_max;
      let many = en <> 0 && nn > 1 in
      if not many then begin
        if not (qeq_bool st.s_mean im.s_mean) then bad "mean" st.s_mean;
        if not (qeq_bool st.s_stdev im.s_stdev) then bad "stdev" st.s_stdev;
        if not (qeq_bool st.s_div_range im.s_div_range) then bad "div_range" st.s_div_range;
        if not (qeq_bool st.s_mul_range im.s_mul_range) then bad "mul_range" st.s_mul_range;
        if not (qeq_bool st.s_div_stdev im.s_div_stdev) then bad "div_stdev" st.s_div_stdev;
        if not (qeq_bool st.s_mul_stdev im.s_mul_stdev) then bad "mul_stdev" st.s_mul_stdev
      end else begin
        let fin = finite col in
        let asum = List.fold_left (fun s x -> s +/ qabs x) qz fin in
        let qn = q_of_int nn in
        (* mean: rounding of the running sum relative to sum |x| *)
        if not (close im.s_mean st.s_mean (q_of_int (2 * (nn + 2)) */ u53 */ asum // qn)) then bad "mean" st.s_mean;
        (* stdev: sd >= 0 and sd^2 within the rounding of the one-pass variance relative to sum x^2 *)
        let v = qmax (var_of a) qz in
        let tolv = (q_of_int (8 * nn + 16) */ u53 */ a.a_sq // q_of_int (nn - 1)) +/ (q_of_int 4 */ u53 */ sd */ sd) +/ tiny in
        if not (qle qz sd) || not (close (sd */ sd) v tolv) then bad "stdev^2" v;
        if not (relclose 4 im.s_div_range st.s_div_range) then bad "div_range" st.s_div_range;
        if not (relclose 2 im.s_mul_range st.s_mul_range) then bad "mul_range" st.s_mul_range;
        if not (relclose 2 im.s_div_stdev st.s_div_stdev) then bad "div_stdev" st.s_div_stdev;
        if not (qeq_bool im.s_mul_stdev st.s_mul_stdev) then bad "mul_stdev" st.s_mul_stdev
      end
    end
  end

(* ---- SC: scale then upscale of (a part of) one column, statistics taken from the implementation --------- *)
let check_sc id m stats_s lhs rhs =
  let ist = parse_stats stats_s in
  incr total;
  if not (stats_finite ist) then report "scale" id ("statistics not finite: " ^ stats_s)
  else begin
    let st = model_stats ist in
    let xs = floats_of lhs in
    match split_str " ; " rhs with
    | [ss; us] ->
      let ss = floats_of ss and us = floats_of us in
      if List.length ss <> List.length xs || List.length us <> List.length xs then report "scale" id "length mismatch"
      else begin
        let off = off_of m st and div = div_of m st and mul = mul_of m st in
        let exact = (m = MNone) in
        let rec go xs ss us =
          match xs, ss, us with
          | x :: xs', s :: ss', up :: us' ->
            let bad what model =
              report what id (Printf.sprintf "x=%h scaled=%h upscaled=%h model=%h stats=%s" x s up (float_of_q model) stats_s) in
            if not (Float.is_finite s) || not (Float.is_finite up) then bad "scale-nonfinite" qz
            else begin
              let v = opt_of_float x in
              let ms = scale1 m st v in
              let sq = q_of_float s in
              (match v with
               | None -> if not (qeq_bool ms sq) then bad "scale-missing" ms
               | Some xq ->
                 let tol = if exact then qz else (q_of_int 4 */ u53 */ (qabs xq +/ qabs off) */ qabs div) +/ tiny in
                 if not (close sq ms tol) then bad "scale" ms);
              let mu = upscale1 m st sq in
              let tol = if exact then qz else (q_of_int 4 */ u53 */ (qabs off +/ qabs (sq */ mul))) +/ tiny in
              if not (close (q_of_float up) mu tol) then bad "upscale" mu;
              go xs' ss' us'
            end
          | _ -> () in
        go xs ss us
      end
    | _ -> report "scale" id "cannot parse"
  end

(* ---- AFF: nano::upscale(flatten_stats, fm, targets_stats, tm, W, b) ---------------------------------------- *)
let check_aff id fm tm fs_s ts_s w_s b_s w2_s b2_s =
  incr total;
  let fis = List.map parse_stats (split '/' fs_s) and tis = List.map parse_stats (split '/' ts_s) in
  if not (List.for_all stats_finite fis && List.for_all stats_finite tis) then report "affine" id "statistics not finite"
  else begin
    let fs = List.map model_stats fis and ts = List.map model_stats tis in
    let rows s = List.map floats_of (split '/' s) in
    let w = rows w_s and w2 = rows w2_s in
    let b = floats_of b_s and b2 = floats_of b2_s in
    let c = List.length fs in
    let fb = List.map (scaling_b fm) fs in
    let rec go i ts w b w2 b2 =
      match ts, w, b, w2, b2 with
      | t :: ts', wr :: w', bi :: b', wr2 :: w2', bi2 :: b2' ->
        if not (List.for_all Float.is_finite wr2) || not (Float.is_finite bi2) then
          report "affine-nonfinite" id (Printf.sprintf "output=%d fm/tm line: up-scaled weights or bias not finite (b'=%h)" i bi2)
        else begin
          let wq = List.map q_of_float wr in
          let mw = up_wrow fm tm fs t wq in
          List.iteri (fun j (mv, iv) ->
              if not (relclose 4 (q_of_float iv) mv) then
                report "affine-w" id (Printf.sprintf "output=%d column=%d w=%h w'=%h model=%h" i j (List.nth wr j) iv (float_of_q mv)))
            (List.combine mw wr2);
          let bq = q_of_float bi in
          let mb = up_bias fm tm fs t wq bq in
          let tw = scaling_w tm t and tb = scaling_b tm t in
          let magn = List.fold_left2 (fun s wv fbv -> s +/ qabs (wv */ fbv)) (qabs bq +/ qabs tb) wq fb in
          let tol = (q_of_int (2 * c + 16) */ u53 */ magn // qabs tw) +/ tiny in
          if not (close (q_of_float bi2) mb tol) then
            report "affine-b" id (Printf.sprintf "output=%d b=%h b'=%h model=%h tol=%h" i bi bi2 (float_of_q mb) (float_of_q tol));
          go (i + 1) ts' w' b' w2' b2'
        end
      | [], [], [], [], [] -> ()
      | _ -> report "affine" id "shape mismatch" in
    go 0 ts w b w2 b2
  end

let () =
  (try
    while true do
      let line = input_line stdin in
      match String.index_opt line ' ' with
      | None -> ()
      | Some sp ->
        let op = String.sub line 0 sp in
        let rest = String.sub line (sp + 1) (String.length line - sp - 1) in
        (try
          (match op with
           | "CONST" ->
             (match split ' ' rest with
              | [e; b] -> eps := q_of_float (parse_float e); big := q_of_float (parse_float b)
              | _ -> ())
           | "COL" ->
             (match split_str " = " rest with
              | [l; rhs] ->
                (match split_str " | " l with
                 | [hd; vals] ->
                   (match split ' ' (String.trim hd) with
                    | [id; en; ci; cs] ->
                      let v s = int_of_string (List.nth (split '=' s) 1) in
                      check_col id (v en) (v ci) (v cs) vals rhs
                    | _ -> ())
                 | _ -> ())
              | _ -> ())
           | "SC" ->
             (match split_str " = " rest with
              | [l; rhs] ->
                (match split_str " | " l with
                 | [hd; st; vals] ->
                   (match split ' ' (String.trim hd) with
                    | [id; m] -> check_sc (id ^ " " ^ m) (mode_of_string m) st vals rhs
                    | _ -> ())
                 | _ -> ())
              | _ -> ())
           | "AFF" ->
             (match split_str " = " rest with
              | [l; rhs] ->
                (match split_str " | " l, split_str " | " rhs with
                 | [hd; fs; ts; w; b], [w2; b2] ->
                   (match split ' ' (String.trim hd) with
                    | [id; fm; tm] -> check_aff (id ^ " " ^ fm ^ " " ^ tm) (mode_of_string fm) (mode_of_string tm) fs ts w b w2 b2
                    | _ -> ())
                 | _ -> ())
              | _ -> ())
           | _ -> ())
        with Failure msg | Invalid_argument msg -> report "driver" op ("cannot process line: " ^ msg))
    done
  with End_of_file -> ());
  Printf.printf "MODEL-DONE checked=%d mismatches=%d\n" !total !mism
