(* C01 (stage C01F) driver: reads the lines of harness/c01_finite.cpp on stdin (FRUN / FI / CD / QU / LD; anything else is
   ignored).  For every run the instance  f(x) = x'Ax/2 + a'x  (small integers) is rebuilt EXACTLY over the canonical
   rationals and the extracted model (C01f_model: the direction blocks of cgd.cpp / quasi.cpp / lbfgs.cpp iterated with the
   exact line-search step t = -(g.d)/(d'Ad)) is run at QcO:
       cgd ids   cg_quad_xrun QcO kind eta orthotest nrm A cg_init x0 g0 (n+1)     (nrm: any positive value, see below)
       bfgs      qn_quad_run QcO KBFGS r init A true (identity n) x0 g0 (n+1)
       lbfgs     lbfgs_quad_run QcO history A [] x0 g0 (n+1)
   K = the first index with g_K = 0 (exact test); the model's minimiser is x_K; entries after K are meaningless (total
   division) and ignored.  Every recorded double is converted exactly to a rational.

     MISMATCH <what> RUN <id> EV <k> ...    model vs implementation:
        model-termination  no K <= n with g_K = 0 in the model's run (the theorem of the stage says there is one)
        model-gradient     driver sanity: the model's g_j is not A x_j + a
        start              the first recorded state is not (x0, A x0 + a)
        iterate-x          |x_k - xM_k|_inf > TOLX (1 + |x0 - xmin|_inf)       (k > K: against x_K)
        iterate-g          |g_k - gM_k|_inf > TOLG (1 + |g0|_inf)            (k > K: against 0)
        iterate-f          |f_k - f(xM_k)|  > TOLF (1 + |f(x0) - f(xmin)|)
        cd-chain / qu-chain / ld-chain   a hook event does not carry the states of the done() records (bitwise)
        cd-direction       CD event k: |chosen d - dM_{k+1}|_inf > TOLD (1 + |g0|_inf)        (k + 1 < K)
        qu-dx, qu-dg       QU event k: dx / dg against the model's s_k / y_k (scales of x / g) (k < K)
        qu-H               QU event k: |H_after - HM_{k+1}|_max > TOLHM (1 + |HM_{k+1}|_max) |g0|_2 / |g_k|_2   (k < K, k live)
        ld-direction       LD event k: |r + dM_k|_inf > TOLD (1 + |g0|_inf)                    (k < K)
        ld-history         LD event k: history size differs from the model's                  (k < K)
     PROPFAIL <what> RUN <id> EV <k> ...   direct oracles on the implementation's OWN numbers, no model function involved
                                           (exact rational arithmetic on the recorded doubles; the final quotient in floats).
                                           live = indices k with |g_k|_2 > 1e-7 |g_0|_2:
        finite-termination   the first k with |g_k|_2 <= 1e-10 |g_0|_2 exists and is <= n + 2
        grad-orthogonal      live i < j: |g_i.g_j| <= TOLO |g_i| |g_j|
        dir-conjugate        live i < j: |d_i'A d_j| <= TOLO sqrt(d_i'Ad_i) sqrt(d_j'Ad_j), d_k = x_{k+1} - x_k
        cd-dir-conjugate     the same for the directions chosen in the CD events
        grad-dir             live i < j: |g_j.d_i| <= TOLO |g_j| |d_i|
        f-decrease           live k: f_{k+1} < f_k
        bfgs-hereditary      QU event k (k live), j <= k: |H_after dg_j - dx_j|_inf <= TOLH |dx_j|_inf
        lbfgs-cg-direction   LD event k >= 1 (k live): -r is A-conjugate to x_k - x_{k-1} (TOLO) and r.g_k > 0
        lbfgs-history-suffix LD event k: the h stored pairs are BITWISE (x_{i+1} - x_i, g_{i+1} - g_i), i = k-h .. k-1 (the newest h pairs,
                             oldest first -- what [lbfgs_push] keeps; needed because under exact line searches the direction only
                             depends on the newest pair (C01F_lbfgs_is_cg), so a wrong eviction is invisible in the iterates)
     HIST iters_minus_n <cgd|bfgs|lbfgs|model> <key>:<count>,...      reach - n per family, K - n for the model
     HIST reach_minus_K <cgd|bfgs|lbfgs> ...                           implementation against model
     MAXDEV <name> <float>                                             maximum observed deviations / residuals
     TOL <name> <float>                                                the tolerances in force
     MODEL-DONE checked=<runs> mismatches=<m> propfails=<p> events=<hook events compared> <counters>

   Compiled by tools/checks/c01.py after `module ZZ = Z  open C01f_model` (the extracted module shadows Zarith's Z). *)

(* tolerances.  Measured maxima over VERIF_SEED = 1, 2, 3, 20260926 (quick + thorough) and 4..15 (thorough), 46000 runs, with the
   harness' line search (More-Thuente, c2 = 1e-9; achieved |g_{k+1}.d_k| / |g_k.d_k| <= 1e-9, median 2e-16):
     iterate_x 2.3e-11  iterate_g 1.4e-11  iterate_f 9e-16  cd_direction 1.4e-12  ld_direction 1.8e-13  qu_dx 8e-13  qu_dg 1e-12
     qu_H 2.1e-14 (raw 6e-11)  grad_orthogonal / dir_conjugate / grad_dir / cd_dir_conjugate 7e-7  lbfgs_cg_direction 5.5e-8
     bfgs_hereditary 1.7e-9 (secant 6e-15)
   The tolerances are ~100x .. 1000x above these, never above 1e-4.  The iterate-scale ones are 10 c2: the strong Wolfe
   condition bounds the relative error of every step by c2, so a deviation of a few c2 is within what the line search may
   legitimately do (the measured maxima are smaller because the interpolation steps are exact on a quadratic) *)
let tolx = 1e-8        (* x_k and dx against the model, relative to 1 + |x0 - xmin|_inf *)
let tolg = 1e-8        (* g_k and dg, relative to 1 + |g0|_inf *)
let tolf = 1e-12       (* f_k, relative to 1 + f(x0) - f(xmin)  (second order in the step error) *)
let told = 1e-8        (* directions of the CD / LD events, relative to 1 + |g0|_inf *)
let tolhm = 1e-10      (* H_after against the model, relative to (1 + |HM|_max) |g0|_2 / |g_k|_2 *)
let tolo = 1e-4        (* orthogonality / conjugacy cosines on live indices *)
let tolh = 1e-6        (* hereditary secant residual, relative to |dx_j|_inf *)

(* ---- reporting ------------------------------------------------------------------------------------------------- *)
let mism = ref 0
let pfail = ref 0
let printed = ref 0
let counters : (string, int) Hashtbl.t = Hashtbl.create 64
let count k = Hashtbl.replace counters k (1 + (try Hashtbl.find counters k with Not_found -> 0))
let addn k n = Hashtbl.replace counters k (n + (try Hashtbl.find counters k with Not_found -> 0))
let () = List.iter (fun k -> Hashtbl.replace counters k 0)
    ["cd_restarted"; "cd_restarted_live"; "reach_differs_from_K"; "runs_started_at_minimiser"; "states_beyond_K"]
let report kind what id k detail =
  (if kind = "MISMATCH" then incr mism else incr pfail);
  incr printed;
  if !printed <= 60 then Printf.printf "%s %s RUN %s EV %d %s\n" kind what id k detail
let maxdev : (string, float) Hashtbl.t = Hashtbl.create 32
let dev name (v : float) =
  let v = if Float.is_nan v then Float.infinity else v in
  let cur = try Hashtbl.find maxdev name with Not_found -> 0.0 in
  if v > cur || not (Hashtbl.mem maxdev name) then Hashtbl.replace maxdev name (Float.max v cur)
let hists : (string, (int, int) Hashtbl.t) Hashtbl.t = Hashtbl.create 8
let hist name key =
  let h = try Hashtbl.find hists name with Not_found -> let h = Hashtbl.create 16 in Hashtbl.replace hists name h; h in
  Hashtbl.replace h key (1 + (try Hashtbl.find h key with Not_found -> 0))

(* ---- exact conversions (as c01cg_driver.ml / c01q_driver.ml) ----------------------------------------------------- *)
let parse_float s =
  let s = String.trim s in
  if s = "nan" || s = "-nan" then Float.nan else if s = "inf" then Float.infinity else if s = "-inf" then Float.neg_infinity
  else float_of_string s
let floats_of s = if String.trim s = "-" || String.trim s = "" then [] else List.map parse_float (String.split_on_char ',' (String.trim s))
let rows_of s = if String.trim s = "-" then [] else List.map floats_of (String.split_on_char ';' (String.trim s))
let ints_of s = if String.trim s = "" then [] else List.map (fun t -> int_of_string (String.trim t)) (String.split_on_char ',' (String.trim s))
let finite_all l = List.for_all Float.is_finite l
let qc_of_q (x : Q.t) : qc = { qnum = Q.num x; qden = Q.den x }
let q_of_qc (x : qc) : Q.t = Q.make x.qnum x.qden
let qv = List.map Q.of_float
let qm = List.map qv
let cv = List.map qc_of_q
let vq = List.map q_of_qc
let rec nat_of_int (n : int) : nat = if n <= 0 then O else S (nat_of_int (n - 1))
let hex x = Printf.sprintf "%h" x
let fl = Q.to_float
let split_str sep s =
  let n = String.length sep and m = String.length s in
  let rec go i start acc =
    if i + n > m then List.rev (String.sub s start (m - start) :: acc)
    else if String.sub s i n = sep then go (i + n) (i + n) (String.sub s start (i - start) :: acc)
    else go (i + 1) start acc in
  go 0 0 []
let fields hd =
  List.filter_map (fun t -> match String.index_opt t '=' with
      | Some i -> Some (String.sub t 0 i, String.sub t (i + 1) (String.length t - i - 1))
      | None -> None) (String.split_on_char ' ' hd)
let fld fs k = try List.assoc k fs with Not_found -> "-"

(* ---- independent exact helpers (Zarith Q, no model function) ----------------------------------------------------- *)
let qdot a b = List.fold_left2 (fun acc x y -> Q.add acc (Q.mul x y)) Q.zero a b
let qsub a b = List.map2 Q.sub a b
let qmv m v = List.map (fun r -> qdot r v) m
let qinf v = List.fold_left (fun acc x -> Q.max acc (Q.abs x)) Q.zero v
let qinfdiff a b = qinf (qsub a b)
let qmaxm m = List.fold_left (fun acc r -> Q.max acc (qinf r)) Q.zero m
let is_zero v = List.for_all (fun x -> Q.sign x = 0) v
(* |num| / sqrt(p q) as a float; None when a factor vanishes *)
let cosine (num : Q.t) (p : Q.t) (q : Q.t) : float option =
  if Q.sign p <= 0 || Q.sign q <= 0 then None else Some (Float.abs (fl num) /. sqrt (fl p *. fl q))

let kind_of = function
  | "cgd-hs" -> CK_HS | "cgd-fr" -> CK_FR | "cgd-pr" -> CK_PR | "cgd-cd" -> CK_CD | "cgd-ls" -> CK_LS | "cgd-dy" -> CK_DY
  | "cgd-n" -> CK_N | "cgd-dycd" -> CK_DYCD | "cgd-dyhs" -> CK_DYHS | "cgd-frpr" -> CK_FRPR
  | s -> failwith ("unknown cgd solver " ^ s)

(* the Euclidean norm read by cgd-n's formula is an input of the model (no square root over the rationals): the float square
   root of the float value of v.v, converted exactly; ANY positive value gives the same run (part of the Coq theorem) *)
let nrm (v : qc list) : qc =
  let s = fl (qdot (vq v) (vq v)) in
  let r = sqrt s in
  qc_of_q (if Float.is_finite r && r > 0.0 then Q.of_float r else Q.one)

(* ---- the current run ------------------------------------------------------------------------------------------------ *)
type cd_ev = { c_k : int; c_beta : float; c_restarted : bool; c_pg : float list; c_pd : float list; c_g : float list; c_d : float list }
type qu_ev = { u_k : int; u_dx : float list; u_dg : float list; u_h0 : float list list; u_h1 : float list list }
type ld_ev = { l_k : int; l_h : int; l_g : float list; l_r : float list; l_ss : float list list; l_ys : float list list }
type run = { id : string; fs : (string * string) list; n : int; am : Q.t list list; av : Q.t list; x0 : Q.t list;
             mutable fi : (int * float * float list * float list) list;          (* k, f, x, g; newest first *)
             mutable cds : cd_ev list; mutable qus : qu_ev list; mutable lds : ld_ev list; mutable bad : string option }
let cur : run option ref = ref None
let checked = ref 0
let events = ref 0

let process (r : run) =
  let id = r.id and n = r.n in
  let solver = fld r.fs "solver" in
  let fam = if String.length solver >= 3 && String.sub solver 0 3 = "cgd" then "cgd" else solver in
  let fi = Array.of_list (List.rev r.fi) in
  let m = Array.length fi in
  let cds = List.rev r.cds and qus = List.rev r.qus and lds = List.rev r.lds in
  (match r.bad with Some what -> report "MISMATCH" "event-syntax" id 0 what | None -> ());
  if m = 0 then report "MISMATCH" "no-states" id 0 "no FI record"
  else if Array.exists (fun (_, f, x, g) -> not (Float.is_finite f && finite_all x && finite_all g) || List.length x <> n || List.length g <> n) fi then
    report "MISMATCH" "non-finite-state" id 0 "a recorded state is not finite / has the wrong dimension"
  else begin
    incr checked;
    count ("runs_" ^ fam);
    let fx = Array.map (fun (_, f, _, _) -> f) fi in
    let xs = Array.map (fun (_, _, x, _) -> qv x) fi in
    let gs = Array.map (fun (_, _, _, g) -> qv g) fi in
    let xf = Array.map (fun (_, _, x, _) -> x) fi in
    let gf = Array.map (fun (_, _, _, g) -> g) fi in
    (* ---------------- the exact model ---------------- *)
    let am = List.map cv r.am and av = cv r.av and x0 = cv r.x0 in
    let g0 = quad_grad qcO am av x0 in
    let fuel = nat_of_int (n + 1) in
    let model_x, model_g, model_d, model_s, model_y, model_h, model_hist =
      (match fam with
       | "cgd" ->
         let eta = (match fld r.fs "eta" with "-" -> Q.zero | s -> Q.of_float (parse_float s)) in
         let ot = Q.of_float (parse_float (fld r.fs "orthotest")) in
         let l = cg_quad_xrun qcO (kind_of solver) (qc_of_q eta) (qc_of_q ot) nrm am cg_init x0 g0 fuel in
         (List.map (fun ((x, _), _) -> vq x) l, List.map (fun ((_, g), _) -> vq g) l, List.map (fun ((_, _), d) -> vq d) l, [], [], [], [])
       | "bfgs" ->
         let init = (match fld r.fs "init" with "identity" -> 0 | "scaled" -> 1 | s -> failwith ("unknown initialization " ^ s)) in
         let l = qn_quad_run qcO KBFGS (qc_of_q (Q.of_ints 1 100000000)) (ZZ.of_int init) am true (identity qcO (nat_of_int n)) x0 g0 fuel in
         (List.map (fun (((((x, _), _), _), _), _) -> vq x) l, List.map (fun (((((_, g), _), _), _), _) -> vq g) l,
          List.map (fun (((((_, _), d), _), _), _) -> vq d) l, List.map (fun (((((_, _), _), s), _), _) -> vq s) l,
          List.map (fun (((((_, _), _), _), y), _) -> vq y) l, List.map (fun (((((_, _), _), _), _), h) -> List.map vq h) l, [])
       | "lbfgs" ->
         let history = int_of_string (fld r.fs "history") in
         let l = lbfgs_quad_run qcO (ZZ.of_int history) am [] x0 g0 fuel in
         (List.map (fun (((x, _), _), _) -> vq x) l, List.map (fun (((_, g), _), _) -> vq g) l, List.map (fun (((_, _), d), _) -> vq d) l,
          [], [], [], List.map (fun (((_, _), _), h) -> List.length h) l)
       | s -> failwith ("unknown solver " ^ s)) in
    let mx = Array.of_list model_x and mg = Array.of_list model_g and md = Array.of_list model_d in
    let ms = Array.of_list model_s and my = Array.of_list model_y and mh = Array.of_list model_h in
    let mhist = Array.of_list model_hist in
    (* driver sanity: the model's gradients are the gradients of the quadratic at the model's points *)
    Array.iteri (fun j x -> if not (List.for_all2 Q.equal (List.map2 Q.add (qmv r.am x) r.av) mg.(j)) && (j = 0 || not (is_zero mg.(j - 1))) then
                    report "MISMATCH" "model-gradient" id j "g_j of the model is not A x_j + a") mx;
    let kk = (let rec go j = if j >= Array.length mg then None else if is_zero mg.(j) then Some j else go (j + 1) in go 0) in
    (match kk with
     | None -> report "MISMATCH" "model-termination" id n (Printf.sprintf "solver=%s n=%d: no zero gradient within n iterations of the exact model" solver n)
     | Some k when k > n -> report "MISMATCH" "model-termination" id k (Printf.sprintf "solver=%s n=%d K=%d" solver n k)
     | Some k ->
       hist "iters_minus_n model" (k - n);
       if k = 0 then count "runs_started_at_minimiser";
       let xstar = mx.(k) in
       let scale_x = Q.add Q.one (qinfdiff r.x0 xstar) in
       let scale_g = Q.add Q.one (qinf (vq g0)) in
       let fval x = Q.add (Q.div (qdot x (qmv r.am x)) (Q.of_int 2)) (qdot r.av x) in
       let scale_f = Q.add Q.one (Q.abs (Q.sub (fval r.x0) (fval xstar))) in
       let rel d s = fl (Q.div d s) in
       (* ---------------- the iterates ---------------- *)
       if not (List.for_all2 Q.equal xs.(0) r.x0 && List.for_all2 Q.equal gs.(0) (vq g0)) then
         report "MISMATCH" "start" id 0 "the first recorded state is not (x0, A x0 + a)";
       Array.iteri (fun i _ ->
           let j = min i k in
           if i > k then count "states_beyond_K";
           let dx = rel (qinfdiff xs.(i) mx.(j)) scale_x and dg = rel (qinfdiff gs.(i) mg.(j)) scale_g in
           let df = rel (Q.abs (Q.sub (Q.of_float fx.(i)) (fval mx.(j)))) scale_f in
           dev "iterate_x" dx; dev "iterate_g" dg; dev "iterate_f" df;
           count "states_compared";
           if dx > tolx then report "MISMATCH" "iterate-x" id i (Printf.sprintf "solver=%s K=%d |x_k - xM|_inf / (1 + |x0 - xmin|_inf) = %.3g" solver k dx);
           if dg > tolg then report "MISMATCH" "iterate-g" id i (Printf.sprintf "solver=%s K=%d |g_k - gM|_inf / (1 + |g0|_inf) = %.3g" solver k dg);
           if df > tolf then report "MISMATCH" "iterate-f" id i (Printf.sprintf "solver=%s K=%d |f_k - f(xM)| / (1 + f(x0) - f(x*)) = %.3g" solver k df)) fi;
       (* ---------------- the hook events against the model ---------------- *)
       let gg0 = qdot gs.(0) gs.(0) in
       let live i = i < m && Q.gt (qdot gs.(i) gs.(i)) (Q.mul (Q.of_float 1e-14) gg0) in
       List.iter (fun (e : cd_ev) ->
           let j = e.c_k in
           if j + 1 < m && not (e.c_g = gf.(j + 1) && e.c_pg = gf.(j)) then
             report "MISMATCH" "cd-chain" id j "the gradients of the CD event are not those of the done() records k, k + 1";
           if e.c_restarted then (count "cd_restarted"; if live (j + 1) then count "cd_restarted_live");
           if j + 1 < k && finite_all e.c_d then begin
             incr events; count "cd_events_compared";
             let d = qv e.c_d in
             let dd = rel (qinfdiff d md.(j + 1)) scale_g in
             dev "cd_direction" dd;
             (match cosine (qdot d md.(j + 1)) (qdot d d) (qdot md.(j + 1) md.(j + 1)) with
              | Some c when live (j + 1) -> dev "cd_direction_one_minus_cos_live" (1.0 -. c)
              | _ -> ());
             if dd > told then
               report "MISMATCH" "cd-direction" id j (Printf.sprintf "solver=%s restarted=%b |d - dM|_inf / (1 + |g0|_inf) = %.3g" solver e.c_restarted dd)
           end) cds;
       List.iter (fun (e : qu_ev) ->
           let j = e.u_k in
           if j + 1 < m then begin
             let fdx = List.map2 (fun a b -> a -. b) xf.(j + 1) xf.(j) and fdg = List.map2 (fun a b -> a -. b) gf.(j + 1) gf.(j) in
             if not (fdx = e.u_dx && fdg = e.u_dg) then
               report "MISMATCH" "qu-chain" id j "dx / dg of the QU event are not the differences of the done() records k, k + 1"
           end;
           if j < k && j < Array.length mh && finite_all e.u_dx && finite_all e.u_dg && List.for_all finite_all e.u_h1 then begin
             incr events; count "qu_events_compared";
             let ddx = rel (qinfdiff (qv e.u_dx) ms.(j)) scale_x and ddg = rel (qinfdiff (qv e.u_dg) my.(j)) scale_g in
             dev "qu_dx" ddx; dev "qu_dg" ddg;
             if ddx > tolx then report "MISMATCH" "qu-dx" id j (Printf.sprintf "|dx - sM|_inf / (1 + |x0 - xmin|_inf) = %.3g" ddx);
             if ddg > tolg then report "MISMATCH" "qu-dg" id j (Printf.sprintf "|dg - yM|_inf / (1 + |g0|_inf) = %.3g" ddg);
             let hm = mh.(j) in
             let dh = fl (Q.div (qmaxm (List.map2 qsub (qm e.u_h1) hm)) (Q.add Q.one (qmaxm hm))) in
             dev "qu_H_raw" dh;
             if live j then begin
               let amp = sqrt (fl gg0 /. fl (qdot gs.(j) gs.(j))) in
               dev "qu_H" (dh /. amp);
               count "qu_H_compared";
               if dh /. amp > tolhm then
                 report "MISMATCH" "qu-H" id j (Printf.sprintf "init=%s |H_after - HM|_max / (1 + |HM|_max) = %.3g, |g0|/|g_k| = %.3g" (fld r.fs "init") dh amp)
             end
           end) qus;
       List.iter (fun (e : ld_ev) ->
           let j = e.l_k in
           if j < m && e.l_g <> gf.(j) then report "MISMATCH" "ld-chain" id j "the gradient of the LD event is not that of the done() record k";
           (* direct oracle (no model function): the stored history is the suffix of length h of the pairs (x_{i+1} - x_i, g_{i+1} - g_i),
              i < k, bitwise (lbfgs.cpp stores cstate.x() - pstate.x(), cstate.gx() - pstate.gx()); on these instances no pair is skipped *)
           if j < m then begin
             let h = e.l_h in
             count "ld_history_checked";
             if List.length e.l_ss <> h || List.length e.l_ys <> h || h > j then
               report "PROPFAIL" "lbfgs-history-suffix" id j (Printf.sprintf "h=%d: %d / %d stored vectors at iteration %d" h (List.length e.l_ss) (List.length e.l_ys) j)
             else
               List.iteri (fun idx (s, y) ->
                   let i = j - h + idx in
                   let fdx = List.map2 (fun a b -> a -. b) xf.(i + 1) xf.(i) and fdg = List.map2 (fun a b -> a -. b) gf.(i + 1) gf.(i) in
                   if not (fdx = s && fdg = y) then
                     report "PROPFAIL" "lbfgs-history-suffix" id j
                       (Printf.sprintf "h=%d: stored pair %d is not (x_%d - x_%d, g_%d - g_%d): the history is not the newest h pairs" h idx (i + 1) i (i + 1) i))
                 (List.combine e.l_ss e.l_ys)
           end;
           if j < k && finite_all e.l_r then begin
             incr events; count "ld_events_compared";
             let dr = rel (qinf (List.map2 Q.add (qv e.l_r) md.(j))) scale_g in
             dev "ld_direction" dr;
             if dr > told then report "MISMATCH" "ld-direction" id j (Printf.sprintf "h=%d |r + dM|_inf / (1 + |g0|_inf) = %.3g" e.l_h dr);
             let hm = if j = 0 then 0 else mhist.(j - 1) in
             if hm <> e.l_h then report "MISMATCH" "ld-history" id j (Printf.sprintf "history size %d, model %d" e.l_h hm)
           end) lds);
    (* ---------------- direct oracles on the implementation's own numbers (no model function) ---------------- *)
    let gg = Array.map (fun g -> qdot g g) gs in
    let live i = i < m && Q.gt gg.(i) (Q.mul (Q.of_float 1e-14) gg.(0)) in
    let reach = (let rec go i = if i >= m then None else if Q.leq gg.(i) (Q.mul (Q.of_float 1e-20) gg.(0)) then Some i else go (i + 1) in go 0) in
    (match reach with
     | Some i ->
       hist ("iters_minus_n " ^ fam) (i - n);
       (match kk with Some k -> hist ("reach_minus_K " ^ fam) (i - k); if i <> k then count "reach_differs_from_K" | None -> ());
       if i > n + 2 then report "PROPFAIL" "finite-termination" id i (Printf.sprintf "solver=%s n=%d: |g_k|_2 <= 1e-10 |g_0|_2 first at k=%d > n + 2" solver n i)
     | None -> report "PROPFAIL" "finite-termination" id (m - 1) (Printf.sprintf "solver=%s n=%d: |g_k|_2 <= 1e-10 |g_0|_2 never reached in %d iterations" solver n (m - 1)));
    let ds = Array.init (max 0 (m - 1)) (fun i -> qsub xs.(i + 1) xs.(i)) in
    let ads = Array.map (fun d -> qmv r.am d) ds in
    let dad = Array.mapi (fun i d -> qdot d ads.(i)) ds in
    let ddn = Array.map (fun d -> qdot d d) ds in
    let nd = Array.length ds in
    for j = 0 to m - 1 do
      if live j then begin
        for i = 0 to j - 1 do
          if live i then begin
            (* gradients mutually orthogonal *)
            (match cosine (qdot gs.(i) gs.(j)) gg.(i) gg.(j) with
             | Some c -> dev "grad_orthogonal" c; count "grad_orthogonal_checked";
               if c > tolo then report "PROPFAIL" "grad-orthogonal" id j (Printf.sprintf "solver=%s i=%d j=%d |g_i.g_j| / (|g_i| |g_j|) = %.3g" solver i j c)
             | None -> ());
            (* steps mutually A-conjugate *)
            if j < nd then
              (match cosine (qdot ds.(i) ads.(j)) dad.(i) dad.(j) with
               | Some c -> dev "dir_conjugate" c; count "dir_conjugate_checked";
                 if c > tolo then report "PROPFAIL" "dir-conjugate" id j (Printf.sprintf "solver=%s i=%d j=%d |d_i'A d_j| / sqrt(d_i'Ad_i d_j'Ad_j) = %.3g" solver i j c)
               | None -> ());
            (* the gradient is orthogonal to every earlier step *)
            (match cosine (qdot gs.(j) ds.(i)) gg.(j) ddn.(i) with
             | Some c -> dev "grad_dir" c; count "grad_dir_checked";
               if c > tolo then report "PROPFAIL" "grad-dir" id j (Printf.sprintf "solver=%s i=%d j=%d |g_j.d_i| / (|g_j| |d_i|) = %.3g" solver i j c)
             | None -> ())
          end
        done;
        if j + 1 < m then begin
          count "f_decrease_checked";
          if not (fx.(j + 1) < fx.(j)) then
            report "PROPFAIL" "f-decrease" id j (Printf.sprintf "solver=%s f_k=%s f_{k+1}=%s" solver (hex fx.(j)) (hex fx.(j + 1)));
          (* how exact the line search was: |g_{k+1}.d_k| / |g_k.d_k|  (reported only) *)
          let den = Q.abs (qdot gs.(j) ds.(j)) in
          if Q.sign den > 0 then dev "line_search_exactness" (fl (Q.div (Q.abs (qdot gs.(j + 1) ds.(j))) den))
        end
      end
    done;
    (* the directions chosen in the CD events: D_0 = previous d of event 0 (= -g0), D_{k+1} = chosen d of event k *)
    (match cds with
     | e0 :: _ when e0.c_k = 0 && List.for_all (fun (e : cd_ev) -> finite_all e.c_d) cds && finite_all e0.c_pd ->
       let dirs = Array.of_list (qv e0.c_pd :: List.map (fun (e : cd_ev) -> qv e.c_d) cds) in
       let adirs = Array.map (fun d -> qmv r.am d) dirs in
       let dads = Array.mapi (fun i d -> qdot d adirs.(i)) dirs in
       for j = 0 to Array.length dirs - 1 do
         if live j then
           for i = 0 to j - 1 do
             if live i then
               (match cosine (qdot dirs.(i) adirs.(j)) dads.(i) dads.(j) with
                | Some c -> dev "cd_dir_conjugate" c; count "cd_dir_conjugate_checked";
                  if c > tolo then report "PROPFAIL" "cd-dir-conjugate" id (j - 1) (Printf.sprintf "solver=%s i=%d j=%d |D_i'A D_j| / sqrt(D_i'AD_i D_j'AD_j) = %.3g" solver i j c)
                | None -> ())
           done
       done
     | _ -> ());
    (* BFGS: hereditary secant equations  H_{k+1} dg_j = dx_j  for every j <= k *)
    let qua = Array.of_list qus in
    Array.iteri (fun k (e : qu_ev) ->
        if e.u_k = k && live k && List.for_all finite_all e.u_h1 then begin
          let h1 = qm e.u_h1 in
          for j = 0 to k do
            let ej = qua.(j) in
            if finite_all ej.u_dx && finite_all ej.u_dg then begin
              let sj = qv ej.u_dx and yj = qv ej.u_dg in
              let nrm = qinf sj in
              if Q.sign nrm > 0 then begin
                let res = fl (Q.div (qinfdiff (qmv h1 yj) sj) nrm) in
                dev (if j = k then "bfgs_secant" else "bfgs_hereditary") res; count "bfgs_hereditary_checked";
                if res > tolh then
                  report "PROPFAIL" "bfgs-hereditary" id k (Printf.sprintf "init=%s j=%d |H_after dg_j - dx_j|_inf / |dx_j|_inf = %.3g" (fld r.fs "init") j res)
              end
            end
          done
        end) qua;
    (* L-BFGS: the direction -r is conjugate to the previous step and a descent direction (= a positive multiple of the
       conjugate-gradient direction) *)
    List.iter (fun (e : ld_ev) ->
        let k = e.l_k in
        if k >= 1 && k < m && live k && finite_all e.l_r then begin
          let rq = qv e.l_r in
          let s = ds.(k - 1) in
          let ar = qmv r.am rq in
          (match cosine (qdot s ar) (qdot rq ar) dad.(k - 1) with
           | Some c -> dev "lbfgs_cg_direction" c; count "lbfgs_cg_direction_checked";
             if c > tolo then report "PROPFAIL" "lbfgs-cg-direction" id k (Printf.sprintf "h=%d |r'A (x_k - x_{k-1})| / sqrt(..) = %.3g" e.l_h c)
           | None -> ());
          if Q.sign (qdot rq gs.(k)) <= 0 then
            report "PROPFAIL" "lbfgs-cg-direction" id k (Printf.sprintf "h=%d r.g_k = %.3g is not positive (-r is not a descent direction)" e.l_h (fl (qdot rq gs.(k))))
        end) lds
  end

let finish () =
  (match !cur with
   | Some r -> (try process r with Failure msg | Invalid_argument msg -> report "MISMATCH" "driver" r.id 0 msg)
   | None -> ());
  cur := None

let after_prefix line pre = String.sub line (String.length pre) (String.length line - String.length pre)
let sections line = List.map String.trim (split_str " | " line)

let () =
  (try
     while true do
       let line = input_line stdin in
       match String.split_on_char ' ' line with
       | "FRUN" :: id :: _ ->
         finish ();
         (match sections line with
          | [hd; sa; sv; sx] ->
            let fs = fields hd in
            let n = int_of_string (fld fs "n") in
            let ai = ints_of sa and vi = ints_of sv and xi = ints_of sx in
            if List.length ai <> n * n || List.length vi <> n || List.length xi <> n then report "MISMATCH" "run-syntax" id 0 "FRUN dimensions"
            else begin
              let aq = List.map Q.of_int ai in
              let rec rows l = if l = [] then [] else (List.filteri (fun i _ -> i < n) l) :: rows (List.filteri (fun i _ -> i >= n) l) in
              cur := Some { id; fs; n; am = rows aq; av = List.map Q.of_int vi; x0 = List.map Q.of_int xi; fi = []; cds = []; qus = []; lds = []; bad = None }
            end
          | _ -> report "MISMATCH" "run-syntax" id 0 "FRUN")
       | "FI" :: id :: k :: _calls :: f :: _ ->
         (match !cur, sections line with
          | Some r, [_; sx; sg] when r.id = id -> r.fi <- (int_of_string k, parse_float f, floats_of sx, floats_of sg) :: r.fi
          | Some r, _ -> r.bad <- Some "FI"
          | None, _ -> ())
       | "CD" :: id :: k :: _n :: beta :: restarted :: _ot :: _ ->
         (match !cur, sections line with
          | Some r, [_; spg; spd; sg; sd] when r.id = id ->
            r.cds <- { c_k = int_of_string k; c_beta = parse_float beta; c_restarted = (restarted = "1"); c_pg = floats_of spg;
                       c_pd = floats_of spd; c_g = floats_of sg; c_d = floats_of sd } :: r.cds
          | Some r, _ -> r.bad <- Some "CD"
          | None, _ -> ())
       | "QU" :: id :: k :: nn :: _ ->
         (match !cur with
          | Some r when r.id = id ->
            let pre = String.concat " " ["QU"; id; k; nn] ^ " " in
            (match sections (after_prefix line pre) with
             | [sdx; sdg; sh0; sh1] ->
               r.qus <- { u_k = int_of_string k; u_dx = floats_of sdx; u_dg = floats_of sdg; u_h0 = rows_of sh0; u_h1 = rows_of sh1 } :: r.qus
             | _ -> r.bad <- Some "QU")
          | _ -> ())
       | "LD" :: id :: k :: nn :: h :: _ ->
         (match !cur with
          | Some r when r.id = id ->
            let pre = String.concat " " ["LD"; id; k; nn; h] ^ " " in
            (match sections (after_prefix line pre) with
             | [sg; sss; sys; sr] -> r.lds <- { l_k = int_of_string k; l_h = int_of_string h; l_g = floats_of sg; l_r = floats_of sr;
                                                 l_ss = rows_of sss; l_ys = rows_of sys } :: r.lds
             | _ -> r.bad <- Some "LD")
          | _ -> ())
       | _ -> ()
     done
   with End_of_file -> ());
  finish ();
  let sorted_of h = List.sort compare (Hashtbl.fold (fun k v acc -> (k, v) :: acc) h []) in
  List.iter (fun (name, h) ->
      Printf.printf "HIST %s %s\n" name (String.concat "," (List.map (fun (k, v) -> Printf.sprintf "%d:%d" k v) (sorted_of h))))
    (sorted_of hists |> List.map (fun (name, h) -> (name, h)));
  List.iter (fun (name, v) -> Printf.printf "MAXDEV %s %.3e\n" name v) (sorted_of maxdev);
  List.iter (fun (name, v) -> Printf.printf "TOL %s %.1e\n" name v)
    ["iterate_x_and_dx", tolx; "iterate_g_and_dg", tolg; "iterate_f", tolf; "cd_ld_direction", told; "qu_H", tolhm;
     "orthogonality_conjugacy_cosines", tolo; "bfgs_hereditary", tolh];
  Printf.printf "MODEL-DONE checked=%d mismatches=%d propfails=%d events=%d %s\n" !checked !mism !pfail !events
    (String.concat " " (List.map (fun (k, v) -> Printf.sprintf "%s=%d" k v) (sorted_of counters)))
