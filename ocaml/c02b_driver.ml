(* C02 extension 2 driver: replays every recorded whole run of the real sgm / cocob / sda / wda solvers (harness/c02_bodies.cpp)
   with the extracted model `body_run` (coq/theories/C02_Bodies_Defs.v).
   The oracles of the model are answered from the recording:
     bo_eval k x   -> the k-th recorded evaluation; the requested point x must be the recorded point BIT FOR BIT
     bo_norm2 v    -> the recorded v.lpNorm<2>() of that vector (the library's own Eigen reduction; only sub-gradients are asked)
     bo_pow b p    -> the recorded std::pow(b, power) (b = iteration + 1, as sgm.cpp calls it); p must be the configured power;
                      cross-checked against this process' libm pow (same bits expected; counted when not)
     bo_tanh v     -> libm tanh (Stdlib.tanh is C's tanh, which Eigen's array tanh calls per element for double)
   and the model must: request ALL recorded evaluations and no other, make as many done() calls, and end in the same returned
   state (x, fx, gx, status, fcalls, gcalls), function counters, flags of the last done() call, kind of exit and
   value_test(patience) of the returned state (= same improvement history).
   Runs whose zero-sub-gradient test reads a vector containing NaN on which Eigen's lpNorm<Infinity> and the model's max-abs
   decide differently are counted as ambiguous (Eigen leaves that case unspecified).
   PROPFAIL: the conclusions of the C02_bodies theorems evaluated on the recorded data and on the model's final auxiliaries. *)
let tf = Float64.to_float
let ff = Float64.of_float
let fl s = ff (float_of_string (trim s))
let flist s = let s = trim s in if s = "-" || s = "" then [] else List.map fl (split_on ',' s)
let bits x = Int64.bits_of_float (tf x)
let same a b = (Float.is_nan (tf a) && Float.is_nan (tf b)) || Int64.equal (bits a) (bits b)
let same_list a b = List.length a = List.length b && List.for_all2 same a b
let hex x = let x = tf x in if Float.is_nan x then "nan" else Printf.sprintf "%h" x
let hexl l = if l = [] then "-" else String.concat "," (List.map hex l)
let key l = String.concat "," (List.map (fun v -> if Float.is_nan (tf v) then "nan" else Int64.to_string (bits v)) l)
let words s = List.filter (fun t -> t <> "") (String.split_on_char ' ' (trim s))
let nanf = ff Float.nan
let has_nan l = List.exists (fun v -> Float.is_nan (tf v)) l

let mism = ref 0
let propfail = ref 0
let checked = ref 0
let evals = ref 0
let passes = ref 0
let ambiguous = ref 0
let pow_diff = ref 0
let tanh_calls = ref 0
let hist : (string, int) Hashtbl.t = Hashtbl.create 16
let count k = Hashtbl.replace hist k (1 + (match Hashtbl.find_opt hist k with Some n -> n | None -> 0))

type ev = { e_f : Float64.t; e_n2 : Float64.t; e_ni : Float64.t; e_pow : Float64.t; e_x : Float64.t list; e_g : Float64.t list }
type dn = { d_ok : bool; d_conv : bool; d_ret : bool; d_evals : int; d_fx : Float64.t; d_valid : bool }
type run = { mutable hdr : string; mutable evs : ev list; mutable dns : dn list; mutable ret : string }
let cur = { hdr = ""; evs = []; dns = []; ret = "" }

let eps_m = epsilon_float

let finish_run () =
  let line = cur.hdr in
  let short = if String.length line > 500 then String.sub line 0 500 ^ "..." else line in
  let report why = incr mism; Printf.printf "MISMATCH %s // %s\n" short why in
  let preport why = incr propfail; Printf.printf "PROPFAIL %s // %s\n" short why in
  (match split_str " | " line with
   | [h; c; x0s] ->
     let hw = Array.of_list (words h) in
     let id = hw.(1) and body = int_of_string hw.(3) in
     let cw = Array.of_list (words c) in
     let eps = fl cw.(0) and maxev = int_of_string cw.(1) and patience = int_of_string cw.(2) and p = fl cw.(3) in
     let x0 = flist x0s in
     let evs = Array.of_list (List.rev cur.evs) and dns = Array.of_list (List.rev cur.dns) in
     let ne = Array.length evs and nd = Array.length dns in
     evals := !evals + ne;
     let norms : (string, Float64.t) Hashtbl.t = Hashtbl.create 64 in
     Array.iter (fun e ->
         let k = key e.e_g in
         (match Hashtbl.find_opt norms k with
          | Some v0 when not (same v0 e.e_n2) -> report (Printf.sprintf "RUN %s the library's lpNorm<2> is not a function of the vector: %s vs %s" id (hex v0) (hex e.e_n2))
          | _ -> ());
         Hashtbl.replace norms k e.e_n2) evs;
     let problems = ref [] in
     let note s = if List.length !problems < 4 && not (List.mem s !problems) then problems := s :: !problems in
     let requested = Array.make (ne + 1) false in
     let o_eval k x =
       let k = int_of_z k in
       if k < 0 || k >= ne then (note (Printf.sprintf "the model requests evaluation %d, the library made %d" k ne); (nanf, List.map (fun _ -> nanf) x))
       else begin
         requested.(k) <- true;
         if not (same_list x evs.(k).e_x) then
           note (Printf.sprintf "evaluation %d: the model requests %s, the library evaluated %s" k (hexl x) (hexl evs.(k).e_x));
         (evs.(k).e_f, evs.(k).e_g)
       end in
     let o_norm2 v =
       match Hashtbl.find_opt norms (key v) with
       | Some n -> n
       | None -> note "the model needs the lpNorm<2> of a vector that is not a recorded sub-gradient"; nanf in
     let o_pow b pw =
       let b = int_of_z b in
       if not (same pw p) then note (Printf.sprintf "pow: the model passes the exponent %s, the configured power is %s" (hex pw) (hex p));
       if b < 1 || b > ne then (note (Printf.sprintf "pow: base %d outside the recorded passes" b); nanf)
       else begin
         let v = evs.(b - 1).e_pow in
         if not (same v (ff (Float.pow (float_of_int b) (tf p)))) then incr pow_diff;
         v
       end in
     let o_tanh v = incr tanh_calls; ff (tanh (tf v)) in
     let orc = { bo_eval = o_eval; bo_norm2 = o_norm2; bo_pow = o_pow; bo_tanh = o_tanh } in
     let cfg = { bc_eps = eps; bc_maxev = z_of_int maxev; bc_patience = z_of_int patience; bc_p = p } in
     let b = bbody_of_Z (z_of_int body) in
     let r = body_run b orc cfg (b_fuel cfg) x0 in
     let s = r.br_s in
     incr checked;
     passes := !passes + int_of_z r.br_iters;
     (* Eigen's lpNorm<Infinity> on a vector with NaN: unspecified; ambiguous when it decides the zero test differently *)
     (* (only sub-gradients whose test is really read: another evaluation follows, or the zero exit was taken) *)
     let amb = ref false in
     Array.iteri (fun k e -> if body <> 1 && (k < ne - 1 || nd = ne) && has_nan e.e_g && (zero_grad e.e_g) <> (tf e.e_ni < eps_m) then amb := true) evs;
     let amb = !amb in
     if amb then incr ambiguous
     else begin
       (* ---- correspondence ---- *)
       List.iter report (List.rev_map (fun q -> Printf.sprintf "RUN %s %s" id q) !problems);
       if int_of_z r.br_ne <> ne then report (Printf.sprintf "RUN %s the model makes %d evaluations, the library %d" id (int_of_z r.br_ne) ne)
       else begin
         let missing = ref (-1) in
         for k = ne - 1 downto 0 do if not requested.(k) then missing := k done;
         if !missing >= 0 then report (Printf.sprintf "RUN %s evaluation %d of the library is never requested by the model" id !missing)
       end;
       if int_of_z r.br_dones <> nd then report (Printf.sprintf "RUN %s the model makes %d done() calls, the library %d" id (int_of_z r.br_dones) nd);
       (match split_str " | " cur.ret with
        | [a; xs; gs] ->
          let w = Array.of_list (words a) in
          let status = int_of_string w.(2) and fc = int_of_string w.(3) and gc = int_of_string w.(4)
          and ffc = int_of_string w.(5) and fgc = int_of_string w.(6) and vtest = fl w.(7) and fx = fl w.(8) in
          let rx = flist xs and rg = flist gs in
          if not (same s.sfx fx && same_list s.sx rx && same_list s.sgx rg) then
            report (Printf.sprintf "RUN %s returned state: model fx=%s x=%s, library fx=%s x=%s" id (hex s.sfx) (hexl s.sx) (hex fx) (hexl rx));
          if int_of_z s.sstatus <> status then report (Printf.sprintf "RUN %s status: model %d, library %d" id (int_of_z s.sstatus) status);
          if int_of_z s.sfcalls <> fc || int_of_z s.sgcalls <> gc then
            report (Printf.sprintf "RUN %s reported calls: model %d|%d, library %d|%d" id (int_of_z s.sfcalls) (int_of_z s.sgcalls) fc gc);
          if int_of_z r.br_fc <> ffc || int_of_z r.br_gc <> fgc then
            report (Printf.sprintf "RUN %s function counters: model %d|%d, library %d|%d" id (int_of_z r.br_fc) (int_of_z r.br_gc) ffc fgc);
          let ex = int_of_z r.br_exit in
          if ex = 0 then report (Printf.sprintf "RUN %s the model runs out of fuel" id);
          let vt_model = value_test_ref s (z_of_int patience) in
          if not (same vt_model vtest) then
            report (Printf.sprintf "RUN %s value_test(patience) of the returned state: model %s, library %s" id (hex vt_model) (hex vtest));
          if nd > 0 then begin
            let l = dns.(nd - 1) in
            if l.d_ok <> r.br_ok || l.d_conv <> r.br_conv then
              report (Printf.sprintf "RUN %s flags of the last done(): model iter_ok=%b converged=%b, library iter_ok=%b converged=%b" id r.br_ok r.br_conv l.d_ok l.d_conv);
            if l.d_ret <> (ex = 2 || ex = 3) then report (Printf.sprintf "RUN %s exit: model %d, library's last done() returned %b" id ex l.d_ret)
          end else if ex <> 1 then report (Printf.sprintf "RUN %s exit: model %d, the library made no done() call" id ex);
          if ne > 0 && not (same_list r.br_a.a_x evs.(ne - 1).e_x && same_list r.br_a.a_g evs.(ne - 1).e_g) then
            report (Printf.sprintf "RUN %s the current iterate of the model is not the last evaluated point" id);
          count (Printf.sprintf "exit=%d" ex);
          count (Printf.sprintf "status=%d" status);
          (* ---- the conclusions of the theorems on the recorded data ---- *)
          (* (1) budget: fcalls + gcalls <= max(2, max_evals + 1); one evaluation and one done() per pass *)
          if ffc + fgc > max 2 (maxev + 1) then preport (Printf.sprintf "RUN %s C02_bodies_budget: %d evaluations with max_evals = %d" id (ffc + fgc) maxev);
          if ffc <> ne || fgc <> ne then preport (Printf.sprintf "RUN %s C02_bodies_budget: counters %d|%d for %d evaluations" id ffc fgc ne);
          let zero_exit = nd > 0 && nd = ne in
          if nd <> ne - 1 && not zero_exit then preport (Printf.sprintf "RUN %s C02_bodies_budget: %d done() calls for %d evaluations" id nd ne);
          (* (2) honest; best; not worse than the start; valid unless failed *)
          if not (Array.exists (fun e -> same_list e.e_x rx && same e.e_f fx && same_list e.e_g rg) evs) then
            preport (Printf.sprintf "RUN %s C02_bodies_honest: the returned triple is not a recorded evaluation" id);
          if ne > 0 && Float.is_finite (tf evs.(0).e_f) && not (tf fx <= tf evs.(0).e_f) then
            preport (Printf.sprintf "RUN %s C02_bodies_best: f=%s above f(x0)=%s" id (hex fx) (hex evs.(0).e_f));
          let v = valid { s with sx = rx; sfx = fx; sgx = rg } in
          if status <> 2 && nd > 0 && not v then preport (Printf.sprintf "RUN %s C02_bodies_status: invalid state with status %d" id status);
          (* (3) status: converged => the last done() had both flags, and the flag is value_test < epsilon (or the zero exit) *)
          if status = 1 then begin
            if nd = 0 || not (dns.(nd - 1).d_ok && dns.(nd - 1).d_conv && dns.(nd - 1).d_ret) then
              preport (Printf.sprintf "RUN %s C02_bodies_status: converged without done(true, true)" id);
            if zero_exit then (if not (tf (maxabs evs.(ne - 1).e_g) < eps_m) then preport (Printf.sprintf "RUN %s C02_bodies_status: zero-sub-gradient exit with max|g| = %s" id (hex (maxabs evs.(ne - 1).e_g))))
            else if not (tf vtest < tf eps) then preport (Printf.sprintf "RUN %s C02_bodies_status: converged with value_test = %s >= epsilon" id (hex vtest))
          end;
          if status = 2 && nd > 0 && dns.(nd - 1).d_ok && dns.(nd - 1).d_valid then preport (Printf.sprintf "RUN %s C02_bodies_status: failed with iter_ok and a valid state" id);
          (* (4) invariants on the model's final auxiliaries (the model has just been shown to follow the library bit for bit) *)
          let a = r.br_a in
          if body = 1 && int_of_z r.br_iters > 0 then begin
            (* L >= the |g| it was updated with (the sub-gradient before the last evaluation), reward >= 0, L > 0 *)
            if ne >= 2 then List.iter2 (fun l g -> if tf l < Float.abs (tf g) then preport (Printf.sprintf "RUN %s C02_cocob_invariants: L = %s below |g| = %s" id (hex l) (hex g))) a.a_v1 evs.(ne - 2).e_g;
            List.iter (fun w -> if tf w < 0.0 then preport (Printf.sprintf "RUN %s C02_cocob_invariants: negative reward %s" id (hex w))) a.a_v4;
            List.iter (fun l -> if not (tf l > 0.0) && not (Float.is_nan (tf l)) then preport (Printf.sprintf "RUN %s C02_cocob_invariants: L = %s not positive" id (hex l))) a.a_v1
          end;
          if body = 0 then
            for k = 0 to ne - 2 do
              let lam = tf (sgm_lambda orc p (z_of_int k)) in
              if not (lam > 0.0 && lam <= 1.0) then preport (Printf.sprintf "RUN %s C02_sgm_invariants: lambda_%d = %h" id k lam);
              if k > 0 && not (lam <= tf (sgm_lambda orc p (z_of_int (k - 1)))) then preport (Printf.sprintf "RUN %s C02_sgm_invariants: lambda_%d = %h increases" id k lam);
              (* no division by zero on the executed path *)
              if not (has_nan evs.(k).e_g) && not (tf evs.(k).e_n2 > 0.0) then preport (Printf.sprintf "RUN %s C02_sgm_invariants: pass %d divides by |g| = %s" id k (hex evs.(k).e_n2))
            done
        | _ -> report (Printf.sprintf "RUN %s bad BRET line" id))
     end
   | _ -> report "bad BRUN line");
  cur.hdr <- ""; cur.evs <- []; cur.dns <- []; cur.ret <- ""

let starts p line = String.length line > String.length p && String.sub line 0 (String.length p) = p

let () =
  (try
     while true do
       let line = input_line stdin in
       (try
          if starts "BRUN " line then (cur.hdr <- line; cur.evs <- []; cur.dns <- []; cur.ret <- "")
          else if starts "BEV " line then begin
            match split_str " | " line with
            | [a; xs; gs] ->
              let w = Array.of_list (words a) in
              cur.evs <- { e_f = fl w.(3); e_n2 = fl w.(4); e_ni = fl w.(5); e_pow = fl w.(6); e_x = flist xs; e_g = flist gs } :: cur.evs
            | _ -> incr mism; Printf.printf "MISMATCH bad BEV line %s\n" (String.sub line 0 (min 200 (String.length line)))
          end
          else if starts "BDN " line then begin
            let w = Array.of_list (words line) in
            cur.dns <- { d_ok = (w.(3) = "1"); d_conv = (w.(4) = "1"); d_ret = (w.(5) = "1"); d_evals = int_of_string w.(6); d_fx = fl w.(7); d_valid = (w.(8) = "1") } :: cur.dns
          end
          else if starts "BRET " line then cur.ret <- line
          else if starts "BEND " line then finish_run ()
        with Failure m | Invalid_argument m -> incr mism; Printf.printf "MISMATCH driver cannot parse (%s): %s\n" m (String.sub line 0 (min 200 (String.length line))))
     done
   with End_of_file -> ());
  let kv = List.sort compare (Hashtbl.fold (fun k n acc -> (k, n) :: acc) hist []) in
  Printf.printf "HIST %s\n" (String.concat " " (List.map (fun (k, n) -> Printf.sprintf "%s=%d" k n) kv));
  Printf.printf "MODEL-DONE checked=%d mismatches=%d propfails=%d evaluations=%d passes=%d ambiguous_skipped=%d pow_differs_from_this_libm=%d tanh_calls=%d\n"
    !checked !mism !propfail !evals !passes !ambiguous !pow_diff !tanh_calls
