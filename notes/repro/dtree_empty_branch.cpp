// Minimal reproduction (UNMODIFIED library): a fitted decision tree of depth >= 2 crashes in predict()/split()
// when the given sample list leaves one branch of an inner (split) node without samples.
//
// dataset: 4 samples, ONE scalar float64 feature x = {0, 1, 2, 3} (no missing values), one scalar target (unused).
// gradients: g = {+2, +1, -1, -2}  (residuals to fit = -g), all 4 samples used for fitting.
// tree: wlearner::dtree::max_depth=2, wlearner::dtree::min_split=1, wlearner::criterion=rss
//   => root: x < 1.5, children: x < 0.5 and x < 2.5, 4 leaves (fit score ~ 0).
// predict/split on all samples {0,1,2,3} works; on the sample list {0} (or {0,1}, {3}, ...) the right branch of
// the root receives no samples: dtree_wlearner_t::do_split still evaluates the child node on the EMPTY index list
//   stump_wlearner_t::split -> loop_scalar -> select_iterator_t::loop -> dataset_t::select -> dataset_t::check
// and dataset_t::check calls samples.min() / samples.max() on an empty tensor (null data pointer, Eigen redux
// reads coefficient 0 when its assertions are compiled out with NDEBUG) => SIGSEGV.
//
// usage: repro [mode]   mode = all | single (default) | half | split | empty
//   exit 0 if the call returned, the process dies with SIGSEGV otherwise.

#include <cstdio>
#include <cstring>
#include <nano/dataset.h>
#include <nano/datasource.h>
#include <nano/generator/elemwise_identity.h>
#include <nano/wlearner/criterion.h>
#include <nano/wlearner/dtree.h>

using namespace nano;

namespace
{
class tiny_datasource_t final : public datasource_t
{
public:
    tiny_datasource_t()
        : datasource_t("tiny")
    {
    }

    rdatasource_t clone() const override { return std::make_unique<tiny_datasource_t>(*this); }

private:
    void do_load() override
    {
        const auto features = features_t{
            feature_t{"x"}.scalar(feature_type::float64),
            feature_t{"y"}.scalar(feature_type::float64),
        };
        resize(4, features, 1U);
        for (tensor_size_t sample = 0; sample < 4; ++sample)
        {
            set(sample, 0, static_cast<scalar_t>(sample));
            set(sample, 1, 0.0);
        }
    }
};
} // namespace

int main(int argc, char* argv[])
{
    const auto* const mode = argc > 1 ? argv[1] : "single";

    auto datasource = tiny_datasource_t{};
    datasource.load();

    auto dataset = dataset_t{datasource, 1U}; // NB: one thread, the crash does not depend on threading
    dataset.add<scalar_identity_generator_t>();

    auto gradients = tensor4d_t{4, 1, 1, 1};
    gradients(0)   = +2.0;
    gradients(1)   = +1.0;
    gradients(2)   = -1.0;
    gradients(3)   = -2.0;

    auto wlearner                                    = dtree_wlearner_t{};
    wlearner.parameter("wlearner::criterion")        = wlearner_criterion::rss;
    wlearner.parameter("wlearner::dtree::max_depth") = 2;
    wlearner.parameter("wlearner::dtree::min_split") = 1;

    const auto score = wlearner.fit(dataset, arange(0, 4), gradients);
    std::printf("fit: score=%g, nodes=%zu, leaves=%d\n", score, wlearner.nodes().size(),
                static_cast<int>(wlearner.tables().size<0>()));
    std::fflush(stdout);
    if (score == wlearner_t::no_fit_score())
    {
        std::printf("unexpected: the tree could not be fitted\n");
        return 2;
    }
    for (const auto& node : wlearner.nodes())
    {
        std::printf("  node: feature=%d threshold=%g next=%zu table=%d\n", static_cast<int>(node.m_feature),
                    node.m_threshold, node.m_next, static_cast<int>(node.m_table));
    }

    {
        const auto outputs = wlearner.predict(dataset, arange(0, 4));
        std::printf("predict({0,1,2,3}) = {%g, %g, %g, %g}\n", outputs(0), outputs(1), outputs(2), outputs(3));
    }
    std::fflush(stdout);

    if (std::strcmp(mode, "all") == 0)
    {
        return 0;
    }
    else if (std::strcmp(mode, "half") == 0)
    {
        std::printf("predict({0,1}) ...\n");
        std::fflush(stdout);
        const auto outputs = wlearner.predict(dataset, arange(0, 2));
        std::printf("predict({0,1}) = {%g, %g}\n", outputs(0), outputs(1));
    }
    else if (std::strcmp(mode, "split") == 0)
    {
        std::printf("split({3}) ...\n");
        std::fflush(stdout);
        const auto cluster = wlearner.split(dataset, arange(3, 4));
        std::printf("split({3}): group(3)=%d\n", static_cast<int>(cluster.group(3)));
    }
    else if (std::strcmp(mode, "empty") == 0)
    {
        // NB: for comparison, an empty sample list given directly by the caller
        std::printf("predict({}) ...\n");
        std::fflush(stdout);
        const auto outputs = wlearner.predict(dataset, indices_t{0});
        std::printf("predict({}): %d outputs\n", static_cast<int>(outputs.size()));
    }
    else
    {
        std::printf("predict({0}) ...\n");
        std::fflush(stdout);
        const auto outputs = wlearner.predict(dataset, arange(0, 1));
        std::printf("predict({0}) = {%g}\n", outputs(0));
    }
    std::printf("returned normally\n");
    return 0;
}
