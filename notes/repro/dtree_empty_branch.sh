#!/bin/bash
# usage: repro.sh <library-build-dir> <library-source-dir> [mode ...]
# builds dtree_empty_branch.cpp against the (unmodified) library and runs it for each mode (default: all single half split),
# printing the exit status of each run (139 = SIGSEGV) and a gdb backtrace for the first crashing mode.
set -u

BUILD=${1:?usage: repro.sh <library-build-dir> <library-source-dir>}
SOURCE=${2:?usage: repro.sh <library-build-dir> <library-source-dir>}
shift 2
MODES=${*:-all single half split}
HERE=$(cd "$(dirname "$0")" && pwd)
OUT=$(mktemp -d /tmp/c10-repro-XXXXXX)
trap 'rm -rf "$OUT"' EXIT

LIBS=""
for name in machine solver function program core; do
    for ext in so a; do
        if [ -f "$BUILD/src/lib$name.$ext" ]; then LIBS="$LIBS $BUILD/src/lib$name.$ext"; break; fi
    done
done

${CXX:-c++} -std=c++17 -O1 -g -DNDEBUG -DNANO_HAS_FROM_CHARS_FLOAT ${REPRO_CXXFLAGS:-} \
    -I"$BUILD" -I"$SOURCE/include" -isystem "$SOURCE/src" -isystem /usr/include/eigen3 \
    "$HERE/dtree_empty_branch.cpp" -o "$OUT/repro" \
    -Wl,--start-group $LIBS -Wl,--end-group -Wl,-rpath,"$BUILD/src" -lpthread || exit 3

status=0
crashed=""
for mode in $MODES; do
    echo "=== mode: $mode"
    "$OUT/repro" "$mode"
    code=$?
    echo "=== mode: $mode => exit status $code"
    if [ $code -ne 0 ]; then status=1; [ -z "$crashed" ] && crashed=$mode; fi
done

if [ -n "$crashed" ] && command -v gdb > /dev/null; then
    echo "=== gdb backtrace for mode: $crashed"
    gdb -batch -ex run -ex bt --args "$OUT/repro" "$crashed" 2>&1 | grep -v "^\[New Thread\|^\[Thread .* exited\|^warning"
fi
exit $status
