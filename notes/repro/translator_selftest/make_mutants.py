"""Mutation experiments of notes/TRANSLATOR_SELFTEST.md: scratch copies of tools/translate.py with one defect each.

  mkdir -p /tmp/st/repo && cp -r /repo/include /repo/src /tmp/st/repo/      # VERIF_REPO copy: nothing of the main tree is touched
  python3 notes/repro/translator_selftest/make_mutants.py                     # /tmp/st/mroot_m0 .. m9/tools/translate.py
  python3 notes/repro/translator_selftest/mutdrive.py m4 all                  # all groups through translate_selftest.run
  python3 notes/repro/translator_selftest/mutdrive.py m4 check C16            # the integrated path (coq_check .. Run.finish)
  rm -rf /verif/_work/alt-<hash of /tmp/st/repo>  /tmp/st/mroot_*             # see BUILDING.md for the hash
"""
import os
import shutil

SRC = "/verif/tools/translate.py"


def mut(m, f):
    d = "/tmp/st/mroot_%s/tools" % m
    os.makedirs(d, exist_ok=True)
    if not os.path.exists(os.path.join(d, "kernels")):
        os.symlink("/verif/tools/kernels", os.path.join(d, "kernels"))
    s = open(SRC).read()
    t = f(s)
    assert m == "m0" or t != s, m
    open(os.path.join(d, "translate.py"), "w").write(t)


mut("m0", lambda s: s)
mut("m1", lambda s: s.replace('"(Z.quot %s %s)"', '"(Z.div %s %s)"'))
mut("m2", lambda s: s.replace('return "(Z.rem %s %s)" % (a, b), "Z"', 'return "(Z.rem %s %s)" % (b, a), "Z"'))
mut("m3", lambda s: s.replace('''    def add(self):
        return self.binl(self.mul, ("+", "-"))''', '''    def add(self):
        a = self.mul()
        if self.peek()[0] == "op" and self.peek()[1] in ("+", "-"):
            o = self.eat()
            return ("bin", o, a, self.add())
        return a'''))
mut("m4", lambda s: s.replace('"<=": "Z.leb"', '"<=": "Z.ltb"'))
mut("m5", lambda s: s.replace('''            self.eat()
            return ("neg", self.unary())''', '''            self.eat()
            return self.unary()'''))
mut("m6", lambda s: s.replace('return "(negb (Z.eqb %s %s))" % (a, b), "bool"', 'return "(Z.eqb %s %s)" % (a, b), "bool"'))
mut("m7", lambda s: s.replace('return "(Z.%s %s %s)" % (f[5:], args[0][0], args[1][0]), "Z"',
                              'return "(Z.%s %s %s)" % ({"min": "max", "max": "min"}[f[5:]], args[0][0], args[1][0]), "Z"'))
mut("m8", lambda s: s.replace('return "(if %s then %s else %s)" % (c, a, b), ta', 'return "(if %s then %s else %s)" % (c, b, a), ta'))
mut("m9", lambda s: s.replace('''    def add(self):
        return self.binl(self.mul, ("+", "-"))''', '''    def add(self):
        return self.binl(self.mul, ("+", "-", "/", "%"))''').replace('''        return self.binl(self.unary, ("*", "/", "%"))''',
                                                                      '''        return self.binl(self.unary, ("*",))'''))
# m10: an atom table defect (own copy of the kernel tables): the literal `1` of detail::product's base case becomes the text `010`
d = "/tmp/st/mroot_m10/tools"
os.makedirs(d, exist_ok=True)
shutil.copy(SRC, os.path.join(d, "translate.py"))
shutil.rmtree(os.path.join(d, "kernels"), ignore_errors=True)
shutil.copytree("/verif/tools/kernels", os.path.join(d, "kernels"))
p = os.path.join(d, "kernels", "c16.py")
s = open(p).read()
old = '''\\(idim == trank\\)\\s*\\{\\s*return\\s+(.*?);",
      [], [], "dims", ["C16"]),'''
assert old in s
open(p, "w").write(s.replace(old, old.replace('[], [], "dims"', '[(r"^1$", "010")], [], "dims"')))
print("mutants written under /tmp/st/mroot_*")
