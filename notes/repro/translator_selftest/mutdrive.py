import glob, json, os, sys, time
m, mode = sys.argv[1], sys.argv[2]
os.environ["VERIF_REPO"] = "/tmp/st/repo"
sys.path.insert(0, "/verif/tools")
sys.path.insert(0, "/tmp/st/mroot_%s/tools" % m)
import translate
assert translate.__file__.startswith("/tmp/st/mroot_"), translate.__file__
import vlib, translate_selftest
assert vlib.ALT
t0 = time.time()
if mode == "check":
    pid = sys.argv[3]
    r = vlib.Run(pid, "quick")
    cres = vlib.coq_check(pid, targets=["theories/Extract_%s.vo" % pid, "theories/Properties_%s.vo" % pid])
    vlib.handle_coq_failure(r, cres)
    vlib.proof_coverage(r, cres, "mutation experiment", [])
    rc = r.finish("proof")
    print("EXIT", rc, "| coq ok:", cres["ok"], "| broken:", cres["broken"])
    for p, note in r.violations:
        print("REPLAY", p, note)
        d = json.load(open(p))
        for x in d.get("disagreements", [])[:3]:
            print("   ", x["what"])
        if "obligation" in d:
            print("    obligation:", d["obligation"][:300])
    print("selftest:", json.dumps({k: v for k, v in (cres.get("selftest") or {}).items() if k in ("kernels_tested", "tuples_compared", "disagreements", "kernels_with_disagreement", "errors", "kernels_skipped")}))
else:
    try:
        translate.run(None)
    except translate.TranslateError as ex:
        print("TRANSLATE ERROR", str(ex)[:300])
    vlib.coq_setup()
    vos = sorted("generated/" + os.path.basename(f) + "o" for f in glob.glob(os.path.join(vlib.COQ, "generated", "Src_*.v")))
    rc, out = vlib.sh("timeout 900 make -k -j8 " + " ".join(vos), cwd=vlib.COQ)
    print("make generated rc", rc, out[-300:] if rc else "")
    gs = sorted(set(k["group"] for k in translate.KERNELS))
    s = translate_selftest.run(gs)
    print(json.dumps({k: v for k, v in s.items() if k in ("kernels_tested", "kernels_cached", "tuples_compared", "tuples_skipped_undefined", "disagreements", "kernels_with_disagreement", "errors", "kernels_skipped", "seconds")}))
    for d in s["disagreement_list"][:4]:
        print("   ", translate_selftest.describe(d))
print("wall %.1fs" % (time.time() - t0))
