// heap overflow in bundle_t::append with small solver::*::bundle::max_size (registered domain [2, 1000])
#include <cstdio>
#include <nano/function.h>
#include <nano/solver.h>
using namespace nano;
int main(int argc, char* argv[])
{
    const int  ms   = argc > 1 ? std::atoi(argv[1]) : 2;
    const char* sid = argc > 2 ? argv[2] : "fpba2";
    const char* fid = argc > 3 ? argv[3] : "zakharov";
    const auto function = function_t::all().get(fid)->make(4, 10);
    auto x0 = vector_t{4};
    x0(0) = -2.3; x0(1) = 1.3; x0(2) = 2.0; x0(3) = -0.9;
    auto solver = solver_t::all().get(sid);
    solver->parameter("solver::max_evals") = 200;
    solver->parameter(std::string("solver::") + sid + "::bundle::max_size") = ms;
    const auto state = solver->minimize(*function, x0, make_null_logger());
    std::printf("max_size=%d %s %s: status=%s f=%g evals=%d\n", ms, sid, fid, scat(state.status()).c_str(), state.fx(), (int)state.fcalls());
    return 0;
}
