#!/bin/bash
# usage: repro.sh <library-build-dir> <library-source-dir> [-v]
# exit code 0: returned value <= starting value, 1: defect reproduced, 2: cannot build.
set -u
BUILD=${1:?usage: repro.sh <library-build-dir> <library-source-dir> [-v]}
SOURCE=${2:?usage: repro.sh <library-build-dir> <library-source-dir> [-v]}
HERE=$(cd "$(dirname "$0")" && pwd)
OUT=$(mktemp -d)
trap 'rm -rf "$OUT"' EXIT
LIBS=""
for lib in solver function program core; do
    if [ -f "$BUILD/src/lib$lib.a" ]; then
        LIBS="$LIBS $BUILD/src/lib$lib.a"
    elif [ -f "$BUILD/src/lib$lib.so" ]; then
        LIBS="$LIBS -L$BUILD/src -l$lib -Wl,-rpath,$BUILD/src"
    else
        echo "cannot find library <$lib> in $BUILD/src" >&2
        exit 2
    fi
done
g++ -std=c++17 -O2 -DNDEBUG -DNANO_HAS_FROM_CHARS_FLOAT -I"$BUILD" -I"$SOURCE/include" -isystem /usr/include/eigen3 \
    "$HERE/rqb_stale_status.cpp" -o "$OUT/repro" $LIBS -lpthread || exit 2
timeout 300 "$OUT/repro" "${3:-}"
