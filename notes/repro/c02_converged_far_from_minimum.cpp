// `converged` far from the minimum (not a C02 violation: C02 does not promise optimality; recorded in notes/C02.md):
// sgm / sda / wda / cocob report `converged` when value_test(patience) < epsilon, i.e. after `patience` passes without
// an improvement of the best value -- whatever the distance to the minimum.
#include <cstdio>
#include <nano/function.h>
#include <nano/solver.h>
using namespace nano;
int main(int argc, char* argv[])
{
    const char* sid = argc > 1 ? argv[1] : "sgm";
    const char* fid = argc > 2 ? argv[2] : "qing";
    const auto function = function_t::all().get(fid)->make(4, 10);
    auto x0 = vector_t{4};
    x0(0) = 0x1.cd223b8ad2f7p+1; x0(1) = -0x1.8090e246fb401p+2; x0(2) = -0x1.b3a6980dda91p+2; x0(3) = 0x1.ab048dbfa84b6p+1;
    auto g0 = vector_t{4};
    const auto f0 = function->vgrad(x0, g0);
    auto solver = solver_t::all().get(sid);
    const auto pname = std::string("solver::") + ((std::string(sid) == "sda" || std::string(sid) == "wda") ? "pdsgm" : sid) + "::patience";
    solver->parameter(pname) = 10; // lower end of the registered domain [10, 1e6]; everything else default (epsilon 1e-8, max_evals 1000)
    const auto state = solver->minimize(*function, x0, make_null_logger());
    std::printf("%s on %s: f(x0)=%.6g status=%s f=%.17g |g|inf=%.6g evaluations=%d value_test(10)=%g\n", sid, function->name().c_str(), f0,
                scat(state.status()).c_str(), state.fx(), state.gx().lpNorm<Eigen::Infinity>(), (int)state.fcalls(), state.value_test(10));
    return 0;
}
