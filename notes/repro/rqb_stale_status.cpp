// Reproduction (unmodified library): the RQB solver returns a point that is WORSE than the starting point,
// with status max_iters, on a convex smooth function, when the evaluation budget runs out inside the curve search.
//
// exit code 0: the returned value is not larger than the starting value, 1: it is larger (defect reproduced).
#include <cstdio>
#include <iostream>
#include <nano/function.h>
#include <nano/solver.h>

using namespace nano;

int main(int argc, char* argv[])
{
    const auto verbose = argc > 1 && std::string(argv[1]) == "-v";

    // function: registered benchmark function "zakharov", 4 dimensions (convex, smooth)
    const auto prototype = function_t::all().get("zakharov");
    const auto function  = prototype->make(4, 10);

    // starting point (exact values)
    auto x0 = vector_t{4};
    x0(0)   = -0x1.2946bad998674p+1;
    x0(1)   = 0x1.5905d6abf772cp+0;
    x0(2)   = 0x1.054625f210dp+1;
    x0(3)   = -0x1.cf56d7281c8fp-1;

    auto       g0 = vector_t{4};
    const auto f0 = function->vgrad(x0, g0);

    // solver: registered solver "rqb", all parameters at their defaults except the two below
    auto solver                            = solver_t::all().get("rqb");
    solver->parameter("solver::epsilon")   = 1e-9;
    solver->parameter("solver::max_evals") = 11;

    const auto state = solver->minimize(*function, x0, verbose ? make_stdout_logger() : make_null_logger());

    auto       gx = vector_t{4};
    const auto fx = function->vgrad(state.x(), gx);

    std::printf("function   : %s (convex=%d, smooth=%d)\n", function->name().c_str(), (int)function->convex(),
                (int)function->smooth());
    std::printf("x0         : %a %a %a %a\n", x0(0), x0(1), x0(2), x0(3));
    std::printf("           = %.17g %.17g %.17g %.17g\n", x0(0), x0(1), x0(2), x0(3));
    std::printf("f(x0)      : %.17g, |g(x0)|_inf = %.17g\n", f0, g0.lpNorm<Eigen::Infinity>());
    std::printf("solver     : rqb, solver::epsilon=1e-9, solver::max_evals=11 (everything else default)\n");
    std::printf("status     : %s\n", scat(state.status()).c_str());
    std::printf("returned x : %a %a %a %a\n", state.x()(0), state.x()(1), state.x()(2), state.x()(3));
    std::printf("reported f : %.17g (function at the returned point: %.17g)\n", state.fx(), fx);
    std::printf("evaluations: %d|%d reported\n", (int)state.fcalls(), (int)state.gcalls());

    const auto worse = state.status() != solver_status::failed && state.fx() > f0;
    std::printf("%s\n", worse ? "DEFECT: non-failed status, but the returned value is larger than the starting value"
                              : "ok: the returned value is not larger than the starting value");
    return worse ? 1 : 0;
}
