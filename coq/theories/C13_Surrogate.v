(* C13 extension (stage SURR) -- proofs about C13_Surrogate_Defs *)
From Coq Require Import List ZArith QArith Qabs Bool Lia Permutation Sorted Arith Psatz Floats.
From LNGen Require Import Src_tuner.
From LN Require Import C13_Defs C13_Proofs C13_Statements C13_Surrogate_Defs.
Import ListNotations.
Local Open Scope Z_scope.

(* ------------------------------------------------------------------------------------------------ *)
(* loops                                                                                            *)
(* ------------------------------------------------------------------------------------------------ *)
Lemma zseq_length n : forall s, length (zseq s n) = n.
Proof. induction n as [|n IH]; intros s; cbn; [reflexivity|]. rewrite IH. reflexivity. Qed.

Lemma zseq_In n : forall s x, In x (zseq s n) <-> s <= x < s + Z.of_nat n.
Proof.
  induction n as [|n IH]; intros s x; cbn [zseq In].
  - split; [intros []|lia].
  - rewrite IH. lia.
Qed.

Lemma zseq_NoDup n : forall s, NoDup (zseq s n).
Proof.
  induction n as [|n IH]; intros s; cbn; constructor; [|apply IH].
  rewrite zseq_In. lia.
Qed.

Lemma zseq_app n m : forall s, zseq s (n + m) = zseq s n ++ zseq (s + Z.of_nat n) m.
Proof.
  induction n as [|n IH]; intros s.
  - cbn. replace (s + 0) with s by lia. reflexivity.
  - cbn [Nat.add zseq app]. rewrite IH. do 3 f_equal. lia.
Qed.

Lemma zseq_nth n : forall s k, (k < n)%nat -> nth k (zseq s n) 0 = s + Z.of_nat k.
Proof.
  induction n as [|n IH]; intros s k Hk; [lia|]. destruct k as [|k]; cbn [zseq nth]; [lia|].
  rewrite IH by lia. lia.
Qed.

Lemma zfrom_In lo hi x : In x (zfrom lo hi) <-> lo <= x < hi.
Proof. unfold zfrom. rewrite zseq_In. lia. Qed.

Lemma zfrom_length lo hi : zlen (zfrom lo hi) = Z.max 0 (hi - lo).
Proof. unfold zfrom, zlen. rewrite zseq_length. lia. Qed.

Lemma take_while_lt size n : forall s,
  take_while (fun v => v <? size) (zseq s n) = zseq s (Nat.min n (Z.to_nat (size - s))).
Proof.
  induction n as [|n IH]; intros s; [reflexivity|]. cbn [zseq take_while].
  destruct (s <? size) eqn:E.
  - apply Z.ltb_lt in E. rewrite IH.
    replace (Z.to_nat (size - s)) with (S (Z.to_nat (size - (s + 1)))) by lia. reflexivity.
  - apply Z.ltb_ge in E. replace (Z.to_nat (size - s)) with O by lia. rewrite Nat.min_0_r. reflexivity.
Qed.

Lemma loop_range_lt start size : loop_range Z.ltb start size = zfrom start size.
Proof.
  unfold loop_range, zfrom.
  rewrite (take_while_lt size (Z.to_nat (size + 1 - start)) start). f_equal. lia.
Qed.

Lemma pairs_gen_std size : pairs_gen (fun i => i) Z.ltb size = pairs size.
Proof.
  unfold pairs_gen, pairs. apply flat_map_ext. intros i. rewrite loop_range_lt. reflexivity.
Qed.

(* the three cross-term loops of the source all walk the upper triangle row by row *)
Lemma pairs_fit_eq size : pairs_fit size = pairs size.
Proof. exact (pairs_gen_std size). Qed.
Lemma pairs_grad_eq size : pairs_grad size = pairs size.
Proof. exact (pairs_gen_std size). Qed.
Lemma pairs_value_eq size : pairs_value size = pairs size.
Proof. exact (pairs_gen_std size). Qed.

(* ------------------------------------------------------------------------------------------------ *)
(* numbering (k++)                                                                                  *)
(* ------------------------------------------------------------------------------------------------ *)
Lemma number_app {A} (l1 l2 : list A) : forall k, number k (l1 ++ l2) = number k l1 ++ number (k + zlen l1) l2.
Proof.
  induction l1 as [|a l1 IH]; intros k.
  - unfold zlen. cbn. rewrite Z.add_0_r. reflexivity.
  - cbn [app number]. rewrite IH. do 3 f_equal. unfold zlen. cbn [length]. lia.
Qed.

Lemma number_fst {A} (l : list A) : forall k, map fst (number k l) = l.
Proof. induction l as [|a l IH]; intros k; cbn; [reflexivity|]. rewrite IH. reflexivity. Qed.

Lemma number_snd {A} (l : list A) : forall k, map snd (number k l) = zseq k (length l).
Proof. induction l as [|a l IH]; intros k; cbn; [reflexivity|]. rewrite IH. reflexivity. Qed.

Lemma number_length {A} (l : list A) : forall k, length (number k l) = length l.
Proof. induction l as [|a l IH]; intros k; cbn; [reflexivity|]. rewrite IH. reflexivity. Qed.

Lemma number_In_fst {A} (l : list A) : forall k e kk, In (e, kk) (number k l) -> In e l.
Proof. intros k e kk H. rewrite <- (number_fst l k). change e with (fst (e, kk)). apply in_map. exact H. Qed.

Lemma number_map {A B} (f : A -> B) (l : list A) : forall k,
  number k (map f l) = map (fun p => (f (fst p), snd p)) (number k l).
Proof. induction l as [|a l IH]; intros k; cbn; [reflexivity|]. rewrite IH. reflexivity. Qed.

Lemma number_zseq n : forall k s e kk, In (e, kk) (number k (zseq s n)) -> kk = k + (e - s) /\ s <= e < s + Z.of_nat n.
Proof.
  induction n as [|n IH]; intros k s e kk H; cbn in H; [contradiction|].
  destruct H as [H|H].
  - inversion H; subst. lia.
  - apply IH in H. lia.
Qed.

(* ------------------------------------------------------------------------------------------------ *)
(* the index walk: sizes, closed form, bijection                                                    *)
(* ------------------------------------------------------------------------------------------------ *)
Lemma twice_fit_size d : 0 <= d -> 2 * fit_size d = (d + 1) * (d + 2).
Proof.
  intros Hd. unfold fit_size, src_sg_fit_size.
  rewrite Z.quot_div_nonneg by lia.
  pose proof (Z_div_mod_eq_full d 2) as E. pose proof (Z.mod_pos_bound d 2 ltac:(lia)) as B.
  set (q := d / 2) in *. set (r := d mod 2) in *.
  assert (Hr : r = 0 \/ r = 1) by lia. destruct Hr as [Hr|Hr]; rewrite Hr in E.
  - replace ((d + 1) * (d + 2)) with (((2 * q + 1) * (q + 1)) * 2) by (rewrite E; ring).
    rewrite Z.div_mul by lia. ring.
  - replace ((d + 1) * (d + 2)) with (((q + 1) * (2 * q + 3)) * 2) by (rewrite E; ring).
    rewrite Z.div_mul by lia. ring.
Qed.

Lemma dim_of_fit_size d : 0 <= d -> dim_of_size (fit_size d) = d.
Proof.
  intros Hd. unfold dim_of_size, src_sg_dim, src_sg_radicand. rewrite (twice_fit_size d Hd).
  rewrite (Z.sqrt_unique ((d + 1) * (d + 2)) (d + 1)); [lia|]. nia.
Qed.

Lemma fit_size_pos d : 0 <= d -> d + 1 <= fit_size d.
Proof. intros Hd. pose proof (twice_fit_size d Hd). nia. Qed.

(* rows i, i+1, ..., of the upper triangle *)
Fixpoint rows (n : nat) (i d : Z) : list (Z * Z) :=
  match n with O => [] | S n' => map (pair i) (zfrom i d) ++ rows n' (i + 1) d end.

Lemma flat_map_zseq_rows d n : forall i,
  flat_map (fun i => map (pair i) (zfrom i d)) (zseq i n) = rows n i d.
Proof. induction n as [|n IH]; intros i; cbn; [reflexivity|]. rewrite IH. reflexivity. Qed.

Lemma pairs_rows d : pairs d = rows (Z.to_nat d) 0 d.
Proof. unfold pairs, zfrom. rewrite Z.sub_0_r. apply flat_map_zseq_rows. Qed.

Lemma rows_length d n : forall i, 0 <= i -> i + Z.of_nat n <= d ->
  2 * zlen (rows n i d) = Z.of_nat n * (2 * (d - i) - Z.of_nat n + 1).
Proof.
  induction n as [|n IH]; intros i Hi Hd; [unfold zlen; cbn; lia|].
  cbn [rows]. unfold zlen in *. rewrite app_length, map_length. rewrite Nat2Z.inj_add.
  specialize (IH (i + 1) ltac:(lia) ltac:(lia)).
  pose proof (zfrom_length i d) as L. unfold zlen in L. rewrite L. nia.
Qed.

Lemma pairs_length d : 0 <= d -> zlen (pairs d) = fit_size d - (d + 1).
Proof.
  intros Hd. rewrite pairs_rows. pose proof (rows_length d (Z.to_nat d) 0 ltac:(lia) ltac:(lia)) as H.
  pose proof (twice_fit_size d Hd). rewrite Z2Nat.id in H by lia. nia.
Qed.

Lemma rows_In d n : forall i a b, In (a, b) (rows n i d) <-> (i <= a < i + Z.of_nat n /\ a <= b < d).
Proof.
  induction n as [|n IH]; intros i a b; cbn [rows]; [cbn; lia|].
  rewrite in_app_iff, in_map_iff, IH. split.
  - intros [(x & E & Hx)|H]; [inversion E; subst; apply zfrom_In in Hx; lia|lia].
  - intros [H1 H2]. destruct (Z.eq_dec a i) as [->|Hne].
    + left. exists b. split; [reflexivity|]. apply zfrom_In. lia.
    + right. lia.
Qed.

Lemma pairs_In d a b : In (a, b) (pairs d) <-> 0 <= a /\ a <= b /\ b < d.
Proof. rewrite pairs_rows, rows_In. lia. Qed.

Lemma rows_NoDup d n : forall i, NoDup (rows n i d).
Proof.
  induction n as [|n IH]; intros i; cbn [rows]; [constructor|].
  apply nodup_app.
  - apply FinFun.Injective_map_NoDup; [intros x y E; inversion E; reflexivity|apply zseq_NoDup].
  - apply IH.
  - intros [a b] H1 H2. apply in_map_iff in H1. destruct H1 as (x & E & _). inversion E; subst.
    apply rows_In in H2. lia.
Qed.

Lemma pairs_NoDup d : NoDup (pairs d).
Proof. rewrite pairs_rows. apply rows_NoDup. Qed.

(* the running index at (a, b), when the row walk starts at row i with index k *)
Lemma rows_index d n : forall i k a b kk, 0 <= i -> i + Z.of_nat n <= d ->
  In ((a, b), kk) (number k (rows n i d)) ->
  2 * kk = 2 * k + 2 * (a - i) * d - a * (a - 1) + i * (i - 1) + 2 * (b - a).
Proof.
  induction n as [|n IH]; intros i k a b kk Hi Hd H; cbn [rows] in H; [cbn in H; contradiction|].
  rewrite number_app in H. apply in_app_iff in H. destruct H as [H|H].
  - rewrite number_map in H. apply in_map_iff in H. destruct H as ([e ke] & E & H). cbn in E. inversion E; subst.
    unfold zfrom in H. apply number_zseq in H. nia.
  - pose proof (zfrom_length i d) as L. unfold zlen in *. rewrite map_length, L in H.
    apply IH in H; [|lia|lia]. nia.
Qed.

Lemma even_consecutive i : 2 * Z.quot (i * (i - 1)) 2 = i * (i - 1).
Proof.
  pose proof (Z_div_mod_eq_full i 2) as E. pose proof (Z.mod_pos_bound i 2 ltac:(lia)) as B.
  set (q := i / 2) in *. set (r := i mod 2) in *.
  assert (Hr : r = 0 \/ r = 1) by lia. destruct Hr as [Hr|Hr]; rewrite Hr in E.
  - replace (i * (i - 1)) with ((q * (2 * q - 1)) * 2) by (rewrite E; ring). rewrite Z.quot_mul by lia. ring.
  - replace (i * (i - 1)) with ((q * (2 * q + 1)) * 2) by (rewrite E; ring). rewrite Z.quot_mul by lia. ring.
Qed.

Lemma pairs_index d k0 a b kk : 0 <= d ->
  In ((a, b), kk) (number (k0 + d) (pairs d)) -> kk = k0 - 1 + pair_index d a b.
Proof.
  intros Hd H. rewrite pairs_rows in H. apply rows_index in H; [|lia|lia].
  unfold pair_index. pose proof (even_consecutive a). lia.
Qed.

(* the cross-term indices are exactly [d + 1, fit_size d), each once, in increasing order *)
Lemma pairs_positions d : 0 <= d ->
  map snd (number (1 + d) (pairs d)) = zfrom (d + 1) (fit_size d).
Proof.
  intros Hd. rewrite number_snd. unfold zfrom. rewrite Z.add_comm. f_equal.
  pose proof (pairs_length d Hd) as L. unfold zlen in L. lia.
Qed.

Lemma pair_index_spec d : 0 <= d ->
  (forall i j, 0 <= i -> i <= j -> j < d ->
     d + 1 <= pair_index d i j < fit_size d /\ In ((i, j), pair_index d i j) (number (1 + d) (pairs d))) /\
  (forall i j i' j', 0 <= i -> i <= j -> j < d -> 0 <= i' -> i' <= j' -> j' < d ->
     pair_index d i j = pair_index d i' j' -> (i, j) = (i', j')) /\
  (forall k, d + 1 <= k < fit_size d -> exists i j, 0 <= i /\ i <= j /\ j < d /\ pair_index d i j = k).
Proof.
  intros Hd.
  assert (Hin : forall i j, 0 <= i -> i <= j -> j < d -> In ((i, j), pair_index d i j) (number (1 + d) (pairs d))).
  { intros i j H1 H2 H3. assert (Hp : In (i, j) (pairs d)) by (apply pairs_In; lia).
    rewrite <- (number_fst (pairs d) (1 + d)) in Hp. apply in_map_iff in Hp. destruct Hp as ([e kk] & E & Hp).
    cbn in E. subst e. pose proof (pairs_index d 1 i j kk Hd Hp) as Hk. replace (1 - 1 + pair_index d i j) with (pair_index d i j) in Hk by lia.
    rewrite <- Hk. exact Hp. }
  assert (Hnd : NoDup (map snd (number (1 + d) (pairs d)))) by (rewrite pairs_positions by lia; apply zseq_NoDup).
  split; [|split].
  - intros i j H1 H2 H3. split; [|apply Hin; assumption].
    assert (Hk : In (pair_index d i j) (map snd (number (1 + d) (pairs d)))).
    { apply in_map_iff. exists ((i, j), pair_index d i j). split; [reflexivity|apply Hin; assumption]. }
    rewrite pairs_positions in Hk by lia. apply zfrom_In in Hk. exact Hk.
  - intros i j i' j' H1 H2 H3 H1' H2' H3' E.
    pose proof (Hin i j H1 H2 H3) as A. pose proof (Hin i' j' H1' H2' H3') as B. rewrite <- E in B.
    assert (Hinj : forall (l : list ((Z * Z) * Z)), NoDup (map snd l) -> forall x y k, In (x, k) l -> In (y, k) l -> x = y).
    { induction l as [|[e ke] l IHl]; intros Hn x y k Hx Hy; [contradiction|]. cbn in Hn. inversion Hn as [|? ? Hni Hn']; subst.
      destruct Hx as [Hx|Hx]; destruct Hy as [Hy|Hy].
      - inversion Hx; inversion Hy; subst. reflexivity.
      - inversion Hx; subst. exfalso. apply Hni. apply in_map_iff. exists (y, k). split; [reflexivity|exact Hy].
      - inversion Hy; subst. exfalso. apply Hni. apply in_map_iff. exists (x, k). split; [reflexivity|exact Hx].
      - exact (IHl Hn' x y k Hx Hy). }
    exact (Hinj _ Hnd _ _ _ A B).
  - intros k Hk. assert (Hk' : In k (map snd (number (1 + d) (pairs d)))) by (rewrite pairs_positions by lia; apply zfrom_In; lia).
    apply in_map_iff in Hk'. destruct Hk' as ([[i j] kk] & E & Hp). cbn in E. subst kk.
    pose proof (number_In_fst _ _ _ _ Hp) as Hij. apply pairs_In in Hij.
    pose proof (pairs_index d 1 i j k Hd Hp) as Hkk. exists i, j. repeat split; try lia.
Qed.

(* ------------------------------------------------------------------------------------------------ *)
(* closest_grid_point_from_surrogate                                                                *)
(* ------------------------------------------------------------------------------------------------ *)
Lemma q_closer_spec a b : q_closer a b = true <-> (a < b)%Q.
Proof. unfold q_closer, src_sp_closer, Qlt. rewrite Z.ltb_lt. reflexivity. Qed.

Definition qdist (x t : Q) : Q := Qabs (x - t).

Lemma closest_go_spec : forall ts x size point bd bp, size = point + zlen ts ->
  let r := closest_go ts x size point bd bp in
  (r = bp /\ forall k, (k < length ts)%nat -> ~ (qdist x (nth k ts 0%Q) < bd)%Q) \/
  (exists k, (k < length ts)%nat /\ r = point + Z.of_nat k /\ (qdist x (nth k ts 0%Q) < bd)%Q /\
             (forall j, (j < length ts)%nat -> (qdist x (nth k ts 0%Q) <= qdist x (nth j ts 0%Q))%Q) /\
             (forall j, (j < k)%nat -> (qdist x (nth k ts 0%Q) < qdist x (nth j ts 0%Q))%Q)).
Proof.
  induction ts as [|t ts IH]; intros x size point bd bp Hsize; cbn zeta.
  - left. split; [reflexivity|]. cbn. intros k Hk. lia.
  - cbn [closest_go]. unfold src_sp_continue.
    assert (Hlt : (point <? size) = true) by (apply Z.ltb_lt; unfold zlen in Hsize; cbn [length] in Hsize; lia).
    rewrite Hlt. fold (qdist x t).
    assert (Hsize' : size = (point + 1) + zlen ts) by (unfold zlen in *; cbn [length] in Hsize; lia).
    destruct (q_closer (qdist x t) bd) eqn:Ec.
    + apply q_closer_spec in Ec. unfold src_sp_closest_assign.
      specialize (IH x size (point + 1) (qdist x t) point Hsize'). cbn zeta in IH.
      right. destruct IH as [[Hr Hnone]|(k & Hk & Hr & Hd & Hall & Hfirst)].
      * exists O. split; [cbn; lia|]. split; [rewrite Hr; lia|]. cbn [nth]. split; [exact Ec|]. split.
        -- intros j Hj. destruct j as [|j]; [apply Qle_refl|]. cbn [nth]. apply Qnot_lt_le. apply Hnone. cbn in Hj. lia.
        -- intros j Hj. lia.
      * exists (S k). split; [cbn; lia|]. split; [rewrite Hr; lia|]. cbn [nth]. split; [exact (Qlt_trans _ _ _ Hd Ec)|]. split.
        -- intros j Hj. destruct j as [|j]; [apply Qlt_le_weak; exact Hd|]. cbn [nth]. apply Hall. cbn in Hj. lia.
        -- intros j Hj. destruct j as [|j]; [exact Hd|]. cbn [nth]. apply Hfirst. lia.
    + assert (Hn : ~ (qdist x t < bd)%Q) by (intro H; apply q_closer_spec in H; congruence).
      specialize (IH x size (point + 1) bd bp Hsize'). cbn zeta in IH.
      destruct IH as [[Hr Hnone]|(k & Hk & Hr & Hd & Hall & Hfirst)].
      * left. split; [exact Hr|]. intros k Hk. destruct k as [|k]; [exact Hn|]. cbn [nth]. apply Hnone. cbn in Hk. lia.
      * right. exists (S k). split; [cbn; lia|]. split; [rewrite Hr; lia|]. cbn [nth]. split; [exact Hd|].
        assert (H0 : (qdist x (nth k ts 0%Q) < qdist x t)%Q).
        { apply Qlt_le_trans with bd; [exact Hd|]. apply Qnot_lt_le. exact Hn. }
        split.
        -- intros j Hj. destruct j as [|j]; [apply Qlt_le_weak; exact H0|]. cbn [nth]. apply Hall. cbn in Hj. lia.
        -- intros j Hj. destruct j as [|j]; [exact H0|]. cbn [nth]. apply Hfirst. lia.
Qed.

(* the result is always an index of the grid; when some grid point is closer than dmax it is the first argmin *)
Lemma closest_point_range dmax ts x : 0 <= closest_point dmax ts x < Z.max 1 (zlen ts).
Proof.
  unfold closest_point, src_sp_point0, src_sp_closest0.
  pose proof (closest_go_spec ts x (zlen ts) 0 dmax 0 ltac:(lia)) as H. cbn zeta in H.
  destruct H as [[Hr _]|(k & Hk & Hr & _)]; rewrite Hr; unfold zlen; lia.
Qed.

Lemma closest_point_argmin dmax ts x :
  (exists k, (k < length ts)%nat /\ (qdist x (nth k ts 0%Q) < dmax)%Q) ->
  exists k, (k < length ts)%nat /\ closest_point dmax ts x = Z.of_nat k /\
    (forall j, (j < length ts)%nat -> (qdist x (nth k ts 0%Q) <= qdist x (nth j ts 0%Q))%Q) /\
    (forall j, (j < k)%nat -> (qdist x (nth k ts 0%Q) < qdist x (nth j ts 0%Q))%Q).
Proof.
  intros (k0 & Hk0 & Hd0). unfold closest_point, src_sp_point0, src_sp_closest0.
  pose proof (closest_go_spec ts x (zlen ts) 0 dmax 0 ltac:(lia)) as H. cbn zeta in H.
  destruct H as [[_ Hnone]|(k & Hk & Hr & _ & Hall & Hfirst)].
  - exfalso. exact (Hnone k0 Hk0 Hd0).
  - exists k. split; [exact Hk|]. split; [rewrite Hr; lia|]. split; assumption.
Qed.

Lemma closest_point_default dmax ts x :
  (forall k, (k < length ts)%nat -> ~ (qdist x (nth k ts 0%Q) < dmax)%Q) -> closest_point dmax ts x = 0.
Proof.
  intros Hnone. unfold closest_point, src_sp_point0, src_sp_closest0.
  pose proof (closest_go_spec ts x (zlen ts) 0 dmax 0 ltac:(lia)) as H. cbn zeta in H.
  destruct H as [[Hr _]|(k & Hk & Hr & Hd & _)]; [exact Hr|]. exfalso. exact (Hnone k Hk Hd).
Qed.

(* ------------------------------------------------------------------------------------------------ *)
(* the proposal of the surrogate tuner is a grid point, whatever the inner solver returned           *)
(* ------------------------------------------------------------------------------------------------ *)
Definition spaces_match {T} (tss : list (list T)) (sizes : list Z) : Prop :=
  Forall2 (fun ts s => zlen ts = s) tss sizes.

Lemma spaces_match_length {T} (tss : list (list T)) sizes : spaces_match tss sizes -> length tss = length sizes.
Proof. intros H. exact (forall2_length _ _ _ H). Qed.

(* one index per space, each computed by a function whose result is always an index of that space's grid *)
Lemma map_closest_in_grid {T} (tss : list (list T)) sizes (g : list T -> Z -> Z) :
  spaces_match tss sizes -> Forall (fun s => 1 <= s) sizes ->
  (forall ts i, 0 <= g ts i < Z.max 1 (zlen ts)) ->
  InGrid sizes (map (fun i => g (nth (Z.to_nat i) tss []) i) (zseq 0 (length tss))).
Proof.
  intros Hm Hs Hg.
  assert (H : forall (tss : list (list T)) sizes, spaces_match tss sizes -> Forall (fun s => 1 <= s) sizes ->
            forall s, Forall2 (fun x s => 0 <= x < s) (map (fun p => g (fst p) (snd p)) (combine tss (zseq s (length tss)))) sizes).
  { clear tss sizes Hm Hs. intros tss sizes Hm. induction Hm as [|ts sz tss sizes Hlen Hm IH]; intros Hs s; [constructor|].
    inversion Hs as [|? ? H1 Hs']; subst. cbn [length zseq combine map]. constructor.
    - cbn [fst snd]. specialize (Hg ts s). lia.
    - apply IH; assumption. }
  assert (E : map (fun i => g (nth (Z.to_nat i) tss []) i) (zseq 0 (length tss)) =
              map (fun p => g (fst p) (snd p)) (combine tss (zseq 0 (length tss)))).
  { assert (G : forall l s pre, s = zlen pre ->
              map (fun i => g (nth (Z.to_nat i) (pre ++ l) []) i) (zseq s (length l)) =
              map (fun p => g (fst p) (snd p)) (combine l (zseq s (length l)))).
    { induction l as [|a l IHl]; intros s pre Hs0; [reflexivity|]. cbn [length zseq map combine fst snd]. f_equal.
      - subst s. unfold zlen. rewrite Nat2Z.id. rewrite app_nth2 by lia. rewrite Nat.sub_diag. reflexivity.
      - replace (pre ++ a :: l) with ((pre ++ [a]) ++ l) by (rewrite <- app_assoc; reflexivity).
        apply IHl. subst s. unfold zlen. rewrite app_length. cbn. lia. }
    exact (G tss 0 [] eq_refl). }
  rewrite E. exact (H tss sizes Hm Hs 0).
Qed.

Lemma sg_proposal_length tss xs : length (sg_proposal tss xs) = length tss.
Proof.
  unfold sg_proposal. rewrite map_length. rewrite dim_of_fit_size by (unfold zlen; lia).
  unfold zfrom. rewrite zseq_length. unfold zlen. lia.
Qed.

Lemma sg_proposal_in_grid tss sizes xs :
  spaces_match tss sizes -> Forall (fun s => 1 <= s) sizes -> InGrid sizes (sg_proposal tss xs).
Proof.
  intros Hm Hs. unfold sg_proposal. rewrite dim_of_fit_size by (unfold zlen; lia).
  unfold zfrom. rewrite Z.sub_0_r. unfold zlen at 1. rewrite Nat2Z.id.
  exact (map_closest_in_grid tss sizes (fun ts i => closest_point dbl_max ts (qnth xs i)) Hm Hs
           (fun ts i => closest_point_range dbl_max ts (qnth xs i))).
Qed.

(* hence prop_shape is a theorem for the surrogate tuner, not an assumption *)
Lemma sg_prop_shape tss ans cfg : spaces_match tss (c_sizes cfg) -> prop_shape (sg_prop tss ans) cfg.
Proof.
  intros Hm steps c H. unfold sg_prop in H. destruct (ans steps) as [xs|]; [|discriminate].
  cbn in H. inversion H; subst. rewrite sg_proposal_length. exact (spaces_match_length _ _ Hm).
Qed.

(* ---- the binary64 twin: the index is in range whatever the doubles are (NaN, infinities, huge values included) ---- *)
Lemma closest_go_f_range : forall ts x size point bd bp, 0 <= point -> 0 <= bp < Z.max 1 (point + zlen ts) ->
  0 <= closest_go_f ts x size point bd bp < Z.max 1 (point + zlen ts).
Proof.
  induction ts as [|t ts IH]; intros x size point bd bp Hp Hb; cbn [closest_go_f]; [exact Hb|].
  assert (E : point + zlen (t :: ts) = (point + 1) + zlen ts) by (unfold zlen; cbn [length]; lia).
  destruct (src_sp_continue point size); [|exact Hb].
  pose proof (Zle_0_nat (length ts)) as Hl.
  destruct (f_closer _ bd); rewrite E; apply IH; unfold src_sp_closest_assign; try (unfold zlen; lia).
  rewrite <- E. exact Hb.
Qed.

Lemma closest_point_f_range ts x : 0 <= closest_point_f ts x < Z.max 1 (zlen ts).
Proof.
  unfold closest_point_f, src_sp_point0, src_sp_closest0.
  exact (closest_go_f_range ts x (zlen ts) 0 f_dmax 0 ltac:(lia) ltac:(lia)).
Qed.

Lemma sg_proposal_f_length tss xs : length (sg_proposal_f tss xs) = length tss.
Proof.
  unfold sg_proposal_f. rewrite map_length. rewrite dim_of_fit_size by (unfold zlen; lia).
  unfold zfrom. rewrite zseq_length. unfold zlen. lia.
Qed.

Lemma sg_proposal_f_in_grid tss sizes xs :
  spaces_match tss sizes -> Forall (fun s => 1 <= s) sizes -> InGrid sizes (sg_proposal_f tss xs).
Proof.
  intros Hm Hs. unfold sg_proposal_f. rewrite dim_of_fit_size by (unfold zlen; lia).
  unfold zfrom. rewrite Z.sub_0_r. unfold zlen at 1. rewrite Nat2Z.id.
  exact (map_closest_in_grid tss sizes (fun ts i => closest_point_f ts (fnth xs i)) Hm Hs
           (fun ts i => closest_point_f_range ts (fnth xs i))).
Qed.

Lemma sg_prop_f_shape tss ans cfg : spaces_match tss (c_sizes cfg) -> prop_shape (sg_prop_f tss ans) cfg.
Proof.
  intros Hm steps c H. unfold sg_prop_f in H. destruct (ans steps) as [xs|]; [|discriminate].
  cbn in H. inversion H; subst. rewrite sg_proposal_f_length. exact (spaces_match_length _ _ Hm).
Qed.


(* ------------------------------------------------------------------------------------------------ *)
(* algebra over Q: sums, dot products, the value / gradient walks                                    *)
(* ------------------------------------------------------------------------------------------------ *)
Local Open Scope Q_scope.

Lemma qsum_map_ext {A : Set} (tm tm' : A -> Q) (l : list A) :
  (forall e, In e l -> tm e == tm' e) -> qsum (map tm l) == qsum (map tm' l).
Proof.
  induction l as [|a l IH]; intros H; unfold qsum in *; cbn [map fold_right]; [reflexivity|].
  rewrite (H a (or_introl eq_refl)), IH; [reflexivity|]. intros e He. apply H. right. exact He.
Qed.

Lemma qsum_map_plus {A : Set} (tm tm' : A -> Q) (l : list A) :
  qsum (map (fun e => tm e + tm' e) l) == qsum (map tm l) + qsum (map tm' l).
Proof. induction l as [|a l IH]; unfold qsum in *; cbn [map fold_right]; [ring|]. rewrite IH. ring. Qed.

Lemma qsum_map_scale {A : Set} (c : Q) (tm : A -> Q) (l : list A) :
  qsum (map (fun e => c * tm e) l) == c * qsum (map tm l).
Proof. induction l as [|a l IH]; unfold qsum in *; cbn [map fold_right]; [ring|]. rewrite IH. ring. Qed.

Lemma fold_left_sum {A : Set} (tm : A -> Q) (l : list A) : forall a0,
  fold_left (fun a e => a + tm e) l a0 == a0 + qsum (map tm l).
Proof. induction l as [|a l IH]; intros a0; unfold qsum in *; cbn [fold_left map fold_right]; [ring|]. rewrite IH. ring. Qed.

Lemma qdot_nil_r a : qdot a [] = 0.
Proof. destruct a; reflexivity. Qed.

Lemma qdot_skipn_cons : forall m n a b,
  qdot (skipn n m) (a :: b) == nth n m 0 * a + qdot (skipn (S n) m) b.
Proof.
  induction m as [|c m IH]; intros n a b.
  - rewrite !skipn_nil. destruct n; cbn; ring.
  - destruct n as [|n]; [cbn; ring|]. cbn [skipn nth]. destruct n as [|n'] eqn:En.
    + cbn [skipn]. destruct m; cbn; ring.
    + rewrite <- En. specialize (IH n a b). subst n. exact IH.
Qed.

Lemma qdot_skipn_number {A : Set} (m : list Q) (tm : A -> Q) (l : list A) : forall k, (0 <= k)%Z ->
  qsum (map (fun e => qnth m (snd e) * tm (fst e)) (number k l)) == qdot (skipn (Z.to_nat k) m) (map tm l).
Proof.
  induction l as [|a l IH]; intros k Hk; unfold qsum in *; cbn [number map fold_right].
  - rewrite qdot_nil_r. reflexivity.
  - rewrite qdot_skipn_cons. cbn [fst snd]. unfold qnth at 1.
    rewrite (IH (k + 1)%Z ltac:(lia)). replace (Z.to_nat (k + 1)) with (S (Z.to_nat k)) by lia. reflexivity.
Qed.

Lemma qdot_skipn_app (m : list Q) : forall (a b : list Q) n,
  qdot (skipn n m) (a ++ b) == qdot (skipn n m) a + qdot (skipn (n + length a) m) b.
Proof.
  induction a as [|x a IH]; intros b n.
  - cbn [app length]. rewrite qdot_nil_r, Nat.add_0_r. ring.
  - cbn [app length]. rewrite !qdot_skipn_cons, IH. replace (S n + length a)%nat with (n + S (length a))%nat by lia. ring.
Qed.

Lemma lin_walk_eq k0 d : lin_walk k0 d = number k0 (zfrom 0 d).
Proof. reflexivity. Qed.

(* sums of the two walks written with qsum *)
Lemma sg_value_sum m x :
  sg_value m x == qnth m 0
    + qsum (map (fun e => qnth m (snd e) * qnth x (fst e)) (number 1 (zfrom 0 (zlen x))))
    + qsum (map (fun e => qnth m (snd e) * (qnth x (fst (fst e)) * qnth x (snd (fst e)))) (number (1 + zlen x) (pairs (zlen x)))).
Proof.
  unfold sg_value, src_sg_fx0, src_sg_k_value, lin_walk. rewrite pairs_value_eq.
  rewrite (fold_left_sum (fun e => qnth m (snd e) * qnth x (fst (fst e)) * qnth x (snd (fst e)))).
  rewrite (fold_left_sum (fun e => qnth m (snd e) * qnth x (fst e))).
  apply Qplus_comp; [reflexivity|]. apply qsum_map_ext. intros e _. ring.
Qed.

(* the surrogate's value is the scalar product of its coefficients with the row the fit builds for the same point:
   the evaluation walk and the fitting walk agree on which coefficient belongs to which monomial *)
Lemma sg_value_features m x : sg_value m x == qdot m (quad_terms x).
Proof.
  rewrite sg_value_sum. unfold quad_terms. rewrite pairs_fit_eq.
  change m with (skipn 0 m) at 4. rewrite qdot_skipn_cons, qdot_skipn_app, map_length.
  rewrite (qdot_skipn_number m (qnth x) (zfrom 0 (zlen x)) 1 ltac:(lia)).
  rewrite (qdot_skipn_number m (fun ij => qnth x (fst ij) * qnth x (snd ij)) (pairs (zlen x)) (1 + zlen x) ltac:(unfold zlen; lia)).
  unfold qnth at 1. cbn [Z.to_nat].
  replace (Z.to_nat (1 + zlen x)) with (1 + length (zfrom 0 (zlen x)))%nat.
  2:{ unfold zfrom. rewrite zseq_length. unfold zlen. lia. }
  change (Pos.to_nat 1) with 1%nat. ring.
Qed.

(* ---- vectors ---- *)
Lemma qadd_length a : forall b, length a = length b -> length (qadd a b) = length a.
Proof. induction a as [|x a IH]; intros [|y b] H; cbn in *; try lia. rewrite IH; lia. Qed.

Lemma qnth_qadd a : forall b k, length a = length b -> qnth (qadd a b) k == qnth a k + qnth b k.
Proof.
  unfold qnth. intros b k. generalize (Z.to_nat k) as n. revert b.
  induction a as [|x a IH]; intros [|y b] n H; cbn in H; try lia.
  - destruct n; cbn; ring.
  - destruct n as [|n]; cbn [qadd nth]; [ring|]. apply IH. lia.
Qed.

Lemma add_at_length v : forall g n, length (add_at n v g) = length g.
Proof. induction g as [|a g IH]; intros [|n]; cbn; try reflexivity. rewrite IH. reflexivity. Qed.

Lemma qdot_add_at v : forall g h n, length g = length h -> (n < length g)%nat ->
  qdot (add_at n v g) h == qdot g h + v * nth n h 0.
Proof.
  induction g as [|a g IH]; intros [|b h] n Hl Hn; cbn in Hl, Hn; try lia.
  destruct n as [|n]; cbn [add_at qdot nth]; [ring|]. rewrite IH by lia. ring.
Qed.

Lemma qdot_add_atz v g h i : length g = length h -> (0 <= i < zlen g)%Z ->
  qdot (add_atz i v g) h == qdot g h + v * qnth h i.
Proof. intros Hl Hi. unfold add_atz, qnth. apply qdot_add_at; [exact Hl|unfold zlen in Hi; lia]. Qed.

Lemma fold_add1_dot {A : Set} (i1 : A -> Z) (v1 : A -> Q) (l : list A) h : forall g, length g = length h ->
  (forall e, In e l -> (0 <= i1 e < zlen h)%Z) ->
  length (fold_left (fun g e => add_atz (i1 e) (v1 e) g) l g) = length h /\
  qdot (fold_left (fun g e => add_atz (i1 e) (v1 e) g) l g) h == qdot g h + qsum (map (fun e => v1 e * qnth h (i1 e)) l).
Proof.
  induction l as [|a l IH]; intros g Hl Hi; unfold qsum in *; cbn [fold_left map fold_right].
  - split; [exact Hl|ring].
  - assert (Hl' : length (add_atz (i1 a) (v1 a) g) = length h) by (unfold add_atz; rewrite add_at_length; exact Hl).
    destruct (IH _ Hl' (fun e He => Hi e (or_intror He))) as [L E]. split; [exact L|].
    rewrite E. rewrite qdot_add_atz; [ring|exact Hl|]. unfold zlen in *. rewrite Hl. apply Hi. left. reflexivity.
Qed.

Lemma fold_add2_dot {A : Set} (i1 i2 : A -> Z) (v1 v2 : A -> Q) (l : list A) h : forall g, length g = length h ->
  (forall e, In e l -> (0 <= i1 e < zlen h)%Z /\ (0 <= i2 e < zlen h)%Z) ->
  qdot (fold_left (fun g e => add_atz (i2 e) (v2 e) (add_atz (i1 e) (v1 e) g)) l g) h ==
  qdot g h + qsum (map (fun e => v1 e * qnth h (i1 e) + v2 e * qnth h (i2 e)) l).
Proof.
  induction l as [|a l IH]; intros g Hl Hi; unfold qsum in *; cbn [fold_left map fold_right]; [ring|].
  destruct (Hi a (or_introl eq_refl)) as [H1 H2].
  assert (Hl1 : length (add_atz (i1 a) (v1 a) g) = length h) by (unfold add_atz; rewrite add_at_length; exact Hl).
  assert (Hl2 : length (add_atz (i2 a) (v2 a) (add_atz (i1 a) (v1 a) g)) = length h) by (unfold add_atz; rewrite !add_at_length; exact Hl).
  rewrite (IH _ Hl2 (fun e He => Hi e (or_intror He))).
  rewrite qdot_add_atz; [|exact Hl1|unfold zlen in *; rewrite Hl1; exact H2].
  rewrite qdot_add_atz; [|exact Hl|unfold zlen in *; rewrite Hl; exact H1]. ring.
Qed.

Lemma qdot_zeros {A : Set} (x : list A) : forall h, qdot (map (fun _ => 0) x) h == 0.
Proof. induction x as [|a x IH]; intros [|b h]; cbn; try reflexivity. rewrite IH. ring. Qed.

Lemma number_zfrom_range k0 d e : In e (number k0 (zfrom 0 d)) -> (0 <= fst e < d)%Z.
Proof. destruct e as [i k]. intros H. unfold zfrom in H. apply number_zseq in H. cbn. lia. Qed.

Lemma number_pairs_range k0 d e : In e (number k0 (pairs d)) -> (0 <= fst (fst e) < d)%Z /\ (0 <= snd (fst e) < d)%Z.
Proof. destruct e as [[i j] k]. intros H. apply number_In_fst in H. apply pairs_In in H. cbn. lia. Qed.

(* the scalar product of the gradient the source accumulates with any direction *)
Lemma sg_grad_dot m x h : length x = length h ->
  qdot (sg_grad m x) h ==
    qsum (map (fun e => qnth m (snd e) * qnth h (fst e)) (number 1 (zfrom 0 (zlen x))))
  + qsum (map (fun e => qnth m (snd e) * qnth x (snd (fst e)) * qnth h (fst (fst e)) +
                        qnth m (snd e) * qnth x (fst (fst e)) * qnth h (snd (fst e))) (number (1 + zlen x) (pairs (zlen x)))).
Proof.
  intros Hl. unfold sg_grad, src_sg_k_grad, lin_walk. rewrite pairs_grad_eq.
  assert (Hz : zlen x = zlen h) by (unfold zlen; rewrite Hl; reflexivity).
  assert (L0 : length (map (fun _ : Q => 0) x) = length h) by (rewrite map_length; exact Hl).
  destruct (fold_add1_dot (fun e : Z * Z => fst e) (fun e => qnth m (snd e)) (number 1 (zfrom 0 (zlen x))) h _ L0) as [L1 E1].
  { intros e He. rewrite <- Hz. exact (number_zfrom_range _ _ _ He). }
  rewrite (fold_add2_dot (fun e : Z * Z * Z => fst (fst e)) (fun e => snd (fst e))
             (fun e => qnth m (snd e) * qnth x (snd (fst e))) (fun e => qnth m (snd e) * qnth x (fst (fst e)))
             (number (1 + zlen x) (pairs (zlen x))) h _ L1).
  2:{ intros e He. rewrite <- Hz. exact (number_pairs_range _ _ _ He). }
  rewrite E1, qdot_zeros. ring.
Qed.

Lemma sg_quad_sum m h :
  sg_quad m h == qsum (map (fun e => qnth m (snd e) * (qnth h (fst (fst e)) * qnth h (snd (fst e)))) (number (1 + zlen h) (pairs (zlen h)))).
Proof. unfold sg_quad, src_sg_k_value. rewrite pairs_value_eq. apply qsum_map_ext. intros e _. ring. Qed.

(* first-order expansion with an explicit, purely quadratic remainder: the returned gradient is the derivative of the value *)
Lemma sg_taylor m x h : length x = length h ->
  sg_value m (qadd x h) == sg_value m x + qdot (sg_grad m x) h + sg_quad m h.
Proof.
  intros Hl. rewrite !sg_value_sum, (sg_grad_dot m x h Hl), sg_quad_sum.
  assert (Hz : zlen (qadd x h) = zlen x) by (unfold zlen; rewrite qadd_length by exact Hl; reflexivity).
  assert (Hz' : zlen h = zlen x) by (unfold zlen; rewrite Hl; reflexivity).
  rewrite Hz, Hz'.
  rewrite (qsum_map_ext (fun e => qnth m (snd e) * qnth (qadd x h) (fst e))
             (fun e => qnth m (snd e) * qnth x (fst e) + qnth m (snd e) * qnth h (fst e))).
  2:{ intros e _. rewrite (qnth_qadd x h _ Hl). ring. }
  rewrite (qsum_map_ext (fun e => qnth m (snd e) * (qnth (qadd x h) (fst (fst e)) * qnth (qadd x h) (snd (fst e))))
             (fun e => (qnth m (snd e) * (qnth x (fst (fst e)) * qnth x (snd (fst e))) +
                        (qnth m (snd e) * qnth x (snd (fst e)) * qnth h (fst (fst e)) +
                         qnth m (snd e) * qnth x (fst (fst e)) * qnth h (snd (fst e)))) +
                       qnth m (snd e) * (qnth h (fst (fst e)) * qnth h (snd (fst e))))).
  2:{ intros e _. rewrite !(qnth_qadd x h _ Hl). ring. }
  rewrite !qsum_map_plus. ring.
Qed.

Lemma qnth_qscale tm : forall h k, qnth (qscale tm h) k == tm * qnth h k.
Proof.
  unfold qnth, qscale. intros h k. generalize (Z.to_nat k) as n. induction h as [|a h IH]; intros [|n]; cbn; try ring. apply IH.
Qed.

(* the remainder is homogeneous of degree two *)
Lemma sg_quad_scale m tm h : sg_quad m (qscale tm h) == tm * tm * sg_quad m h.
Proof.
  rewrite !sg_quad_sum. assert (Hz : zlen (qscale tm h) = zlen h) by (unfold zlen, qscale; rewrite map_length; reflexivity).
  rewrite Hz, <- qsum_map_scale. apply qsum_map_ext. intros e _. rewrite !qnth_qscale. ring.
Qed.

(* ---- the fit objective ---- *)
Lemma qdot_qadd_r : forall r c h, length c = length h -> qdot r (qadd c h) == qdot r c + qdot r h.
Proof.
  induction r as [|a r IH]; intros [|b c] [|d h] Hl; cbn in Hl; try lia; cbn [qadd qdot]; try ring.
  rewrite IH by lia. ring.
Qed.

Lemma qdot_qadd_l : forall a b h, length a = length b -> qdot (qadd a b) h == qdot a h + qdot b h.
Proof.
  induction a as [|x a IH]; intros [|y b] [|z h] Hl; cbn in Hl; try lia; cbn [qadd qdot]; try ring.
  rewrite IH by lia. ring.
Qed.

Lemma qdot_qscale_l tm : forall r h, qdot (qscale tm r) h == tm * qdot r h.
Proof. induction r as [|a r IH]; intros [|b h]; cbn; try ring. fold (qscale tm r). rewrite IH. ring. Qed.

Lemma qdot_qscale_r tm : forall r h, qdot r (qscale tm h) == tm * qdot r h.
Proof. induction r as [|a r IH]; intros [|b h]; cbn; try ring. fold (qscale tm h). rewrite IH. ring. Qed.

Lemma fit_grad_length rows : forall y c, Forall (fun r => length r = length c) rows -> length (fit_grad rows y c) = length c.
Proof.
  induction rows as [|r rows IH]; intros y c H; cbn [fit_grad]; [apply map_length|].
  destruct y as [|tm y]; [apply map_length|]. inversion H as [|? ? Hr H']; subst.
  rewrite qadd_length; unfold qscale; rewrite map_length; [exact Hr|]. rewrite (IH y c H'). exact Hr.
Qed.

Lemma fit_taylor rows : forall y c h, length c = length h -> Forall (fun r => length r = length c) rows ->
  fit_value rows y (qadd c h) == fit_value rows y c + qdot (fit_grad rows y c) h + fit_quad rows y h.
Proof.
  induction rows as [|r rows IH]; intros y c h Hl H; cbn [fit_value fit_grad fit_quad].
  - rewrite qdot_zeros. ring.
  - destruct y as [|tm y]; [rewrite qdot_zeros; ring|]. inversion H as [|? ? Hr H']; subst.
    rewrite (IH y c h Hl H'). rewrite qdot_qadd_l.
    2:{ unfold qscale. rewrite map_length, (fit_grad_length rows y c H'). exact Hr. }
    rewrite qdot_qscale_l. unfold mse_value, mse_vgrad. rewrite (qdot_qadd_r r c h Hl). ring.
Qed.

Lemma fit_quad_nonneg rows : forall y h, 0 <= fit_quad rows y h.
Proof.
  induction rows as [|r rows IH]; intros y h; cbn [fit_quad]; [apply Qle_refl|].
  destruct y as [|tm y]; [apply Qle_refl|]. specialize (IH y h).
  assert (0 <= qdot r h * qdot r h) by (destruct (Qlt_le_dec (qdot r h) 0); nra). nra.
Qed.

(* sum of squares of affine functions: convex in the coefficients *)
Lemma fit_convex rows : forall y a b tm, length a = length b -> 0 <= tm -> tm <= 1 ->
  fit_value rows y (qadd (qscale tm a) (qscale (1 - tm) b)) <= tm * fit_value rows y a + (1 - tm) * fit_value rows y b.
Proof.
  induction rows as [|r rows IH]; intros y a b tm Hl H0 H1; cbn [fit_value]; [nra|].
  destruct y as [|v y]; [nra|]. specialize (IH y a b tm Hl H0 H1).
  assert (E : qdot r (qadd (qscale tm a) (qscale (1 - tm) b)) == tm * qdot r a + (1 - tm) * qdot r b).
  { rewrite qdot_qadd_r by (unfold qscale; rewrite !map_length; exact Hl). rewrite !qdot_qscale_r. reflexivity. }
  unfold mse_value. rewrite E. set (u := qdot r a) in *. set (w := qdot r b) in *.
  set (F := fit_value rows y (qadd (qscale tm a) (qscale (1 - tm) b))) in *. set (Fa := fit_value rows y a) in *. set (Fb := fit_value rows y b) in *.
  assert (Hs : 0 <= tm * (1 - tm) * ((u - w) * (u - w))).
  { apply Qmult_le_0_compat; [apply Qmult_le_0_compat; lra|]. destruct (Qlt_le_dec (u - w) 0); nra. }
  nra.
Qed.

(* ---- linear spaces ---- *)
Lemma qltb_spec a b : qltb a b = true <-> a < b.
Proof.
  unfold qltb. rewrite negb_true_iff. split.
  - intros H. apply Qnot_le_lt. intros Hle. apply Qle_bool_iff in Hle. congruence.
  - intros H. destruct (Qle_bool b a) eqn:E; [|reflexivity]. apply Qle_bool_iff in E. exfalso. exact (Qlt_not_le _ _ H E).
Qed.

Lemma qltb_false a b : qltb a b = false <-> b <= a.
Proof.
  split.
  - intros H. apply Qnot_lt_le. intros Hlt. apply qltb_spec in Hlt. congruence.
  - intros H. destruct (qltb a b) eqn:E; [|reflexivity]. apply qltb_spec in E. exfalso. exact (Qlt_not_le _ _ E H).
Qed.

Lemma to_surrogate_lin_spec vmin vmax v : vmin < vmax ->
  (vmin <= v /\ v <= vmax ->
     exists s, to_surrogate_lin vmin vmax v = Some s /\ 0 <= s /\ s <= 1 /\ from_surrogate_lin vmin vmax s == v) /\
  (v < vmin \/ vmax < v -> to_surrogate_lin vmin vmax v = None).
Proof.
  intros Hw. assert (Hc : 0 < vmax - vmin) by lra. split.
  - intros [Hlo Hhi]. unfold to_surrogate_lin.
    rewrite (proj2 (qltb_false v vmin) Hlo), (proj2 (qltb_false vmax v) Hhi). cbn [orb].
    eexists. split; [reflexivity|].
    assert (S0 : 0 <= (v - vmin) / (vmax - vmin)) by (apply Qle_shift_div_l; [exact Hc|lra]).
    assert (S1 : (v - vmin) / (vmax - vmin) <= 1) by (apply Qle_shift_div_r; [exact Hc|lra]).
    split; [exact S0|]. split; [exact S1|].
    assert (E : vmin + (v - vmin) / (vmax - vmin) * (vmax - vmin) == v) by (field; lra).
    unfold from_surrogate_lin, qclamp.
    destruct (qltb _ vmin) eqn:E1; [apply qltb_spec in E1; lra|].
    destruct (qltb vmax _) eqn:E2; [apply qltb_spec in E2; lra|]. exact E.
  - intros H. unfold to_surrogate_lin. destruct H as [H|H]; apply qltb_spec in H; rewrite H; [reflexivity|rewrite orb_true_r; reflexivity].
Qed.

Lemma to_surrogate_lin_mono vmin vmax v w s1 s2 : vmin < vmax -> v < w ->
  to_surrogate_lin vmin vmax v = Some s1 -> to_surrogate_lin vmin vmax w = Some s2 -> s1 < s2.
Proof.
  intros Hw Hvw H1 H2. unfold to_surrogate_lin in *.
  destruct (qltb v vmin || qltb vmax v); [discriminate|]. destruct (qltb w vmin || qltb vmax w); [discriminate|].
  inversion H1; inversion H2; subst. unfold Qdiv. apply Qmult_lt_compat_r; [apply Qinv_lt_0_compat; lra|lra].
Qed.

Lemma from_surrogate_lin_range vmin vmax s : vmin <= vmax ->
  vmin <= from_surrogate_lin vmin vmax s /\ from_surrogate_lin vmin vmax s <= vmax.
Proof.
  intros Hw. unfold from_surrogate_lin, qclamp.
  destruct (qltb _ vmin) eqn:E1; [split; [apply Qle_refl|exact Hw]|]. apply qltb_false in E1.
  destruct (qltb vmax _) eqn:E2; [split; [exact Hw|apply Qle_refl]|]. apply qltb_false in E2. split; assumption.
Qed.
Local Close Scope Q_scope.

(* ------------------------------------------------------------------------------------------------ *)
(* the tuner theorems for the surrogate tuner with the inner-solver answer as the only oracle        *)
(* ------------------------------------------------------------------------------------------------ *)
Section SurrogateTuner.
  Variable srt : list step -> list step.
  Variable tss : list (list Q).
  Variable ans : list step -> option (list Q).
  Variable f : igrid -> option Z.
  Variable cfg : config.
  Hypothesis Hsrt : sort_contract srt.
  Hypothesis Hcfg : valid_config cfg.
  Hypothesis Hm : spaces_match tss (c_sizes cfg).

  Let Hshape : prop_shape (sg_prop tss ans) cfg := sg_prop_shape tss ans cfg Hm.

  Lemma sg_grid_only : Forall (InGrid (c_sizes cfg)) (concat (calls_of (optimize_sg srt tss ans f cfg))).
  Proof. exact (s_grid_only srt _ f cfg Hsrt Hcfg Hshape). Qed.
  Lemma sg_no_repeat : NoDup (concat (calls_of (optimize_sg srt tss ans f cfg))).
  Proof. exact (s_no_repeat srt _ f cfg Hsrt Hcfg Hshape). Qed.
  Lemma sg_bound : Z.of_nat (length (concat (calls_of (optimize_sg srt tss ans f cfg)))) <=
                   c_max_evals cfg + 3 ^ Z.of_nat (length (c_sizes cfg)).
  Proof. exact (s_bound srt _ f cfg Hsrt Hcfg Hshape). Qed.
  Lemma sg_fuel : forall st, optimize_sg srt tss ans f cfg <> OutOfFuel st.
  Proof. exact (s_fuel srt _ f cfg Hsrt Hcfg Hshape). Qed.
  Lemma sg_first_batch : exists rest, calls_of (optimize_sg srt tss ans f cfg) = [avg_igrid (c_sizes cfg)] :: rest.
  Proof. exact (s_first_batch_single srt _ f cfg Hsrt Hcfg Hshape). Qed.
  Lemma sg_sorted_min_first st : optimize_sg srt tss ans f cfg = Finished st ->
    StronglySorted step_le (st_steps st) /\
    Permutation (map fst (st_steps st)) (concat (st_calls st)) /\
    Forall (fun s => f (fst s) = Some (snd s)) (st_steps st) /\
    exists s0 rest, st_steps st = s0 :: rest /\
      forall g, In g (concat (st_calls st)) -> exists v, f g = Some v /\ snd s0 <= v.
  Proof. exact (s_sorted_min_first srt _ f cfg st Hsrt Hcfg Hshape). Qed.
  Lemma sg_nonfinite :
    (forall g, In g (concat (calls_of (optimize_sg srt tss ans f cfg))) -> f g = None ->
               exists calls, optimize_sg srt tss ans f cfg = Thrown calls) /\
    (forall calls, optimize_sg srt tss ans f cfg = Thrown calls ->
       exists pre new, calls = pre ++ [new] /\ Forall (fun g => f g <> None) (concat pre) /\
                       exists g, In g new /\ f g = None).
  Proof. exact (s_nonfinite srt _ f cfg Hsrt Hcfg Hshape). Qed.
End SurrogateTuner.

Section SurrogateTunerF.
  Variable srt : list step -> list step.
  Variable tss : list (list float).
  Variable ans : list step -> option (list float).
  Variable f : igrid -> option Z.
  Variable cfg : config.
  Hypothesis Hsrt : sort_contract srt.
  Hypothesis Hcfg : valid_config cfg.
  Hypothesis Hm : spaces_match tss (c_sizes cfg).

  Let Hshape : prop_shape (sg_prop_f tss ans) cfg := sg_prop_f_shape tss ans cfg Hm.

  Lemma sgf_tuner :
    Forall (InGrid (c_sizes cfg)) (concat (calls_of (optimize_sg_f srt tss ans f cfg))) /\
    NoDup (concat (calls_of (optimize_sg_f srt tss ans f cfg))) /\
    Z.of_nat (length (concat (calls_of (optimize_sg_f srt tss ans f cfg)))) <= c_max_evals cfg + 3 ^ Z.of_nat (length (c_sizes cfg)) /\
    (forall st, optimize_sg_f srt tss ans f cfg <> OutOfFuel st) /\
    (forall g, In g (concat (calls_of (optimize_sg_f srt tss ans f cfg))) -> f g = None ->
               exists calls, optimize_sg_f srt tss ans f cfg = Thrown calls).
  Proof.
    split; [exact (s_grid_only srt _ f cfg Hsrt Hcfg Hshape)|].
    split; [exact (s_no_repeat srt _ f cfg Hsrt Hcfg Hshape)|].
    split; [exact (s_bound srt _ f cfg Hsrt Hcfg Hshape)|].
    split; [exact (s_fuel srt _ f cfg Hsrt Hcfg Hshape)|].
    exact (proj1 (s_nonfinite srt _ f cfg Hsrt Hcfg Hshape)).
  Qed.
End SurrogateTunerF.
