(* C04 -- executable exact-rational model of the step-length kernel of solve_with_inequality (src/program/solver.cpp):

     auto make_smax(u, du) { smax = DBL_MAX; for (i = 0; i < size; ++i) if (du(i) < 0.0) smax = std::min(smax, -u(i) / du(i));
                             return std::min(smax, 1.0); }
     auto s = s0 * make_smax(state.m_u, du);        // fraction to the boundary, s0 = solver::s0 (0 < s0 <= 1, default 0.999)
     ... s *= beta;                                 // stage 1 (keep G x < h) and stage 2 (residual decrease) only ever shrink s
     state.m_u += s * du;

   The comparisons / minima / products are the expressions translated from the source (LNGen.Src_c04): order formulas over Z
   instantiated at the numerators over a common denominator ([qmin_with]), products at the numerators ([qmul_with]; this is
   the definition of Qmult).  The quotient -u(i)/du(i) is taken over Q.  DBL_MAX is the parameter [big].
   No proofs in this file. *)
From Coq Require Import List ZArith QArith Bool.
From LNGen Require Import Src_c04.
From LN Require Import C04_Defs.
Import ListNotations.
Local Open Scope Q_scope.

Definition qmin_with (k : Z -> Z -> Z) (a b : Q) : Q :=
  Qmake (k (Qnum a * Zpos (Qden b))%Z (Qnum b * Zpos (Qden a))%Z) (Qden a * Qden b).
Definition qmul_with (k : Z -> Z -> Z) (a b : Q) : Q := Qmake (k (Qnum a) (Qnum b)) (Qden a * Qden b).

(* `if (du(i) < 0.0) smax = std::min(smax, -u(i) / du(i));` *)
Definition smax_step (smax ui dui : Q) : Q :=
  if src_c04_smax_neg (Qnum dui) then qmin_with src_c04_smax_min smax (- ui / dui) else smax.

(* the loop `for (i = <start>; <cond i size>; ++i)`, with fuel *)
Fixpoint smax_loop (fuel : nat) (i size : Z) (smax : Q) (u du : vec) : Q :=
  match fuel with
  | O => smax
  | S fuel' =>
      if src_c04_smax_loop_cond i size
      then smax_loop fuel' (i + 1) size (smax_step smax (nth (Z.to_nat i) u 0) (nth (Z.to_nat i) du 0)) u du
      else smax
  end.

Definition make_smax (big : Q) (u du : vec) : Q :=
  qmin_with src_c04_smax_cap
            (smax_loop (S (length u)) src_c04_smax_loop_start (Z.of_nat (length u)) big u du) 1.

Definition step_init (s0 smax : Q) : Q := qmul_with src_c04_step_init s0 smax.

Fixpoint shrink (k : Z -> Z -> Z) (n : nat) (s beta : Q) : Q :=
  match n with
  | O => s
  | S n' => shrink k n' (qmul_with k s beta) beta
  end.

(* the step after k1 shrinks in stage 1 and k2 shrinks in stage 2 *)
Definition step_len (big s0 beta : Q) (u du : vec) (k1 k2 : nat) : Q :=
  shrink src_c04_step_shrink2 k2 (shrink src_c04_step_shrink1 k1 (step_init s0 (make_smax big u du)) beta) beta.

(* `state.m_u += s * du` (the factor is the translated one, at the numerator) *)
Definition step_applied (s : Q) : Q := Qmake (src_c04_step_applied (Qnum s)) (Qden s).
Definition step_point (u du : vec) (s : Q) : vec := vadd u (vscale (step_applied s) du).

Definition all_pos_b (u : vec) : bool := forallb (fun t => Qltb 0 t) u.
