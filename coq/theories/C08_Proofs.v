(* C08 -- lemmas and proofs about the model of C08_Defs. *)
From Coq Require Import List ZArith Bool Lia Arith.
From LNGen Require Import Src_c08.
From LN Require Import ListAux C08_Defs.
Import ListNotations.
Local Open Scope Z_scope.

(* ---------------------------------------------------------------------------------------------- *)
(* list helpers                                                                                   *)
(* ---------------------------------------------------------------------------------------------- *)
Lemma upd_length {A} n (f : A -> A) l : length (upd n f l) = length l.
Proof. revert n; induction l as [|x l IH]; intros [|n]; cbn; auto. Qed.

Lemma nth_upd_eq {A} n (f : A -> A) l d : (n < length l)%nat -> nth n (upd n f l) d = f (nth n l d).
Proof.
  revert n; induction l as [|x l IH]; intros [|n] H; cbn in *; try lia; auto. apply IH; lia.
Qed.

Lemma nth_upd_neq {A} n m (f : A -> A) l d : n <> m -> nth m (upd n f l) d = nth m l d.
Proof.
  revert n m; induction l as [|x l IH]; intros [|n] [|m] H; cbn; auto; try congruence.
Qed.

Lemma nth_error_ext {A} (l1 l2 : list A) : (forall i, nth_error l1 i = nth_error l2 i) -> l1 = l2.
Proof.
  revert l2; induction l1 as [|x l1 IH]; intros [|y l2] H; auto.
  - specialize (H O); discriminate.
  - specialize (H O); discriminate.
  - pose proof (H O) as H0; cbn in H0; inversion H0; subst. f_equal. apply IH. intro i. apply (H (S i)).
Qed.

Lemma nth_error_read_seg {A} a n (l : list A) i :
  nth_error (read_seg a n l) i = if (i <? n)%nat then nth_error l (a + i) else None.
Proof.
  unfold read_seg. destruct (i <? n)%nat eqn:E.
  - apply Nat.ltb_lt in E. rewrite nth_error_firstn_lt by lia. apply nth_error_skipn_add.
  - apply Nat.ltb_ge in E. apply nth_error_None. rewrite firstn_length. lia.
Qed.

Lemma nth_error_write_seg {A} a (v l : list A) i :
  (a + length v <= length l)%nat ->
  nth_error (write_seg a v l) i =
  if ((a <=? i) && (i <? a + length v))%nat then nth_error v (i - a) else nth_error l i.
Proof.
  intro H. unfold write_seg.
  assert (La : length (firstn a l) = a) by (rewrite firstn_length; lia).
  destruct (a <=? i)%nat eqn:E1; cbn [andb].
  - apply Nat.leb_le in E1.
    rewrite nth_error_app2 by lia. rewrite La.
    destruct (i <? a + length v)%nat eqn:E2.
    + apply Nat.ltb_lt in E2. rewrite nth_error_app1 by lia. reflexivity.
    + apply Nat.ltb_ge in E2. rewrite nth_error_app2 by lia.
      rewrite nth_error_skipn_add. f_equal. lia.
  - apply Nat.leb_gt in E1. rewrite nth_error_app1 by lia. apply nth_error_firstn_lt. lia.
Qed.

Lemma write_seg_length {A} a (v l : list A) :
  (a + length v <= length l)%nat -> length (write_seg a v l) = length l.
Proof.
  intro H. unfold write_seg. rewrite !app_length, firstn_length, skipn_length. lia.
Qed.

Lemma read_write_same {A} a (v l : list A) :
  (a + length v <= length l)%nat -> read_seg a (length v) (write_seg a v l) = v.
Proof.
  intro H. apply nth_error_ext. intro i. rewrite nth_error_read_seg.
  destruct (i <? length v)%nat eqn:E.
  - apply Nat.ltb_lt in E. rewrite nth_error_write_seg by lia.
    replace ((a <=? a + i) && (a + i <? a + length v))%nat with true.
    + f_equal. lia.
    + symmetry. apply andb_true_iff. split; [apply Nat.leb_le | apply Nat.ltb_lt]; lia.
  - apply Nat.ltb_ge in E. symmetry. apply nth_error_None. lia.
Qed.

Lemma read_write_disjoint {A} a (v l : list A) b n :
  (a + length v <= length l)%nat -> (b + n <= a \/ a + length v <= b)%nat ->
  read_seg b n (write_seg a v l) = read_seg b n l.
Proof.
  intros H D. apply nth_error_ext. intro i. rewrite !nth_error_read_seg.
  destruct (i <? n)%nat eqn:E; auto. apply Nat.ltb_lt in E.
  rewrite nth_error_write_seg by lia.
  replace ((a <=? b + i) && (b + i <? a + length v))%nat with false; auto.
  symmetry. apply andb_false_iff. destruct D; [left; apply Nat.leb_gt | right; apply Nat.ltb_ge]; lia.
Qed.

Lemma write_seg_app {A} (pre old post v : list A) :
  length old = length v -> write_seg (length pre) v (pre ++ old ++ post) = pre ++ v ++ post.
Proof.
  intro H. unfold write_seg.
  rewrite firstn_app, firstn_all, Nat.sub_diag, firstn_O, app_nil_r.
  f_equal. f_equal.
  rewrite skipn_app. rewrite skipn_all2 by lia. cbn [app].
  replace (length pre + length v - length pre)%nat with (length v) by lia.
  rewrite skipn_app. rewrite skipn_all2 by lia. rewrite H, Nat.sub_diag. reflexivity.
Qed.

(* ---------------------------------------------------------------------------------------------- *)
(* mask                                                                                           *)
(* ---------------------------------------------------------------------------------------------- *)
Lemma land_pow2_eq0 a s : 0 <= s -> (Z.land a (Z.shiftl 1 s) =? 0) = negb (Z.testbit a s).
Proof.
  intro Hs. rewrite Z.shiftl_1_l.
  destruct (Z.testbit a s) eqn:T; cbn [negb].
  - apply Z.eqb_neq. intro H0.
    assert (Z.testbit (Z.land a (2 ^ s)) s = true) by (rewrite Z.land_spec, T, Z.pow2_bits_true; auto).
    rewrite H0, Z.bits_0 in H. discriminate.
  - apply Z.eqb_eq. apply Z.bits_inj'. intros k Hk.
    rewrite Z.land_spec, Z.bits_0, Z.pow2_bits_eqb by lia.
    destruct (Z.eqb_spec s k); [subst; rewrite T; reflexivity | apply andb_false_r].
Qed.

Lemma mask_byte_bounds n i : 0 <= i < n ->
  0 <= src_setbit_byte i < src_mask_bytes n /\ 0 <= src_setbit_shift i <= 7 /\
  src_getbit_byte i = src_setbit_byte i /\ src_getbit_shift i = src_setbit_shift i /\
  i = 8 * src_setbit_byte i + (7 - src_setbit_shift i).
Proof.
  intro H. unfold src_setbit_byte, src_mask_bytes, src_setbit_shift, src_getbit_byte, src_getbit_shift.
  rewrite !Z.quot_div_nonneg, !Z.rem_mod_nonneg by lia.
  pose proof (Z.div_mod i 8 ltac:(lia)). pose proof (Z.mod_pos_bound i 8 ltac:(lia)).
  pose proof (Z.div_mod (n + 7) 8 ltac:(lia)). pose proof (Z.mod_pos_bound (n + 7) 8 ltac:(lia)).
  assert (0 <= i / 8) by (apply Z.div_pos; lia).
  repeat split; try lia.
Qed.

Lemma getbit_setbit n m i j :
  zlen m = src_mask_bytes n -> 0 <= i < n -> 0 <= j < n ->
  getbit (setbit m i) j = (i =? j) || getbit m j.
Proof.
  intros Hl Hi Hj.
  destruct (mask_byte_bounds n i Hi) as (Bi & Si & _ & _ & Ei).
  destruct (mask_byte_bounds n j Hj) as (Bj & Sj & Gbj & Gsj & Ej).
  unfold getbit, setbit, znth. rewrite !land_pow2_eq0, !negb_involutive by lia.
  rewrite Gbj, Gsj.
  destruct (Z.eq_dec (src_setbit_byte i) (src_setbit_byte j)) as [Eb|Nb].
  - rewrite Eb. rewrite nth_upd_eq by (unfold zlen in Hl; lia).
    rewrite Z.lor_spec, Z.shiftl_1_l, Z.pow2_bits_eqb by lia.
    rewrite orb_comm. f_equal.
    destruct (Z.eqb_spec (src_setbit_shift i) (src_setbit_shift j)) as [Es|Ns];
      destruct (Z.eqb_spec i j); auto; try lia.
  - rewrite nth_upd_neq by (intro E; apply Nb; apply Z2Nat.inj; lia).
    destruct (Z.eqb_spec i j); [subst; congruence | reflexivity].
Qed.

Lemma setbit_length m i : length (setbit m i) = length m.
Proof. apply upd_length. Qed.

Lemma upd_Forall {A} (P : A -> Prop) n f l : Forall P l -> (forall x, P x -> P (f x)) -> Forall P (upd n f l).
Proof.
  intros H Hf. revert n; induction H; intros [|n]; cbn; constructor; auto.
Qed.

Lemma setbit_bytes m i n : 0 <= i < n ->
  Forall (fun b => 0 <= b < 256) m -> Forall (fun b => 0 <= b < 256) (setbit m i).
Proof.
  intros Hi H. destruct (mask_byte_bounds n i Hi) as (_ & Si & _).
  apply upd_Forall; auto. intros b Hb.
  assert (Hp : 0 <= Z.shiftl 1 (src_setbit_shift i) < 256).
  { rewrite Z.shiftl_1_l. split; [apply Z.pow_nonneg; lia|].
    change 256 with (2 ^ 8). apply Z.pow_lt_mono_r; lia. }
  split.
  - apply Z.lor_nonneg; lia.
  - destruct (Z.eq_dec (Z.lor b (Z.shiftl 1 (src_setbit_shift i))) 0) as [->|Nz]; [lia|].
    apply Z.log2_lt_cancel. rewrite Z.log2_lor by lia. change (Z.log2 256) with 8.
    apply Z.max_lub_lt.
    + destruct (Z.eq_dec b 0) as [->|]; [cbn; lia|]. apply Z.log2_lt_pow2; lia.
    + destruct (Z.eq_dec (Z.shiftl 1 (src_setbit_shift i)) 0) as [->|]; [cbn; lia|]. apply Z.log2_lt_pow2; lia.
Qed.

Lemma getbit_zero n j : 0 <= j < n -> getbit (mask_zero n) j = false.
Proof.
  intro Hj. destruct (mask_byte_bounds n j Hj) as (Bj & Sj & Gbj & Gsj & _).
  unfold getbit. rewrite land_pow2_eq0, negb_involutive by lia.
  unfold znth, mask_zero, zrepeat.
  destruct (nth_in_or_default (Z.to_nat (src_getbit_byte j)) (repeat 0 (Z.to_nat (src_mask_bytes n))) 0) as [H|H].
  - apply repeat_spec in H. rewrite H. apply Z.bits_0.
  - rewrite H. apply Z.bits_0.
Qed.

Lemma t_mask : forall n m i j,
  zlen m = src_mask_bytes n -> 0 <= i < n -> 0 <= j < n ->
  getbit (setbit m i) j = (i =? j) || getbit m j /\
  0 <= src_setbit_byte i < src_mask_bytes n /\ 0 <= src_getbit_byte j < src_mask_bytes n /\
  0 <= src_setbit_shift i <= 7 /\ 0 <= src_getbit_shift j <= 7 /\
  length (setbit m i) = length m /\
  (Forall (fun b => 0 <= b < 256) m -> Forall (fun b => 0 <= b < 256) (setbit m i)) /\
  getbit (mask_zero n) j = false.
Proof.
  intros n m i j Hl Hi Hj.
  destruct (mask_byte_bounds n i Hi) as (Bi & Si & _).
  destruct (mask_byte_bounds n j Hj) as (Bj & Sj & Gbj & Gsj & _).
  rewrite Gbj, Gsj.
  repeat split; try lia.
  - apply (getbit_setbit n); auto.
  - apply setbit_length.
  - apply (setbit_bytes m i n Hi).
  - apply getbit_zero; auto.
Qed.

(* ---------------------------------------------------------------------------------------------- *)
(* storage layout                                                                                 *)
(* ---------------------------------------------------------------------------------------------- *)
Lemma pool_agree f : pool_visit f = pool_resize f.
Proof. unfold pool_visit, pool_resize. destruct (f_type f); reflexivity. Qed.

Lemma pool_idx_inj p q : pool_idx p = pool_idx q -> p = q.
Proof. destruct p, q; cbn; intro H; try reflexivity; discriminate. Qed.

Lemma pool_idx_lt p : (pool_idx p < npools)%nat.
Proof. destruct p; unfold npools; cbn; lia. Qed.

Lemma mask_bytes_agree n : src_ds_mask_bytes n = src_mask_bytes n.
Proof. reflexivity. Qed.

Definition pool_of (f : feature) : nat := pool_idx (pool_resize f).

Lemma assign_spec : forall fs tot rs tot',
  assign tot fs = (rs, tot') -> length tot = npools -> Forall (fun f => 0 <= width f) fs ->
  length rs = length fs /\ length tot' = npools /\
  (forall p, nth p tot 0 <= nth p tot' 0) /\
  (forall i f b e, nth_error fs i = Some f -> nth_error rs i = Some (b, e) ->
     nth (pool_of f) tot 0 <= b /\ e = b + width f /\ e <= nth (pool_of f) tot' 0) /\
  (forall i j fi fj bi ei bj ej, (i < j)%nat ->
     nth_error fs i = Some fi -> nth_error fs j = Some fj ->
     nth_error rs i = Some (bi, ei) -> nth_error rs j = Some (bj, ej) ->
     pool_of fi = pool_of fj -> ei <= bj).
Proof.
  induction fs as [|f fs IH]; intros tot rs tot' H Hl Hw; cbn in H.
  - inversion H; subst. split; [reflexivity|]. split; [auto|]. split; [intro; lia|]. split.
    + intros i f b e H1; destruct i; discriminate.
    + intros i j fi fj bi ei bj ej _ H1; destruct i; discriminate.
  - destruct (assign (upd (pool_idx (pool_resize f)) (fun _ => src_range_end (nth (pool_idx (pool_resize f)) tot 0) (width f)) tot) fs)
      as [rs1 tot1] eqn:E.
    inversion H; subst rs tot'; clear H.
    inversion Hw as [|? ? Hwf Hwr]; subst.
    set (p := pool_idx (pool_resize f)) in *.
    set (b0 := nth p tot 0) in *.
    assert (Hp : (p < length tot)%nat) by (rewrite Hl; apply pool_idx_lt).
    destruct (IH _ _ _ E) as (L1 & L2 & M & S & D); auto.
    { rewrite upd_length; auto. }
    assert (Hsame : nth p (upd p (fun _ => src_range_end b0 (width f)) tot) 0 = b0 + width f).
    { rewrite nth_upd_eq by auto. reflexivity. }
    split; [cbn; lia|]. split; [auto|]. split; [|split].
    + intro q. specialize (M q). destruct (Nat.eq_dec p q) as [<-|N].
      * rewrite Hsame in M. fold b0. lia.
      * rewrite nth_upd_neq in M by auto. auto.
    + intros i f0 b e H H0. destruct i as [|i]; cbn in H, H0.
      * inversion H; inversion H0; subst. fold p. fold b0. specialize (M p). rewrite Hsame in M.
        unfold pool_of. fold p. unfold src_range_end. lia.
      * destruct (S _ _ _ _ H H0) as (S1 & S2 & S3). split; [|auto].
        destruct (Nat.eq_dec p (pool_of f0)) as [Ep|Np].
        -- rewrite <- Ep in S1. rewrite Hsame in S1. rewrite <- Ep. fold b0. lia.
        -- rewrite nth_upd_neq in S1 by auto. auto.
    + intros i j fi fj bi ei bj ej Hij Hfi Hfj Hri Hrj Hpool.
      destruct j as [|j]; [lia|]. cbn in Hfj, Hrj.
      destruct i as [|i]; cbn in Hfi, Hri.
      * inversion Hfi; inversion Hri; subst.
        destruct (S _ _ _ _ Hfj Hrj) as (S1 & _).
        unfold pool_of in Hpool, S1. fold p in Hpool. rewrite <- Hpool in S1. rewrite Hsame in S1. unfold src_range_end. fold b0. lia.
      * apply (D i j fi fj bi ei bj ej); auto. lia.
Qed.

Lemma znth_nth_error {A} i (l : list A) d : 0 <= i < zlen l -> nth_error l (Z.to_nat i) = Some (znth i l d).
Proof. intro H. unfold znth, zlen in *. apply nth_error_nth'. lia. Qed.

Lemma zlen_zrepeat {A} (x : A) n : 0 <= n -> zlen (zrepeat x n) = n.
Proof. intro H. unfold zlen, zrepeat. rewrite repeat_length. lia. Qed.

Definition layout_ok (st : store) : Prop :=
  let N := s_samples st in
  0 <= N /\ length (s_ranges st) = length (s_feats st) /\ length (s_mask st) = length (s_feats st) /\
  length (s_pools st) = npools /\
  (forall i f b e, nth_error (s_feats st) i = Some f -> nth_error (s_ranges st) i = Some (b, e) ->
     0 <= b /\ e = b + width f /\ 0 <= width f /\ e * N <= zlen (nth (pool_of f) (s_pools st) [])) /\
  (forall i j fi fj bi ei bj ej, (i < j)%nat ->
     nth_error (s_feats st) i = Some fi -> nth_error (s_feats st) j = Some fj ->
     nth_error (s_ranges st) i = Some (bi, ei) -> nth_error (s_ranges st) j = Some (bj, ej) ->
     pool_of fi = pool_of fj -> ei <= bj) /\
  Forall (fun m => zlen m = src_mask_bytes N) (s_mask st).

Lemma nth_repeat0 p n : nth p (repeat 0 n) 0 = 0.
Proof. revert p; induction n; intros [|p]; cbn; auto. Qed.

Lemma resize_layout N fs t : 0 <= N -> Forall (fun f => 0 <= width f) fs -> layout_ok (resize N fs t).
Proof.
  intros HN Hw. unfold resize.
  destruct (assign (repeat 0 npools) fs) as [rs tot] eqn:E.
  destruct (assign_spec _ _ _ _ E (repeat_length _ _) Hw) as (L1 & L2 & M & S & D).
  unfold layout_ok; cbn [s_samples s_feats s_ranges s_pools s_mask].
  split; [auto|]. split; [auto|]. split; [apply map_length|]. split; [rewrite map_length; auto|].
  split; [|split].
  - intros i f b e Hf Hr. destruct (S _ _ _ _ Hf Hr) as (S1 & S2 & S3).
    rewrite nth_repeat0 in S1.
    assert (Hwf : 0 <= width f).
    { rewrite Forall_forall in Hw. apply Hw. eapply nth_error_In; eauto. }
    split; [auto|]. split; [auto|]. split; [auto|].
    change (@nil Z) with ((fun t0 => zrepeat 0 (t0 * N)) 0).
    rewrite map_nth. rewrite zlen_zrepeat by nia. nia.
  - intros; eapply D; eauto.
  - apply Forall_forall. intros m Hm. apply in_map_iff in Hm. destruct Hm as (x & <- & _).
    rewrite zlen_zrepeat; [reflexivity|]. unfold src_ds_mask_bytes. apply Z.quot_pos; lia.
Qed.

Lemma set_ok_len f vals : set_ok f vals = true -> zlen vals = width f.
Proof.
  unfold set_ok, width. destruct (f_type f); try (intro H; apply Z.eqb_eq in H; exact H).
  destruct vals as [|l [|? ?]]; try discriminate. reflexivity.
Qed.

Lemma Forall_upd {A} (P : A -> Prop) n f (l : list A) : Forall P l -> (forall x, P x -> P (f x)) -> Forall P (upd n f l).
Proof. apply upd_Forall. Qed.

Lemma nth_error_upd_neq {A} n m (f : A -> A) l : n <> m -> nth_error (upd n f l) m = nth_error l m.
Proof.
  revert n m; induction l as [|x l IH]; intros [|n] [|m] H; cbn; auto; try congruence.
Qed.

Section SetGet.
  Variable st : store.
  Variables fi s : Z.
  Variable vals : list Z.
  Variable st' : store.
  Hypothesis Hlay : layout_ok st.
  Hypothesis Hfi : 0 <= fi < zlen (s_feats st).
  Hypothesis Hs : 0 <= s < s_samples st.
  Hypothesis Hset : ds_set st fi s vals = Some st'.

  Let f := znth fi (s_feats st) dflt_feature.
  Let N := s_samples st.
  Let p := pool_of f.

  Lemma sg_facts :
    set_ok f vals = true /\
    st' = mkS (s_samples st) (s_feats st) (s_target st) (s_ranges st)
              (upd p (write_seg (Z.to_nat (cell_addr st fi s)) vals) (s_pools st))
              (upd (Z.to_nat fi) (fun m => setbit m s) (s_mask st)).
  Proof.
    unfold ds_set in Hset. fold f in Hset.
    destruct (set_ok f vals) eqn:E; cbn in Hset; [|discriminate].
    inversion Hset. split; auto; unfold p, pool_of; rewrite pool_agree; reflexivity.
  Qed.

  (* the block of (feature, sample): [a, a + w) inside [b*N, e*N) inside the pool *)
  Lemma cell_block fj sj : 0 <= fj < zlen (s_feats st) -> 0 <= sj < N ->
    let g := znth fj (s_feats st) dflt_feature in
    let r := znth fj (s_ranges st) (0, 0) in
    let a := cell_addr st fj sj in
    let w := width g in
    0 <= w /\ 0 <= fst r /\ snd r = fst r + w /\ fst r * N <= a /\ a + w <= snd r * N /\
    snd r * N <= zlen (nth (pool_of g) (s_pools st) []) /\ a = fst r * N + sj * w.
  Proof.
    intros Hfj Hsj g r a w.
    destruct Hlay as (HN & Lr & Lm & Lp & S & D & Mk).
    assert (Hr : 0 <= fj < zlen (s_ranges st)) by (unfold zlen in *; lia).
    pose proof (znth_nth_error fj (s_feats st) dflt_feature Hfj) as E1.
    pose proof (znth_nth_error fj (s_ranges st) (0, 0) Hr) as E2.
    fold g in E1. fold r in E2. destruct r as [b e] eqn:Er.
    destruct (S _ _ _ _ E1 E2) as (S1 & S2 & S3 & S4).
    assert (Ha : a = b * N + sj * w).
    { unfold a, cell_addr. fold g. unfold r in Er. rewrite Er. reflexivity. }
    cbn [fst snd]. fold w in S2, S3. fold N in S4. repeat split; try lia; try nia.
  Qed.

  Lemma set_layout : layout_ok st'.
  Proof.
    destruct sg_facts as (Hok & ->).
    pose proof (set_ok_len _ _ Hok) as Hlen.
    destruct (cell_block fi s Hfi Hs) as (W & B & E & A1 & A2 & A3 & _). fold f in W, E, A1, A2, A3. fold p in A3.
    destruct Hlay as (HN & Lr & Lm & Lp & S & D & Mk).
    unfold layout_ok; cbn [s_samples s_feats s_ranges s_pools s_mask].
    split; [auto|]. split; [auto|]. split; [rewrite upd_length; auto|]. split; [rewrite upd_length; auto|].
    split; [|split; [auto|]].
    - intros i g b e Hg Hr. destruct (S _ _ _ _ Hg Hr) as (S1 & S2 & S3 & S4).
      split; [auto|]. split; [auto|]. split; [auto|].
      destruct (Nat.eq_dec p (pool_of g)) as [Ep|Np].
      + rewrite <- Ep. rewrite nth_upd_eq by (rewrite Lp; apply pool_idx_lt).
        unfold zlen. rewrite write_seg_length; [rewrite <- Ep in S4; exact S4|].
        unfold zlen in *. lia.
      + rewrite nth_upd_neq by auto. auto.
    - apply Forall_upd; auto. intros m Hm. unfold zlen. rewrite setbit_length. exact Hm.
  Qed.

  Lemma mask_row_len fj : 0 <= fj < zlen (s_feats st) -> zlen (znth fj (s_mask st) []) = src_mask_bytes N.
  Proof.
    intro Hfj. destruct Hlay as (HN & Lr & Lm & Lp & S & D & Mk).
    rewrite Forall_forall in Mk. apply Mk. unfold znth. apply nth_In. unfold zlen in *. lia.
  Qed.

  Lemma get_same : ds_get st' fi s = Some vals.
  Proof.
    destruct sg_facts as (Hok & ->).
    pose proof (set_ok_len _ _ Hok) as Hlen.
    destruct (cell_block fi s Hfi Hs) as (W & B & E & A1 & A2 & A3 & _). fold f in W, E, A1, A2, A3. fold p in A3.
    pose proof Hlay as (HN & Lr & Lm & Lp & S & D & Mk).
    unfold ds_get; cbn [s_samples s_feats s_ranges s_pools s_mask]. fold f.
    unfold znth at 1. rewrite nth_upd_eq by (unfold zlen in *; lia).
    fold (znth fi (s_mask st) []).
    rewrite (getbit_setbit N) by (auto using mask_row_len).
    rewrite Z.eqb_refl. cbn [orb].
    rewrite pool_agree. fold (pool_of f). fold p.
    rewrite nth_upd_eq by (rewrite Lp; apply pool_idx_lt).
    replace (cell_addr _ fi s) with (cell_addr st fi s) by reflexivity.
    replace (Z.to_nat (width f)) with (length vals) by (unfold zlen in Hlen; lia).
    rewrite read_write_same; [reflexivity|]. unfold zlen in *. lia.
  Qed.

  Lemma get_other fj sj : 0 <= fj < zlen (s_feats st) -> 0 <= sj < N -> (fj <> fi \/ sj <> s) ->
    ds_get st' fj sj = ds_get st fj sj.
  Proof.
    intros Hfj Hsj Hne.
    destruct sg_facts as (Hok & ->).
    pose proof (set_ok_len _ _ Hok) as Hlen.
    destruct (cell_block fi s Hfi Hs) as (W & B & E & A1 & A2 & A3 & A4). fold f in W, E, A1, A2, A3, A4. fold p in A3.
    destruct (cell_block fj sj Hfj Hsj) as (W' & B' & E' & A1' & A2' & A3' & A4').
    pose proof Hlay as (HN & Lr & Lm & Lp & S & D & Mk).
    unfold ds_get; cbn [s_samples s_feats s_ranges s_pools s_mask].
    set (g := znth fj (s_feats st) dflt_feature) in *.
    replace (cell_addr _ fj sj) with (cell_addr st fj sj) by reflexivity.
    (* the mask bit *)
    assert (Hbit : getbit (znth fj (upd (Z.to_nat fi) (fun m => setbit m s) (s_mask st)) []) sj = getbit (znth fj (s_mask st) []) sj).
    { destruct (Z.eq_dec fj fi) as [->|Nf].
      - unfold znth at 1. rewrite nth_upd_eq by (unfold zlen in *; lia). fold (znth fi (s_mask st) []).
        rewrite (getbit_setbit N) by (auto using mask_row_len).
        destruct (Z.eqb_spec s sj); [lia | reflexivity].
      - unfold znth. rewrite nth_upd_neq; [reflexivity|]. intro H. apply Nf. lia. }
    rewrite Hbit. destruct (getbit (znth fj (s_mask st) []) sj); [|reflexivity].
    f_equal. rewrite pool_agree. fold (pool_of g).
    destruct (Nat.eq_dec p (pool_of g)) as [Ep|Np]; [|rewrite nth_upd_neq by auto; reflexivity].
    rewrite <- Ep. rewrite nth_upd_eq by (rewrite Lp; apply pool_idx_lt).
    apply read_write_disjoint; [unfold zlen in *; lia|].
    (* disjoint blocks *)
    assert (Hr : forall k, 0 <= k < zlen (s_feats st) -> nth_error (s_ranges st) (Z.to_nat k) = Some (znth k (s_ranges st) (0, 0))).
    { intros k Hk. apply znth_nth_error. unfold zlen in *. lia. }
    pose proof (znth_nth_error fi (s_feats st) dflt_feature Hfi) as Ef1. fold f in Ef1.
    pose proof (znth_nth_error fj (s_feats st) dflt_feature Hfj) as Ef2. fold g in Ef2.
    pose proof (Hr fi Hfi) as Er1. pose proof (Hr fj Hfj) as Er2.
    destruct (znth fi (s_ranges st) (0, 0)) as [b e]. destruct (znth fj (s_ranges st) (0, 0)) as [b' e'].
    cbn [fst snd] in *.
    unfold zlen in Hlen.
    destruct (Z.lt_trichotomy fj fi) as [Lt|[Eq|Gt]].
    - assert (e' <= b) by (eapply (D (Z.to_nat fj) (Z.to_nat fi)); eauto; lia). left. nia.
    - subst fj. assert (g = f) by reflexivity. assert (sj <> s) by lia.
      rewrite Er1 in Er2. inversion Er2; subst b' e'. subst g.
      destruct (Z.lt_trichotomy sj s) as [L|[L|L]]; [left; nia | lia | right; nia].
    - assert (e <= b') by (eapply (D (Z.to_nat fi) (Z.to_nat fj)); eauto; lia). right. nia.
  Qed.
End SetGet.

(* ---- any history of writes: the store reads back the last value written, else "missing" ------- *)
Definition write := (Z * Z * list Z)%type.
Fixpoint run_sets (st : store) (ws : list write) : option store :=
  match ws with
  | [] => Some st
  | (fi, s, v) :: r => match ds_set st fi s v with Some st' => run_sets st' r | None => None end
  end.
Definition wstep (fi s : Z) (acc : option (list Z)) (w : write) : option (list Z) :=
  let '(f, s0, v) := w in if (f =? fi) && (s0 =? s) then Some v else acc.
Definition last_write (ws : list write) (fi s : Z) : option (list Z) := fold_left (wstep fi s) ws None.
Definition writes_in_range (F N : Z) (ws : list write) : Prop :=
  Forall (fun w : write => let '(fi, s, _) := w in 0 <= fi < F /\ 0 <= s < N) ws.

Lemma run_sets_gen : forall ws st st' (acc : Z -> Z -> option (list Z)),
  layout_ok st -> writes_in_range (zlen (s_feats st)) (s_samples st) ws ->
  run_sets st ws = Some st' ->
  (forall fi s, 0 <= fi < zlen (s_feats st) -> 0 <= s < s_samples st -> ds_get st fi s = acc fi s) ->
  layout_ok st' /\ s_feats st' = s_feats st /\ s_samples st' = s_samples st /\ s_target st' = s_target st /\
  (forall fi s, 0 <= fi < zlen (s_feats st) -> 0 <= s < s_samples st ->
     ds_get st' fi s = fold_left (wstep fi s) ws (acc fi s)).
Proof.
  induction ws as [|[[fi s] v] ws IH]; intros st st' acc Hlay Hr Hrun Hacc; cbn in Hrun.
  - inversion Hrun; subst. split; [auto|]. split; [auto|]. split; [auto|]. split; [auto|]. intros; cbn; auto.
  - destruct (ds_set st fi s v) as [st1|] eqn:E; [|discriminate].
    inversion Hr as [|? ? Hhd Hr']; subst. cbn in Hhd. destruct Hhd as [Hfi Hs].
    destruct (sg_facts st fi s v st1 E) as (Hok & Hst1).
    assert (F1 : s_feats st1 = s_feats st) by (rewrite Hst1; reflexivity).
    assert (N1 : s_samples st1 = s_samples st) by (rewrite Hst1; reflexivity).
    assert (T1 : s_target st1 = s_target st) by (rewrite Hst1; reflexivity).
    destruct (IH st1 st' (fun fj sj => wstep fj sj (acc fj sj) (fi, s, v))) as (L & F & N & T & G); auto.
    + apply (set_layout st fi s v st1); auto.
    + rewrite F1, N1. auto.
    + rewrite F1, N1. intros fj sj Hfj Hsj. unfold wstep.
      destruct (Z.eqb_spec fi fj) as [->|Nf]; [destruct (Z.eqb_spec s sj) as [->|Ns]|]; cbn [andb].
      * apply (get_same st fj sj v st1); auto.
      * rewrite (get_other st fj s v st1); auto.
      * rewrite (get_other st fi s v st1); auto.
    + rewrite F1, N1, T1 in *. split; [auto|]. split; [auto|]. split; [auto|]. split; [auto|]. intros fj sj Hfj Hsj. cbn [fold_left]. apply G; auto.
Qed.

Lemma nth_map_const {A B} (c : B) (l : list A) n d : (n < length l)%nat -> nth n (map (fun _ => c) l) d = c.
Proof. revert n; induction l; intros [|n] H; cbn in *; try lia; auto. apply IHl; lia. Qed.

Lemma resize_get_none N fs t fi s : 0 <= fi < zlen fs -> 0 <= s < N -> ds_get (resize N fs t) fi s = None.
Proof.
  intros Hfi Hs. unfold resize. destruct (assign (repeat 0 npools) fs) as [rs tot].
  unfold ds_get; cbn [s_mask s_feats].
  match goal with |- context [getbit ?m s] => assert (Hm : m = mask_zero N) end.
  { unfold znth. apply nth_map_const. unfold zlen in *. lia. }
  rewrite Hm, getbit_zero by auto. reflexivity.
Qed.

Lemma s_storage_history : forall N fs t ws st,
  0 <= N -> Forall (fun f => 0 <= width f) fs -> writes_in_range (zlen fs) N ws ->
  run_sets (resize N fs t) ws = Some st ->
  forall fi s, 0 <= fi < zlen fs -> 0 <= s < N -> ds_get st fi s = last_write ws fi s.
Proof.
  intros N fs t ws st HN Hw Hr Hrun fi s Hfi Hs.
  assert (F0 : s_feats (resize N fs t) = fs) by (unfold resize; destruct (assign _ fs); reflexivity).
  assert (N0 : s_samples (resize N fs t) = N) by (unfold resize; destruct (assign _ fs); reflexivity).
  destruct (run_sets_gen ws (resize N fs t) st (fun _ _ => None)) as (_ & _ & _ & _ & G); auto.
  - apply resize_layout; auto.
  - rewrite F0, N0; auto.
  - rewrite F0, N0. intros. apply resize_get_none; auto.
  - unfold last_write. apply G; rewrite ?F0, ?N0; auto.
Qed.

(* ---------------------------------------------------------------------------------------------- *)
(* flatten = concatenation of the encoded per-feature views                                        *)
(* ---------------------------------------------------------------------------------------------- *)
Fixpoint enc_list (E : gfeat -> flag -> list (option Z)) (fs : list gfeat) (fls : list flag) : list (option Z) :=
  match fs with [] => [] | g :: r => E g (hd Normal fls) ++ enc_list E r (tl fls) end.
Fixpoint enc_gens (E : gfeat -> flag -> list (option Z)) (gs : gens) (fl : flags) : list (option Z) :=
  match gs with [] => [] | fs :: r => enc_list E fs (hd [] fl) ++ enc_gens E r (tl fl) end.

Definition colsum (fs : list gfeat) : Z := zsum (map g_colsize fs).

Lemma zlen_app {A} (a b : list A) : zlen (a ++ b) = zlen a + zlen b.
Proof. unfold zlen. rewrite app_length. lia. Qed.

Lemma enc_list_len E fs fls :
  (forall g fl, In g fs -> zlen (E g fl) = g_colsize g) -> zlen (enc_list E fs fls) = colsum fs.
Proof.
  revert fls; induction fs as [|g fs IH]; intros fls H; cbn; [reflexivity|].
  rewrite zlen_app, H by (left; auto). unfold colsum in *. cbn. rewrite IH; auto. intros; apply H; right; auto.
Qed.

Lemma flat_gen_spec rd s : forall fs fls pre rest post,
  (forall g fl, In g fs -> zlen (enc_flat rd g fl s) = g_colsize g) ->
  zlen rest = colsum fs ->
  flat_gen rd fs fls s (zlen pre) (pre ++ rest ++ post) =
  pre ++ enc_list (fun g fl => enc_flat rd g fl s) fs fls ++ post.
Proof.
  induction fs as [|g fs IH]; intros fls pre rest post Henc Hlen; cbn.
  - unfold colsum in Hlen; cbn in Hlen. destruct rest; [reflexivity | unfold zlen in Hlen; cbn in Hlen; lia].
  - set (e := enc_flat rd g (hd Normal fls) s).
    assert (He : zlen e = g_colsize g) by (apply Henc; left; auto).
    assert (Hc : colsum (g :: fs) = g_colsize g + colsum fs) by reflexivity.
    assert (Hcs : 0 <= colsum fs).
    { rewrite <- (enc_list_len (fun g fl => enc_flat rd g fl s) fs (tl fls)); [unfold zlen; lia|].
      intros; apply Henc; right; auto. }
    set (c := Z.to_nat (g_colsize g)).
    assert (Hr : rest = firstn c rest ++ skipn c rest) by (symmetry; apply firstn_skipn).
    assert (Lf : length (firstn c rest) = length e).
    { rewrite firstn_length. unfold zlen in *. lia. }
    rewrite Hr, <- app_assoc.
    replace (Z.to_nat (zlen pre)) with (length pre) by (unfold zlen; lia).
    rewrite write_seg_app by auto.
    replace (zlen pre + g_colsize g) with (zlen (pre ++ e)) by (rewrite zlen_app; lia).
    rewrite (app_assoc pre e).
    rewrite IH.
    + rewrite <- !app_assoc. reflexivity.
    + intros; apply Henc; right; auto.
    + unfold zlen in *. rewrite skipn_length. lia.
Qed.

Lemma enc_gens_len E gs fl :
  (forall g f, In g (concat gs) -> zlen (E g f) = g_colsize g) -> zlen (enc_gens E gs fl) = zsum (map colsum gs).
Proof.
  revert fl; induction gs as [|fs gs IH]; intros fl H; cbn; [reflexivity|].
  rewrite zlen_app, enc_list_len, IH; [reflexivity| |].
  - intros; apply H; cbn; apply in_or_app; right; auto.
  - intros; apply H; cbn; apply in_or_app; left; auto.
Qed.

Definition gm_ok (gs : gens) (gm : list Z) : Prop := gm = map colsum gs.

Lemma flat_gens_spec rd s : forall gs fl gm pre rest post,
  (forall g f, In g (concat gs) -> zlen (enc_flat rd g f s) = g_colsize g) ->
  gm = map colsum gs ->
  zlen rest = zsum (map colsum gs) ->
  flat_gens rd gs fl gm s (zlen pre) (pre ++ rest ++ post) =
  pre ++ enc_gens (fun g f => enc_flat rd g f s) gs fl ++ post.
Proof.
  induction gs as [|fs gs IH]; intros fl gm pre rest post Henc Hgm Hlen; cbn.
  - cbn in Hlen. destruct rest; [reflexivity | unfold zlen in Hlen; cbn in Hlen; lia].
  - subst gm. cbn [map hd tl]. cbn in Hlen.
    assert (Hfs : forall g f, In g fs -> zlen (enc_flat rd g f s) = g_colsize g).
    { intros; apply Henc; cbn; apply in_or_app; left; auto. }
    assert (Hcs : 0 <= colsum fs).
    { rewrite <- (enc_list_len (fun g f => enc_flat rd g f s) fs []); [unfold zlen; lia | auto]. }
    assert (Hgs : 0 <= fold_right Z.add 0 (map colsum gs)).
    { change (fold_right Z.add 0 (map colsum gs)) with (zsum (map colsum gs)).
      rewrite <- (enc_gens_len (fun g f => enc_flat rd g f s) gs []); [unfold zlen; lia|].
      intros; apply Henc; cbn; apply in_or_app; right; auto. }
    set (c := Z.to_nat (colsum fs)).
    assert (Hr : rest = firstn c rest ++ skipn c rest) by (symmetry; apply firstn_skipn).
    rewrite Hr, <- app_assoc.
    rewrite flat_gen_spec; auto.
    2:{ unfold zlen in *. rewrite firstn_length. lia. }
    set (e := enc_list (fun g f => enc_flat rd g f s) fs (hd [] fl)).
    assert (He : zlen e = colsum fs) by (apply enc_list_len; auto).
    replace (zlen pre + colsum fs) with (zlen (pre ++ e)) by (rewrite zlen_app; lia).
    rewrite (app_assoc pre e).
    rewrite IH; auto.
    + rewrite <- !app_assoc. reflexivity.
    + intros; apply Henc; cbn; apply in_or_app; right; auto.
    + unfold zlen, zsum in *. rewrite skipn_length. lia.
Qed.

(* update()'s column counts agree between its two loops and with the generators' process() *)
Lemma desc_cols_total_eq f : desc_cols_total f = desc_cols f.
Proof. unfold desc_cols_total, desc_cols. destruct (f_type f); reflexivity. Qed.

Definition cols_ok (g : gfeat) : Prop := g_colsize g = desc_cols (g_desc g).

Lemma genmap_from_spec : forall gs off,
  Forall (Forall cols_ok) gs -> genmap_from off gs = map colsum gs.
Proof.
  induction gs as [|fs gs IH]; intros off H; cbn; [reflexivity|].
  inversion H; subst. f_equal; [|apply IH; auto].
  unfold src_gen_columns, colsum.
  replace (map (fun g => desc_cols (g_desc g)) fs) with (map g_colsize fs); [lia|].
  apply map_ext_in. intros g Hg. rewrite Forall_forall in H2. apply H2; auto.
Qed.

Lemma columns_colsum gs : Forall (Forall cols_ok) gs -> columns gs = zsum (map colsum gs).
Proof.
  intro H. unfold columns, total_columns. f_equal. apply map_ext_in. intros fs Hfs.
  unfold colsum. f_equal. apply map_ext_in. intros g Hg. rewrite desc_cols_total_eq.
  rewrite Forall_forall in H. specialize (H fs Hfs). rewrite Forall_forall in H. symmetry; apply H; auto.
Qed.

Lemma flat_row_spec rd gs fl s r :
  Forall (Forall cols_ok) gs ->
  (forall g f, In g (concat gs) -> zlen (enc_flat rd g f s) = g_colsize g) ->
  zlen r = columns gs ->
  flat_row rd gs fl s r = enc_gens (fun g f => enc_flat rd g f s) gs fl.
Proof.
  intros Hc Henc Hlen. unfold flat_row, generator_mapping.
  pose proof (flat_gens_spec rd s gs fl (genmap_from 0 gs) [] r [] Henc) as H.
  cbn [app] in H. rewrite !app_nil_r in H. change (zlen []) with 0 in H. apply H.
  - apply genmap_from_spec; auto.
  - rewrite Hlen. apply columns_colsum; auto.
Qed.

(* ---- the segment written by flatten is the documented encoding of the select view ---------------- *)
Definition value_ok (rd : reader) (g : gfeat) : Prop :=
  forall fl s v, gvalue rd g fl s = Some v ->
    match f_type (g_desc g) with
    | TSclass => 0 <= hd 0 v
    | TMclass => 0 <= hd 0 v /\ zlen v = f_classes (g_desc g)
    | _ => zlen v = fsize (g_desc g)
    end.

Lemma map_zrepeat {A B} (f : A -> B) x n : map f (zrepeat x n) = zrepeat (f x) n.
Proof. unfold zrepeat. induction (Z.to_nat n); cbn; congruence. Qed.

Lemma hd_zrepeat_neg n : hd 0 (zrepeat (-1) n) <? 0 = (0 <? n).
Proof.
  unfold zrepeat. destruct (Z.ltb_spec 0 n).
  - destruct (Z.to_nat n) eqn:E; [lia | reflexivity].
  - replace (Z.to_nat n) with O by lia. reflexivity.
Qed.

Lemma zrepeat_nonpos {A} (x : A) n : n <= 0 -> zrepeat x n = [].
Proof. intro H. unfold zrepeat. replace (Z.to_nat n) with O by lia. reflexivity. Qed.

Lemma in_zseq j n : In j (zseq n) -> 0 <= j < n.
Proof. unfold zseq. intro H. apply in_map_iff in H. destruct H as (k & <- & Hk). apply in_seq in Hk. lia. Qed.

Lemma mclass_missing_enc c : encode_view c (VMclass (zrepeat (-1) c)) = zrepeat None c.
Proof.
  cbn [encode_view]. rewrite hd_zrepeat_neg. destruct (Z.ltb_spec 0 c).
  - exact (map_zrepeat (fun _ : Z => @None Z) (-1) c).
  - rewrite !zrepeat_nonpos by lia. reflexivity.
Qed.

Lemma enc_flat_encode rd g fl s :
  cols_ok g -> value_ok rd g ->
  enc_flat rd g fl s = encode_view (f_classes (g_desc g)) (select_view rd g fl s).
Proof.
  intros Hc Hv. unfold cols_ok, desc_cols in Hc. unfold enc_flat, select_view.
  specialize (Hv fl s).
  destruct (f_type (g_desc g)) eqn:T;
    try (destruct (Z.eqb_spec (fsize (g_desc g)) 1) as [E1|E1];
         [ rewrite Hc; unfold src_cols_struct; rewrite E1;
           destruct (is_dropped fl); [reflexivity|]; destruct (gvalue rd g fl s); reflexivity
         | rewrite Hc; unfold src_cols_struct;
           destruct (is_dropped fl); [reflexivity|]; destruct (gvalue rd g fl s); reflexivity ]).
  - (* sclass *)
    rewrite Hc. unfold src_cols_sclass.
    destruct (is_dropped fl); [reflexivity|].
    destruct (gvalue rd g fl s) as [v|]; [|reflexivity].
    specialize (Hv v eq_refl). cbn [encode_view].
    destruct (Z.ltb_spec (hd 0 v) 0); [lia|].
    unfold onehot. apply map_ext_in. intros j Hj. apply in_zseq in Hj.
    destruct (Z.eqb_spec j (hd 0 v)) as [->|]; [|reflexivity].
    cbn [andb]. destruct (g_kind g); unfold src_onehot_hit, src_pw_onehot_hit;
      (destruct (Z.ltb_spec (hd 0 v) (f_classes (g_desc g) - 1)); [reflexivity | lia]).
  - (* mclass *)
    rewrite Hc. unfold src_cols_mclass.
    destruct (is_dropped fl); [symmetry; apply mclass_missing_enc|].
    destruct (gvalue rd g fl s) as [v|]; [|symmetry; apply mclass_missing_enc].
    destruct (Hv v eq_refl) as [H0 _]. cbn [encode_view].
    destruct (Z.ltb_spec (hd 0 v) 0); [lia | reflexivity].
Qed.

Lemma enc_flat_len rd g fl s :
  cols_ok g -> value_ok rd g -> 0 <= g_colsize g -> zlen (enc_flat rd g fl s) = g_colsize g.
Proof.
  intros Hc Hv Hn. pose proof Hc as Hc'. unfold cols_ok, desc_cols in Hc. unfold enc_flat.
  specialize (Hv fl s).
  assert (Z1 : forall A (x : A) n, 0 <= n -> zlen (zrepeat x n) = n) by (intros; apply zlen_zrepeat; auto).
  assert (Zm : forall A B (f : A -> B) l, zlen (map f l) = zlen l) by (intros; unfold zlen; rewrite map_length; reflexivity).
  destruct (is_dropped fl); [apply Z1; auto|].
  destruct (gvalue rd g fl s) as [v|].
  - specialize (Hv v eq_refl).
    destruct (f_type (g_desc g)) eqn:T;
      try (unfold src_cols_struct in Hc; destruct (Z.eqb_spec (fsize (g_desc g)) 1); [cbn; unfold zlen; cbn; lia | rewrite Zm; lia]).
    + unfold onehot. rewrite Zm. unfold zseq. rewrite Zm. unfold zlen. rewrite seq_length. lia.
    + rewrite Zm. unfold src_cols_mclass in Hc. lia.
  - destruct (f_type (g_desc g)) eqn:T;
      try (unfold src_cols_struct in Hc; destruct (Z.eqb_spec (fsize (g_desc g)) 1); [cbn; unfold zlen; cbn; lia | apply Z1; auto]);
      apply Z1; auto.
Qed.

Lemma enc_list_ext E1 E2 fs fls : (forall g f, In g fs -> E1 g f = E2 g f) -> enc_list E1 fs fls = enc_list E2 fs fls.
Proof.
  revert fls; induction fs as [|g fs IH]; intros fls H; cbn; [reflexivity|].
  rewrite H by (left; auto). f_equal. apply IH. intros; apply H; right; auto.
Qed.
Lemma enc_gens_ext E1 E2 gs fl : (forall g f, In g (concat gs) -> E1 g f = E2 g f) -> enc_gens E1 gs fl = enc_gens E2 gs fl.
Proof.
  revert fl; induction gs as [|fs gs IH]; intros fl H; cbn; [reflexivity|].
  f_equal; [apply enc_list_ext | apply IH]; intros; apply H; cbn; apply in_or_app; auto.
Qed.

Definition gens_ok (rd : reader) (gs : gens) : Prop :=
  forall g, In g (concat gs) -> cols_ok g /\ value_ok rd g /\ 0 <= g_colsize g.

Lemma s_views_agree rd gs fl s r :
  gens_ok rd gs -> zlen r = columns gs ->
  flat_row rd gs fl s r =
  enc_gens (fun g f => encode_view (f_classes (g_desc g)) (select_view rd g f s)) gs fl.
Proof.
  intros Hok Hlen.
  rewrite flat_row_spec; auto.
  - apply enc_gens_ext. intros g f Hg. destruct (Hok g Hg) as (H1 & H2 & H3). apply enc_flat_encode; auto.
  - apply Forall_forall. intros fs Hfs. apply Forall_forall. intros g Hg. apply Hok. apply in_concat. eauto.
  - intros g f Hg. destruct (Hok g Hg) as (H1 & H2 & H3). apply enc_flat_len; auto.
Qed.

(* ---- the generators built by fit satisfy the column-size agreement ------------------------------- *)
Lemma fit_cols_ok st k ids1 ids2 : Forall cols_ok (fit st k ids1 ids2).
Proof.
  apply Forall_forall. intros g Hg. unfold fit in Hg.
  destruct k; unfold fit_identity, fit_product, fit_gradient in Hg.
  all: try (apply in_map_iff in Hg; destruct Hg as (i & <- & Hi); unfold select_ids in Hi;
            apply filter_In in Hi; destruct Hi as (_ & Hk); unfold kind_matches, is_cont in Hk;
            unfold cols_ok, desc_cols; cbn [g_colsize g_desc];
            destruct (f_type (ds_feature st i)); try discriminate; reflexivity).
  - (* scalar identity: one column, and the selected features have size 1 *)
    apply in_map_iff in Hg; destruct Hg as (i & <- & Hi); unfold select_ids in Hi.
    apply filter_In in Hi; destruct Hi as (_ & Hk); unfold kind_matches, is_cont in Hk.
    apply andb_true_iff in Hk. destruct Hk as [Hc Hs]. unfold src_sel_scalar in Hs. apply Z.eqb_eq in Hs.
    unfold cols_ok, desc_cols; cbn [g_colsize g_desc].
    destruct (f_type (ds_feature st i)); try discriminate; unfold src_cols_struct, src_id_scalar_colsize; lia.
  - apply in_map_iff in Hg. destruct Hg as ([a b] & <- & _). reflexivity.
  - apply in_flat_map in Hg. destruct Hg as (i & _ & Hg).
    destruct (src_grad_applies _ _); [|destruct Hg].
    unfold grad_block in Hg. apply in_flat_map in Hg. destruct Hg as (ch & _ & Hg).
    apply in_map_iff in Hg. destruct Hg as (ty & <- & _).
    unfold cols_ok, desc_cols, f64, fsize, src_cols_struct, src_grad_colsize, src_grad_out_channels;
      cbn [g_colsize g_desc f_type f_d0 f_d1 f_d2]. ring.
Qed.

(* ---- range checks ---------------------------------------------------------------------------------- *)
Lemma fold_min_le a l : fold_right Z.min a l <= a /\ forall x, In x l -> fold_right Z.min a l <= x.
Proof.
  induction l as [|y l [IH1 IH2]]; cbn; [split; [lia | intros ? []]|].
  split; [lia|]. intros x [->|H]; [lia|]. specialize (IH2 x H). lia.
Qed.
Lemma fold_max_ge a l : a <= fold_right Z.max a l /\ forall x, In x l -> x <= fold_right Z.max a l.
Proof.
  induction l as [|y l [IH1 IH2]]; cbn; [split; [lia | intros ? []]|].
  split; [lia|]. intros x [->|H]; [lia|]. specialize (IH2 x H). lia.
Qed.
Lemma fold_min_in a l : fold_right Z.min a l = a \/ In (fold_right Z.min a l) l.
Proof.
  induction l as [|y l IH]; cbn; [left; reflexivity|].
  destruct (Z.min_spec y (fold_right Z.min a l)) as [[_ ->]|[_ ->]]; [right; left; reflexivity|].
  destruct IH; [left; auto | right; right; auto].
Qed.
Lemma fold_max_in a l : fold_right Z.max a l = a \/ In (fold_right Z.max a l) l.
Proof.
  induction l as [|y l IH]; cbn; [left; reflexivity|].
  destruct (Z.max_spec y (fold_right Z.max a l)) as [[_ ->]|[_ ->]]; [|right; left; reflexivity].
  destruct IH; [left; auto | right; right; auto].
Qed.

Lemma check_samples_sound n samples : check_samples n samples = true -> Forall (fun s => 0 <= s < n) samples.
Proof.
  unfold check_samples, src_check_samples_empty. destruct (Z.of_nat (length samples) =? 0) eqn:Hempty.
  { intros _. apply Z.eqb_eq in Hempty. destruct samples; [constructor | simpl length in Hempty; lia]. }
  unfold src_check_samples_bad, lmin, lmax. intro H.
  apply negb_true_iff, orb_false_iff in H. destruct H as [H1 H2].
  apply Z.ltb_ge in H1. rewrite Z.geb_leb in H2. apply Z.leb_gt in H2.
  apply Forall_forall. intros x Hx.
  pose proof (proj2 (fold_min_le (hd 0 samples) samples) x Hx).
  pose proof (proj2 (fold_max_ge (hd 0 samples) samples) x Hx). lia.
Qed.

Lemma check_samples_complete n samples :
  samples <> [] -> Forall (fun s => 0 <= s < n) samples -> check_samples n samples = true.
Proof.
  intros Hne H. rewrite Forall_forall in H.
  assert (Hhd : In (hd 0 samples) samples) by (destruct samples; [congruence | left; reflexivity]).
  unfold check_samples, src_check_samples_empty. destruct (Z.of_nat (length samples) =? 0) eqn:Hempty; [reflexivity|].
  unfold src_check_samples_bad, lmin, lmax.
  apply negb_true_iff, orb_false_iff. rewrite Z.geb_leb. split; [apply Z.ltb_ge | apply Z.leb_gt].
  - destruct (fold_min_in (hd 0 samples) samples) as [->|Hi]; [apply H; auto | apply H in Hi; lia].
  - destruct (fold_max_in (hd 0 samples) samples) as [->|Hi]; [apply H; auto | apply H in Hi; lia].
Qed.

Lemma check_feature_iff gs f : check_feature gs f = true <-> 0 <= f < features gs.
Proof.
  unfold check_feature, src_check_feature_bad. rewrite negb_true_iff, orb_false_iff, Z.ltb_ge, Z.geb_leb, Z.leb_gt. lia.
Qed.

Lemma s_range_rejected : forall rd n gs fl samples f st,
  (Exists (fun s => s < 0 \/ n <= s) samples ->
     flatten rd n gs fl samples = None /\ select rd n gs fl samples f = None) /\
  (Exists (fun s => s < 0 \/ s_samples st <= s) samples ->
     targets st samples = None /\ target_select st samples = None) /\
  (~ 0 <= f < features gs ->
     select rd n gs fl samples f = None /\ apply_op gs fl (ODrop f) = None /\
     forall p, apply_op gs fl (OShuffle f p) = None) /\
  (forall rows, flatten rd n gs fl samples = Some rows -> Forall (fun s => 0 <= s < n) samples) /\
  (forall vs, select rd n gs fl samples f = Some vs -> Forall (fun s => 0 <= s < n) samples /\ 0 <= f < features gs) /\
  (samples <> [] -> Forall (fun s => 0 <= s < n) samples -> flatten rd n gs fl samples <> None).
Proof.
  intros rd n gs fl samples f st.
  assert (Hbad : forall m, Exists (fun s => s < 0 \/ m <= s) samples -> check_samples m samples = false).
  { intros m Hex. destruct (check_samples m samples) eqn:E; [|reflexivity].
    apply check_samples_sound in E. rewrite Forall_forall in E. apply Exists_exists in Hex.
    destruct Hex as (x & Hx & Hb). apply E in Hx. lia. }
  split; [|split; [|split; [|split; [|split]]]].
  - intro Hex. unfold flatten, select. rewrite (Hbad n Hex). auto.
  - intro Hex. unfold targets, target_select. rewrite (Hbad _ Hex). auto.
  - intro Hf. assert (Hc : check_feature gs f = false).
    { destruct (check_feature gs f) eqn:E; [apply check_feature_iff in E; contradiction | reflexivity]. }
    unfold select, apply_op. rewrite Hc, andb_false_r. auto.
  - intros rows H. unfold flatten in H. destruct (check_samples n samples) eqn:E; [|discriminate].
    apply check_samples_sound; auto.
  - intros vs H. unfold select in H. destruct (check_samples n samples) eqn:E; [|discriminate].
    destruct (check_feature gs f) eqn:E2; [|discriminate].
    split; [apply check_samples_sound; auto | apply check_feature_iff; auto].
  - intros Hne Hall. unfold flatten. rewrite check_samples_complete by auto. discriminate.
Qed.

(* ---------------------------------------------------------------------------------------------- *)
(* bookkeeping: feature mapping = locate, counts                                                   *)
(* ---------------------------------------------------------------------------------------------- *)
Lemma nth_zseq n k d : 0 <= k < n -> nth (Z.to_nat k) (zseq n) d = k.
Proof.
  intro H. unfold zseq.
  rewrite (nth_indep _ d (Z.of_nat 0)) by (rewrite map_length, seq_length; lia).
  rewrite map_nth, seq_nth by lia. lia.
Qed.
Lemma zlen_zseq n : 0 <= n -> zlen (zseq n) = n.
Proof. intro H. unfold zlen, zseq. rewrite map_length, seq_length. lia. Qed.
Lemma zlen_nonneg {A} (l : list A) : 0 <= zlen l.
Proof. unfold zlen; lia. Qed.

Lemma features_cons fs gs : total_features (fs :: gs) = zlen fs + total_features gs.
Proof. reflexivity. Qed.
Lemma total_features_nonneg gs : 0 <= total_features gs.
Proof. induction gs as [|fs gs IH]; [cbn; lia|]. rewrite features_cons. pose proof (zlen_nonneg fs). lia. Qed.

Lemma fmap_locate : forall gs gi0 f, 0 <= f < total_features gs ->
  locate gs gi0 f = Some (znth f (fmap_gens gi0 gs) (0, 0)).
Proof.
  induction gs as [|fs gs IH]; intros gi0 f Hf; [cbn in Hf; lia|].
  rewrite features_cons in Hf. cbn [locate fmap_gens]. unfold znth.
  assert (Lm : length (map (fun li => (gi0, li)) (zseq (zlen fs))) = length fs).
  { rewrite map_length. pose proof (zlen_zseq (zlen fs) (zlen_nonneg fs)). unfold zlen in *. lia. }
  destruct (Z.ltb_spec f (zlen fs)).
  - rewrite app_nth1 by (unfold zlen in *; lia).
    rewrite (nth_indep _ (0, 0) ((fun li => (gi0, li)) 0)) by (unfold zlen in *; lia).
    rewrite map_nth, nth_zseq by lia. reflexivity.
  - rewrite app_nth2 by (unfold zlen in *; lia). rewrite Lm.
    rewrite IH by lia. unfold znth. do 2 f_equal. unfold zlen. lia.
Qed.

Lemma locate_range : forall gs gi0 f gi li, 0 <= f -> locate gs gi0 f = Some (gi, li) ->
  gi0 <= gi /\ 0 <= li /\ (Z.to_nat (gi - gi0) < length gs)%nat /\ li < zlen (nth (Z.to_nat (gi - gi0)) gs []).
Proof.
  induction gs as [|fs gs IH]; intros gi0 f gi li Hf H; cbn in H; [discriminate|].
  destruct (Z.ltb_spec f (zlen fs)).
  - inversion H; subst. rewrite Z.sub_diag. cbn. repeat split; lia.
  - apply IH in H; [|lia]. destruct H as (H1 & H2 & H3 & H4).
    replace (Z.to_nat (gi - gi0)) with (S (Z.to_nat (gi - (gi0 + 1)))) by lia. cbn. repeat split; lia.
Qed.

Lemma locate_inj : forall gs gi0 f f' p, 0 <= f -> 0 <= f' ->
  locate gs gi0 f = Some p -> locate gs gi0 f' = Some p -> f = f'.
Proof.
  induction gs as [|fs gs IH]; intros gi0 f f' [gi li] Hf Hf' H H'; cbn in H, H'; [discriminate|].
  destruct (Z.ltb_spec f (zlen fs)); destruct (Z.ltb_spec f' (zlen fs)).
  - inversion H; inversion H'; subst. auto.
  - inversion H; subst. apply locate_range in H'; lia.
  - inversion H'; subst. apply locate_range in H; lia.
  - assert (f - zlen fs = f' - zlen fs) by (eapply IH; eauto; lia). lia.
Qed.

(* ---------------------------------------------------------------------------------------------- *)
(* drop / shuffle histories                                                                        *)
(* ---------------------------------------------------------------------------------------------- *)
Definition shape_ok (gs : gens) (fl : flags) : Prop := map (@length flag) fl = map (@length gfeat) gs.

Lemma upd_const_length {A} n (v : A) l : length (upd n (fun _ => v) l) = length l.
Proof. apply upd_length. Qed.

Lemma set_flag_shape gs fl gi li v : shape_ok gs fl -> shape_ok gs (set_flag fl gi li v).
Proof.
  unfold shape_ok, set_flag. intro H. rewrite <- H. clear H.
  generalize (Z.to_nat gi) as n. induction fl as [|r fl IH]; intros [|n]; cbn; auto.
  - rewrite upd_length. reflexivity.
  - f_equal. apply IH.
Qed.
Lemma reset_shape gs fl : shape_ok gs fl -> shape_ok gs (reset_flags fl).
Proof.
  unfold shape_ok, reset_flags. intro H. rewrite <- H. rewrite map_map. apply map_ext. intro r. apply map_length.
Qed.
Lemma init_shape gs : shape_ok gs (flags_init gs).
Proof. unfold shape_ok, flags_init. rewrite map_map. apply map_ext. intro r. apply map_length. Qed.

Lemma get_reset fl gi li : get_flag (reset_flags fl) gi li = Normal.
Proof.
  unfold get_flag, reset_flags, znth.
  destruct (nth_in_or_default (Z.to_nat gi) (map (map (fun _ : flag => Normal)) fl) []) as [H|H].
  - apply in_map_iff in H. destruct H as (r & <- & _).
    destruct (nth_in_or_default (Z.to_nat li) (map (fun _ : flag => Normal) r) Normal) as [H|H].
    + apply in_map_iff in H. destruct H as (? & <- & _). reflexivity.
    + auto.
  - rewrite H. destruct (Z.to_nat li); reflexivity.
Qed.

Lemma get_set_same fl gi li v : 0 <= gi -> 0 <= li ->
  (Z.to_nat gi < length fl)%nat -> (Z.to_nat li < length (nth (Z.to_nat gi) fl []))%nat ->
  get_flag (set_flag fl gi li v) gi li = v.
Proof.
  intros Hg Hl H1 H2. unfold get_flag, set_flag, znth.
  rewrite nth_upd_eq by auto. rewrite nth_upd_eq by auto. reflexivity.
Qed.
Lemma get_set_other fl gi li v gi' li' : 0 <= gi -> 0 <= li -> 0 <= gi' -> 0 <= li' ->
  (gi', li') <> (gi, li) -> get_flag (set_flag fl gi li v) gi' li' = get_flag fl gi' li'.
Proof.
  intros Hg Hl Hg' Hl' Hne. unfold get_flag, set_flag, znth.
  destruct (Z.eq_dec gi gi') as [<-|Ng].
  - destruct (Nat.lt_ge_cases (Z.to_nat gi) (length fl)) as [Lt|Ge].
    + rewrite nth_upd_eq by auto. rewrite nth_upd_neq; [reflexivity|]. intro E. apply Hne. f_equal. lia.
    + assert (forall A n (f : A -> A) (l : list A), (length l <= n)%nat -> upd n f l = l) as Hup.
      { intros A n f l. revert n. induction l; intros [|n] Hn; cbn in *; try lia; auto. f_equal. apply IHl. lia. }
      rewrite Hup by auto. reflexivity.
  - rewrite nth_upd_neq; [reflexivity|]. intro E. apply Ng. lia.
Qed.

Definition ostep (f : Z) (acc : flag) (o : op) : flag :=
  match o with
  | ODrop g => if g =? f then Dropped else acc
  | OShuffle g p => if g =? f then Shuffled p else acc
  | OUndrop | OUnshuffle => Normal
  end.
(* the flag of feature f after a history, declaratively: the last operation on f after the last undo *)
Definition spec_flag (ops : list op) (f : Z) : flag := fold_left (ostep f) ops Normal.

Lemma locate_shape gs fl f gi li : shape_ok gs fl -> 0 <= f -> locate gs 0 f = Some (gi, li) ->
  0 <= gi /\ 0 <= li /\ (Z.to_nat gi < length fl)%nat /\ (Z.to_nat li < length (nth (Z.to_nat gi) fl []))%nat.
Proof.
  intros Hs Hf H. apply locate_range in H; auto. destruct H as (H1 & H2 & H3 & H4).
  rewrite Z.sub_0_r in *. unfold shape_ok in Hs.
  assert (L : length fl = length gs) by (rewrite <- (map_length (@length flag) fl), Hs, map_length; reflexivity).
  assert (L2 : length (nth (Z.to_nat gi) fl []) = length (nth (Z.to_nat gi) gs [])).
  { change (length (nth (Z.to_nat gi) fl [])) with ((fun r => @length flag r) (nth (Z.to_nat gi) fl [])).
    rewrite <- (map_nth (@length flag)). rewrite Hs.
    change (length (@nil flag)) with (length (@nil gfeat)). rewrite (map_nth (@length gfeat)). reflexivity. }
  unfold zlen in H4. repeat split; lia.
Qed.

Lemma run_ops_gen : forall ops gs fl fl' (acc : Z -> flag),
  shape_ok gs fl -> run_ops gs fl ops = Some fl' ->
  (forall f, 0 <= f < features gs -> flag_of gs fl f = acc f) ->
  shape_ok gs fl' /\ forall f, 0 <= f < features gs -> flag_of gs fl' f = fold_left (ostep f) ops (acc f).
Proof.
  induction ops as [|o ops IH]; intros gs fl fl' acc Hs Hrun Hacc; cbn in Hrun.
  - inversion Hrun; subst. split; auto.
  - destruct (apply_op gs fl o) as [fl1|] eqn:E; [|discriminate].
    cbn [fold_left].
    assert (Hstep : shape_ok gs fl1 /\ forall f, 0 <= f < features gs -> flag_of gs fl1 f = ostep f (acc f) o).
    { destruct o as [g| |g p|]; cbn in E.
      - destruct (check_feature gs g) eqn:C; [|discriminate]. apply check_feature_iff in C.
        pose proof (fmap_locate gs 0 g C) as Lg. fold (feature_mapping gs) in Lg.
        destruct (znth g (feature_mapping gs) (0, 0)) as [gi li] eqn:Eg. inversion E; subst fl1.
        split; [apply set_flag_shape; auto|]. intros f Hf. unfold flag_of.
        pose proof (fmap_locate gs 0 f Hf) as Lf. fold (feature_mapping gs) in Lf.
        destruct (znth f (feature_mapping gs) (0, 0)) as [gi' li'] eqn:Ef.
        destruct (locate_shape gs fl g gi li Hs ltac:(lia) Lg) as (A1 & A2 & A3 & A4).
        destruct (locate_shape gs fl f gi' li' Hs ltac:(lia) Lf) as (B1 & B2 & B3 & B4).
        cbn [ostep]. destruct (Z.eqb_spec g f) as [->|Ne].
        + rewrite Lg in Lf. inversion Lf; subst. apply get_set_same; auto.
        + rewrite get_set_other; auto.
          * rewrite <- Hacc by auto. unfold flag_of. rewrite Ef. reflexivity.
          * intro Eq. inversion Eq; subst. apply Ne. eapply (locate_inj gs 0 g f); eauto; lia.
      - inversion E; subst. split; [apply reset_shape; auto|]. intros f Hf. unfold flag_of.
        destruct (znth f (feature_mapping gs) (0, 0)). apply get_reset.
      - destruct (check_feature gs g) eqn:C; [|discriminate]. apply check_feature_iff in C.
        pose proof (fmap_locate gs 0 g C) as Lg. fold (feature_mapping gs) in Lg.
        destruct (znth g (feature_mapping gs) (0, 0)) as [gi li] eqn:Eg. inversion E; subst fl1.
        split; [apply set_flag_shape; auto|]. intros f Hf. unfold flag_of.
        pose proof (fmap_locate gs 0 f Hf) as Lf. fold (feature_mapping gs) in Lf.
        destruct (znth f (feature_mapping gs) (0, 0)) as [gi' li'] eqn:Ef.
        destruct (locate_shape gs fl g gi li Hs ltac:(lia) Lg) as (A1 & A2 & A3 & A4).
        destruct (locate_shape gs fl f gi' li' Hs ltac:(lia) Lf) as (B1 & B2 & B3 & B4).
        cbn [ostep]. destruct (Z.eqb_spec g f) as [->|Ne].
        + rewrite Lg in Lf. inversion Lf; subst. apply get_set_same; auto.
        + rewrite get_set_other; auto.
          * rewrite <- Hacc by auto. unfold flag_of. rewrite Ef. reflexivity.
          * intro Eq. inversion Eq; subst. apply Ne. eapply (locate_inj gs 0 g f); eauto; lia.
      - inversion E; subst. split; [apply reset_shape; auto|]. intros f Hf. unfold flag_of.
        destruct (znth f (feature_mapping gs) (0, 0)). apply get_reset. }
    destruct Hstep as [Hs1 Hf1].
    apply (IH gs fl1 fl' (fun f => ostep f (acc f) o)); auto.
Qed.

Lemma init_flag gs f : flag_of gs (flags_init gs) f = Normal.
Proof.
  unfold flag_of. destruct (znth f (feature_mapping gs) (0, 0)) as [gi li].
  unfold get_flag, flags_init, znth.
  destruct (nth_in_or_default (Z.to_nat gi) (map (fun fs : list gfeat => map (fun _ => Normal) fs) gs) []) as [H|H].
  - apply in_map_iff in H. destruct H as (r & <- & _).
    destruct (nth_in_or_default (Z.to_nat li) (map (fun _ : gfeat => Normal) r) Normal) as [H|H]; auto.
    apply in_map_iff in H. destruct H as (? & <- & _). reflexivity.
  - rewrite H. destruct (Z.to_nat li); reflexivity.
Qed.

Lemma s_history : forall gs ops fl,
  run_ops gs (flags_init gs) ops = Some fl ->
  forall f, 0 <= f < features gs -> flag_of gs fl f = spec_flag ops f.
Proof.
  intros gs ops fl Hrun f Hf.
  destruct (run_ops_gen ops gs (flags_init gs) fl (fun _ => Normal) (init_shape gs) Hrun) as [_ H].
  - intros; apply init_flag.
  - apply H; auto.
Qed.

(* ---------------------------------------------------------------------------------------------- *)
(* bookkeeping: columns and column2feature                                                         *)
(* ---------------------------------------------------------------------------------------------- *)
Definition dcols (g : gfeat) : Z := desc_cols (g_desc g).
Fixpoint c2f_flat (fs : list gfeat) (gf : Z) : list Z :=
  match fs with [] => [] | g :: r => zrepeat gf (dcols g) ++ c2f_flat r (gf + 1) end.

Lemma c2f_flat_app a b gf : c2f_flat (a ++ b) gf = c2f_flat a gf ++ c2f_flat b (gf + zlen a).
Proof.
  revert gf; induction a as [|g a IH]; intro gf; cbn.
  - f_equal. unfold zlen; cbn; lia.
  - rewrite IH, <- app_assoc. do 3 f_equal. unfold zlen; cbn [length]. lia.
Qed.

Lemma map_const_repeat {A B} (c : B) (l : list A) : map (fun _ => c) l = repeat c (length l).
Proof. induction l; cbn; congruence. Qed.

Lemma colmap_feats_snd gi fs gf : map snd (colmap_feats gi fs gf) = c2f_flat fs gf.
Proof.
  revert gf; induction fs as [|g fs IH]; intro gf; cbn; [reflexivity|].
  rewrite map_app, IH. f_equal. rewrite map_map. cbn [snd]. unfold zseq, zrepeat, dcols.
  rewrite map_map. rewrite map_const_repeat, seq_length. reflexivity.
Qed.

Lemma colmap_gens_snd : forall gs gi gf, map snd (colmap_gens gi gs gf) = c2f_flat (concat gs) gf.
Proof.
  induction gs as [|fs gs IH]; intros gi gf; cbn; [reflexivity|].
  rewrite map_app, colmap_feats_snd, IH, c2f_flat_app. reflexivity.
Qed.

Lemma c2f_flat_len fs gf : Forall (fun g => 0 <= dcols g) fs -> zlen (c2f_flat fs gf) = zsum (map dcols fs).
Proof.
  revert gf; induction fs as [|g fs IH]; intros gf H; cbn; [reflexivity|].
  inversion H; subst. rewrite zlen_app, zlen_zrepeat, IH by auto. reflexivity.
Qed.

Lemma nth_repeat_lt {A} (a d : A) n m : (n < m)%nat -> nth n (repeat a m) d = a.
Proof. revert n; induction m; intros [|n] H; cbn; try lia; auto. apply IHm; lia. Qed.

Lemma in_firstn {A} k (l : list A) x : In x (firstn k l) -> In x l.
Proof. intro H. rewrite <- (firstn_skipn k l). apply in_or_app. left. exact H. Qed.

Lemma c2f_flat_nth : forall fs gf k i d,
  Forall (fun g => 0 <= dcols g) fs -> (k < length fs)%nat ->
  0 <= i < dcols (nth k fs (mkG GScalar 0 0 dflt_feature 1)) ->
  nth (Z.to_nat (zsum (map dcols (firstn k fs)) + i)) (c2f_flat fs gf) d = gf + Z.of_nat k.
Proof.
  induction fs as [|g fs IH]; intros gf k i d Hn Hk Hi; [cbn in Hk; lia|].
  inversion Hn; subst. cbn [c2f_flat].
  destruct k as [|k]; cbn [firstn map zsum fold_right nth] in *.
  - rewrite app_nth1 by (pose proof (zlen_zrepeat gf (dcols g) H1); unfold zlen in *; lia).
    unfold zrepeat. rewrite nth_repeat_lt by lia. lia.
  - assert (Hs : 0 <= zsum (map dcols (firstn k fs))).
    { rewrite <- (c2f_flat_len (firstn k fs) 0); [apply zlen_nonneg|].
      apply Forall_forall. intros x Hx. rewrite Forall_forall in H2. apply H2. eapply in_firstn; eauto. }
    fold (zsum (map dcols (firstn k fs))).
    pose proof (zlen_zrepeat gf (dcols g) H1) as Lz.
    rewrite app_nth2 by (unfold zlen in *; lia).
    replace (Z.to_nat (dcols g + zsum (map dcols (firstn k fs)) + i) - length (zrepeat gf (dcols g)))%nat
      with (Z.to_nat (zsum (map dcols (firstn k fs)) + i)) by (unfold zlen in *; lia).
    rewrite IH; auto; [lia | cbn in Hk; lia].
Qed.

Lemma zsum_app a b : zsum (a ++ b) = zsum a + zsum b.
Proof. induction a; cbn [app]; unfold zsum in *; cbn [fold_right]; [reflexivity | rewrite IHa; lia]. Qed.

Lemma zsum_cons x l : zsum (x :: l) = x + zsum l.
Proof. reflexivity. Qed.

Lemma columns_all gs : columns gs = zsum (map dcols (all_feats gs)).
Proof.
  unfold columns, total_columns, all_feats. induction gs as [|fs gs IH]; [reflexivity|].
  cbn [map concat]. rewrite map_app, zsum_app, zsum_cons, IH.
  replace (map (fun g => desc_cols_total (g_desc g)) fs) with (map dcols fs); [reflexivity|].
  apply map_ext. intro g. symmetry. apply desc_cols_total_eq.
Qed.

Lemma features_all gs : features gs = zlen (all_feats gs).
Proof.
  unfold features, total_features, all_feats. induction gs as [|fs gs IH]; [reflexivity|].
  cbn [map concat]. rewrite zlen_app, zsum_cons, IH. reflexivity.
Qed.

Lemma fmap_len gs gi : zlen (fmap_gens gi gs) = total_features gs.
Proof.
  revert gi; induction gs as [|fs gs IH]; intro gi; [reflexivity|].
  cbn [fmap_gens]. rewrite features_cons, zlen_app, IH.
  unfold zlen at 1. rewrite map_length. fold (zlen (zseq (zlen fs))). rewrite zlen_zseq by apply zlen_nonneg. reflexivity.
Qed.

Lemma zsum_map_nonneg {A} (h : A -> Z) l : Forall (fun g => 0 <= h g) l -> 0 <= zsum (map h l).
Proof. induction 1; cbn [map]; [cbn; lia | rewrite zsum_cons; lia]. Qed.

Lemma zsum_prefix {A} (h : A -> Z) : forall l k d, Forall (fun g => 0 <= h g) l -> (k < length l)%nat ->
  0 <= zsum (map h (firstn k l)) /\ zsum (map h (firstn k l)) + h (nth k l d) <= zsum (map h l).
Proof.
  induction l as [|a l IH]; intros k d Hn Hk; [cbn in Hk; lia|].
  inversion Hn; subst. pose proof (zsum_map_nonneg h l H2).
  destruct k as [|k]; cbn [firstn map nth]; rewrite ?zsum_cons.
  - cbn. lia.
  - destruct (IH k d H2) as [I1 I2]; [cbn in Hk; lia|]. lia.
Qed.

Lemma s_bookkeeping : forall gs,
  Forall (fun g => 0 <= dcols g) (all_feats gs) ->
  columns gs = zlen (column_mapping gs) /\
  columns gs = zsum (map dcols (all_feats gs)) /\
  features gs = zlen (feature_mapping gs) /\ features gs = zlen (all_feats gs) /\
  (forall f, 0 <= f < features gs -> locate gs 0 f = Some (znth f (feature_mapping gs) (0, 0))) /\
  (forall f i, 0 <= f < features gs ->
     0 <= i < dcols (znth f (all_feats gs) (mkG GScalar 0 0 dflt_feature 1)) ->
     column2feature gs (col_offset gs f + i) = f /\ 0 <= col_offset gs f + i < columns gs).
Proof.
  intros gs Hn.
  pose proof (columns_all gs) as Hcols.
  assert (Hmap : map snd (column_mapping gs) = c2f_flat (all_feats gs) 0) by apply colmap_gens_snd.
  assert (Hlen : zlen (column_mapping gs) = zsum (map dcols (all_feats gs))).
  { rewrite <- (c2f_flat_len (all_feats gs) 0 Hn), <- Hmap. unfold zlen. rewrite map_length. reflexivity. }
  pose proof (features_all gs) as Hfeat.
  split; [lia|]. split; [auto|]. split; [|split; [auto|split]].
  - symmetry. apply fmap_len.
  - intros f Hf. apply fmap_locate. exact Hf.
  - intros f i Hf Hi. unfold znth in Hi.
    assert (Hk : (Z.to_nat f < length (all_feats gs))%nat) by (unfold zlen in Hfeat; lia).
    pose proof (c2f_flat_nth (all_feats gs) 0 (Z.to_nat f) i (-1) Hn Hk Hi) as Hnth.
    split.
    + unfold column2feature, znth.
      rewrite <- (map_nth snd (column_mapping gs) (0, 0, -1)), Hmap.
      change (nth (Z.to_nat (zsum (map dcols (firstn (Z.to_nat f) (all_feats gs))) + i)) (c2f_flat (all_feats gs) 0) (-1) = f).
      rewrite Hnth. lia.
    + change (col_offset gs f) with (zsum (map dcols (firstn (Z.to_nat f) (all_feats gs)))). rewrite Hcols.
      pose proof (zsum_prefix dcols (all_feats gs) (Z.to_nat f) (mkG GScalar 0 0 dflt_feature 1) Hn Hk) as [P1 P2].
      lia.
Qed.

(* ---- statements used by Properties_C08 -------------------------------------------------------------- *)
Lemma t_storage_disjoint : forall fs rs tot,
  assign (repeat 0 npools) fs = (rs, tot) -> Forall (fun f => 0 <= width f) fs ->
  length rs = length fs /\
  (forall i f b e, nth_error fs i = Some f -> nth_error rs i = Some (b, e) ->
     0 <= b /\ e = b + width f /\ e <= nth (pool_idx (pool_resize f)) tot 0) /\
  (forall i j fi fj bi ei bj ej, (i < j)%nat ->
     nth_error fs i = Some fi -> nth_error fs j = Some fj ->
     nth_error rs i = Some (bi, ei) -> nth_error rs j = Some (bj, ej) ->
     pool_resize fi = pool_resize fj -> ei <= bj) /\
  (forall f, pool_visit f = pool_resize f).
Proof.
  intros fs rs tot E Hw.
  destruct (assign_spec _ _ _ _ E (repeat_length _ _) Hw) as (L1 & L2 & M & S & D).
  split; [auto|]. split; [|split].
  - intros i f b e Hf Hr. destruct (S _ _ _ _ Hf Hr) as (S1 & S2 & S3). rewrite nth_repeat0 in S1.
    unfold pool_of in S3. auto.
  - intros i j fi fj bi ei bj ej Hij Hfi Hfj Hri Hrj Hp. eapply (D i j); eauto. unfold pool_of. rewrite Hp. reflexivity.
  - apply pool_agree.
Qed.

Lemma t_storage_set_get : forall st fi s vals st',
  layout_ok st -> 0 <= fi < zlen (s_feats st) -> 0 <= s < s_samples st ->
  ds_set st fi s vals = Some st' ->
  layout_ok st' /\ ds_get st' fi s = Some vals /\
  (forall fj sj, 0 <= fj < zlen (s_feats st) -> 0 <= sj < s_samples st -> (fj <> fi \/ sj <> s) ->
     ds_get st' fj sj = ds_get st fj sj).
Proof.
  intros st fi s vals st' Hl Hfi Hs Hset. split; [|split].
  - apply (set_layout st fi s vals st'); auto.
  - apply (get_same st fi s vals st'); auto.
  - intros. apply (get_other st fi s vals st'); auto.
Qed.

Lemma t_reads_in_bounds : forall st fj sj,
  layout_ok st -> 0 <= fj < zlen (s_feats st) -> 0 <= sj < s_samples st ->
  let g := znth fj (s_feats st) dflt_feature in
  0 <= cell_addr st fj sj /\
  cell_addr st fj sj + width g <= zlen (nth (pool_idx (pool_visit g)) (s_pools st) []).
Proof.
  intros st fj sj Hl Hf Hs g.
  destruct (cell_block st 0 Hl fj sj Hf Hs) as (W & B & E & A1 & A2 & A3 & A4).
  fold g in W, E, A1, A2, A3, A4. rewrite pool_agree. fold (pool_of g).
  destruct Hl as (HN & _). split; [nia | lia].
Qed.

Lemma spec_flag_app ops o f : spec_flag (ops ++ [o]) f = ostep f (spec_flag ops f) o.
Proof. unfold spec_flag. rewrite fold_left_app. reflexivity. Qed.

Lemma t_history : forall gs ops fl,
  run_ops gs (flags_init gs) ops = Some fl ->
  (forall f, 0 <= f < features gs -> flag_of gs fl f = spec_flag ops f) /\
  (forall f, spec_flag (ops ++ [OUndrop]) f = Normal /\ spec_flag (ops ++ [OUnshuffle]) f = Normal) /\
  (forall f g, f <> g -> spec_flag (ops ++ [ODrop g]) f = spec_flag ops f /\ spec_flag (ops ++ [ODrop g]) g = Dropped) /\
  (forall f g p, f <> g -> spec_flag (ops ++ [OShuffle g p]) f = spec_flag ops f /\
                           spec_flag (ops ++ [OShuffle g p]) g = Shuffled p) /\
  (forall p s, p <> [] -> eff_sample (Shuffled p) s = znth s p 0) /\
  (forall s, eff_sample Normal s = s).
Proof.
  intros gs ops fl Hrun. split; [intros; eapply s_history; eauto|].
  split; [intro f; rewrite !spec_flag_app; split; reflexivity|].
  split; [|split; [|split]].
  - intros f g Hne. rewrite !spec_flag_app. cbn [ostep]. rewrite Z.eqb_refl.
    destruct (Z.eqb_spec g f); [congruence | auto].
  - intros f g p Hne. rewrite !spec_flag_app. cbn [ostep]. rewrite Z.eqb_refl.
    destruct (Z.eqb_spec g f); [congruence | auto].
  - intros p s Hp. cbn [eff_sample]. destruct p; [congruence|]. reflexivity.
  - reflexivity.
Qed.

Lemma nth_map_lt {A B} (f : A -> B) l n d d' : (n < length l)%nat -> nth n (map f l) d = f (nth n l d').
Proof. revert n; induction l; intros [|n] H; cbn in *; try lia; auto. apply IHl; lia. Qed.

Lemma t_encoders : forall rd g fl s,
  (is_dropped fl = true ->
     select_view rd g fl s = match f_type (g_desc g) with
                             | TSclass => VSclass (-1)
                             | TMclass => VMclass (zrepeat (-1) (f_classes (g_desc g)))
                             | _ => if fsize (g_desc g) =? 1 then VScalar None else VStruct (zrepeat None (fsize (g_desc g)))
                             end) /\
  (is_dropped fl = false -> g_kind g <> GProduct -> g_kind g <> GGradient ->
     select_view rd g fl s =
     match f_type (g_desc g), rd (g_o1 g) (eff_sample fl s) with
     | TSclass, Some v => VSclass (hd 0 v)        | TSclass, None => VSclass (-1)
     | TMclass, Some v => VMclass v               | TMclass, None => VMclass (zrepeat (-1) (f_classes (g_desc g)))
     | _, Some v => if fsize (g_desc g) =? 1 then VScalar (Some (hd 0 v)) else VStruct (map Some v)
     | _, None => if fsize (g_desc g) =? 1 then VScalar None else VStruct (zrepeat None (fsize (g_desc g)))
     end) /\
  (is_dropped fl = false -> g_kind g = GProduct -> g_desc g = f64 1 1 1 ->
     select_view rd g fl s =
     VScalar (match rd (g_o1 g) (eff_sample fl s), rd (g_o2 g) (eff_sample fl s) with
              | Some a, Some b => Some (hd 0 a * hd 0 b)
              | _, _ => None
              end)) /\
  (forall c l j, 0 <= l -> 0 <= j < c - 1 ->
     zlen (encode_view c (VSclass l)) = c - 1 /\
     znth j (encode_view c (VSclass l)) None = Some (if j =? l then 1 else -1)) /\
  (forall c, 1 <= c -> encode_view c (VSclass (-1)) = zrepeat None (c - 1)) /\
  (forall c h, 0 <= hd 0 h -> encode_view c (VMclass h) = map (fun x => Some (2 * x - 1)) h) /\
  (forall c, encode_view c (VMclass (zrepeat (-1) c)) = zrepeat None c).
Proof.
  intros rd g fl s. split; [|split; [|split; [|split; [|split; [|split]]]]].
  - intro Hd. unfold select_view. rewrite Hd.
    destruct (f_type (g_desc g)); try reflexivity; destruct (fsize (g_desc g) =? 1); reflexivity.
  - intros Hd Hp Hg. unfold select_view, gvalue. rewrite Hd.
    destruct (g_kind g); try congruence;
      destruct (f_type (g_desc g)); destruct (rd (g_o1 g) (eff_sample fl s)); try reflexivity;
      destruct (fsize (g_desc g) =? 1); reflexivity.
  - intros Hd Hp Hdesc. unfold select_view, gvalue. rewrite Hd, Hp, Hdesc. cbn.
    destruct (rd (g_o1 g) (eff_sample fl s)); [|reflexivity].
    destruct (rd (g_o2 g) (eff_sample fl s)); reflexivity.
  - intros c l j Hl Hj. cbn [encode_view]. destruct (Z.ltb_spec l 0); [lia|].
    split.
    + unfold zlen. rewrite map_length. fold (zlen (zseq (c - 1))). apply zlen_zseq. lia.
    + unfold znth.
      rewrite (nth_map_lt _ _ _ _ 0) by (pose proof (zlen_zseq (c - 1) ltac:(lia)); unfold zlen in *; lia).
      rewrite nth_zseq by lia. reflexivity.
  - intros c Hc. reflexivity.
  - intros c h Hh. cbn [encode_view]. destruct (Z.ltb_spec (hd 0 h) 0); [lia | reflexivity].
  - intro c. apply mclass_missing_enc.
Qed.

(* ---------- make_pairwise: every generated pair is (an entry of list 1, an entry of list 2) ---------- *)
Definition pw_entry_ok (m1 m2 : list Z) (e : pkey * (Z * Z)) : Prop :=
  let '(k, (i1, i2)) := e in
  0 <= i1 < zlen m1 /\ 0 <= i2 < zlen m2 /\
  k = (Z.min (znth i1 m1 0) (znth i2 m2 0), Z.max (znth i1 m1 0) (znth i2 m2 0)).

Lemma pmap_insert_in k v m e : In e (pmap_insert k v m) -> e = (k, v) \/ In e m.
Proof.
  induction m as [|[k' v'] r IH]; cbn [pmap_insert]; intros H.
  - destruct H as [H|[]]; left; symmetry; exact H.
  - destruct (pkey_eqb k k'); [right; exact H|].
    destruct (pkey_ltb k k').
    + destruct H as [H|H]; [left; symmetry; exact H|right; exact H].
    + destruct H as [H|H]; [right; left; exact H|]. destruct (IH H) as [E|E]; [left; exact E|right; right; exact E].
Qed.

Lemma pmap_insert_keeps k v m e : In e m -> In e (pmap_insert k v m).
Proof.
  induction m as [|[k' v'] r IH]; cbn [pmap_insert]; intros H; [destruct H|].
  destruct (pkey_eqb k k'); [exact H|]. destruct (pkey_ltb k k'); [right; exact H|].
  destruct H as [H|H]; [left; exact H|right; apply IH; exact H].
Qed.

Lemma pmap_insert_has_key k v m : exists v', In (k, v') (pmap_insert k v m).
Proof.
  induction m as [|[k' v'] r IH]; cbn [pmap_insert]; [exists v; left; reflexivity|].
  destruct (pkey_eqb k k') eqn:E.
  - unfold pkey_eqb in E. apply andb_true_iff in E. destruct E as [E1 E2]. apply Z.eqb_eq in E1, E2.
    exists v'. left. destruct k, k'; cbn in *; subst; reflexivity.
  - destruct (pkey_ltb k k'); [exists v; left; reflexivity|]. destruct IH as [w Hw]. exists w. right. exact Hw.
Qed.

Lemma zseq_in n i : In i (zseq n) <-> 0 <= i < n.
Proof.
  unfold zseq. rewrite in_map_iff. split.
  - intros (k & <- & Hk). apply in_seq in Hk. lia.
  - intros H. exists (Z.to_nat i). split; [lia|]. apply in_seq. lia.
Qed.

Definition pw_step (m1 m2 : list Z) (acc : list (pkey * (Z * Z))) (p : Z * Z) :=
  let '(i1, i2) := p in
  let f1 := znth i1 m1 0 in let f2 := znth i2 m2 0 in
  pmap_insert (src_pair_key_lo f1 f2, src_pair_key_hi f1 f2) (src_pair_value_first i1 i2, src_pair_value_second i1 i2) acc.

Lemma pw_fold_ok m1 m2 pairs : forall acc,
  Forall (fun p => 0 <= fst p < zlen m1 /\ 0 <= snd p < zlen m2) pairs ->
  Forall (pw_entry_ok m1 m2) acc ->
  Forall (pw_entry_ok m1 m2) (fold_left (pw_step m1 m2) pairs acc).
Proof.
  induction pairs as [|[i1 i2] ps IH]; intros acc Hp Ha; cbn [fold_left]; [exact Ha|].
  inversion Hp as [|? ? [H1 H2] Hp']; subst. cbn [fst snd] in H1, H2. apply IH; [exact Hp'|].
  apply Forall_forall. intros e He. unfold pw_step in He. apply pmap_insert_in in He. destruct He as [->|He].
  - unfold pw_entry_ok, src_pair_value_first, src_pair_value_second, src_pair_key_lo, src_pair_key_hi. repeat split; lia.
  - rewrite Forall_forall in Ha. apply Ha. exact He.
Qed.

Lemma pw_fold_has_key m1 m2 pairs : forall acc i1 i2,
  (In (i1, i2) pairs \/ exists v, In ((Z.min (znth i1 m1 0) (znth i2 m2 0), Z.max (znth i1 m1 0) (znth i2 m2 0)), v) acc) ->
  exists v, In ((Z.min (znth i1 m1 0) (znth i2 m2 0), Z.max (znth i1 m1 0) (znth i2 m2 0)), v) (fold_left (pw_step m1 m2) pairs acc).
Proof.
  induction pairs as [|[j1 j2] ps IH]; intros acc i1 i2 H; cbn [fold_left].
  - destruct H as [[]|H]. exact H.
  - apply IH. destruct H as [[E|H]|[v H]].
    + injection E as -> ->. right. unfold pw_step, src_pair_key_lo, src_pair_key_hi. apply pmap_insert_has_key.
    + left. exact H.
    + right. exists v. unfold pw_step. apply pmap_insert_keeps. exact H.
Qed.

Lemma make_pairwise_unfold m1 m2 :
  make_pairwise m1 m2 =
  map (fun '(_, (i1, i2)) => (znth i1 m1 0, znth i2 m2 0))
      (fold_left (pw_step m1 m2) (flat_map (fun i1 => map (fun i2 => (i1, i2)) (zseq (zlen m2))) (zseq (zlen m1))) []).
Proof. reflexivity. Qed.

Lemma znth_In (i : Z) (l : list Z) : 0 <= i < zlen l -> In (znth i l 0) l.
Proof. intro H. unfold znth. apply nth_In. unfold zlen in H. lia. Qed.

(* every generated pair takes its first source from list 1 and its second source from list 2 *)
Lemma make_pairwise_sources m1 m2 a b : In (a, b) (make_pairwise m1 m2) -> In a m1 /\ In b m2.
Proof.
  rewrite make_pairwise_unfold. intros H. apply in_map_iff in H. destruct H as ([k [i1 i2]] & E & He).
  injection E as <- <-.
  assert (Hall : Forall (pw_entry_ok m1 m2)
            (fold_left (pw_step m1 m2) (flat_map (fun i1 => map (fun i2 => (i1, i2)) (zseq (zlen m2))) (zseq (zlen m1))) [])).
  { apply pw_fold_ok; [|constructor]. apply Forall_forall. intros [j1 j2] Hj. apply in_flat_map in Hj. destruct Hj as (x & Hx & Hj).
    apply in_map_iff in Hj. destruct Hj as (y & E & Hy). injection E as <- <-. apply zseq_in in Hx, Hy. cbn. lia. }
  rewrite Forall_forall in Hall. specialize (Hall _ He). cbn in Hall. destruct Hall as (H1 & H2 & _).
  split; apply znth_In; assumption.
Qed.

(* and every unordered pair {a, b} with a in list 1, b in list 2 is generated (as some pair with the same min / max) *)
Lemma make_pairwise_complete m1 m2 a b : In a m1 -> In b m2 ->
  exists a' b', In (a', b') (make_pairwise m1 m2) /\ Z.min a' b' = Z.min a b /\ Z.max a' b' = Z.max a b.
Proof.
  intros Ha Hb. apply (In_nth _ _ 0) in Ha, Hb. destruct Ha as (n1 & L1 & E1). destruct Hb as (n2 & L2 & E2).
  set (i1 := Z.of_nat n1). set (i2 := Z.of_nat n2).
  assert (Z1 : znth i1 m1 0 = a) by (unfold znth, i1; rewrite Nat2Z.id; exact E1).
  assert (Z2 : znth i2 m2 0 = b) by (unfold znth, i2; rewrite Nat2Z.id; exact E2).
  destruct (pw_fold_has_key m1 m2 (flat_map (fun i1 => map (fun i2 => (i1, i2)) (zseq (zlen m2))) (zseq (zlen m1))) [] i1 i2) as [[j1 j2] Hv].
  { left. apply in_flat_map. exists i1. split; [apply zseq_in; unfold zlen, i1; lia|].
    apply in_map_iff. exists i2. split; [reflexivity|apply zseq_in; unfold zlen, i2; lia]. }
  assert (Hall : Forall (pw_entry_ok m1 m2)
            (fold_left (pw_step m1 m2) (flat_map (fun i1 => map (fun i2 => (i1, i2)) (zseq (zlen m2))) (zseq (zlen m1))) [])).
  { apply pw_fold_ok; [|constructor]. apply Forall_forall. intros [k1 k2] Hj. apply in_flat_map in Hj. destruct Hj as (x & Hx & Hj).
    apply in_map_iff in Hj. destruct Hj as (y & E & Hy). injection E as <- <-. apply zseq_in in Hx, Hy. cbn. lia. }
  rewrite Forall_forall in Hall. pose proof (Hall _ Hv) as Hok. cbn in Hok. destruct Hok as (_ & _ & Hk).
  exists (znth j1 m1 0), (znth j2 m2 0). split.
  - rewrite make_pairwise_unfold. apply in_map_iff. eexists. split; [|exact Hv]. reflexivity.
  - rewrite Z1, Z2 in Hk. injection Hk as K1 K2. split; congruence.
Qed.
