(* C09 -- executable model of the ML objectives (linear::function_t, gboost::{bias,scale,grads}_function_t)
   as they are evaluated by the code: the sample range [0, n) is cut into the chunks of
   pool_t::map(n, batch, op) (kernels of parallel.h, shared with C17: [chunks]), every chunk is handed to SOME
   worker in SOME order (a [schedule] = list of (chunk, worker)), each worker adds the chunk's partial sums to
   its own accumulator, [sum_reduce] (reduce.h, loop bounds translated) folds the accumulators into the first
   one and divides by the number of samples; the regularisation terms are added afterwards.
   Per-sample buffers (m_values, m_vgrads, the caches m_flatten / m_targets) are written range by range
   ([run_writes]) over whatever they contained before.

   Arithmetic: exact rationals Q (style C).  The loss is a parameter ([lval], [lgrad]); mse / mae / hinge /
   squared hinge (include/nano/loss/flatten.h) are given as concrete instances.
   sqrt(l2) of the linear objective is not rational: the model takes the stored root [r2] as an argument
   (theorems assume r2 * r2 == l2).
   No proofs here. *)
From Coq Require Import List ZArith QArith Bool.
From LNGen Require Import Src_parallel Src_c09.
From LN Require Import C17_Defs.
Import ListNotations.
Local Open Scope Z_scope.

(* ---- generic map / reduce over a type of partial results ------------------------------------------- *)
Section Reduce.
  Context {A : Type}.
  Variable add : A -> A -> A.
  Variable zero : A.
  Variable term : Z -> A.            (* contribution of sample i *)

  (* sum of the contributions of samples b, b+1, ..., b+len-1 *)
  Fixpoint range_sum (b : Z) (len : nat) : A :=
    match len with
    | O => zero
    | S k => add (term b) (range_sum (b + 1) k)
    end.

  Definition chunk_sum (c : Z * Z) : A := range_sum (fst c) (Z.to_nat (snd c - fst c)).

  (* accumulator of worker w += v *)
  Fixpoint acc_update (accs : list A) (w : nat) (v : A) : list A :=
    match accs, w with
    | [], _ => []
    | a :: r, O => add a v :: r
    | a :: r, S w' => a :: acc_update r w' v
    end.

  (* the chunks are processed in the order of the schedule, each by the worker the schedule names *)
  Definition run_schedule (sched : list ((Z * Z) * nat)) (accs : list A) : list A :=
    fold_left (fun accs ev => acc_update accs (snd ev) (chunk_sum (fst ev))) sched accs.

  (* sum_reduce: accumulator0 += accumulators[i] for (i = first; i < size; ++i) *)
  Fixpoint reduce_loop (fuel : nat) (i : Z) (accs : list A) (a0 : A) : A :=
    match fuel with
    | O => a0
    | S f =>
        if src_c09_reduce_continue i (Z.of_nat (length accs))
        then reduce_loop f (src_c09_reduce_next i) accs (add a0 (nth (Z.to_nat i) accs zero))
        else a0
    end.
  Definition sum_reduce (accs : list A) : A :=
    reduce_loop (length accs) src_c09_reduce_first accs (nth (Z.to_nat src_c09_reduce_target) accs zero).

  (* clear all accumulators, run the schedule, reduce *)
  Definition map_reduce (workers : nat) (sched : list ((Z * Z) * nat)) : A :=
    sum_reduce (run_schedule sched (repeat zero workers)).
End Reduce.

(* the schedule pool_t::map takes on its fast path: all chunks in order on the caller thread, tnum 0 *)
Definition inline_schedule (n batch : Z) : list ((Z * Z) * nat) :=
  map (fun c => (c, O)) (chunks_inline n batch).

(* executable validity test of an observed schedule: the chunks, sorted by begin, are [chunks n batch] and
   every worker index is below the number of accumulators *)
Fixpoint insert_chunk (c : Z * Z) (l : list (Z * Z)) : list (Z * Z) :=
  match l with
  | [] => [c]
  | d :: r => if fst c <=? fst d then c :: l else d :: insert_chunk c r
  end.
Definition sort_chunks (l : list (Z * Z)) : list (Z * Z) := fold_right insert_chunk [] l.
Fixpoint chunks_eqb (a b : list (Z * Z)) : bool :=
  match a, b with
  | [], [] => true
  | (x, y) :: a', (u, v) :: b' => (x =? u) && (y =? v) && chunks_eqb a' b'
  | _, _ => false
  end.
Definition schedule_okb (workers : nat) (n batch : Z) (sched : list ((Z * Z) * nat)) : bool :=
  chunks_eqb (sort_chunks (map fst sched)) (chunks n batch) &&
  forallb (fun ev => Nat.ltb (snd ev) workers) sched.

(* ---- per-sample buffers written range by range ------------------------------------------------------ *)
Fixpoint zrange (b : Z) (len : nat) : list Z :=
  match len with
  | O => []
  | S k => b :: zrange (b + 1) k
  end.

Section Writes.
  Context {B : Type}.
  Variable f : Z -> B.               (* the value computed for sample i *)
  (* buffer.slice(begin, end) = values of the samples of the chunk *)
  Definition write_range (buf : list B) (c : Z * Z) : list B :=
    firstn (Z.to_nat (fst c)) buf ++ map f (zrange (fst c) (Z.to_nat (snd c - fst c))) ++ skipn (Z.to_nat (snd c)) buf.
  Definition run_writes (sched : list ((Z * Z) * nat)) (buf : list B) : list B :=
    fold_left (fun buf ev => write_range buf (fst ev)) sched buf.
End Writes.

(* ---- rational helpers ------------------------------------------------------------------------------- *)
Local Open Scope Q_scope.

Definition nthZ {A} (l : list A) (i : Z) (d : A) : A := nth (Z.to_nat i) l d.

Definition qlt (a b : Q) : bool := negb (Qle_bool b a).
Definition qadd (a b : Q) : Q := Qred (a + b).        (* normal forms keep the extracted numbers small *)
Definition qabs (x : Q) : Q := if Qle_bool 0 x then x else - x.
(* Eigen's sign(): (0 < x) - (x < 0) *)
Definition qsign (x : Q) : Q := if qlt 0 x then 1 else if qlt x 0 then -1 else 0.
Definition qmax0 (x : Q) : Q := if qlt 0 x then x else 0.     (* array.max(0) *)
Definition qsum (l : list Q) : Q := fold_right Qplus 0 l.
Definition qmean (l : list Q) : Q := qsum l / inject_Z (Z.of_nat (length l)).

Fixpoint dot (u v : list Q) : Q :=
  match u, v with
  | a :: u', b :: v' => a * b + dot u' v'
  | _, _ => 0
  end.
Fixpoint vadd (u v : list Q) : list Q :=
  match u, v with
  | a :: u', b :: v' => Qred (a + b) :: vadd u' v'
  | _, _ => []
  end.
Definition vscale (s : Q) (v : list Q) : list Q := map (fun a => Qred (s * a)) v.

(* mean over the samples 0..n-1, the way the definition of the objectives is written *)
Definition naive_mean (f : Z -> Q) (n : Z) : Q := qsum (map f (zrange 0 (Z.to_nat n))) / inject_Z n.

(* what the code computes: per-thread accumulation under a schedule, sum_reduce, division by #samples *)
Definition reduced_mean (f : Z -> Q) (workers : nat) (sched : list ((Z * Z) * nat)) (n : Z) : Q :=
  map_reduce qadd 0 f workers sched / inject_Z n.

(* ---- concrete loss kernels (include/nano/loss/flatten.h), per sample: target, output ----------------- *)
Fixpoint map2 {A B C} (f : A -> B -> C) (u : list A) (v : list B) : list C :=
  match u, v with
  | a :: u', b :: v' => f a b :: map2 f u' v'
  | _, _ => []
  end.

(* 0.5 * (output - target).square().sum()                 vgrad = output - target *)
Definition mse_value (t o : list Q) : Q := (1 # 2) * qsum (map2 (fun tc oc => (oc - tc) * (oc - tc)) t o).
Definition mse_vgrad (t o : list Q) : list Q := map2 (fun tc oc => oc - tc) t o.
(* (output - target).abs().sum()                          vgrad = (output - target).sign() *)
Definition mae_value (t o : list Q) : Q := qsum (map2 (fun tc oc => qabs (oc - tc)) t o).
Definition mae_vgrad (t o : list Q) : list Q := map2 (fun tc oc => qsign (oc - tc)) t o.
(* (1 - target * output).max(0).sum()                     vgrad = -target * ((1 - target * output).sign() + 1) * 0.5 *)
Definition hinge_value (t o : list Q) : Q := qsum (map2 (fun tc oc => qmax0 (1 - tc * oc)) t o).
Definition hinge_vgrad (t o : list Q) : list Q := map2 (fun tc oc => - tc * (qsign (1 - tc * oc) + 1) * (1 # 2)) t o.
(* (1 - target * output).max(0).square().sum()            vgrad = -target * (1 - target * output).max(0) * 2 *)
Definition sqhinge_value (t o : list Q) : Q :=
  qsum (map2 (fun tc oc => qmax0 (1 - tc * oc) * qmax0 (1 - tc * oc)) t o).
Definition sqhinge_vgrad (t o : list Q) : list Q := map2 (fun tc oc => - tc * qmax0 (1 - tc * oc) * 2) t o.

Inductive loss_id := LMse | LMae | LHinge | LSqHinge.
Definition loss_value (l : loss_id) : list Q -> list Q -> Q :=
  match l with LMse => mse_value | LMae => mae_value | LHinge => hinge_value | LSqHinge => sqhinge_value end.
Definition loss_vgrad (l : loss_id) : list Q -> list Q -> list Q :=
  match l with LMse => mse_vgrad | LMae => mae_vgrad | LHinge => hinge_vgrad | LSqHinge => sqhinge_vgrad end.
Definition loss_of_Z (z : Z) : loss_id :=
  if (z =? 1)%Z then LMae else if (z =? 2)%Z then LHinge else if (z =? 3)%Z then LSqHinge else LMse.

(* ---- the objectives ----------------------------------------------------------------------------------- *)
Section Objectives.
  Variable lval : list Q -> list Q -> Q.             (* loss value of one sample: target, output *)
  Variable lgrad : list Q -> list Q -> list Q.       (* its gradient wrt the output *)

  Definition term0 : Q * list Q := (0, []).
  (* value / k-th gradient coordinate of sample i, from the per-sample results computed once *)
  Definition vterm (terms : list (Q * list Q)) (i : Z) : Q := fst (nthZ terms i term0).
  Definition gterm (terms : list (Q * list Q)) (k : nat) (i : Z) : Q := nth k (snd (nthZ terms i term0)) 0.

  (* value and gradient as the accumulators deliver them *)
  Definition acc_value (terms : list (Q * list Q)) (workers : nat) (sched : list ((Z * Z) * nat)) : Q :=
    reduced_mean (vterm terms) workers sched (Z.of_nat (length terms)).
  Definition acc_grad (terms : list (Q * list Q)) (size : nat) (workers : nat) (sched : list ((Z * Z) * nat)) : list Q :=
    map (fun k => reduced_mean (gterm terms k) workers sched (Z.of_nat (length terms))) (seq 0 size).

  (* ---- linear::function_t: x = [W (tsize rows of isize, row-major) | b (tsize)] ------------------------ *)
  Fixpoint rows (k w : nat) (l : list Q) : list (list Q) :=
    match k with
    | O => []
    | S k' => firstn w l :: rows k' w (skipn w l)
    end.
  Definition lin_wflat (isize tsize : Z) (x : list Q) : list Q :=
    firstn (Z.to_nat (src_c09_lin_bias_offset isize tsize)) x.
  Definition lin_W (isize tsize : Z) (x : list Q) : list (list Q) :=
    rows (Z.to_nat tsize) (Z.to_nat isize) (lin_wflat isize tsize x).
  Definition lin_b (isize tsize : Z) (x : list Q) : list Q :=
    firstn (Z.to_nat tsize) (skipn (Z.to_nat (src_c09_lin_bias_offset isize tsize)) x).

  (* linear::predict: output = W * input + b *)
  Definition lin_out (W : list (list Q)) (b : list Q) (xi : list Q) : list Q :=
    map2 (fun wr bc => Qred (dot wr xi + bc)) W b.
  (* gW1 += vgrad^T * input (row-major), gb1 += vgrad *)
  Definition lin_gvec (g : list Q) (xi : list Q) : list Q :=
    flat_map (fun gc => map (fun xj => Qred (gc * xj)) xi) g ++ g.
  Definition lin_sample (W : list (list Q)) (b : list Q) (tx : list Q * list Q) : Q * list Q :=
    let o := lin_out W b (snd tx) in (Qred (lval (fst tx) o), lin_gvec (lgrad (fst tx) o) (snd tx)).
  Definition lin_terms (isize tsize : Z) (x : list Q) (T X : list (list Q)) : list (Q * list Q) :=
    map (lin_sample (lin_W isize tsize x) (lin_b isize tsize x)) (combine T X).

  (* fx += l1 * |W|.mean()  (if l1 > 0);  fx += 0.5 * (sqrt(l2) * W).square().mean()  (if l2 > 0) *)
  Definition lin_reg_value (l1 l2 r2 : Q) (w : list Q) : Q :=
    (if qlt 0 l1 then l1 * qmean (map qabs w) else 0) +
    (if qlt 0 l2 then (1 # 2) * qmean (map (fun a => (r2 * a) * (r2 * a)) w) else 0).
  (* gW += l1 * sign(W) / W.size()  (if l1 > 0);  gW += l2 * W / W.size()  (if l2 > 0);  bias untouched *)
  Definition lin_reg_grad (l1 l2 : Q) (w : list Q) (k : nat) : Q :=
    if Nat.ltb k (length w) then
      let a := nth k w 0 in
      let sz := inject_Z (Z.of_nat (length w)) in
      (if qlt 0 l1 then l1 * qsign a / sz else 0) + (if qlt 0 l2 then l2 * a / sz else 0)
    else 0.

  Definition lin_value (isize tsize : Z) (l1 l2 r2 : Q) (x : list Q) (T X : list (list Q))
             (workers : nat) (sched : list ((Z * Z) * nat)) : Q :=
    acc_value (lin_terms isize tsize x T X) workers sched + lin_reg_value l1 l2 r2 (lin_wflat isize tsize x).
  Definition lin_grad (isize tsize : Z) (l1 l2 : Q) (x : list Q) (T X : list (list Q))
             (workers : nat) (sched : list ((Z * Z) * nat)) : list Q :=
    let terms := lin_terms isize tsize x T X in
    let w := lin_wflat isize tsize x in
    map (fun k => reduced_mean (gterm terms k) workers sched (Z.of_nat (length terms)) + lin_reg_grad l1 l2 w k)
        (seq 0 (Z.to_nat (src_c09_lin_size isize tsize))).

  (* the definition: mean_i loss(t_i, W x_i + b) + l1 * mean |W| + (l2 / 2) * mean W^2 *)
  Definition lin_naive_value (isize tsize : Z) (l1 l2 : Q) (x : list Q) (T X : list (list Q)) : Q :=
    let W := lin_W isize tsize x in
    let b := lin_b isize tsize x in
    let w := lin_wflat isize tsize x in
    naive_mean (fun i => lval (nthZ T i []) (lin_out W b (nthZ X i []))) (Z.of_nat (length X))
    + l1 * qmean (map qabs w) + (l2 / 2) * qmean (map (fun a => a * a) w).
  (* its gradient wrt W(c, j): mean_i dloss_c(i) * x_i(j) + l1 * sign(W(c,j)) / #W + l2 * W(c,j) / #W,
     wrt b(c): mean_i dloss_c(i) *)
  Definition lin_naive_gW (isize tsize : Z) (l1 l2 : Q) (x : list Q) (T X : list (list Q)) (c j : nat) : Q :=
    let W := lin_W isize tsize x in
    let b := lin_b isize tsize x in
    let w := lin_wflat isize tsize x in
    let sz := inject_Z (Z.of_nat (length w)) in
    let a := nth j (nth c W []) 0 in
    naive_mean (fun i => nth c (lgrad (nthZ T i []) (lin_out W b (nthZ X i []))) 0 * nth j (nthZ X i []) 0)
               (Z.of_nat (length X))
    + l1 * qsign a / sz + l2 * a / sz.
  Definition lin_naive_gb (isize tsize : Z) (x : list Q) (T X : list (list Q)) (c : nat) : Q :=
    let W := lin_W isize tsize x in
    let b := lin_b isize tsize x in
    naive_mean (fun i => nth c (lgrad (nthZ T i []) (lin_out W b (nthZ X i []))) 0) (Z.of_nat (length X)).

  (* ---- gboost::bias_function_t: output = x for every sample --------------------------------------------- *)
  Definition bias_sample (x : list Q) (t : list Q) : Q * list Q := (Qred (lval t x), lgrad t x).
  Definition bias_terms (x : list Q) (T : list (list Q)) : list (Q * list Q) := map (bias_sample x) T.
  Definition bias_value (x : list Q) (T : list (list Q)) workers sched : Q := acc_value (bias_terms x T) workers sched.
  Definition bias_grad (x : list Q) (T : list (list Q)) workers sched : list Q :=
    acc_grad (bias_terms x T) (length x) workers sched.
  Definition bias_naive_value (x : list Q) (T : list (list Q)) : Q :=
    naive_mean (fun i => lval (nthZ T i []) x) (Z.of_nat (length T)).
  Definition bias_naive_grad (x : list Q) (T : list (list Q)) (c : nat) : Q :=
    naive_mean (fun i => nth c (lgrad (nthZ T i []) x) 0) (Z.of_nat (length T)).

  (* ---- gboost::scale_function_t ------------------------------------------------------------------------
     smp    : the sample indices of the iterator (position i of the range -> dataset sample samples(i))
     groups : cluster.group(s) for every dataset sample s (negative = unassigned)
     S, Wk  : outputs of the strong / weak learner for every dataset sample
     T      : the targets as delivered by the iterator (position i) *)
  Definition scale_of (x : list Q) (g : Z) : Q := if src_c09_scale_unassigned g then 0 else nthZ x g 0.
  Definition scale_out (x : list Q) (groups : list Z) (S Wk : list (list Q)) (s : Z) : list Q :=
    vadd (nthZ S s []) (vscale (scale_of x (nthZ groups s (-1)%Z)) (nthZ Wk s [])).
  Definition scale_gvec (ngroups : nat) (g : Z) (gw : Q) : list Q :=
    map (fun g' => if src_c09_scale_grad_skip g then 0 else if (g =? g')%Z then gw else 0) (zrange 0 ngroups).
  Definition scale_sample (x : list Q) (groups : list Z) (S Wk : list (list Q)) (ts : list Q * Z) : Q * list Q :=
    let s := snd ts in
    let o := scale_out x groups S Wk s in
    (Qred (lval (fst ts) o), scale_gvec (length x) (nthZ groups s (-1)%Z) (Qred (dot (lgrad (fst ts) o) (nthZ Wk s [])))).
  Definition scale_terms (x : list Q) (groups : list Z) (S Wk : list (list Q)) (T : list (list Q)) (smp : list Z) :=
    map (scale_sample x groups S Wk) (combine T smp).
  Definition scale_value x groups S Wk T smp workers sched : Q :=
    acc_value (scale_terms x groups S Wk T smp) workers sched.
  Definition scale_grad x groups S Wk T smp workers sched : list Q :=
    acc_grad (scale_terms x groups S Wk T smp) (length x) workers sched.
  (* the definition: mean_i loss(t_i, s_i + x[group_i] * w_i), an unassigned sample keeps s_i alone;
     gradient wrt x[g]: mean over ALL samples of [group_i = g] * <dloss(i), w_i> *)
  Definition scale_naive_out (x : list Q) (groups : list Z) (S Wk : list (list Q)) (s : Z) : list Q :=
    let g := nthZ groups s (-1)%Z in
    if (g <? 0)%Z then nthZ S s [] else vadd (nthZ S s []) (vscale (nthZ x g 0) (nthZ Wk s [])).
  Definition scale_naive_value x groups S Wk (T : list (list Q)) (smp : list Z) : Q :=
    naive_mean (fun i => lval (nthZ T i []) (scale_naive_out x groups S Wk (nthZ smp i 0%Z))) (Z.of_nat (length smp)).
  Definition scale_naive_grad x groups S Wk (T : list (list Q)) (smp : list Z) (g : Z) : Q :=
    naive_mean (fun i => let s := nthZ smp i 0%Z in
                         if (nthZ groups s (-1)%Z =? g)%Z
                         then dot (lgrad (nthZ T i []) (scale_naive_out x groups S Wk s)) (nthZ Wk s [])
                         else 0) (Z.of_nat (length smp)).

  (* ---- gboost::grads_function_t: x = one output row per sample; m_values / m_vgrads are buffers written
     range by range over their previous content; value = m_values.mean(), gx = m_vgrads / #samples ---------- *)
  Definition grads_vbuf (T O : list (list Q)) (sched : list ((Z * Z) * nat)) (old : list Q) : list Q :=
    run_writes (fun i => Qred (lval (nthZ T i []) (nthZ O i []))) sched old.
  Definition grads_gbuf (T O : list (list Q)) (sched : list ((Z * Z) * nat)) (old : list (list Q)) : list (list Q) :=
    run_writes (fun i => lgrad (nthZ T i []) (nthZ O i [])) sched old.
  Definition grads_value (T O : list (list Q)) sched (old : list Q) : Q := qmean (grads_vbuf T O sched old).
  Definition grads_grad (T O : list (list Q)) sched (old : list (list Q)) : list (list Q) :=
    map (map (fun a => a / inject_Z (Z.of_nat (length O)))) (grads_gbuf T O sched old).
  Definition grads_naive_value (T O : list (list Q)) : Q :=
    naive_mean (fun i => lval (nthZ T i []) (nthZ O i [])) (Z.of_nat (length O)).
End Objectives.

(* ---- the caches of the dataset iterators ----------------------------------------------------------------
   cache_flatten / cache_targets fill one row per sample range by range (same chunks, any schedule); afterwards
   flatten(tnum, range) / targets(tnum, range) return the slice of the cache iff it holds one row per sample *)
Definition slice {A} (l : list A) (c : Z * Z) : list A :=
  firstn (Z.to_nat (snd c - fst c)) (skipn (Z.to_nat (fst c)) l).
Definition fill_cache {B} (row : Z -> B) (sched : list ((Z * Z) * nat)) (old : list B) : list B :=
  run_writes row sched old.
Definition deliver {B} (row : Z -> B) (cache : list B) (n : Z) (c : Z * Z) : list B :=
  if src_c09_flatten_cached (Z.of_nat (length cache)) n then slice cache c
  else map row (zrange (fst c) (Z.to_nat (snd c - fst c))).
Definition deliver_targets {B} (row : Z -> B) (cache : list B) (n : Z) (c : Z * Z) : list B :=
  if src_c09_targets_cached (Z.of_nat (length cache)) n then slice cache c
  else map row (zrange (fst c) (Z.to_nat (snd c - fst c))).
