(* C07 -- what the boolean Wolfe / Armijo tests mean over the reals (Flocq): on finite operands the accepted point
   satisfies the textbook inequality with the right-hand side rounded to nearest-even at each operation. *)
From Flocq Require Import Core BinarySingleNaN.
From Flocq Require PrimFloat.
From Coq Require Import ZArith Reals Bool Lra.
From Coq Require Import Floats.
From LN Require Import C07_Defs C07_Proofs.
Import Flocq.IEEE754.PrimFloat.
Local Open Scope float_scope.

Local Notation pfloat := Coq.Floats.PrimFloat.float.
Local Notation pfinite := Coq.Floats.PrimFloat.is_finite.

Definition R_of (x : pfloat) : R := B2R (Prim2B x).
Definition rnd (x : R) : R := round radix2 (FLT_exp (3 - emax - prec) prec) ZnearestE x.

Lemma finite_B : forall x, pfinite x = true -> BinarySingleNaN.is_finite (Prim2B x) = true.
Proof. intros x H. rewrite <- is_finite_equiv. exact H. Qed.

Lemma overflow_not_finite : forall (x : binary_float prec emax) s,
  B2SF x = binary_overflow prec emax mode_NE s -> BinarySingleNaN.is_finite x = false.
Proof.
  intros x s H. rewrite <- is_finite_SF_B2SF, H. reflexivity.
Qed.

Lemma mul_real : forall x y,
  pfinite (x * y) = true -> R_of (x * y) = rnd (R_of x * R_of y).
Proof.
  intros x y F. apply finite_B in F. unfold R_of in *. rewrite mul_equiv in *.
  pose proof (Bmult_correct prec emax Hprec Hmax mode_NE (Prim2B x) (Prim2B y)) as C.
  destruct (Rlt_bool _ _) in C.
  - destruct C as [C _]. exact C.
  - apply overflow_not_finite in C. rewrite C in F. discriminate.
Qed.

Lemma add_real : forall x y,
  pfinite x = true -> pfinite y = true -> pfinite (x + y) = true ->
  R_of (x + y) = rnd (R_of x + R_of y).
Proof.
  intros x y Fx Fy F. apply finite_B in F, Fx, Fy. unfold R_of in *. rewrite add_equiv in *.
  pose proof (Bplus_correct prec emax Hprec Hmax mode_NE (Prim2B x) (Prim2B y) Fx Fy) as C.
  destruct (Rlt_bool _ _) in C.
  - destruct C as [C _]. exact C.
  - destruct C as [C _]. apply overflow_not_finite in C. rewrite C in F. discriminate.
Qed.

Lemma leb_real : forall x y,
  pfinite x = true -> pfinite y = true -> (x <=? y) = true -> (R_of x <= R_of y)%R.
Proof.
  intros x y Fx Fy H. apply finite_B in Fx, Fy. rewrite leb_equiv, (Bleb_correct _ _ _ _ Fx Fy) in H.
  unfold R_of. destruct (Rle_bool_spec (B2R (Prim2B x)) (B2R (Prim2B y))); [assumption|discriminate].
Qed.

(* Wolfe: dg >= rnd(c2 * dg0) *)
Lemma wolfe_real : forall p0 p c2,
  pfinite (pg p) = true -> pfinite (c2 * pg p0) = true ->
  has_wolfe p0 p c2 = true -> (rnd (R_of c2 * R_of (pg p0)) <= R_of (pg p))%R.
Proof.
  intros p0 p c2 Fp Fm H. rewrite has_wolfe_spec in H.
  rewrite <- (mul_real _ _ Fm). apply leb_real; assumption.
Qed.

(* Armijo: f <= rnd(f0 + rnd(rnd(t * c1) * dg0)) *)
Lemma armijo_real : forall p0 p t c1,
  pfinite (pf p) = true -> pfinite (pf p0) = true ->
  pfinite (t * c1) = true -> pfinite (t * c1 * pg p0) = true ->
  pfinite (pf p0 + t * c1 * pg p0) = true ->
  has_armijo p0 p t c1 = true ->
  (R_of (pf p) <= rnd (R_of (pf p0) + rnd (rnd (R_of t * R_of c1) * R_of (pg p0))))%R.
Proof.
  intros p0 p t c1 Fp F0 F1 F2 F3 H. rewrite has_armijo_spec in H.
  rewrite <- (mul_real _ _ F1), <- (mul_real _ _ F2), <- (add_real _ _ F0 F2 F3).
  apply leb_real; assumption.
Qed.
