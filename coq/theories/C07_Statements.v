(* C07 -- named constants, example oracles and the full-strength statements that are FALSE of the faithful model.
   (Properties_C07.v does not import PrimFloat, so that Print Assumptions prints the primitives qualified; float
   literals therefore live here.) *)
From Coq Require Import List ZArith Bool Floats.
From LN Require Import C07_Defs.
Import ListNotations.
Local Open Scope float_scope.

Definition fzero : float := 0.
Definition fone : float := 1.
Definition t_eighth : float := 0x1p-3.

(* the library's default parameters with max_iterations = n (cubic interpolation) *)
Definition prm_default (n : Z) : params :=
  mkPrm 0x1.a36e2eb1c432dp-14 0x1.999999999999ap-4 n 2 0x1.999999999999ap-4 9 0x1.999999999999ap-4 0x1p-1
        0x1.51eb851eb851fp-1 0x1.0c6f7a0b5ed8dp-20 0x1p-1 0x1.51eb851eb851fp-1 5.

(* phi(t) = (t-1)^2: f0 = 1, dg0 = -2 *)
Definition phi_parab (_ : Z) (t : float) : probe := mkP true ((t - 1) * (t - 1)) (2 * (t - 1)).
Definition p0_parab : probe := mkP true 1 (-2).
Definition p0_flat : probe := mkP true 1 0.
Definition p0_nan : probe := mkP true 1 nan.
Definition p0_slope : probe := mkP true 1 (-1).

(* invalid for every t > 0, the origin's value at t = 0 *)
Definition phi_cliff (_ : Z) (t : float) : probe := if 0 <? t then mkP false nan nan else mkP true 1 (-1).
(* invalid everywhere, but with a finite value and slope (e.g. a non-finite gradient component orthogonal to nothing) *)
Definition phi_stale (_ : Z) (_ : float) : probe := mkP false 0 0.

(* "success => t > 0" *)
Definition C07_step_positive_full_statement : Prop :=
  forall phi prm p0 a t0, (0 < maxit prm)%Z ->
  ok (ls_get phi prm p0 a t0) = true -> (0 <? rt (ls_get phi prm p0 a t0)) = true.

Lemma s_step_positive_refuted : ~ C07_step_positive_full_statement.
Proof.
  intros F. specialize (F phi_cliff (prm_default 800) p0_slope Backtrack 1 eq_refl).
  vm_compute in F. specialize (F eq_refl). discriminate.
Qed.

(* do_get on its own (entered with an invalid state that belongs to another step, as lsearchk_t::get did before it
   checked the state after the `*0.3` loop) can report success on that state: the guard in get() is what excludes it *)
Definition stale_entry : state := update phi_stale (update phi_stale (init_state p0_slope) 1) 0x1.3333333333333p-2.

(* 0.3 = 1 * 0.3 and 0.09 = 0.3 * 0.3 as the `*0.3` loop computes them *)
Definition t_03 : float := 0x1.3333333333333p-2.
Definition t_009 : float := 0x1.70a3d70a3d70ap-4.

Lemma s_do_get_alone_accepts_invalid_state :
  let r := do_get phi_stale (prm_default 2) p0_slope Lemarechal stale_entry 0x1.70a3d70a3d70ap-4 in
  ok r = true /\ pv (cur (rs r)) = false /\ trace (rs r) = [0x1.3333333333333p-2; 1] /\
  (rt r =? 0x1.3333333333333p-2) = false.
Proof. vm_compute. repeat split; reflexivity. Qed.

(* ---------- More-Thuente / CG_DESCENT success cases: example oracles and the exit flags of a result ---------- *)
Definition ftwo : float := 2.
Definition t_assoc : float := 0x1.ap-7.                      (* 13/1024 *)
Definition n_stpmin : float := stpmin.

(* phi(t) = 1 - t (unbounded below), f0 = 1, dg0 = -1 *)
Definition phi_linear (_ : Z) (t : float) : probe := mkP true (1 - t) (-1).
(* a jump at the origin: f = 2 > f0 = 1 with slope +1 for every t *)
Definition phi_jump (_ : Z) (_ : float) : probe := mkP true 2 1.
(* phi(t) = |t - 1/2| (kink at the minimiser), f0 = 1/2, dg0 = -1 *)
Definition phi_vee (_ : Z) (t : float) : probe := if t <? 0.5 then mkP true (0.5 - t) (-1) else mkP true (t - 0.5) 1.
Definition p0_vee : probe := mkP true 0.5 (-1).
(* a plateau 2^-24 above f0 = 1 with zero slope: inside epsilon_k = 1e-6*|f0|, but no decrease *)
Definition phi_plateau (_ : Z) (_ : float) : probe := mkP true (1 + 0x1p-24) 0.
(* f(t) = t * (c1 * dg0) with f0 = 0, dg0 = -3: exactly More-Thuente's ftest, one ulp above state.cpp's
   f0 + (t * c1) * dg0 at t = 13/1024 *)
Definition p0_assoc : probe := mkP true 0 (-3).
Definition phi_assoc (_ : Z) (t : float) : probe := mkP true (t * (c1 (prm_default 1) * pg p0_assoc)) 0.

(* the five More-Thuente tests in source order (rounding, collapsed, stpmax, stpmin, converged) on the returned iterate
   and the exit ghost *)
Definition mt_exit_flags (prm : params) (p0 : probe) (r : result) : option (list bool) :=
  match rx r with
  | XMT m => let p := cur (rs r) in
             Some [mt_exit_rounding (rt r) m; mt_exit_collapsed m; mt_exit_stpmax prm p0 p (rt r);
                   mt_exit_stpmin prm p0 p (rt r); mt_converged prm p0 p (rt r)]
  | _ => None
  end.

(* CG_DESCENT: [bracketed; a.f > f0 + epsilon_k; b.g < 0; step inside [a.t, b.t]; armijo; wolfe; approx armijo; approx wolfe]
   on the returned state and the exit ghost *)
Definition cg_exit_flags (prm : params) (p0 : probe) (r : result) : option (list bool) :=
  match rx r with
  | XCG iv br => let c := cur (rs r) in
                 Some [br; pf p0 + cg_epsk prm p0 <? st_f (i_a iv); st_g (i_b iv) <? 0; negb (cg_outside iv);
                       has_armijo p0 c (rt r) (c1 prm); has_wolfe p0 c (c2 prm);
                       has_approx_armijo p0 c (cg_epsk prm p0); has_approx_wolfe p0 c (c1 prm) (c2 prm)]
  | _ => None
  end.

Lemma s_mt_exits_reachable :
  (let r := ls_get phi_parab (prm_default 128) p0_parab MoreThuente t_eighth in
   ok r = true /\ mt_exit_flags (prm_default 128) p0_parab r = Some [false; false; false; false; true]) /\
  (let r := ls_get phi_vee (prm_default 128) p0_vee MoreThuente 1 in
   ok r = true /\ mt_exit_flags (prm_default 128) p0_vee r = Some [true; true; false; false; false] /\
   has_strong_wolfe p0_vee (cur (rs r)) (c2 (prm_default 128)) = false) /\
  (let r := ls_get phi_linear (prm_default 128) p0_slope MoreThuente 1 in
   ok r = true /\ mt_exit_flags (prm_default 128) p0_slope r = Some [false; false; true; false; false] /\
   has_strong_wolfe p0_slope (cur (rs r)) (c2 (prm_default 128)) = false) /\
  (let r := ls_get phi_jump (prm_default 128) p0_slope MoreThuente 1 in
   ok r = true /\ mt_exit_flags (prm_default 128) p0_slope r = Some [false; false; false; true; false] /\
   has_armijo p0_slope (cur (rs r)) (rt r) (c1 (prm_default 128)) = false /\ (pf p0_slope <? pf (cur (rs r))) = true).
Proof. vm_compute. repeat split; reflexivity. Qed.

Lemma s_mt_state_armijo_not_implied :
  let r := ls_get phi_assoc (prm_default 128) p0_assoc MoreThuente t_assoc in
  ok r = true /\ mt_exit_flags (prm_default 128) p0_assoc r = Some [false; false; false; false; true] /\
  has_armijo p0_assoc (cur (rs r)) (rt r) (c1 (prm_default 128)) = false.
Proof. vm_compute. repeat split; reflexivity. Qed.

Lemma s_cg_exits_reachable :
  (let r := ls_get phi_parab (prm_default 128) p0_parab CGDescent t_eighth in
   ok r = true /\ cg_exit_flags (prm_default 128) p0_parab r = Some [true; false; false; true; true; true; true; true]) /\
  (let r := ls_get phi_plateau (prm_default 128) p0_slope CGDescent 1 in
   ok r = true /\ cg_exit_flags (prm_default 128) p0_slope r = Some [false; false; false; true; false; true; true; true]) /\
  (let r := ls_get phi_linear (prm_default 128) p0_slope CGDescent 1 in
   ok r = true /\ cg_exit_flags (prm_default 128) p0_slope r = Some [true; false; true; false; true; false; true; false]).
Proof. vm_compute. repeat split; reflexivity. Qed.

(* ---------- evaluation budget: oracles that (nearly) attain the bound of C07_evaluations_bounded ---------- *)
Definition p0_zero : probe := mkP true 0 (-1).
(* the first n-1 trial points are invalid (`*0.3` loop: n evaluations), then f = f0 = 0 with slope -1 for ever: the `*3` loop
   runs dry (n evaluations) and backtracking never sees a decrease (n evaluations) *)
Definition phi_flat_after (n : Z) (k : Z) (_ : float) : probe :=
  if (k <? n - 1)%Z then mkP false nan nan else mkP true 0 (-1).

(* a table-driven (non-deterministic) oracle: the k-th evaluation answers with the k-th entry *)
Definition answer_kind (i : Z) : probe :=
  nth (Z.to_nat i)
      [mkP true 0 (-1); mkP true 1 (-1); mkP true 0 1; mkP true 1 1; mkP true 0 (-0.01); mkP true 0 0.5;
       mkP true 1 (-0.01); mkP true 1 0.01; mkP true 0 (-3); mkP true 1 (-3); mkP false 0 (-1); mkP true 0 (-0.5);
       mkP true 0 0.01; mkP true 1 3; mkP true 0 3] (mkP false nan nan).
Definition phi_table (tab : list Z) (k : Z) (_ : float) : probe := answer_kind (nth (Z.to_nat k) tab 10%Z).

(* found by hill climbing over answer tables with the extracted model (max_iterations = 10) *)
Definition cg_costly_table : list Z :=
  [10;10;10;10;10;10;10;10;10;0;0;0;0;0;0;0;0;0;0;0;1;7;13;8;9;7;3;1;1;7;3;12;6;7;2;0;13;8;11;6;3;7;13;7;3;5;14;2;1;7;3;7;
   1;9;4;8;0;4;0;4;1;8]%Z.

Lemma s_evaluation_bound_witnesses :
  cnt (rs (ls_get (phi_flat_after 128) (prm_default 128) p0_zero Backtrack 1)) = 384%Z /\
  cnt (rs (ls_get (phi_flat_after 128) (prm_default 128) p0_zero Lemarechal 1)) = 383%Z /\
  cnt (rs (ls_get (phi_table cg_costly_table) (prm_default 10) p0_zero CGDescent 1)) = 62%Z.
Proof. vm_compute. repeat split; reflexivity. Qed.
