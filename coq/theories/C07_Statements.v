(* C07 -- named constants, example oracles and the full-strength statements that are FALSE of the faithful model.
   (Properties_C07.v does not import PrimFloat, so that Print Assumptions prints the primitives qualified; float
   literals therefore live here.) *)
From Coq Require Import List ZArith Bool Floats.
From LN Require Import C07_Defs.
Import ListNotations.
Local Open Scope float_scope.

Definition fzero : float := 0.
Definition fone : float := 1.
Definition t_eighth : float := 0x1p-3.

(* the library's default parameters with max_iterations = n (cubic interpolation) *)
Definition prm_default (n : Z) : params :=
  mkPrm 0x1.a36e2eb1c432dp-14 0x1.999999999999ap-4 n 2 0x1.999999999999ap-4 9 0x1.999999999999ap-4 0x1p-1
        0x1.51eb851eb851fp-1 0x1.0c6f7a0b5ed8dp-20 0x1p-1 0x1.51eb851eb851fp-1 5.

(* phi(t) = (t-1)^2: f0 = 1, dg0 = -2 *)
Definition phi_parab (_ : Z) (t : float) : probe := mkP true ((t - 1) * (t - 1)) (2 * (t - 1)).
Definition p0_parab : probe := mkP true 1 (-2).
Definition p0_flat : probe := mkP true 1 0.
Definition p0_nan : probe := mkP true 1 nan.
Definition p0_slope : probe := mkP true 1 (-1).

(* invalid for every t > 0, the origin's value at t = 0 *)
Definition phi_cliff (_ : Z) (t : float) : probe := if 0 <? t then mkP false nan nan else mkP true 1 (-1).
(* invalid everywhere, but with a finite value and slope (e.g. a non-finite gradient component orthogonal to nothing) *)
Definition phi_stale (_ : Z) (_ : float) : probe := mkP false 0 0.

(* "success => t > 0" *)
Definition C07_step_positive_full_statement : Prop :=
  forall phi prm p0 a t0, (0 < maxit prm)%Z ->
  ok (ls_get phi prm p0 a t0) = true -> (0 <? rt (ls_get phi prm p0 a t0)) = true.

Lemma s_step_positive_refuted : ~ C07_step_positive_full_statement.
Proof.
  intros F. specialize (F phi_cliff (prm_default 800) p0_slope Backtrack 1 eq_refl).
  vm_compute in F. specialize (F eq_refl). discriminate.
Qed.

(* do_get on its own (entered with an invalid state that belongs to another step, as lsearchk_t::get did before it
   checked the state after the `*0.3` loop) can report success on that state: the guard in get() is what excludes it *)
Definition stale_entry : state := update phi_stale (update phi_stale (init_state p0_slope) 1) 0x1.3333333333333p-2.

(* 0.3 = 1 * 0.3 and 0.09 = 0.3 * 0.3 as the `*0.3` loop computes them *)
Definition t_03 : float := 0x1.3333333333333p-2.
Definition t_009 : float := 0x1.70a3d70a3d70ap-4.

Lemma s_do_get_alone_accepts_invalid_state :
  let r := do_get phi_stale (prm_default 2) p0_slope Lemarechal stale_entry 0x1.70a3d70a3d70ap-4 in
  ok r = true /\ pv (cur (rs r)) = false /\ trace (rs r) = [0x1.3333333333333p-2; 1] /\
  (rt r =? 0x1.3333333333333p-2) = false.
Proof. vm_compute. repeat split; reflexivity. Qed.
