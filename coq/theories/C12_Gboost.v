(* C12 (extension) -- proofs about the model of gboost::sampler_t (C12_Gboost_Defs.v): dispatch table, layout of the
   weight loops, what the weights are, set structure of every kind, support of the weighted kinds. *)
From Coq Require Import List ZArith Bool Floats Permutation Sorted Reals Lia.
From LNGen Require Import Src_numeric Src_splitter Src_sampling Src_gbsampler.
From LN Require Import C12_Defs C12_Proofs C12_Float_Defs C12_Float C12_Gboost_Defs.
Import ListNotations.
Local Open Scope Z_scope.

(* ---- the dispatch: which sampling function each enumerator reaches (the translated `return` of each case) ---------------- *)
Lemma gb_call_table :
  gb_call k_off = 0 /\ gb_call k_subsample = 1 /\ gb_call k_bootstrap = 2 /\ gb_call k_wei_loss = 3 /\ gb_call k_wei_grad = 3 /\
  (forall k, ~ In k [k_off; k_subsample; k_bootstrap; k_wei_loss; k_wei_grad] -> gb_call k = -1).
Proof.
  repeat (split; [reflexivity|]). intros k H. unfold gb_call.
  destruct (Z.eqb_spec k k_subsample) as [->|_]; [exfalso; apply H; cbn; tauto|].
  destruct (Z.eqb_spec k k_bootstrap) as [->|_]; [exfalso; apply H; cbn; tauto|].
  destruct (Z.eqb_spec k k_wei_loss) as [->|_]; [exfalso; apply H; cbn; tauto|].
  destruct (Z.eqb_spec k k_wei_grad) as [->|_]; [exfalso; apply H; cbn; tauto|].
  destruct (Z.eqb_spec k k_off) as [->|_]; [exfalso; apply H; cbn; tauto|]. reflexivity.
Qed.

(* ---- the weight loops write m_weights(0 .. size-1) of a vector with `size` entries (weighted kinds), 0 entries for off/bootstrap *)
Lemma gb_layout_ok kind size i : gb_layoutb kind size i = true.
Proof.
  unfold gb_layoutb, gb_alloc, src_gb_loss_dst, src_gb_grad_dst, src_gb_loop_first, src_gb_loop_size, src_gb_loop2_first,
    src_gb_loop2_size, src_gb_weights_alloc.
  rewrite !Z.eqb_refl. cbn [andb].
  destruct (Z.eqb_spec kind k_off) as [->|N0]; [reflexivity|].
  destruct (Z.eqb_spec kind k_bootstrap) as [->|N2]; [reflexivity|]. cbn [orb negb].
  rewrite Z.eqb_refl, orb_true_r. reflexivity.
Qed.

(* ---- what the weights are: position i holds the loss (row 1) / the gradient magnitude of the SAMPLE l[i] ---------------- *)
Lemma nth_map_zrange {A} (f : Z -> A) n i d : (i < n)%nat ->
  nth i (map f (zrange_from 0 (Z.of_nat n - 0))) d = f (Z.of_nat i).
Proof.
  intros H. unfold zrange_from. rewrite Z.sub_0_r, Nat2Z.id, map_map.
  rewrite (nth_indep _ d (f (0 + Z.of_nat 0))) by (rewrite map_length, seq_length; exact H).
  rewrite (map_nth (fun k => f (0 + Z.of_nat k)) (seq 0 n) 0%nat i), seq_nth by exact H. reflexivity.
Qed.

Lemma gb_weights_loss_spec l tbl :
  length (gb_weights_loss l tbl) = length l /\
  forall i, (i < length l)%nat -> nth i (gb_weights_loss l tbl) fzero = fnth (nth 1 tbl []) (nth i l 0).
Proof.
  unfold gb_weights_loss, src_gb_loop_first, src_gb_loop_size, src_gb_loss_row, src_gb_loss_col, zlen. split.
  - rewrite map_length, zrange_from_length, Z.sub_0_r, Nat2Z.id. reflexivity.
  - intros i Hi. rewrite nth_map_zrange by exact Hi. rewrite Nat2Z.id. reflexivity.
Qed.

Lemma gb_weights_grad_spec l gmag :
  length (gb_weights_grad l gmag) = length l /\
  forall i, (i < length l)%nat -> nth i (gb_weights_grad l gmag) fzero = fnth gmag (nth i l 0).
Proof.
  unfold gb_weights_grad, src_gb_loop2_first, src_gb_loop2_size, src_gb_grad_col, zlen. split.
  - rewrite map_length, zrange_from_length, Z.sub_0_r, Nat2Z.id. reflexivity.
  - intros i Hi. rewrite nth_map_zrange by exact Hi. rewrite Nat2Z.id. reflexivity.
Qed.

(* the weight the code gives to the sample with index s *)
Definition weight_of (kind : Z) (tbl : list (list float)) (gmag : list float) (s : Z) : float :=
  if kind =? k_wei_loss then fnth (nth 1 tbl []) s else fnth gmag s.

Lemma gb_weights_spec kind l tbl gmag : kind = k_wei_loss \/ kind = k_wei_grad ->
  length (gb_weights kind l tbl gmag) = length l /\
  forall i, (i < length l)%nat -> nth i (gb_weights kind l tbl gmag) fzero = weight_of kind tbl gmag (nth i l 0).
Proof.
  intros [->| ->]; unfold gb_weights, weight_of; cbn [Z.eqb k_wei_loss k_wei_grad Pos.eqb].
  - apply gb_weights_loss_spec.
  - apply gb_weights_grad_spec.
Qed.

Lemma wpos_nth w i : nth i (wpos_of w) false = PrimFloat.ltb fzero (nth i w fzero).
Proof. unfold wpos_of. change false with (PrimFloat.ltb fzero fzero). apply (map_nth (fun x => PrimFloat.ltb fzero x)). Qed.

Lemma sample_with_zlen picks l : zlen (sample_with picks l) = zlen picks.
Proof. unfold sample_with. rewrite (zlen_perm _ _ (sort_perm _)). unfold zlen. now rewrite map_length. Qed.

(* ---- set structure of every kind ------------------------------------------------------------------------------------------- *)
Theorem gb_sample_props shuffle : permutes shuffle -> forall seed call kind ratio l picks tbl gmag,
  NoDup l -> fin ratio -> (0 <= FR ratio <= 1)%R -> zlen l < 2 ^ 53 ->
  In kind [k_off; k_subsample; k_bootstrap; k_wei_loss; k_wei_grad] ->
  gb_contractb kind ratio l (gb_weights kind l tbl gmag) picks = true ->
  let r := gb_sample shuffle seed call kind ratio l picks in
  let count := gb_count ratio (zlen l) in
  0 <= count <= zlen l /\
  (kind = k_off -> r = l) /\
  (forall x, In x r -> In x l) /\
  (kind <> k_off -> zlen r = count /\ StronglySorted Z.le r) /\
  (kind = k_subsample -> StronglySorted Z.lt r).
Proof.
  intros HP seed call kind ratio l picks tbl gmag ND Fr R01 HL HK HC r count.
  assert (HCnt : 0 <= count <= zlen l).
  { apply (gb_count_general ratio (zlen l) Fr R01). unfold zlen in *. lia. }
  split; [exact HCnt|]. subst r. unfold gb_sample. fold count.
  unfold gb_contractb in HC. fold count in HC.
  destruct gb_call_table as (T0 & T1 & T2 & T3 & T4 & _).
  cbn [In] in HK. destruct HK as [<-|[<-|[<-|[<-|[<-|[]]]]]].
  - rewrite T0. cbn [Z.eqb]. repeat split; try (intros; congruence); try (intros; discriminate); try contradiction.
  - rewrite T1. cbn [Z.eqb Pos.eqb].
    destruct (p_sample_without shuffle HP seed call count l ND HCnt) as (A & B & C).
    assert (B' : StronglySorted Z.le (sample_without shuffle seed call count l)).
    { clear - B. induction B as [|a r _ IH F]; constructor; [exact IH|]. eapply Forall_impl; [|exact F]. intros; lia. }
    repeat split; try (intros; discriminate); try assumption; try (intros _; exact B).
  - rewrite T2 in *. cbn [Z.eqb Pos.eqb] in *. apply andb_true_iff in HC. destruct HC as [HR HZ]. apply Z.eqb_eq in HZ.
    destruct (p_sample_with picks l count HR HZ) as (A & B & C).
    repeat split; try (intros; discriminate); try assumption.
  - rewrite T3 in *. cbn [Z.eqb Pos.eqb] in *. apply andb_true_iff in HC. destruct HC as [HW HZ]. apply Z.eqb_eq in HZ.
    destruct (gb_weights_spec k_wei_loss l tbl gmag (or_introl eq_refl)) as [WL _].
    assert (LW : length (wpos_of (gb_weights k_wei_loss l tbl gmag)) = length l) by (unfold wpos_of; now rewrite map_length).
    repeat split; try (intros; discriminate).
    + intros x Hx. destruct (p_sample_weighted picks l _ LW HW x Hx) as (i & Hi & <- & _). now apply nth_In.
    + now rewrite sample_with_zlen.
    + apply sort_sorted.
  - rewrite T4 in *. cbn [Z.eqb Pos.eqb] in *. apply andb_true_iff in HC. destruct HC as [HW HZ]. apply Z.eqb_eq in HZ.
    destruct (gb_weights_spec k_wei_grad l tbl gmag (or_intror eq_refl)) as [WL _].
    assert (LW : length (wpos_of (gb_weights k_wei_grad l tbl gmag)) = length l) by (unfold wpos_of; now rewrite map_length).
    repeat split; try (intros; discriminate).
    + intros x Hx. destruct (p_sample_weighted picks l _ LW HW x Hx) as (i & Hi & <- & _). now apply nth_In.
    + now rewrite sample_with_zlen.
    + apply sort_sorted.
Qed.

Lemma gb_sample_call3 shuffle seed call kind ratio l picks : gb_call kind = 3 ->
  gb_sample shuffle seed call kind ratio l picks = sample_with picks l.
Proof. intros E. unfold gb_sample. rewrite E. reflexivity. Qed.
Lemma gb_contract_call3 kind ratio l w picks : gb_call kind = 3 ->
  gb_contractb kind ratio l w picks = picks_weightedb (wpos_of w) picks && (zlen picks =? gb_count ratio (zlen l)).
Proof. intros E. unfold gb_contractb. rewrite E. reflexivity. Qed.

(* ---- the weighted kinds never return a sample whose OWN loss / gradient magnitude is not positive -------------------------- *)
Theorem gb_weighted_support shuffle seed call kind ratio l picks tbl gmag :
  NoDup l -> kind = k_wei_loss \/ kind = k_wei_grad ->
  gb_contractb kind ratio l (gb_weights kind l tbl gmag) picks = true ->
  forall x, In x (gb_sample shuffle seed call kind ratio l picks) ->
  In x l /\ PrimFloat.ltb fzero (weight_of kind tbl gmag x) = true.
Proof.
  intros ND HK HC x Hx.
  destruct (gb_weights_spec kind l tbl gmag HK) as [WL WN].
  assert (LW : length (wpos_of (gb_weights kind l tbl gmag)) = length l) by (unfold wpos_of; now rewrite map_length).
  destruct gb_call_table as (_ & _ & _ & T3 & T4 & _).
  assert (C3 : gb_call kind = 3) by (destruct HK as [->| ->]; assumption).
  rewrite (gb_sample_call3 _ _ _ _ _ _ _ C3) in Hx. rewrite (gb_contract_call3 _ _ _ _ _ C3) in HC.
  apply andb_true_iff in HC. destruct HC as [HW _].
  destruct (p_sample_weighted picks l _ LW HW x Hx) as (i & Hi & <- & HWi).
  split; [now apply nth_In|]. rewrite wpos_nth, (WN i Hi) in HWi. exact HWi.
Qed.
