(* C02 / C01 -- executable model of the solver skeleton of libnano (style B: binary64 control logic, bit-exact).

   Part 1  [sstate]: the value model of nano::solver_state_t (src/solver/state.cpp): update, update_if_better
           (strict df > 0, history push incl. the non-finite branch), value_test(patience), gradient_test, valid,
           update_calls, and the status decision of solver_t::done (src/solver.cpp).  The integer / boolean
           expressions come from the source on every run (LNGen.Src_c02).
   Part 2  the client world: solver bodies are arbitrary op sequences over the state and the function's counters.
   Part 3  the trace acceptor over the done() entry/exit events emitted by the NANO_VERIF hooks, with the four
           "return" shapes found in src/solver/*.cpp.
   No proofs in this file. *)
From Coq Require Import ZArith List Bool Floats.
From LNGen Require Import Src_c02.
Import ListNotations.
Local Open Scope Z_scope.

(* ------------------------------------------------------------------------------------------------------------- *)
(* binary64 helpers (scalar C++ semantics)                                                                       *)
(* ------------------------------------------------------------------------------------------------------------- *)
Definition ffin (v : float) : bool := PrimFloat.is_finite v.               (* std::isfinite *)
Definition fmax (a b : float) : float := if PrimFloat.ltb a b then b else a. (* std::max(a, b) = (a < b) ? b : a *)
Definition f_lowest : float := (-0x1.fffffffffffffp+1023)%float.            (* numeric_limits<double>::lowest() *)
Definition f_dmax : float := (0x1.fffffffffffffp+1023)%float.               (* numeric_limits<double>::max() *)
Definition all_fin (l : list float) : bool := forallb ffin l.
(* lpNorm<Infinity>: max of absolute values (order-insensitive on NaN-free vectors) *)
Definition maxabs (l : list float) : float := fold_left (fun acc v => fmax acc (PrimFloat.abs v)) l PrimFloat.zero.
Fixpoint vsub (a b : list float) : list float :=
  match a, b with
  | x :: a', y :: b' => PrimFloat.sub x y :: vsub a' b'
  | _, _ => []
  end.
(* identity of observed doubles: same value (0 = -0), NaN only equal to NaN *)
Definition feq (a b : float) : bool :=
  match PrimFloat.compare a b with
  | FEq => true
  | FNotComparable => PrimFloat.is_nan a && PrimFloat.is_nan b
  | _ => false
  end.
Fixpoint veq (a b : list float) : bool :=
  match a, b with
  | [], [] => true
  | x :: a', y :: b' => feq x y && veq a' b'
  | _, _ => false
  end.

(* ------------------------------------------------------------------------------------------------------------- *)
(* Part 1: solver_state_t                                                                                        *)
(* ------------------------------------------------------------------------------------------------------------- *)
Definition ST_MAX_ITERS : Z := 0.
Definition ST_CONVERGED : Z := 1.
Definition ST_FAILED : Z := 2.

Record sstate := mkS {
  sx : list float;                 (* m_x *)
  sfx : float;                     (* m_fx *)
  sgx : list float;                (* m_gx *)
  scfin : bool;                    (* constraint values and multipliers all finite (true when unconstrained) *)
  sstatus : Z;                     (* m_status: position of the enumerator *)
  sfcalls : Z;                     (* m_fcalls *)
  sgcalls : Z;                     (* m_gcalls *)
  shist : list (float * float)     (* (m_history_df, m_history_dx), NEWEST FIRST *)
}.

Definition set_point (s : sstate) (x g : list float) (f : float) : sstate :=
  mkS x f g (scfin s) (sstatus s) (sfcalls s) (sgcalls s) (shist s).
Definition set_calls (s : sstate) (fc gc : Z) : sstate :=
  mkS (sx s) (sfx s) (sgx s) (scfin s) (sstatus s) fc gc (shist s).
Definition set_status (s : sstate) (st : Z) : sstate :=
  mkS (sx s) (sfx s) (sgx s) (scfin s) st (sfcalls s) (sgcalls s) (shist s).
Definition push_hist (s : sstate) (df dx : float) : sstate :=
  mkS (sx s) (sfx s) (sgx s) (scfin s) (sstatus s) (sfcalls s) (sgcalls s) ((df, dx) :: shist s).

(* solver_state_t::valid *)
Definition valid (s : sstate) : bool := ffin (sfx s) && all_fin (sx s) && all_fin (sgx s) && scfin s.

(* solver_state_t::gradient_test: gx.lpNorm<Infinity>() / std::max(1, |fx|) *)
Definition gradient_test_of (g : list float) (f : float) : float :=
  PrimFloat.div (maxabs g) (fmax PrimFloat.one (PrimFloat.abs f)).
Definition gradient_test (s : sstate) : float := gradient_test_of (sgx s) (sfx s).

(* solver_state_t::update(x, gx, fx): fc, gc are the function's counters at that moment *)
Definition update (s : sstate) (fc gc : Z) (x g : list float) (f : float) : sstate * bool :=
  let s' := set_calls (set_point s x g f) fc gc in (s', valid s').

(* solver_state_t::update_if_better(x, gx, fx) *)
Definition update_if_better (s : sstate) (fc gc : Z) (x g : list float) (f : float) : sstate * bool :=
  let s := set_calls s fc gc in
  if ffin f then
    let df := PrimFloat.sub (sfx s) f in
    let dx := maxabs (vsub (sx s) x) in
    let better := PrimFloat.ltb PrimFloat.zero df in
    (push_hist (if better then set_point s x g f else s) df dx, better)
  else (push_hist s f_lowest f_lowest, false).
(* solver_state_t::update_if_better(x, fx) = update_if_better(x, m_gx, fx) *)
Definition update_if_better2 (s : sstate) (fc gc : Z) (x : list float) (f : float) : sstate * bool :=
  update_if_better s fc gc x (sgx s) f.

(* the backward scan of value_test: [it] runs from size down to 1, entry it-1 of the vectors is the
   (size - it)-th element of the newest-first list; returns (ii, dd) *)
Fixpoint vt_scan (h : list (float * float)) (it : Z) (ii : Z) (dd : float) : Z * float :=
  match h with
  | [] => (ii, dd)
  | (df, dx) :: rest =>
    if src_vt_loop it then
      if PrimFloat.ltb PrimFloat.zero df then (src_vt_index it, fmax df dx)
      else vt_scan rest (it - 1) ii dd
    else (ii, dd)
  end.

Definition value_test (s : sstate) (patience : Z) : float :=
  let size := Z.of_nat (length (shist s)) in
  let '(ii, dd) := vt_scan (shist s) size size f_dmax in
  if src_vt_none ii size then (if src_vt_enough size patience then PrimFloat.zero else dd)
  else if src_vt_recent ii size patience then dd
  else PrimFloat.zero.

(* reference semantics written WITHOUT the translated kernels (executable mirrors of C02_value_test_spec and
   C02_done_decision: the driver applies them to what the implementation answered, so that a source change that the
   regenerated model follows is still a concrete failing input) *)
Fixpoint first_impr (h : list (float * float)) : option (nat * (float * float)) :=
  match h with
  | [] => None
  | (df, dx) :: rest =>
    if PrimFloat.ltb PrimFloat.zero df then Some (O, (df, dx))
    else match first_impr rest with Some (k, e) => Some (S k, e) | None => None end
  end.
Definition value_test_ref (s : sstate) (patience : Z) : float :=
  match first_impr (shist s) with
  | None => if Z.of_nat (length (shist s)) >=? patience then PrimFloat.zero else f_dmax
  | Some (k, (df, dx)) => if Z.of_nat k <? patience then fmax df dx else PrimFloat.zero
  end.
(* (returned bool, status afterwards) *)
Definition done_ref (s : sstate) (iter_ok converged : bool) : bool * Z :=
  if converged || negb (iter_ok && valid s) then (true, if converged && (iter_ok && valid s) then ST_CONVERGED else ST_FAILED)
  else (false, sstatus s).
(* the decision as it was BEFORE repo commit 85997bc (status = converged && valid ? converged : failed, whatever iter_ok):
   kept to state what the fix excludes (C02_done_prefix_converged_after_failed_iteration, C02_LsLoop_Statements) *)
Definition done_ref_prefix (s : sstate) (iter_ok converged : bool) : bool * Z :=
  if converged || negb (iter_ok && valid s) then (true, if converged && valid s then ST_CONVERGED else ST_FAILED)
  else (false, sstatus s).

(* solver_t::done(state, iter_ok, converged): returns the new state and the returned bool *)
Definition done_step (s : sstate) (fc gc : Z) (iter_ok converged : bool) : sstate * bool :=
  let s1 := set_calls s fc gc in
  let step_ok := src_done_step_ok iter_ok (valid s1) in
  if src_done_stop converged step_ok then (set_status s1 (src_done_status converged step_ok (valid s1)), src_done_ret_stop)
  else (s1, src_done_ret_go).

(* ------------------------------------------------------------------------------------------------------------- *)
(* Part 2: clients (solver bodies) as op sequences                                                               *)
(* ------------------------------------------------------------------------------------------------------------- *)
Inductive op :=
| OEval (withg : bool)                          (* function_t::vgrad(x[, gx]) *)
| OCalls                                        (* update_calls() *)
| OUpdate (x g : list float) (f : float)        (* update(x, gx, fx) *)
| OBetter3 (x g : list float) (f : float)       (* update_if_better(x, gx, fx) *)
| OBetter2 (x : list float) (f : float)         (* update_if_better(x, fx) *)
| ODone (iter_ok converged : bool).             (* solver_t::done(state, iter_ok, converged) *)

Record world := mkW { wst : sstate; wfc : Z; wgc : Z }.

(* function_t::vgrad's counters: gsize = fsize iff a gradient buffer of the right size was passed *)
Definition eval_counters (fc gc : Z) (withg : bool) : Z * Z :=
  (src_fn_fcalls fc, src_fn_gcalls gc (if withg then 1 else 0) 1).

Definition step (w : world) (o : op) : world * bool :=
  match o with
  | OEval withg => let '(fc, gc) := eval_counters (wfc w) (wgc w) withg in (mkW (wst w) fc gc, true)
  | OCalls => (mkW (set_calls (wst w) (wfc w) (wgc w)) (wfc w) (wgc w), true)
  | OUpdate x g f => let '(s, r) := update (wst w) (wfc w) (wgc w) x g f in (mkW s (wfc w) (wgc w), r)
  | OBetter3 x g f => let '(s, r) := update_if_better (wst w) (wfc w) (wgc w) x g f in (mkW s (wfc w) (wgc w), r)
  | OBetter2 x f => let '(s, r) := update_if_better2 (wst w) (wfc w) (wgc w) x f in (mkW s (wfc w) (wgc w), r)
  | ODone i c => let '(s, r) := done_step (wst w) (wfc w) (wgc w) i c in (mkW s (wfc w) (wgc w), r)
  end.

Definition run (w : world) (ops : list op) : world := fold_left (fun w o => fst (step w o)) ops w.

(* the state built by solver_state_t{function, x0}: one evaluation with gradient, counters copied *)
Definition init_state (x g : list float) (f : float) (cfin : bool) : sstate := mkS x f g cfin ST_MAX_ITERS 1 1 [].
Definition init_world (x g : list float) (f : float) (cfin : bool) : world := mkW (init_state x g f cfin) 1 1.

(* the budget loop `while (fcalls + gcalls < max_evals) body`: [costs] lists the evaluations each successive
   iteration would perform; returns the total number of evaluations when the loop exits (or the list ends) *)
Fixpoint budget_loop (cond : Z -> Z -> Z -> bool) (max_evals : Z) (n : Z) (costs : list Z) : Z :=
  match costs with
  | [] => n
  | c :: rest => if cond n 0 max_evals then budget_loop cond max_evals (n + c) rest else n
  end.

(* ------------------------------------------------------------------------------------------------------------- *)
(* Part 3: acceptor of done() traces                                                                             *)
(* ------------------------------------------------------------------------------------------------------------- *)
Record event := mkE {
  ev_s : sstate;            (* the state on entry of done() (history not observed: []) *)
  ev_iter_ok : bool;
  ev_conv : bool;
  ev_fc : Z; ev_gc : Z;     (* the function's counters at that moment *)
  ev_ret : bool;            (* value returned by done() *)
  ev_status' : Z; ev_fcalls' : Z; ev_gcalls' : Z;   (* the state's status / counters on exit *)
  ev_same : bool            (* x, fx, gx bitwise unchanged between entry and exit *)
}.

Definition ev_after (e : event) : sstate :=
  set_status (set_calls (ev_s e) (ev_fcalls' e) (ev_gcalls' e)) (ev_status' e).

Definition event_ok (e : event) : bool :=
  let '(s', r) := done_step (ev_s e) (ev_fc e) (ev_gc e) (ev_iter_ok e) (ev_conv e) in
  Bool.eqb r (ev_ret e) && (sstatus s' =? ev_status' e) && (sfcalls s' =? ev_fcalls' e) &&
  (sgcalls s' =? ev_gcalls' e) && ev_same e.

(* the four return shapes of src/solver/*.cpp *)
Inductive kind :=
| KGd      (* gd: `return state` *)
| KLs      (* cgd-*, lbfgs, quasi-*: `return cstate.valid() ? cstate : pstate` *)
| KTight   (* best-state solvers that touch the state only right before done(): sgm, cocob, osga, asga*, sda, wda,
              pgm, dgm, fgm, ellipsoid and the constrained solvers *)
| KLoose.  (* solvers that move the state after done(): rqb, fpba*, gs, ags, gs-lbfgs, ags-lbfgs *)

Definition is_ls (k : kind) : bool := match k with KGd | KLs => true | _ => false end.

(* line-search solvers: converged = cstate.gradient_test() < epsilon *)
(* (Eigen's max-abs reduction is not specified on vectors containing NaN: such snapshots are not recomputed) *)
Definition vnan (l : list float) : bool := existsb PrimFloat.is_nan l.
Definition ls_flag_ok (eps : float) (e : event) : bool :=
  vnan (sgx (ev_s e)) || Bool.eqb (ev_conv e) (PrimFloat.ltb (gradient_test (ev_s e)) eps).

(* every event is the model's decision; the status chains from one event to the next (the solvers pass the same
   state object to every done() call); only the last call may return true (every solver breaks on true) *)
Fixpoint accept_events (k : kind) (eps : float) (st : Z) (evs : list event) : bool :=
  match evs with
  | [] => true
  | e :: rest =>
    (sstatus (ev_s e) =? st) && event_ok e && (if is_ls k then ls_flag_ok eps e else true) &&
    (match rest with [] => true | _ => negb (ev_ret e) end) && accept_events k eps (ev_status' e) rest
  end.

Definition same_state (a b : sstate) : bool :=
  veq (sx a) (sx b) && feq (sfx a) (sfx b) && veq (sgx a) (sgx b) &&
  (sstatus a =? sstatus b) && (sfcalls a =? sfcalls b) && (sgcalls a =? sgcalls b).

(* the last event and the one before it *)
Fixpoint last2 (evs : list event) (prev : option event) : option (event * option event) :=
  match evs with
  | [] => None
  | e :: rest => match rest with [] => Some (e, prev) | _ => last2 rest (Some e) end
  end.

Definition accept_return (k : kind) (evs : list event) (r : sstate) : bool :=
  match last2 evs None with
  | None => sstatus r =? ST_MAX_ITERS
  | Some (last, prev) =>
    let a := ev_after last in
    match k with
    | KGd | KTight => same_state r a
    | KLs => if valid a then same_state r a
             else match prev with Some p => same_state r (ev_after p) | None => same_state r a end
    | KLoose => if ev_ret last then same_state r a else sstatus r =? ST_MAX_ITERS
    end
  end.

(* line-search solvers start with done(cstate, true, ...) *)
Definition accept_first (k : kind) (evs : list event) : bool :=
  match evs with
  | e :: _ => if is_ls k then ev_iter_ok e else true
  | [] => negb (is_ls k)
  end.

Definition accept (k : kind) (eps : float) (evs : list event) (r : sstate) : bool :=
  accept_first k evs && accept_events k eps ST_MAX_ITERS evs && accept_return k evs r.
