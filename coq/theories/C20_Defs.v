(* C20 -- order statistics (percentile / median) and histogram_t: the executable model.

   Sources modelled (the C++ is the truth):
     include/nano/core/stats.h      detail::percentile, percentile, percentile_sorted, median(_sorted)
     include/nano/core/histogram.h  histogram_t::{ctor, update, update_bin, mean, bin,
                                    make_from_percentiles, make_from_ratios}

   The model is polymorphic in the scalar type: an [ops T] record supplies the three-way comparison and
   the arithmetic the code performs on values (+, -, *, /, conversion of an integer count).  It is
   instantiated with
     - [float_ops]  PrimFloat = IEEE binary64, bit-for-bit what the scalar C++ code computes
                    (this instance is extracted and compared with the library on every run),
     - [Z_ops], [Q_ops]  exact integers / rationals (the theorems hold for every instance whose
                    comparison is a total preorder; these two are proved to be such).
   The percentile *position* p*(n-1)/100 is always computed in binary64 (PrimFloat), as in the code.
   Integer/boolean decisions are the kernels translated from the sources on every run (Src_pctile,
   Src_histogram).  std::sort / std::nth_element / std::upper_bound are modelled by their contracts
   (sorted permutation / k-th order statistic / partition point of a partitioned range).
   No proofs in this file. *)
From Coq Require Import List ZArith Bool QArith Floats.
From LNGen Require Import Src_pctile Src_histogram.
Import ListNotations.
Local Open Scope Z_scope.

(* ------------------------------------------------------------------------------------------------ *)
(* scalar operations                                                                                 *)
(* ------------------------------------------------------------------------------------------------ *)
Record ops (T : Type) : Type := mkOps {
  cmp : T -> T -> Z;      (* three-way comparison: negative / zero / positive *)
  add : T -> T -> T;
  sub : T -> T -> T;
  mul : T -> T -> T;
  div : T -> T -> T;
  ofZ : Z -> T;           (* static_cast<scalar_t>(integer) *)
  nan : T;                (* std::numeric_limits<scalar_t>::quiet_NaN() / value of an invalid access *)
  fin : T -> bool         (* std::isfinite (every integer / rational is finite: constantly true for the exact instances) *)
}.
Arguments cmp {T} _ _ _.
Arguments add {T} _ _ _.
Arguments sub {T} _ _ _.
Arguments mul {T} _ _ _.
Arguments div {T} _ _ _.
Arguments ofZ {T} _ _.
Arguments nan {T} _.
Arguments fin {T} _ _.

(* ------------------------------------------------------------------------------------------------ *)
(* binary64 helpers: integer -> double, floor / ceil of a double                                     *)
(* ------------------------------------------------------------------------------------------------ *)
Definition Z2F (z : Z) : float :=
  if z <? 0 then PrimFloat.opp (PrimFloat.of_uint63 (Uint63.of_Z (- z)))
  else PrimFloat.of_uint63 (Uint63.of_Z z).

(* floor / ceil of the real number denoted by a finite spec float (-1)^s * m * 2^e
   ([Z.shiftr z k] = z / 2^k rounded down, [Z.shiftl z k] = z * 2^k; see SFfloor_div in C20_Proofs) *)
Definition SFfloor (x : spec_float) : Z :=
  match x with
  | S754_finite s m e =>
      let z := if s then Zneg m else Zpos m in
      if 0 <=? e then Z.shiftl z e else Z.shiftr z (- e)
  | _ => 0
  end.

Definition SFceil (x : spec_float) : Z :=
  match x with
  | S754_finite s m e =>
      let z := if s then Zneg m else Zpos m in
      if 0 <=? e then Z.shiftl z e else - Z.shiftr (- z) (- e)
  | _ => 0
  end.

Definition float_floor (f : float) : Z := SFfloor (Prim2SF f).
Definition float_ceil (f : float) : Z := SFceil (Prim2SF f).

(* stats.h: `const double position = percentage * static_cast<double>(size - 1) / 100.0;` *)
Definition pct_position (p : float) (size : Z) : float :=
  (p * Z2F (src_pct_last size) / 100)%float.
(* `lpos = static_cast<ptrdiff_t>(std::floor(position))`, `rpos = static_cast<ptrdiff_t>(std::ceil(position))` *)
Definition pct_lpos (p : float) (size : Z) : Z := float_floor (pct_position p size).
Definition pct_rpos (p : float) (size : Z) : Z := float_ceil (pct_position p size).

(* ------------------------------------------------------------------------------------------------ *)
(* the polymorphic model                                                                             *)
(* ------------------------------------------------------------------------------------------------ *)
Section Model.
Context {T : Type} (Op : ops T).

Definition ltb (x y : T) : bool := cmp Op x y <? 0.       (* operator< *)

(* std::sort by its contract: a sorted permutation (insertion sort; an element is placed before the
   first element that is not smaller, so an already sorted list is left unchanged) *)
Fixpoint insert (x : T) (l : list T) : list T :=
  match l with
  | [] => [x]
  | y :: t => if ltb y x then y :: insert x t else x :: l
  end.
Definition sort (l : list T) : list T := fold_right insert [] l.

Definition nthZ (l : list T) (i : Z) : T :=
  if i <? 0 then nan Op else nth (Z.to_nat i) l (nan Op).

(* the midpoint of the two neighbours, /repo 985fdb5 (before: `(lvalue + rvalue) / 2`, which overflows for two large values):
     const auto sum = lvalue + rvalue;
     return std::isfinite(sum) ? (sum / 2) : (lvalue / 2 + rvalue / 2);
   [mid_shape] is the two-branch expression with the test as a parameter (the shape of the translated kernel
   src_pct_mid of group pctpos, see C20_kernel_indices) *)
Definition mid_shape (sum_finite : bool) (a b : T) : T :=
  if sum_finite then div Op (add Op a b) (ofZ Op 2)
  else add Op (div Op a (ofZ Op 2)) (div Op b (ofZ Op 2)).
Definition mid (a b : T) : T := mid_shape (fin Op (add Op a b)) a b.

(* detail::percentile after the two positions are known *)
Definition pick (s : list T) (lpos rpos : Z) : T :=
  if src_pct_same lpos rpos then nthZ s lpos
  else mid (nthZ s lpos) (nthZ s rpos).

(* percentile_sorted: from_position(pos) = *(begin + pos) *)
Definition percentile_sorted (s : list T) (p : float) : T :=
  let size := Z.of_nat (length s) in
  pick s (pct_lpos p size) (pct_rpos p size).

(* percentile: from_position(pos) = nth_element(begin, begin + pos, end), *(begin + pos), i.e. the
   element at index pos of the sorted sequence (contract of std::nth_element) *)
Definition percentile (l : list T) (p : float) : T := percentile_sorted (sort l) p.
Definition median (l : list T) : T := percentile l 50%float.
Definition median_sorted (s : list T) : T := percentile_sorted s 50%float.

(* ---- histogram_t ------------------------------------------------------------------------------- *)
(* op(threshold, value) = `value >= threshold`, evaluated on the three-way comparison against 0 *)
Definition goes_right (v t : T) : bool := src_hist_goes_right 0 (cmp Op v t).

(* std::upper_bound(begin, end, threshold, op) on the sorted values: the first value that goes right;
   returns (values before it, values from it on) *)
Fixpoint split_thr (t : T) (s : list T) : list T * list T :=
  match s with
  | [] => ([], [])
  | v :: r => if goes_right v t then ([], s)
              else let (a, b) := split_thr t r in (v :: a, b)
  end.

(* update(): `for (bin = 0; bin < bins; ++bin) { if (bin + 1 < bins) {split, begin = it} else {rest} }` *)
Fixpoint update_loop (fuel : nat) (bin bins : Z) (ths s : list T) : list (list T) :=
  match fuel with
  | O => []
  | S f =>
      if src_hist_loop bin bins then
        if src_hist_not_last bin bins then
          let (a, b) := split_thr (nthZ ths bin) s in
          a :: update_loop f (bin + 1) bins ths b
        else s :: update_loop f (bin + 1) bins ths s
      else []
  end.

Definition hist_bins (ths s : list T) : list (list T) :=
  let bins := src_hist_bins (Z.of_nat (length ths)) in
  update_loop (Z.to_nat bins) 0 bins ths s.

(* mean(): std::accumulate(begin, end, 0.0, acc + value) / static_cast<scalar_t>(count) *)
Definition mean_of (b : list T) : T :=
  div Op (fold_left (add Op) b (ofZ Op 0)) (ofZ Op (Z.of_nat (length b))).

(* update_bin(): (count, mean, median) *)
Definition bin_summary (b : list T) : Z * T * T :=
  let count := Z.of_nat (length b) in
  if src_hist_nonempty count then (count, mean_of b, median_sorted b)
  else (count, nan Op, nan Op).

(* histogram_t(begin, end, thresholds): sorts both, then update() *)
Definition histogram (thr vals : list T) : list T * list (Z * T * T) :=
  let st := sort thr in
  let s := sort vals in
  (st, map bin_summary (hist_bins st s)).

(* bin(value): std::upper_bound(thresholds, value) = first threshold greater than the value *)
Fixpoint ub (st : list T) (v : T) : nat :=
  match st with
  | [] => O
  | t :: r => if ltb v t then O else S (ub r v)
  end.

Definition hist_bin (st : list T) (v : T) : Z :=
  let it := Z.of_nat (ub st v) in
  let end_ := Z.of_nat (length st) in
  if src_bin_at_end it end_ then src_bin_last (src_hist_bins end_) else src_bin_found it.

(* make_from_percentiles: thresholds(i) = percentile_sorted(sorted values, sorted percentiles(i)) *)
Definition hist_from_percentiles (ps_sorted : list float) (vals : list T) : list T * list (Z * T * T) :=
  let s := sort vals in
  histogram (map (percentile_sorted s) ps_sorted) vals.

(* make_from_ratios: thresholds(i) = min + ratios(i) * (max - min), ratios sorted first *)
Definition hist_from_ratios (ratios vals : list T) : list T * list (Z * T * T) :=
  let s := sort vals in
  let mn := hd (nan Op) s in
  let mx := last s (nan Op) in
  let delta := sub Op mx mn in
  histogram (map (fun r => add Op mn (mul Op r delta)) (sort ratios)) vals.

End Model.

(* ------------------------------------------------------------------------------------------------ *)
(* instances                                                                                         *)
(* ------------------------------------------------------------------------------------------------ *)
(* IEEE binary64 (NaN is outside the property's domain; an unordered comparison is mapped to 1) *)
Definition fcmp (x y : float) : Z :=
  match PrimFloat.compare x y with
  | FEq => 0
  | FLt => -1
  | FGt => 1
  | FNotComparable => 1
  end.

Definition float_ops : ops float :=
  mkOps float fcmp PrimFloat.add PrimFloat.sub PrimFloat.mul PrimFloat.div Z2F PrimFloat.nan PrimFloat.is_finite.

Definition zcmp (x y : Z) : Z := match Z.compare x y with Eq => 0 | Lt => -1 | Gt => 1 end.
(* integers: only the order matters for the discrete clauses (division truncates) *)
Definition Z_ops : ops Z := mkOps Z zcmp Z.add Z.sub Z.mul Z.quot (fun z => z) 0 (fun _ => true).

Definition qcmp (x y : Q) : Z := match Qcompare x y with Eq => 0 | Lt => -1 | Gt => 1 end.
(* exact rationals: "every real v" of the property, and exact means *)
Definition Q_ops : ops Q := mkOps Q qcmp Qplus Qminus Qmult Qdiv inject_Z 0%Q (fun _ => true).

(* percentile lists are doubles: make_from_percentiles sorts them with operator< on doubles *)
Definition fsort (ps : list float) : list float := sort float_ops ps.
Definition hist_from_percentiles_f (ps vals : list float) := hist_from_percentiles float_ops (fsort ps) vals.
