(* C07 (INIT extension) -- executable model of the step-length initialisers lsearch0_t and of lsearch_t::get
   (= lsearch0->get followed by lsearchk->get). No proofs here.

   anchors: src/lsearch0/{constant,linear,quadratic,cgdescent}.cpp (+ the member initialisers of linear.h / quadratic.h),
            src/lsearch0.cpp (lsearch0::epsilon), src/solver/lsearch.cpp + include/nano/solver/lsearch.h
            (m_last_step_size{-1.0}), lsearch_step_t::quadratic's convexity flag (src/solver/lstep.cpp).

   Every comparison and formula is translated from the sources on every run (tools/kernels/c07.py, PrimFloat reading
   Src_c07_flt.v); what is hand-written is the control flow: which branch assigns t0, WHEN the mutable members are
   updated (after t0 was computed), the single value-only evaluation of lsearch0-cgdescent.

   What `get` reads of `const solver_state_t& state` and `descent` (the view): state.fx(), state.dg(descent) -- the probe
   C07_Defs already uses for the origin -- and, for lsearch0-cgdescent's first call, three Eigen reductions that are
   inputs here exactly as dg is: |x|_inf, |g|_inf and g.squaredNorm(). The value-only evaluation
   `funct.vgrad(state.x() + prevt * phi1 * descent)` is the oracle `trial : float -> float` (step |-> value). *)
From Coq Require Import List ZArith Bool Floats.
From LNGen Require Import Src_c07_flt.
From LN Require Import C07_Defs.
Import ListNotations.
Local Open Scope float_scope.

Inductive kind0 := L0Constant | L0Linear | L0Quadratic | L0CGDescent.

Record params0 := mkPrm0 {
  l0_epsilon : float;                            (* lsearch0::epsilon (set from solver::epsilon by solver_t::make_lsearch) *)
  l0_const_t0 : float;                           (* lsearch0::constant::t0 *)
  l0_lin_beta : float; l0_lin_alpha : float;     (* lsearch0::linear::{beta,alpha} *)
  l0_quad_beta : float; l0_quad_alpha : float;   (* lsearch0::quadratic::{beta,alpha} *)
  l0_cg_phi0 : float; l0_cg_phi1 : float; l0_cg_phi2 : float }.  (* lsearch0::cgdescent::{phi0,phi1,phi2} *)

(* the view of (state, descent): the origin probe (valid(), fx(), dg(descent)) and the three reductions *)
Record view0 := mkV0 { v_p : probe; v_xinf : float; v_ginf : float; v_gsq : float }.
Definition v_fx (v : view0) : float := pf (v_p v).
Definition v_dg (v : view0) : float := pg (v_p v).

(* the mutable members: m_prevf (quadratic), m_prevdg (linear, quadratic) *)
Record mem0 := mkM0 { m_prevf : float; m_prevdg : float }.

Definition mem_init (k : kind0) : mem0 :=
  match k with
  | L0Linear => mkM0 0 src_l0lin_prevdg0_f
  | L0Quadratic => mkM0 src_l0quad_prevf0_f src_l0quad_prevdg0_f
  | _ => mkM0 0 1
  end.

(* result of one lsearch0_t::get: t0, the members afterwards, the number of objective evaluations it made and (ghost) the
   step at which the value-only evaluation was requested *)
Record init_res := mkIR { ir_t0 : float; ir_mem : mem0; ir_evals : Z; ir_trial : option float }.

Section Init.
  Variable prm0 : params0.
  Variable trial : float -> float.           (* s |-> f(x + s * d), value only *)

  (* constant.cpp *)
  Definition init_constant (m : mem0) : init_res :=
    mkIR (src_l0const_ret_f (l0_const_t0 prm0)) m 0%Z None.

  (* linear.cpp: t0 from the PREVIOUS call's dg, then m_prevdg = dg *)
  Definition init_linear (m : mem0) (v : view0) (last : float) : init_res :=
    let dg := src_l0lin_dg_f (v_dg v) in
    let t0 := if src_l0lin_first_f last then src_l0lin_t0first_f
              else src_l0lin_t0_f (l0_lin_alpha prm0) last (m_prevdg m) (l0_lin_beta prm0) (l0_epsilon prm0) dg in
    mkIR t0 (mkM0 (m_prevf m) (src_l0lin_prevdg_f dg)) 0%Z None.

  (* quadratic.cpp: t0 from the PREVIOUS call's (fx, dg) and the current fx, then m_prevf = fx, m_prevdg = dg *)
  Definition init_quadratic (m : mem0) (v : view0) (last : float) : init_res :=
    let t0 := if src_l0quad_first_f last then src_l0quad_t0first_f
              else src_l0quad_t0_f (l0_quad_alpha prm0) (m_prevf m) (v_fx v) (l0_quad_beta prm0) (l0_epsilon prm0)
                                   (m_prevdg m) in
    mkIR t0 (mkM0 (src_l0quad_prevf_f (v_fx v)) (src_l0quad_prevdg_f (v_dg v))) 0%Z None.

  (* cgdescent.cpp: no members. First call: Hager-Zhang's I0 (x != 0 / f != 0 / else); later calls: one value-only
     evaluation at prevt * phi1, quadratic interpolation through (0, fx, dg) and (s, f(s)) accepted iff the trial value
     is below fx and the interpolant is strongly convex, else prevt * phi2 *)
  Definition cg0_first (v : view0) : float :=
    let xnorm := v_xinf v in
    let fnorm := src_l0cg_fnorm_f (abs (v_fx v)) in
    if src_l0cg_xpos_f xnorm then src_l0cg_t0x_f (l0_cg_phi0 prm0) xnorm (v_ginf v)
    else if src_l0cg_fpos_f fnorm then src_l0cg_t0f_f (l0_cg_phi0 prm0) fnorm (v_gsq v)
    else src_l0cg_t0one_f.

  Definition cg0_trial_step (last : float) : float := src_l0cg_trial_step_f (src_l0cg_prevt_f last) (l0_cg_phi1 prm0).

  Definition cg0_convexity (u w : step) : bool :=
    src_quadratic_convexity_f (src_quadratic_dt_f (st_t u) (st_f u) (st_g u) (st_t w) (st_f w) (st_g w)) (st_g u)
                              (src_quadratic_df_f (st_t u) (st_f u) (st_g u) (st_t w) (st_f w) (st_g w)).

  Definition cg0_next (v : view0) (last : float) : float :=
    let s := cg0_trial_step last in
    let step0 := mkS 0 (v_fx v) (v_dg v) in
    let stepx := mkS s (trial s) 0 in
    let convexity := cg0_convexity step0 stepx in
    let tq := quadratic step0 stepx in
    if src_l0cg_accept_f (st_f stepx) (st_f step0) convexity then tq else src_l0cg_t0grow_f last (l0_cg_phi2 prm0).

  Definition init_cgdescent (m : mem0) (v : view0) (last : float) : init_res :=
    if src_l0cg_first_f last then mkIR (cg0_first v) m 0%Z None
    else mkIR (cg0_next v last) m 1%Z (Some (cg0_trial_step last)).

  Definition lsearch0_get (k : kind0) (m : mem0) (v : view0) (last : float) : init_res :=
    match k with
    | L0Constant => init_constant m
    | L0Linear => init_linear m v last
    | L0Quadratic => init_quadratic m v last
    | L0CGDescent => init_cgdescent m v last
    end.
End Init.

(* the coordinate of the trial point of lsearch0-cgdescent: state.x() + prevt * phi1 * descent, element-wise *)
Definition cg0_trial_coord (x last phi1 d : float) : float := src_l0cg_trial_x_f x (src_l0cg_prevt_f last) phi1 d.

(* ---------- lsearch_t (src/solver/lsearch.cpp): the composition and its own mutable member m_last_step_size ---------- *)
Record lsmem := mkLM { lm_mem : mem0; lm_last : float }.
Definition lsmem_init (k : kind0) : lsmem := mkLM (mem_init k) src_ls_last0_f.

(* the oracles of one outer iteration: the view of (state, descent), the value-only trial evaluation, the probe oracle *)
Record iter_in := mkIt { it_view : view0; it_trial : float -> float; it_phi : Z -> float -> probe }.

Record iter_out := mkIO { io_init : init_res; io_res : result }.

(* lsearch_t::get: init_step_size = lsearch0->get(state, descent, m_last_step_size);
                   [ok, step_size] = lsearchk->get(state, descent, init_step_size); m_last_step_size = step_size *)
Definition lsearch_get (k : kind0) (prm0 : params0) (prm : params) (a : alg) (it : iter_in) (st : lsmem)
  : iter_out * lsmem :=
  let ir := lsearch0_get prm0 (it_trial it) k (lm_mem st) (it_view it) (lm_last st) in
  let r := ls_get (it_phi it) prm (v_p (it_view it)) a (ir_t0 ir) in
  (mkIO ir r, mkLM (ir_mem ir) (rt r)).

(* a whole solver run as far as the line search is concerned: one lsearch_t object, a sequence of outer iterations *)
Fixpoint lsearch_run (k : kind0) (prm0 : params0) (prm : params) (a : alg) (its : list iter_in) (st : lsmem)
  : list iter_out * lsmem :=
  match its with
  | [] => ([], st)
  | it :: rest =>
    let '(o, st1) := lsearch_get k prm0 prm a it st in
    let '(os, st2) := lsearch_run k prm0 prm a rest st1 in
    (o :: os, st2)
  end.

(* the lsearch0 object alone, driven by an arbitrary sequence of (view, trial oracle, last_step_size): what a recording
   wrapper around the real lsearch0 observes *)
Fixpoint lsearch0_run (k : kind0) (prm0 : params0) (calls : list (view0 * (float -> float) * float)) (m : mem0)
  : list init_res * mem0 :=
  match calls with
  | [] => ([], m)
  | (v, tr, last) :: rest =>
    let ir := lsearch0_get prm0 tr k m v last in
    let '(os, m2) := lsearch0_run k prm0 rest (ir_mem ir) in
    (ir :: os, m2)
  end.

(* total number of objective evaluations of one outer iteration: the trial of lsearch0 + the probes of lsearchk *)
Definition iter_evals (o : iter_out) : Z := (ir_evals (io_init o) + cnt (rs (io_res o)))%Z.

Definition kind0_of_Z (z : Z) : kind0 :=
  if (z =? 0)%Z then L0Constant else if (z =? 1)%Z then L0Linear else if (z =? 2)%Z then L0Quadratic else L0CGDescent.
