(* C14 (second extension) -- executable additions to the binary64 twin (C14_FloatDefs.v): the finite entries of a column,
   a scaled column, and the executable "no overflow in the scaled column" test used as hypothesis by C14_Float2.v.
   No proofs here. *)
From Coq Require Import ZArith Bool List Floats.
From LN Require Import C14_Defs C14_FloatDefs.
Import ListNotations.

(* the entries update() accumulates: std::isfinite(value) *)
Definition ffin_entries (col : list float) : list float := filter PrimFloat.is_finite col.

(* scalar_stats_t::scale applied to one column *)
Definition fscale_col (m : mode) (s : fstats) (col : list float) : list float := map (fscale_one m s) col.

(* "no overflow in scale(x)": input, offset, divisor and the two intermediates are finite (weaker than [chain_finite]) *)
Definition scale_finite (m : mode) (s : fstats) (x : float) : bool :=
  let d := PrimFloat.sub x (f_off m s) in
  PrimFloat.is_finite x && PrimFloat.is_finite (f_off m s) && PrimFloat.is_finite (f_div m s) &&
  PrimFloat.is_finite d && PrimFloat.is_finite (PrimFloat.mul d (f_div m s)).

Definition col_scale_finite (m : mode) (s : fstats) (col : list float) : bool := forallb (scale_finite m s) col.

(* the accumulators of a whole column, and the record of an enabled single column (i = 0 of 1 flag = 1) *)
Definition fcol_acc (big : float) (col : list float) : facc := faccumulate (facc0 big) col.
