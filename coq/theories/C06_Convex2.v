(* C06 extension -- proofs about the real instance of C06_Defs.v / C06_Convex2_Defs.v:
     1. exact second-order expansions (gradient = derivative) and sum-of-squares remainders: trid, rotated ellipsoid
     2. pointwise maxima with the gradient of an active piece: general lemma, maxq, max |A x| (maxhilb), maxquad, coordinate constraints
     3. matrices: adjoint, quadratic forms (any square P), I + B B', weighted elastic-net regulariser
     4. log-sum-exp / class-NLL
     5. sums, affine composition: kinks, geometric optimisation, empirical risk of the linear model / gboost / elastic net
     6. statements (with the declarations of the source they justify) *)
From Coq Require Import ZArith QArith List Bool Reals Lra Lia Psatz.
From Coq Require String.
From LNGen Require Import Src_c06 Src_c06_flags.
From LN Require Import C06_Defs C06_Proofs C06_Convex2_Defs.
Import ListNotations.
Local Open Scope R_scope.

(* ------------------------------------------------------------------------------------------------ *)
(* 0. small list facts                                                                               *)
(* ------------------------------------------------------------------------------------------------ *)
Lemma map2_length : forall (k : R -> R -> R) w x, length w = length x -> length (map2 k w x) = length x.
Proof. induction w as [|a w IH]; intros [|u x] H; simpl in *; try discriminate; auto. Qed.

Lemma vsub_nth : forall z x i, length z = length x -> nth i (Rvsub z x) 0 = nth i z 0 - nth i x 0.
Proof.
  induction z as [|a z IH]; intros [|b x] i H; try discriminate.
  - destruct i; simpl; lra.
  - rewrite vsub_cons. destruct i; simpl; [lra | apply IH; simpl in H; lia].
Qed.

Lemma total_cons : forall a l, total Rops (a :: l) = a + total Rops l.
Proof. reflexivity. Qed.

Lemma total_sq_nonneg : forall l, 0 <= total Rops (map (sq Rops) l).
Proof. induction l as [|a l IH]; simpl; rops; [lra | generalize (sqr_ge0 a); lra]. Qed.

(* ------------------------------------------------------------------------------------------------ *)
(* 1. exact expansions                                                                               *)
(* ------------------------------------------------------------------------------------------------ *)
Lemma chain_expand : forall (phi pa pb r : R -> R -> R -> R),
  (forall w a b a' b', phi w a' b' = phi w a b + pa w a b * (a' - a) + pb w a b * (b' - b) + r w (a' - a) (b' - b)) ->
  forall w x z, length z = length x ->
  chain_v Rops phi w z = chain_v Rops phi w x + Rdot (chain_g Rops pa pb 0 w x) (Rvsub z x) + chain_v Rops r w (Rvsub z x).
Proof.
  intros phi pa pb r Hk. induction w as [|wi w IH]; intros x z Hl.
  - destruct x as [|a x]; destruct z as [|a' z]; try discriminate; simpl.
    + unfold dot; simpl; rops; lra.
    + destruct x, z; unfold dot; simpl; rops; lra.
  - destruct x as [|a x]; destruct z as [|a' z]; try discriminate.
    + simpl. unfold dot; simpl; rops; lra.
    + injection Hl as Hl. destruct x as [|b x]; destruct z as [|b' z]; try discriminate.
      * simpl. unfold dot; simpl; rops; lra.
      * specialize (IH (b :: x) (b' :: z) Hl). specialize (Hk wi a b a' b').
        change (chain_v Rops phi (wi :: w) (a' :: b' :: z)) with (phi wi a' b' + chain_v Rops phi w (b' :: z)).
        change (chain_v Rops phi (wi :: w) (a :: b :: x)) with (phi wi a b + chain_v Rops phi w (b :: x)).
        change (chain_g Rops pa pb 0 (wi :: w) (a :: b :: x))
          with ((0 + pa wi a b) :: chain_g Rops pa pb (pb wi a b) w (b :: x)).
        rewrite (vsub_cons a' (b' :: z) a (b :: x)), dot_cons.
        rewrite (chain_g_carry pa pb w (b :: x) (Rvsub (b' :: z) (b :: x)) (pb wi a b));
          [| discriminate | apply vsub_length; exact Hl].
        rewrite (vsub_cons b' z b x) in *. simpl hd.
        change (chain_v Rops r (wi :: w) ((a' - a) :: (b' - b) :: Rvsub z x))
          with (r wi (a' - a) (b' - b) + chain_v Rops r w ((b' - b) :: Rvsub z x)).
        lra.
Qed.

Lemma chain_g_length : forall (pa pb : R -> R -> R -> R) w x c, (length x <= S (length w))%nat ->
  length (chain_g Rops pa pb c w x) = length x.
Proof.
  induction w as [|wi w IH]; intros x c H.
  - destruct x as [|a [|b x]]; simpl in *; auto; lia.
  - destruct x as [|a [|b x]]; try reflexivity.
    change (chain_g Rops pa pb c (wi :: w) (a :: b :: x)) with ((c + pa wi a b) :: chain_g Rops pa pb (pb wi a b) w (b :: x)).
    simpl length. f_equal. apply IH. simpl in *. lia.
Qed.

Lemma bias2_length : forall x, length (bias2 Rops x) = length x.
Proof. intro x. apply weights_from_length. Qed.

(* ---- trid: sum (x_i - 1)^2 - sum x_i x_{i+1} ---- *)
Lemma sqm1_sum_expand : forall z x, length z = length x ->
  sum2 Rops (fun _ u => sq Rops (u - 1)) z z =
  sum2 Rops (fun _ u => sq Rops (u - 1)) x x + Rdot (map2 (fun _ u => 2 * (u - 1)) x x) (Rvsub z x) + Rdot (Rvsub z x) (Rvsub z x).
Proof.
  induction z as [|v z IH]; intros [|u x] H; try discriminate.
  - unfold dot; simpl; rops; lra.
  - injection H as H. specialize (IH x H). cbn [sum2 map2]. rewrite vsub_cons, !dot_cons. rops. rewrite IH. ring.
Qed.

(* the quadratic part of trid: d'Td with T = tridiag(-1/2, 1, -1/2) *)
Definition trid_q (d : list R) : R := Rdot d d - chain_v Rops (fun _ a b => a * b) (bias2 Rops d) d.

Lemma trid_expand : forall x z, length z = length x ->
  trid_v Rops z = trid_v Rops x + Rdot (trid_g Rops x) (Rvsub z x) + trid_q (Rvsub z x).
Proof.
  intros x z H. unfold trid_v, trid_g, trid_q.
  assert (Hd : length (Rvsub z x) = length x) by (apply vsub_length; exact H).
  rewrite (bias2_same x z H), (bias2_same x (Rvsub z x) Hd).
  set (w := bias2 Rops x). assert (Hw : length w = length x) by apply bias2_length.
  rewrite dot_vsub_l.
  2:{ rewrite map2_length by reflexivity. rewrite chain_g_length; [reflexivity | lia]. }
  assert (E1 := sqm1_sum_expand z x H).
  assert (E2 := chain_expand (fun _ a b => a * b) (fun _ a b => b) (fun _ a b => a) (fun _ da db => da * db)
                  ltac:(intros; cbv beta; ring) w x z H).
  cbn [o_sub o_one o_mul o_zero Rops] in *. rewrite two_R.
  rewrite E1, E2. ring.
Qed.

(* sum-of-squares decomposition: 2 d'Td = d_1^2 + sum (d_{i+1} - d_i)^2 + d_n^2 *)
Fixpoint sos_from (prev : R) (d : list R) : R :=
  match d with [] => prev * prev | v :: d' => (v - prev) * (v - prev) + sos_from v d' end.

Lemma sos_from_nonneg : forall d prev, 0 <= sos_from prev d.
Proof. induction d as [|v d IH]; intro prev; simpl; [apply sqr_ge0 | generalize (sqr_ge0 (v - prev)) (IH v); lra]. Qed.

Lemma sos_chain : forall d prev w, (length d <= S (length w))%nat ->
  sos_from prev d = prev * prev - 2 * prev * hd 0 d + 2 * (Rdot d d - chain_v Rops (fun _ a b => a * b) w d).
Proof.
  induction d as [|v d IH]; intros prev w H.
  - destruct w; unfold dot; simpl; rops; lra.
  - destruct d as [|b d].
    + destruct w; unfold dot; simpl; rops; nra.
    + destruct w as [|wi w]; [simpl in H; lia|].
      specialize (IH v w ltac:(simpl in *; lia)).
      change (sos_from prev (v :: b :: d)) with ((v - prev) * (v - prev) + sos_from v (b :: d)).
      change (chain_v Rops (fun _ a0 b0 => a0 * b0) (wi :: w) (v :: b :: d))
        with (v * b + chain_v Rops (fun _ a0 b0 => a0 * b0) w (b :: d)).
      rewrite (dot_cons v (b :: d) v (b :: d)). rewrite IH. simpl hd. ring.
Qed.

Lemma trid_q_sos : forall d, 2 * trid_q d = sos_from 0 d.
Proof.
  intro d. unfold trid_q. rewrite (sos_chain d 0 (bias2 Rops d)) by (rewrite bias2_length; lia). ring.
Qed.

Lemma trid_q_nonneg : forall d, 0 <= trid_q d.
Proof. intro d. generalize (trid_q_sos d) (sos_from_nonneg d 0). lra. Qed.

Lemma trid_convex : forall x z, length z = length x ->
  trid_v Rops z >= trid_v Rops x + Rdot (trid_g Rops x) (Rvsub z x).
Proof. intros x z H. rewrite (trid_expand x z H). generalize (trid_q_nonneg (Rvsub z x)). lra. Qed.

(* ---- rotated hyper-ellipsoid: |L x|^2 with L the lower-triangular matrix of ones ---- *)
Lemma suffix_hd_total : forall p, match suffix_sums Rops p with [] => 0 | s :: _ => s end = total Rops p.
Proof.
  induction p as [|v p IH]; [reflexivity|].
  cbn [suffix_sums]. rewrite total_cons. cbn [o_add o_zero Rops] in *. rewrite IH. reflexivity.
Qed.

Lemma prefix_length : forall x acc, length (prefix_from Rops acc x) = length x.
Proof. induction x as [|v x IH]; intro acc; simpl; auto. Qed.

(* summation by parts *)
Lemma suffix_prefix_adjoint : forall p d acc, length p = length d ->
  Rdot p (prefix_from Rops acc d) = Rdot (suffix_sums Rops p) d + acc * total Rops p.
Proof.
  induction p as [|v p IH]; intros [|e d] acc H; try discriminate.
  - unfold dot; simpl; rops; lra.
  - injection H as H. cbn [prefix_from suffix_sums]. rewrite !dot_cons, total_cons, (IH d _ H).
    generalize (suffix_hd_total p). cbn [o_add o_zero Rops]. intros ->. ring.
Qed.

Lemma prefix_sq_expand : forall z x a c, length z = length x ->
  total Rops (map (sq Rops) (prefix_from Rops c z)) =
  total Rops (map (sq Rops) (prefix_from Rops a x)) + 2 * Rdot (prefix_from Rops a x) (prefix_from Rops (c - a) (Rvsub z x))
  + total Rops (map (sq Rops) (prefix_from Rops (c - a) (Rvsub z x))).
Proof.
  induction z as [|v' z IH]; intros [|v x] a c H; try discriminate.
  - unfold dot; simpl; rops; lra.
  - injection H as H. rewrite vsub_cons. cbn [prefix_from map]. rewrite !total_cons, dot_cons.
    cbn [o_add Rops]. rewrite (IH x (a + v) (c + v') H).
    replace (c + v' - (a + v)) with (c - a + (v' - v)) by ring. rops. ring.
Qed.

Lemma rotated_expand : forall x z, length z = length x ->
  rotated_v Rops z = rotated_v Rops x + Rdot (rotated_g Rops x) (Rvsub z x) + rotated_v Rops (Rvsub z x).
Proof.
  intros x z H. unfold rotated_v, rotated_g. cbn [o_zero Rops].
  rewrite (prefix_sq_expand z x 0 0 H). replace (0 - 0) with 0 by ring.
  change (map (o_mul Rops (two Rops)) (prefix_from Rops 0 x)) with (Rvscale (two Rops) (prefix_from Rops 0 x)).
  assert (L : length (Rvscale (two Rops) (prefix_from Rops 0 x)) = length (Rvsub z x)).
  { unfold vscale. rewrite map_length, prefix_length, vsub_length; auto. }
  generalize (suffix_prefix_adjoint _ _ 0 L). rewrite dot_vscale_l, two_R. intros E. lra.
Qed.

Lemma rotated_convex : forall x z, length z = length x ->
  rotated_v Rops z >= rotated_v Rops x + Rdot (rotated_g Rops x) (Rvsub z x).
Proof.
  intros x z H. rewrite (rotated_expand x z H).
  generalize (total_sq_nonneg (prefix_from Rops (o_zero Rops) (Rvsub z x))). unfold rotated_v. lra.
Qed.

(* ------------------------------------------------------------------------------------------------ *)
(* 2. pointwise maxima                                                                               *)
(* ------------------------------------------------------------------------------------------------ *)
Lemma maxval_ge : forall v i, (i < length v)%nat -> maxval Rops v >= nth i v 0.
Proof.
  intros v i H. unfold maxval. assert (Hv : v <> []) by (destruct v; [simpl in H; lia | discriminate]).
  destruct (argmax_spec v Hv) as (_ & Hmax & _). apply Rle_ge, Hmax, H.
Qed.

(* the value of ANY active piece i (one that attains the maximum at x) bounds the maximum at z from below *)
Lemma max_active_subgrad : forall (vx vz : list R) i lin, length vz = length vx -> (i < length vx)%nat ->
  (forall j, (j < length vx)%nat -> nth j vx 0 <= nth i vx 0) ->
  nth i vz 0 >= nth i vx 0 + lin -> maxval Rops vz >= maxval Rops vx + lin.
Proof.
  intros vx vz i lin Hl Hi Hact Hp.
  assert (Hv : vx <> []) by (destruct vx; [simpl in Hi; lia | discriminate]).
  destruct (argmax_spec vx Hv) as (Ha & Hmax & _).
  assert (E : maxval Rops vx = nth i vx 0).
  { unfold maxval. apply Rle_antisym; [apply Hact, Ha | apply Hmax, Hi]. }
  rewrite E. generalize (maxval_ge vz i ltac:(lia)). lra.
Qed.

(* ... in particular the piece the source selects: the FIRST largest one *)
Lemma max_subgrad : forall (vx vz : list R) lin, vx <> [] -> length vz = length vx ->
  nth (argmax Rops vx) vz 0 >= nth (argmax Rops vx) vx 0 + lin -> maxval Rops vz >= maxval Rops vx + lin.
Proof.
  intros vx vz lin Hv Hl Hp. destruct (argmax_spec vx Hv) as (Ha & Hmax & _).
  apply (max_active_subgrad vx vz (argmax Rops vx) lin Hl Ha Hmax Hp).
Qed.

(* the general statement: pointwise maximum of functions that satisfy the sub-gradient inequality, with the gradient of the
   first largest piece *)
Definition pmax_v (fs : list (list R -> R)) (x : list R) : R := maxval Rops (map (fun f => f x) fs).
Definition pmax_g (fs : list (list R -> R)) (gs : list (list R -> list R)) (x : list R) : list R :=
  nth (argmax Rops (map (fun f => f x) fs)) gs (fun _ => []) x.

Lemma nth_map_apply : forall (fs : list (list R -> R)) x k, (k < length fs)%nat ->
  nth k (map (fun f => f x) fs) 0 = nth k fs (fun _ => 0) x.
Proof.
  induction fs as [|f fs IH]; intros x k H; [simpl in H; lia|]. destruct k; simpl; auto. apply IH. simpl in H; lia.
Qed.

Lemma pointwise_max_convex : forall fs gs, fs <> [] -> length gs = length fs ->
  (forall k, (k < length fs)%nat -> convex_on (nth k fs (fun _ => 0)) (nth k gs (fun _ => [])) 0) ->
  convex_on (pmax_v fs) (pmax_g fs gs) 0.
Proof.
  intros fs gs Hf Hg Hk x z Hl. unfold pmax_v, pmax_g.
  set (vx := map (fun f => f x) fs). set (vz := map (fun f => f z) fs).
  assert (Hvx : vx <> []) by (unfold vx; destruct fs; [contradiction | discriminate]).
  destruct (argmax_spec vx Hvx) as (Ha & _). unfold vx in Ha at 2. rewrite map_length in Ha.
  specialize (Hk (argmax Rops vx) Ha x z Hl).
  assert (M := max_subgrad vx vz (Rdot (nth (argmax Rops vx) gs (fun _ => []) x) (Rvsub z x)) Hvx
                ltac:(unfold vx, vz; rewrite !map_length; reflexivity)).
  assert (E1 : nth (argmax Rops vx) vx 0 = nth (argmax Rops vx) fs (fun _ => 0) x) by (apply nth_map_apply; exact Ha).
  assert (E2 : nth (argmax Rops vx) vz 0 = nth (argmax Rops vx) fs (fun _ => 0) z) by (apply nth_map_apply; exact Ha).
  rewrite E1, E2 in M. specialize (M ltac:(lra)). lra.
Qed.

(* ---- maxq: max_i x_i^2 with the gradient 2 x_idx e_idx ---- *)
Lemma idx_test : forall i j : nat,
  andb (negb (o_ltb Rops (cst Rops (Z.of_nat j) 1) (cst Rops (Z.of_nat i) 1)))
       (negb (o_ltb Rops (cst Rops (Z.of_nat i) 1) (cst Rops (Z.of_nat j) 1))) = Nat.eqb j i.
Proof.
  intros i j. rewrite !cstZ_R. cbn [o_ltb Rops]. unfold Rltb.
  destruct (Nat.eqb_spec j i) as [->|Hne].
  - destruct (Rlt_dec (IZR (Z.of_nat i)) (IZR (Z.of_nat i))); [lra | reflexivity].
  - destruct (Rlt_dec (IZR (Z.of_nat j)) (IZR (Z.of_nat i))) as [L|L]; [reflexivity|].
    destruct (Rlt_dec (IZR (Z.of_nat i)) (IZR (Z.of_nat j))) as [L'|L']; [reflexivity|].
    exfalso. apply Hne. apply Nat2Z.inj. apply eq_IZR. lra.
Qed.

Definition pick (c : R -> R) (i k : nat) (x : list R) : list R :=
  map2 (fun j u => if andb (negb (o_ltb Rops j (cst Rops (Z.of_nat i) 1))) (negb (o_ltb Rops (cst Rops (Z.of_nat i) 1) j)) then c u else 0)
       (weights_from Rops k (length x)) x.

Lemma pick_dot_none : forall c x d i k, (i < k)%nat -> Rdot (pick c i k x) d = 0.
Proof.
  intros c. induction x as [|u x IH]; intros d i k H; unfold pick in *.
  - destruct d; reflexivity.
  - destruct d as [|e d]; [apply dot_nil_r|].
    cbn [length weights_from map2]. rewrite idx_test. destruct (Nat.eqb_spec k i) as [->|_]; [lia|].
    rewrite dot_cons, (IH d i (S k)) by lia. ring.
Qed.

Lemma pick_dot : forall c x d i k, (k <= i)%nat -> (i < k + length x)%nat -> length d = length x ->
  Rdot (pick c i k x) d = c (nth (i - k) x 0) * nth (i - k) d 0.
Proof.
  intros c. induction x as [|u x IH]; intros d i k H1 H2 Hl; [simpl in H2; lia|].
  destruct d as [|e d]; [discriminate|]. injection Hl as Hl.
  unfold pick in *. cbn [length weights_from map2]. rewrite idx_test, dot_cons.
  destruct (Nat.eqb_spec k i) as [->|Hne].
  - rewrite Nat.sub_diag. generalize (pick_dot_none c x d i (S i) ltac:(lia)). unfold pick. intros ->. simpl. ring.
  - rewrite (IH d i (S k)) by (simpl in H2; lia).
    replace (i - k)%nat with (S (i - S k)) by lia. simpl. ring.
Qed.

Lemma nth_map_sq : forall l i, (i < length l)%nat -> nth i (map (sq Rops) l) 0 = sq Rops (nth i l 0).
Proof.
  intros l i H. rewrite (nth_indep _ 0 (sq Rops 0)) by (rewrite map_length; exact H). apply map_nth.
Qed.

Lemma maxq_convex : forall x z, length z = length x ->
  maxq_v Rops z >= maxq_v Rops x + Rdot (maxq_g Rops x) (Rvsub z x).
Proof.
  intros x z H. destruct x as [|u x].
  - destruct z; [|discriminate]. unfold maxq_v, maxq_g, dot; simpl; rops; lra.
  - set (X := u :: x) in *. unfold maxq_g. cbv zeta.
    assert (Hm : map (sq Rops) X <> []) by discriminate.
    destruct (argmax_spec (map (sq Rops) X) Hm) as (Ha & _). rewrite map_length in Ha.
    set (i := argmax Rops (map (sq Rops) X)) in *.
    change (map2 _ (weights_from Rops 0 (length X)) X) with (pick (fun v => two Rops * v) i 0 X).
    rewrite (pick_dot _ X (Rvsub z X) i 0) by (try lia; apply vsub_length; exact H).
    rewrite Nat.sub_0_r, (vsub_nth z X i H).
    apply (max_subgrad (map (sq Rops) X) (map (sq Rops) z)); [exact Hm | rewrite !map_length; exact H |].
    fold i. rewrite !nth_map_sq by lia. rewrite two_R. rops.
    generalize (sqr_ge0 (nth i z 0 - nth i X 0)). nra.
Qed.

(* ---- coordinate constraints (constant / minimum / maximum): sign * (x_d - value), affine ---- *)
Lemma cons_coord_expand : forall s v dm x z, length z = length x -> (dm < length x)%nat ->
  cons_coord_v Rops s v dm z = cons_coord_v Rops s v dm x + Rdot (cons_coord_g Rops s dm x) (Rvsub z x).
Proof.
  intros s v dm x z H Hd. unfold cons_coord_v, cons_coord_g.
  change (map2 _ (weights_from Rops 0 (length x)) x) with (pick (fun _ => s) dm 0 x).
  rewrite (pick_dot _ x (Rvsub z x) dm 0) by (try lia; apply vsub_length; exact H).
  rewrite Nat.sub_0_r, (vsub_nth z x dm H). rops. ring.
Qed.

(* ------------------------------------------------------------------------------------------------ *)
(* 4. log-sum-exp and the class negative log-likelihood                                              *)
(* ------------------------------------------------------------------------------------------------ *)
Lemma sumexp_cons : forall m v o, sumexp m (v :: o) = exp (v - m) + sumexp m o.
Proof. reflexivity. Qed.

Lemma sumexp_nonneg : forall m o, 0 <= sumexp m o.
Proof. induction o as [|v o IH]; [simpl; lra | rewrite sumexp_cons; generalize (exp_pos (v - m)); lra]. Qed.

Lemma sumexp_pos : forall m o, o <> [] -> 0 < sumexp m o.
Proof. intros m [|v o] H; [contradiction|]. rewrite sumexp_cons. generalize (exp_pos (v - m)) (sumexp_nonneg m o). lra. Qed.

(* the shift by the largest output used by the code cancels *)
Lemma sumexp_shift : forall m o, sumexp m o = exp (- m) * sumexp 0 o.
Proof.
  induction o as [|v o IH]; [simpl; ring|]. rewrite !sumexp_cons, IH.
  replace (v - m) with (v + - m) by ring. rewrite exp_plus. replace (v - 0) with v by ring. ring.
Qed.

(* weighted tangent inequalities of exp at c, summed *)
Lemma sumexp_lower : forall c x z, length z = length x ->
  sumexp 0 z >= exp c * ((1 - c) * sumexp 0 x + Rdot (map exp x) (Rvsub z x)).
Proof.
  intros c. induction x as [|v x IH]; intros [|v' z] H; try discriminate.
  - unfold dot; simpl. rops. lra.
  - injection H as H. specialize (IH z H). rewrite !sumexp_cons, vsub_cons. cbn [map]. rewrite dot_cons.
    replace (v' - 0) with (v + (v' - v)) by ring. replace (v - 0) with v by ring. rewrite exp_plus.
    assert (Ev := exp_pos v). assert (Ec := exp_pos c).
    assert (T := exp_tangent c (v' - v)).
    assert (P : exp v * exp (v' - v) >= exp v * (exp c + exp c * (v' - v - c))) by (apply Rle_ge, Rmult_le_compat_l; lra).
    nra.
Qed.

Lemma softmax_dot : forall x d, Rdot (softmax x) d = Rdot (map exp x) d / sumexp 0 x.
Proof.
  intros x d. unfold softmax.
  replace (map (fun v => exp v / sumexp 0 x) x) with (Rvscale (/ sumexp 0 x) (map exp x)).
  - rewrite dot_vscale_l. unfold Rdiv. ring.
  - unfold vscale. rewrite map_map. apply map_ext. intro a. cbn [o_mul Rops]. unfold Rdiv. ring.
Qed.

(* log-sum-exp is convex and its gradient is the soft-max *)
Lemma lse_convex : forall x z, length z = length x -> x <> [] ->
  lse z >= lse x + Rdot (softmax x) (Rvsub z x).
Proof.
  intros x z H Hx. unfold lse. rewrite softmax_dot.
  assert (S0 := sumexp_pos 0 x Hx). set (S := sumexp 0 x) in *.
  set (m := Rdot (map exp x) (Rvsub z x) / S).
  generalize (sumexp_lower m x z H). fold S.
  replace ((1 - m) * S + Rdot (map exp x) (Rvsub z x)) with S by (unfold m; field; lra).
  intros L. assert (Em := exp_pos m).
  assert (Hle : ln (exp m * S) <= ln (sumexp 0 z)).
  { destruct L as [L|L]; [left; apply ln_increasing; nra | right; now rewrite L]. }
  rewrite ln_mult, ln_exp in Hle by lra. lra.
Qed.

(* the outputs of the positive labels are linear in the outputs *)
Lemma posum_expand : forall t x z, length z = length x ->
  posum t z = posum t x + Rdot (posind t x) (Rvsub z x).
Proof.
  induction t as [|a t IH]; intros [|v x] [|v' z] H; try discriminate; try (unfold posind, dot; simpl; rops; lra).
  injection H as H. specialize (IH x z H). unfold posind in *. cbn [posum map2]. rewrite vsub_cons, dot_cons.
  destruct (Rltb 0 a); lra.
Qed.

Lemma softmax_length : forall x, length (softmax x) = length x.
Proof. intro x. unfold softmax. apply map_length. Qed.
Lemma posind_length : forall t x, length t = length x -> length (posind t x) = length x.
Proof. intros t x H. unfold posind. apply map2_length, H. Qed.

(* the ideal class-NLL  lse(o) - sum of the outputs of the positive labels  is convex with the gradient soft-max - indicator *)
Lemma classnll_ideal_convex : forall t x z, length z = length x -> length t = length x -> x <> [] ->
  classnll_ideal t z >= classnll_ideal t x + Rdot (classnll_ideal_g t x) (Rvsub z x).
Proof.
  intros t x z H Ht Hx. unfold classnll_ideal, classnll_ideal_g.
  rewrite dot_vsub_l by (rewrite softmax_length, posind_length; auto).
  rewrite (posum_expand t x z H). generalize (lse_convex x z H Hx). unfold lse. lra.
Qed.

(* the gradient the CODE computes (shift by the largest output) is exactly soft-max - indicator *)
Lemma classnll_g_from_spec : forall m S0 t o, 0 < S0 ->
  classnll_g_from m (exp (- m) * S0) t o = map2 (fun a v => exp v / S0 - (if Rltb 0 a then 1 else 0)) t o.
Proof.
  intros m S0 t o HS. revert o. induction t as [|a t IH]; intros [|v o]; cbn [classnll_g_from map2]; auto.
  rewrite IH. f_equal. f_equal. replace (v - m) with (v + - m) by ring. rewrite exp_plus.
  assert (Em := exp_pos (- m)). field. lra.
Qed.

Lemma vsub_map_map2 : forall (f : R -> R) (g : R -> R -> R) t o, length t = length o ->
  Rvsub (map f o) (map2 g t o) = map2 (fun a v => f v - g a v) t o.
Proof. induction t as [|a t IH]; intros [|v o] H; try discriminate; auto. injection H as H. cbn [map map2]. rewrite vsub_cons, IH; auto. Qed.

Lemma classnll_g_is_ideal : forall t o, length t = length o -> o <> [] -> classnll_g t o = classnll_ideal_g t o.
Proof.
  intros t o Ht Ho. unfold classnll_g, classnll_ideal_g, softmax, posind.
  rewrite (sumexp_shift (listmax o) o), classnll_g_from_spec by (apply sumexp_pos, Ho).
  rewrite (vsub_map_map2 (fun v => exp v / sumexp 0 o) (fun a _ => if Rltb 0 a then 1 else 0) t o Ht). reflexivity.
Qed.

(* the value the CODE computes: ln (eps + sum exp (o_i - max o)) - posum + max o  =  ln (eps e^max + sum exp o_i) - posum *)
Lemma listmax_in : forall o, o <> [] -> In (listmax o) o.
Proof.
  intros [|v o] H; [contradiction|]. unfold listmax. clear H. revert v. induction o as [|a o IH]; intro v; [left; reflexivity|].
  cbn [fold_right]. unfold Rmax at 1. destruct (Rle_dec a (fold_right Rmax v o)).
  - destruct (IH v) as [E|E]; [left; exact E | right; right; exact E].
  - right; left; reflexivity.
Qed.

Lemma exp_le_sumexp : forall v o, In v o -> exp v <= sumexp 0 o.
Proof.
  intros v. induction o as [|a o IH]; [intros []|]. intros [E|E]; rewrite sumexp_cons.
  - subst. replace (v - 0) with v by ring. generalize (sumexp_nonneg 0 o). lra.
  - specialize (IH E). generalize (exp_pos (a - 0)). lra.
Qed.

Lemma classnll_code_gap : forall eps t o, 0 <= eps -> o <> [] ->
  classnll_ideal t o <= classnll_code eps t o <= classnll_ideal t o + ln (1 + eps).
Proof.
  intros eps t o He Ho. unfold classnll_code, classnll_ideal.
  set (M := listmax o). assert (HM : exp M <= sumexp 0 o) by (apply exp_le_sumexp, listmax_in, Ho).
  assert (S0 := sumexp_pos 0 o Ho). assert (EM := exp_pos M).
  rewrite (sumexp_shift M o). set (S := sumexp 0 o) in *.
  assert (E : ln (eps + exp (- M) * S) + M = ln (eps * exp M + S)).
  { rewrite <- (ln_exp M) at 2. rewrite <- ln_mult; [| generalize (exp_pos (- M)); nra | exact EM ].
    f_equal. rewrite Rmult_plus_distr_r, Rmult_assoc, (Rmult_comm S), <- Rmult_assoc, <- exp_plus.
    replace (- M + M) with 0 by ring. rewrite exp_0. ring. }
  assert (L1 : ln S <= ln (eps * exp M + S)).
  { destruct (Req_dec eps 0) as [->|Hn]; [right; f_equal; ring | left; apply ln_increasing; nra]. }
  assert (L2 : ln (eps * exp M + S) <= ln ((1 + eps) * S)).
  { destruct (Rle_lt_or_eq_dec _ _ HM) as [Hlt|Heq].
    - destruct (Req_dec eps 0) as [->|Hn]; [right; f_equal; ring | left; apply ln_increasing; nra].
    - right. f_equal. rewrite Heq. ring. }
  rewrite ln_mult in L2 by lra. lra.
Qed.

Lemma ln1p_le : forall e, 0 <= e -> ln (1 + e) <= e.
Proof.
  intros e He. destruct He as [He|<-]; [|rewrite Rplus_0_r, ln_1; lra].
  rewrite <- (ln_exp e) at 2. left. apply ln_increasing; [lra | generalize (exp_ineq1 e ltac:(lra)); lra].
Qed.

(* what is true of the code's formula: the sub-gradient inequality up to the slack ln (1 + eps) <= eps *)
Lemma classnll_code_convex_slack : forall eps t x z, 0 <= eps -> length z = length x -> length t = length x -> x <> [] ->
  classnll_code eps t z >= classnll_code eps t x + Rdot (classnll_g t x) (Rvsub z x) - ln (1 + eps).
Proof.
  intros eps t x z He H Ht Hx.
  assert (Hz : z <> []) by (destruct z; [destruct x; [contradiction | discriminate] | discriminate]).
  rewrite (classnll_g_is_ideal t x Ht Hx).
  generalize (classnll_ideal_convex t x z H Ht Hx) (classnll_code_gap eps t x He Hx) (classnll_code_gap eps t z He Hz). lra.
Qed.

(* ------------------------------------------------------------------------------------------------ *)
(* 3. matrices (lists of rows), quadratic forms, weighted elastic-net regulariser                     *)
(* ------------------------------------------------------------------------------------------------ *)
Notation Rmv := (mv Rops).
Notation Rmtv := (mtv Rops).
Notation Rzeros := (zeros Rops).
Definition rows_len (n : nat) (A : list (list R)) : Prop := Forall (fun r => length r = n) A.

Lemma zeros_length : forall n, length (Rzeros n) = n.
Proof. intro n. unfold zeros. apply repeat_length. Qed.
Lemma dot_zeros_l : forall n d, Rdot (Rzeros n) d = 0.
Proof. induction n as [|n IH]; intros [|e d]; try reflexivity. unfold zeros in *. cbn [repeat]. rewrite dot_cons, IH. cbn [o_zero Rops]. ring. Qed.
Lemma dot_zeros_r : forall n d, Rdot d (Rzeros n) = 0.
Proof. intros. rewrite dot_comm. apply dot_zeros_l. Qed.
Lemma vadd_length : forall x y, length x = length y -> length (Rvadd x y) = length y.
Proof. intros x y H. unfold vadd. apply map2_length, H. Qed.
Lemma vscale_length : forall c x, length (Rvscale c x) = length x.
Proof. intros. unfold vscale. apply map_length. Qed.
Lemma mv_length : forall A x, length (Rmv A x) = length A.
Proof. intros. unfold mv. apply map_length. Qed.
Lemma dot_vadd_r : forall d x y, length x = length y -> Rdot d (Rvadd x y) = Rdot d x + Rdot d y.
Proof. intros d x y H. rewrite dot_comm, dot_vadd_l by exact H. rewrite (dot_comm x), (dot_comm y). reflexivity. Qed.
Lemma dot_vsub_r : forall d z x, length z = length x -> Rdot d (Rvsub z x) = Rdot d z - Rdot d x.
Proof. intros d z x H. rewrite dot_comm, dot_vsub_l by exact H. rewrite (dot_comm z), (dot_comm x). reflexivity. Qed.
Lemma dot_vscale_r : forall c x y, Rdot y (Rvscale c x) = c * Rdot y x.
Proof. intros. rewrite dot_comm, dot_vscale_l, dot_comm. reflexivity. Qed.

Lemma mtv_length : forall n A y, rows_len n A -> length (Rmtv n A y) = n.
Proof.
  intros n A. induction A as [|r A IH]; intros y H; [apply zeros_length|].
  destruct y as [|v y]; [apply zeros_length|]. inversion H as [|? ? Hr HA]; subst. cbn [mtv].
  rewrite vadd_length; [apply IH, HA | rewrite vscale_length, IH; auto].
Qed.

(* <A' y, x> = <y, A x> *)
Lemma mtv_adjoint : forall n A y x, rows_len n A -> length x = n -> Rdot (Rmtv n A y) x = Rdot y (Rmv A x).
Proof.
  intros n A. induction A as [|r A IH]; intros y x H Hx.
  - cbn [mtv mv map]. rewrite dot_zeros_l, dot_nil_r. reflexivity.
  - destruct y as [|v y]; [cbn [mtv]; rewrite dot_zeros_l; reflexivity|].
    inversion H as [|? ? Hr HA]; subst. cbn [mtv mv map].
    rewrite dot_vadd_l by (rewrite vscale_length, mtv_length; auto).
    rewrite dot_vscale_l, dot_cons. fold (Rmv A x). rewrite (IH y x HA eq_refl). reflexivity.
Qed.

(* the bilinear form u' A v is linear in v and in u *)
Lemma bil_vsub_r : forall A u z x, length z = length x ->
  Rdot u (Rmv A (Rvsub z x)) = Rdot u (Rmv A z) - Rdot u (Rmv A x).
Proof.
  induction A as [|r A IH]; intros u z x H; [cbn [mv map]; rewrite !dot_nil_r; ring|].
  destruct u as [|a u]; [unfold dot; simpl; rops; ring|].
  cbn [mv map]. rewrite !dot_cons. fold (Rmv A (Rvsub z x)) (Rmv A z) (Rmv A x).
  rewrite (IH u z x H), (dot_vsub_r r z x H). ring.
Qed.
Lemma bil_vsub_l : forall A z x v, length z = length x ->
  Rdot (Rvsub z x) (Rmv A v) = Rdot z (Rmv A v) - Rdot x (Rmv A v).
Proof. intros. apply dot_vsub_l. assumption. Qed.

(* z'Pz = x'Px + d'Px + x'Pd + d'Pd with d = z - x *)
Lemma bil_expand : forall A x z, length z = length x ->
  Rdot z (Rmv A z) = Rdot x (Rmv A x) + Rdot (Rvsub z x) (Rmv A x) + Rdot x (Rmv A (Rvsub z x))
                     + Rdot (Rvsub z x) (Rmv A (Rvsub z x)).
Proof.
  intros A x z H. rewrite !bil_vsub_l by exact H. rewrite !bil_vsub_r by exact H. ring.
Qed.

(* quadratic constraint 1/2 x'Px + q'x + r with ANY square P: the returned 1/2 (P + P') x + q is the derivative *)
Lemma cq_expand : forall P q r x z n, length P = n -> rows_len n P -> length q = n -> length x = n -> length z = n ->
  cq_v Rops P q r z = cq_v Rops P q r x + Rdot (cq_g Rops P q x) (Rvsub z x) + / 2 * Rdot (Rvsub z x) (Rmv P (Rvsub z x)).
Proof.
  intros P q r x z n HP Hr Hq Hx Hz. unfold cq_v, cq_g. rewrite Hx.
  assert (H : length z = length x) by lia.
  assert (Hd : length (Rvsub z x) = n) by (rewrite vsub_length; auto).
  assert (L1 : length (Rmv P x) = length (Rmtv n P x)) by (rewrite mv_length, mtv_length; auto).
  rewrite dot_vadd_l by (rewrite vscale_length, vadd_length, mtv_length; auto).
  rewrite dot_vscale_l, dot_vadd_l by exact L1.
  rewrite (mtv_adjoint n P x (Rvsub z x) Hr Hd), (dot_comm (Rmv P x)), (bil_expand P x z H), (dot_vsub_r q z x H).
  replace (half Rops) with (/ 2) by (rops; lra). cbn [o_add o_mul Rops]. ring.
Qed.

(* fn:quadratic x.(a + 1/2 A x) with the gradient a + A x: the derivative when the form is symmetric *)
Definition sym_form (n : nat) (A : list (list R)) : Prop :=
  forall u v, length u = n -> length v = n -> Rdot u (Rmv A v) = Rdot v (Rmv A u).
(* mu is a lower bound of the Rayleigh quotient (e.g. the least eigenvalue of the symmetric part) *)
Definition rayleigh (n : nat) (A : list (list R)) (mu : R) : Prop :=
  forall d, length d = n -> Rdot d (Rmv A d) >= mu * Rdot d d.

Lemma quad_expand : forall a A x z n, length A = n -> length a = n -> length x = n -> length z = n -> sym_form n A ->
  quad_v Rops a A z = quad_v Rops a A x + Rdot (quad_g Rops a A x) (Rvsub z x) + / 2 * Rdot (Rvsub z x) (Rmv A (Rvsub z x)).
Proof.
  intros a A x z n HA Ha Hx Hz Hs. unfold quad_v, quad_g.
  assert (H : length z = length x) by lia.
  assert (Hd : length (Rvsub z x) = n) by (rewrite vsub_length; auto).
  rewrite !dot_vadd_r by (rewrite vscale_length, mv_length; lia).
  rewrite !dot_vscale_r, dot_vadd_l by (rewrite mv_length; lia).
  rewrite (bil_expand A x z H), (Hs x (Rvsub z x) Hx Hd), (dot_comm (Rmv A x)), (dot_comm z a), (dot_comm x a), (dot_vsub_r a z x H).
  replace (half Rops) with (/ 2) by (rops; lra). field.
Qed.

(* the matrix the constructor builds: I + B B' *)
Lemma mv_identity : forall n v, length v = n -> Rmv (identity Rops n) v = v.
Proof.
  induction n as [|n IH]; intros [|e v] H; try discriminate; [reflexivity|]. injection H as H.
  cbn [identity mv map]. rewrite dot_cons. fold (Rzeros n). rewrite dot_zeros_l, map_map.
  f_equal; [cbn [o_one Rops]; ring|].
  transitivity (Rmv (identity Rops n) v); [|apply IH, H]. unfold mv. apply map_ext. intro r. rewrite dot_cons. cbn [o_zero Rops]. ring.
Qed.

Lemma identity_shape : forall n, length (identity Rops n) = n /\ rows_len n (identity Rops n).
Proof.
  induction n as [|n [IH1 IH2]]; [split; [reflexivity | constructor]|]. cbn [identity]. split.
  - simpl. rewrite map_length, IH1. reflexivity.
  - constructor; [simpl; rewrite zeros_length; reflexivity|].
    unfold rows_len in *. rewrite Forall_map. eapply Forall_impl; [|exact IH2]. simpl. intros r Hr. now rewrite Hr.
Qed.

Lemma mv_madd : forall A B v n, rows_len n A -> rows_len n B -> length A = length B ->
  Rmv (madd Rops A B) v = Rvadd (Rmv A v) (Rmv B v).
Proof.
  induction A as [|r A IH]; intros [|s B] v n HA HB H; try discriminate; [reflexivity|]. injection H as H.
  inversion HA as [|? ? Hr HA']; inversion HB as [|? ? Hs HB']; subst.
  cbn [madd mv map]. rewrite dot_vadd_l by lia. fold (Rmv (madd Rops A B) v) (Rmv A v) (Rmv B v).
  rewrite (IH B v (length r) HA' HB' H). reflexivity.
Qed.

Lemma dot_rows : forall m B v r, rows_len m B -> length r = m ->
  Rdot (map (fun c => Rdot r c) B) v = Rdot r (Rmtv m B v).
Proof.
  intros m B. induction B as [|c B IH]; intros v r HB Hr.
  - cbn [map mtv]. rewrite dot_zeros_r. destruct v; reflexivity.
  - destruct v as [|e v]; [cbn [mtv]; rewrite dot_zeros_r, dot_nil_r; reflexivity|].
    inversion HB as [|? ? Hc HB']; subst. cbn [map mtv]. rewrite dot_cons, (IH v r HB' eq_refl).
    rewrite dot_vadd_r by (rewrite vscale_length, mtv_length; auto). rewrite dot_vscale_r. ring.
Qed.

Lemma mv_gram : forall m B v, rows_len m B -> Rmv (gram Rops B) v = Rmv B (Rmtv m B v).
Proof.
  intros m B v HB. unfold gram, mv. rewrite map_map. apply map_ext_in. intros r Hr.
  apply dot_rows; [exact HB|]. unfold rows_len in HB. rewrite Forall_forall in HB. apply HB, Hr.
Qed.

Lemma gram_shape : forall B, length (gram Rops B) = length B /\ rows_len (length B) (gram Rops B).
Proof.
  intro B. unfold gram. split; [apply map_length|]. unfold rows_len. rewrite Forall_map. apply Forall_forall. intros r _. apply map_length.
Qed.

(* u'(I + B B')v = u.v + (B'u).(B'v) *)
Lemma gram1_form : forall m B u v, rows_len m B -> length u = length B -> length v = length B ->
  Rdot u (Rmv (gram1 Rops B) v) = Rdot u v + Rdot (Rmtv m B u) (Rmtv m B v).
Proof.
  intros m B u v HB Hu Hv. unfold gram1.
  destruct (identity_shape (length B)) as (I1 & I2). destruct (gram_shape B) as (G1 & G2).
  rewrite (mv_madd _ _ v (length B) I2 G2) by lia.
  rewrite dot_vadd_r by (rewrite !mv_length; lia).
  rewrite (mv_identity _ v Hv), (mv_gram m B v HB).
  rewrite <- (mtv_adjoint m B u (Rmtv m B v) HB) by (apply mtv_length, HB). reflexivity.
Qed.

Lemma gram1_sym : forall m B, rows_len m B -> sym_form (length B) (gram1 Rops B).
Proof. intros m B HB u v Hu Hv. rewrite !(gram1_form m B) by auto. rewrite (dot_comm u v), (dot_comm (Rmtv m B u)). reflexivity. Qed.

Lemma gram1_rayleigh : forall m B, rows_len m B -> rayleigh (length B) (gram1 Rops B) 1.
Proof. intros m B HB d Hd. rewrite (gram1_form m B) by auto. generalize (dot_self_ge0 (Rmtv m B d)). lra. Qed.

Lemma madd_length : forall A B, length A = length B -> length (madd Rops A B) = length B.
Proof. induction A as [|r A IH]; intros [|s B] H; simpl in *; try lia. f_equal. apply IH. lia. Qed.
Lemma gram1_length : forall B, length (gram1 Rops B) = length B.
Proof.
  intro B. unfold gram1. destruct (identity_shape (length B)) as (I1 & _). destruct (gram_shape B) as (G1 & _).
  rewrite madd_length; lia.
Qed.

(* weighted elastic-net regulariser: sub-gradient inequality with the exact quadratic remainder *)
Lemma sum2_subgrad_rem : forall (P : R -> Prop) (k kg r : R -> R -> R),
  (forall a u v, P a -> k a v >= k a u + kg a u * (v - u) + r a (v - u)) ->
  forall w x z, Forall P w -> length z = length x ->
  sum2 Rops k w z >= sum2 Rops k w x + Rdot (map2 kg w x) (Rvsub z x) + sum2 Rops r w (Rvsub z x).
Proof.
  intros P k kg r Hk. induction w as [|a w IH]; intros x z HP Hl.
  - simpl. unfold dot. simpl. rops. lra.
  - destruct x as [|u x]; destruct z as [|v z]; try discriminate.
    + unfold dot; simpl; rops; lra.
    + injection Hl as Hl. inversion HP as [|? ? Pa Pw]; subst. specialize (IH x z Pw Hl). specialize (Hk a u v Pa).
      rewrite vsub_cons. cbn [sum2 map2]. rewrite !dot_cons. rops. lra.
Qed.

Definition wrem (cw d : list R) : R := sum2 Rops (fun c e => c * (e * e)) cw d.

Lemma wreg_convex : forall a1 a2 cw x z, 0 <= a1 -> Forall (fun c => 0 <= c) cw -> length z = length x ->
  wreg_v Rops a1 a2 cw z >= wreg_v Rops a1 a2 cw x + Rdot (wreg_g Rops a1 a2 cw x) (Rvsub z x) + a2 / 2 * wrem cw (Rvsub z x).
Proof.
  intros a1 a2 cw x z Ha Hc Hl. unfold wreg_v, wreg_g, wrem.
  assert (E : a2 / 2 * sum2 Rops (fun c e => c * (e * e)) cw (Rvsub z x) = sum2 Rops (fun c e => a2 / 2 * (c * (e * e))) cw (Rvsub z x)).
  { generalize (Rvsub z x). induction cw as [|c cw IH]; intros [|e d]; simpl; rops; try ring.
    inversion Hc; subst. rewrite <- IH by assumption. ring. }
  rewrite E. apply (sum2_subgrad_rem (fun c => 0 <= c)); auto.
  intros c u v Hc0. unfold pabs, psgn. rops.
  assert (K : 0 <= c * a1) by nra.
  rcases; try (assert (K1 := Rmult_le_pos _ _ K (Rlt_le _ _ ltac:(eassumption)))); nra.
Qed.

Lemma pospart_nonneg : forall l, 0 <= pospart Rops l.
Proof. intro l. unfold pospart. rops. rcases; lra. Qed.
Lemma pospart_pos : forall l, 0 < l -> pospart Rops l = l.
Proof. intros l H. unfold pospart. rops. rcases; lra. Qed.

(* the guards of linear/function.cpp (translated kernels, read over Z) are the tests of [pospart] *)
Lemma linear_guards_as_in_source : forall l : Z,
  src_c06_linear_l1_guard l = Rltb 0 (IZR l) /\ src_c06_linear_l2_guard l = Rltb 0 (IZR l).
Proof.
  intro l. unfold src_c06_linear_l1_guard, src_c06_linear_l2_guard, Rltb.
  destruct (Rlt_dec 0 (IZR l)) as [L|L]; split; rewrite Z.gtb_ltb.
  1,2: apply Z.ltb_lt; apply lt_IZR; exact L.
  1,2: apply Z.ltb_ge; apply le_IZR; lra.
Qed.

(* ------------------------------------------------------------------------------------------------ *)
(* 2b. max_i |A_i . x| (maxhilb) and max of convex quadratics (maxquad)                               *)
(* ------------------------------------------------------------------------------------------------ *)
Lemma nth_map_gen : forall {A : Type} (f : A -> R) (l : list A) i d0, (i < length l)%nat -> nth i (map f l) 0 = f (nth i l d0).
Proof. intros A f l. induction l as [|a l IH]; intros i d0 H; [simpl in H; lia|]. destruct i; simpl; auto. apply IH. simpl in H; lia. Qed.

Lemma maxabs_convex : forall A x z, length z = length x ->
  maxabs_v Rops A z >= maxabs_v Rops A x + Rdot (maxabs_g Rops A x) (Rvsub z x).
Proof.
  intros A x z H. destruct A as [|r0 A0].
  - unfold maxabs_v, maxabs_g, maxval, dot; simpl; rops; lra.
  - set (M := r0 :: A0) in *. unfold maxabs_v, maxabs_g. cbv zeta.
    set (vx := map (pabs Rops) (Rmv M x)). set (vz := map (pabs Rops) (Rmv M z)).
    assert (Hvx : vx <> []) by (unfold vx, M; discriminate).
    destruct (argmax_spec vx Hvx) as (Ha & _). unfold vx in Ha at 2. rewrite map_length, mv_length in Ha.
    set (i := argmax Rops vx) in *. set (r := nth i M []).
    apply (max_subgrad vx vz); [exact Hvx | unfold vx, vz; rewrite !map_length, !mv_length; reflexivity |].
    fold i. unfold vx, vz, mv. rewrite !map_map.
    rewrite (nth_map_gen (fun row => pabs Rops (Rdot row z)) M i []) by exact Ha.
    rewrite (nth_map_gen (fun row => pabs Rops (Rdot row x)) M i []) by exact Ha.
    fold r. rewrite dot_vscale_l, (dot_vsub_r r z x H), !pabs_R. rops. unfold Rabs.
    rcases; repeat destruct (Rcase_abs _); lra.
Qed.

(* maxhilb: the denominators of the weights as the source writes them *)
Lemma maxhilb_den_as_in_source : forall i j : Z, src_c06_maxhilb_den i j = (i + j + 1)%Z.
Proof. reflexivity. Qed.

Lemma maxhilb_convex : forall x z, length z = length x ->
  maxhilb_v Rops z >= maxhilb_v Rops x + Rdot (maxhilb_g Rops x) (Rvsub z x).
Proof. intros x z H. unfold maxhilb_v, maxhilb_g. rewrite H. apply maxabs_convex, H. Qed.

(* maxquad: max_k x.(A_k x - b_k); every A_k symmetric positive semi-definite *)
Definition mq_ok (n : nat) (Ab : list (list R) * list R) : Prop :=
  length (fst Ab) = n /\ length (snd Ab) = n /\ sym_form n (fst Ab) /\ rayleigh n (fst Ab) 0.

Lemma mq_piece_convex : forall n Ab x z, mq_ok n Ab -> length x = n -> length z = n ->
  mq_piece Rops Ab z >= mq_piece Rops Ab x + Rdot (mq_grad Rops Ab x) (Rvsub z x).
Proof.
  intros n [A b] x z (HA & Hb & Hs & Hp) Hx Hz. unfold mq_piece, mq_grad. cbn [fst snd] in *.
  assert (H : length z = length x) by lia.
  assert (Hd : length (Rvsub z x) = n) by (rewrite vsub_length; auto).
  rewrite !dot_vsub_r by (rewrite mv_length; lia).
  rewrite dot_vsub_l by (rewrite vscale_length, mv_length; lia).
  rewrite dot_vscale_l, two_R, (bil_expand A x z H), (Hs x (Rvsub z x) Hx Hd), (dot_comm (Rmv A x)),
          (dot_comm z b), (dot_comm x b), (dot_vsub_r b z x H).
  generalize (Hp (Rvsub z x) Hd). lra.
Qed.

(* the loop test of the SOURCE keeps the first largest piece: strict `>` (read over Z) is the model's [o_ltb] *)
Lemma maxquad_test_as_in_source : forall kfx fx : Z, src_c06_maxquad_test kfx fx = o_ltb Rops (IZR fx) (IZR kfx).
Proof.
  intros. unfold src_c06_maxquad_test. cbn [o_ltb Rops]. unfold Rltb. rewrite Z.gtb_ltb.
  destruct (Rlt_dec (IZR fx) (IZR kfx)) as [L|L]; [apply Z.ltb_lt, lt_IZR, L | apply Z.ltb_ge, le_IZR; lra].
Qed.

Lemma maxquad_convex : forall n Abs x z, Forall (mq_ok n) Abs -> length x = n -> length z = n ->
  maxquad_v Rops Abs z >= maxquad_v Rops Abs x + Rdot (maxquad_g Rops Abs x) (Rvsub z x).
Proof.
  intros n Abs x z Hok Hx Hz. destruct Abs as [|Ab0 Abs0].
  - unfold maxquad_v, maxquad_g, maxval, mq_grad, dot; simpl; rops; lra.
  - set (L := Ab0 :: Abs0) in *. unfold maxquad_v, maxquad_g.
    set (vx := map (fun Ab => mq_piece Rops Ab x) L). set (vz := map (fun Ab => mq_piece Rops Ab z) L).
    assert (Hvx : vx <> []) by (unfold vx, L; discriminate).
    destruct (argmax_spec vx Hvx) as (Ha & _). unfold vx in Ha at 2. rewrite map_length in Ha.
    set (i := argmax Rops vx) in *.
    apply (max_subgrad vx vz); [exact Hvx | unfold vx, vz; rewrite !map_length; reflexivity |].
    fold i. unfold vx, vz.
    rewrite (nth_map_gen (fun Ab => mq_piece Rops Ab z) L i ([], [])) by exact Ha.
    rewrite (nth_map_gen (fun Ab => mq_piece Rops Ab x) L i ([], [])) by exact Ha.
    apply (mq_piece_convex n); auto. rewrite Forall_forall in Hok. apply Hok, nth_In, Ha.
Qed.

(* ------------------------------------------------------------------------------------------------ *)
(* 5. sums and affine composition                                                                    *)
(* ------------------------------------------------------------------------------------------------ *)
(* a sum over a list of parameters of functions satisfying the sub-gradient inequality *)
Lemma psum_subgrad : forall {P : Type} (f : P -> list R -> R) (g : P -> list R -> list R) (ps : list P) x z,
  length z = length x ->
  (forall p, In p ps -> length (g p x) = length x /\ f p z >= f p x + Rdot (g p x) (Rvsub z x)) ->
  length (fold_right (fun p acc => Rvadd (g p x) acc) (Rzeros (length x)) ps) = length x /\
  total Rops (map (fun p => f p z) ps) >=
  total Rops (map (fun p => f p x) ps) + Rdot (fold_right (fun p acc => Rvadd (g p x) acc) (Rzeros (length x)) ps) (Rvsub z x).
Proof.
  intros P f g ps x z H. induction ps as [|p ps IH]; intros Hp.
  - cbn [fold_right map]. rewrite dot_zeros_l, zeros_length. simpl. rops. split; [reflexivity | lra].
  - destruct (Hp p (or_introl eq_refl)) as (Lp & Ip). destruct (IH (fun q Hq => Hp q (or_intror Hq))) as (Lr & Ir).
    cbn [fold_right map]. split; [rewrite vadd_length; lia|].
    rewrite dot_vadd_l by lia. rewrite !total_cons. lra.
Qed.

(* kinks: sum over the rows of K of |x - K_i|_1 *)
Lemma loss_g_length : forall (kg : R -> R -> R) t o, length t = length o -> length (loss_g kg t o) = length o.
Proof. intros. unfold loss_g. apply map2_length. assumption. Qed.

Lemma kinks_convex : forall K off x z, length z = length x -> rows_len (length x) K ->
  kinks_v Rops K off z >= kinks_v Rops K off x + Rdot (kinks_g Rops K x) (Rvsub z x).
Proof.
  intros K off x z H HK. unfold kinks_v, kinks_g.
  destruct (psum_subgrad (fun row y => loss_v Rops (k_mae_v Rops) row y) (fun row y => loss_g (k_mae_g Rops) row y) K x z H) as (_ & I).
  - intros row Hin. unfold rows_len in HK. rewrite Forall_forall in HK. split; [apply loss_g_length, HK, Hin|].
    apply loss_subgrad; [exact k_mae_subgrad | exact H].
  - cbn [o_sub Rops]. lra.
Qed.

(* geometric optimisation: sum_i exp(a_i + A_i . x) *)
Lemma geo_convex : forall a A x z, length z = length x -> rows_len (length x) A -> length a = length A ->
  geo_v a A z >= geo_v a A x + Rdot (geo_g a A x) (Rvsub z x).
Proof.
  intros a A. revert a. unfold geo_v, geo_g.
  induction A as [|r A IH]; intros [|a0 a] x z H HA Ha; try discriminate.
  - cbn [mv map vadd map2 total fold_right mtv]. rewrite dot_zeros_l. rops. lra.
  - injection Ha as Ha. inversion HA as [|? ? Hr HA']; subst. specialize (IH a x z H HA' Ha).
    cbn [mv map]. fold (Rmv A x) (Rmv A z). unfold vadd in *. cbn [map2 map mtv]. fold (Rvadd a (Rmv A x)) (Rvadd a (Rmv A z)) in *.
    rewrite !total_cons. fold (vadd Rops).
    rewrite dot_vadd_l by (rewrite vscale_length, mtv_length; auto).
    rewrite dot_vscale_l, (dot_vsub_r r z x H). cbn [o_add Rops].
    generalize (exp_tangent (a0 + Rdot r x) (a0 + Rdot r z)). nra.
Qed.

(* empirical risk through per-sample affine maps *)
Definition loss_convex_on (D : list R -> list R -> Prop) (L : list R -> list R -> R) (G : list R -> list R -> list R) : Prop :=
  forall t o o', D t o -> length o' = length o -> L t o' >= L t o + Rdot (G t o) (Rvsub o' o).

Lemma vsub_vadd_cancel : forall u v c, length u = length c -> length v = length c ->
  Rvsub (Rvadd u c) (Rvadd v c) = Rvsub u v.
Proof.
  induction u as [|a u IH]; intros [|b v] [|e c] H1 H2; try discriminate; [reflexivity|].
  injection H1 as H1. injection H2 as H2. unfold vadd, vsub in *. cbn [map2]. rewrite (IH v c H1 H2). f_equal. rops. ring.
Qed.

Lemma mv_vsub : forall M z x, length z = length x -> Rmv M (Rvsub z x) = Rvsub (Rmv M z) (Rmv M x).
Proof.
  induction M as [|r M IH]; intros z x H; [reflexivity|]. cbn [mv map]. fold (Rmv M (Rvsub z x)) (Rmv M z) (Rmv M x).
  rewrite vsub_cons, (IH z x H), (dot_vsub_r r z x H). reflexivity.
Qed.

Definition sample_ok (D : list R -> list R -> Prop) (n : nat) (x : list R) (s : list R * list (list R) * list R) : Prop :=
  rows_len n (snd (fst s)) /\ length (snd s) = length (snd (fst s)) /\ D (fst (fst s)) (sample_out Rops s x).

Lemma inv_nat_nonneg : forall n, 0 <= inv_nat Rops n.
Proof.
  intro n. unfold inv_nat. cbn [o_ofQ Rops]. unfold Q2R. cbn [Qnum Qden]. rewrite Rmult_1_l. left. apply Rinv_0_lt_compat.
  apply IZR_lt. reflexivity.
Qed.

Lemma erm_convex : forall D L G data x z n, loss_convex_on D L G -> length x = n -> length z = n ->
  Forall (sample_ok D n x) data ->
  length (erm_g Rops G data x) = n /\
  erm_v Rops L data z >= erm_v Rops L data x + Rdot (erm_g Rops G data x) (Rvsub z x).
Proof.
  intros D L G data x z n HL Hx Hz Hok. unfold erm_v, erm_g.
  assert (H : length z = length x) by lia.
  destruct (psum_subgrad (fun s y => L (fst (fst s)) (sample_out Rops s y))
                         (fun s y => Rmtv (length y) (snd (fst s)) (G (fst (fst s)) (sample_out Rops s y))) data x z H) as (Lg & I).
  - intros s Hin. rewrite Forall_forall in Hok. destruct (Hok s Hin) as (Hr & Hc & HD). rewrite Hx.
    split; [rewrite mtv_length; auto|].
    unfold sample_out in *. destruct s as [[t M] c]. cbn [fst snd] in *.
    assert (Lo : length (Rvadd (Rmv M z) c) = length (Rvadd (Rmv M x) c)) by (rewrite !vadd_length; rewrite ?mv_length; auto).
    generalize (HL t _ _ HD Lo). rewrite vsub_vadd_cancel by (rewrite mv_length; auto).
    rewrite <- (mv_vsub M z x H), (mtv_adjoint n M _ (Rvsub z x) Hr) by (rewrite vsub_length; lia). lra.
  - split; [rewrite vscale_length; lia|]. rewrite dot_vscale_l. cbn [o_mul Rops].
    generalize (inv_nat_nonneg (length data)). intros Hn.
    set (c := inv_nat Rops (length data)) in *. nra.
Qed.

(* the objective of linear::function_t (also: gboost bias / scale with l1 = l2 = 0): risk + weighted regulariser.
   The sub-gradient inequality holds with the remainder pospart(l2)/2 * sum_j cw_j (z_j - x_j)^2 *)
Lemma wreg_g_length : forall a1 a2 cw x, length cw = length x -> length (wreg_g Rops a1 a2 cw x) = length x.
Proof. intros. unfold wreg_g. apply map2_length. assumption. Qed.

Lemma lin_convex : forall D L G data l1 l2 cw x z n, loss_convex_on D L G -> length x = n -> length z = n -> length cw = n ->
  Forall (fun c => 0 <= c) cw -> Forall (sample_ok D n x) data ->
  lin_v Rops L data l1 l2 cw z >= lin_v Rops L data l1 l2 cw x + Rdot (lin_g Rops G data l1 l2 cw x) (Rvsub z x)
                                  + pospart Rops l2 / 2 * wrem cw (Rvsub z x).
Proof.
  intros D L G data l1 l2 cw x z n HL Hx Hz Hc Hcw Hok. unfold lin_v, lin_g.
  destruct (erm_convex D L G data x z n HL Hx Hz Hok) as (Lg & I).
  rewrite dot_vadd_l by (rewrite wreg_g_length; lia).
  generalize (wreg_convex (pospart Rops l1) (pospart Rops l2) cw x z (pospart_nonneg l1) Hcw ltac:(lia)).
  cbn [o_add Rops]. lra.
Qed.

(* elastic-net objectives: alpha2-strongly convex (every coordinate regularised with weight 1) *)
Lemma wrem_ones : forall d, wrem (repeat 1 (length d)) d = Rdot d d.
Proof. induction d as [|e d IH]; [reflexivity|]. unfold wrem in *. cbn [length repeat sum2]. rewrite dot_cons, IH. rops. ring. Qed.

Lemma enet_convex : forall D L G data a1 a2 x z n, loss_convex_on D L G -> 0 <= a1 -> length x = n -> length z = n ->
  Forall (sample_ok D n x) data ->
  enet_v Rops L data a1 a2 z >= enet_v Rops L data a1 a2 x + Rdot (enet_g Rops G data a1 a2 x) (Rvsub z x)
                                + a2 / 2 * Rdot (Rvsub z x) (Rvsub z x).
Proof.
  intros D L G data a1 a2 x z n HL Ha Hx Hz Hok. unfold enet_v, enet_g.
  destruct (erm_convex D L G data x z n HL Hx Hz Hok) as (Lg & I).
  rewrite dot_vadd_l by (rewrite wreg_g_length; rewrite ?repeat_length; lia).
  replace (length z) with (length x) by lia. cbn [o_one o_add Rops].
  assert (Hones : Forall (fun c => 0 <= c) (repeat 1 (length x))) by (apply Forall_forall; intros c Hc; apply repeat_spec in Hc; subst; lra).
  assert (W := wreg_convex a1 a2 (repeat 1 (length x)) x z Ha Hones ltac:(lia)).
  assert (E : wrem (repeat 1 (length x)) (Rvsub z x) = Rdot (Rvsub z x) (Rvsub z x)).
  { rewrite <- (wrem_ones (Rvsub z x)). rewrite vsub_length by lia. reflexivity. }
  rewrite E in W. lra.
Qed.

(* ---- the regulariser of the linear model only touches the weights: strong convexity for pairs that move W only ---- *)
Lemma sum2_app : forall (k : R -> R -> R) w1 x1 w2 x2, length w1 = length x1 ->
  sum2 Rops k (w1 ++ w2) (x1 ++ x2) = sum2 Rops k w1 x1 + sum2 Rops k w2 x2.
Proof.
  intros k. induction w1 as [|a w1 IH]; intros [|u x1] w2 x2 H; try discriminate.
  - simpl. rops. lra.
  - injection H as H. cbn [app sum2]. rewrite (IH x1 w2 x2 H). rops. lra.
Qed.
Lemma vsub_app : forall z1 x1 z2 x2, length z1 = length x1 -> Rvsub (z1 ++ z2) (x1 ++ x2) = Rvsub z1 x1 ++ Rvsub z2 x2.
Proof. induction z1 as [|a z1 IH]; intros [|b x1] z2 x2 H; try discriminate; [reflexivity|]. injection H as H. cbn [app]. rewrite !vsub_cons, (IH x1 z2 x2 H). reflexivity. Qed.
Lemma vsub_self : forall b, Rvsub b b = Rzeros (length b).
Proof. induction b as [|e b IH]; [reflexivity|]. rewrite vsub_cons, IH. unfold zeros. cbn [length repeat o_zero Rops]. f_equal. ring. Qed.
Lemma vsub_zeros_r : forall d, Rvsub d (Rzeros (length d)) = d.
Proof.
  induction d as [|e d IH]; [reflexivity|]. unfold zeros in *. cbn [length repeat].
  rewrite (vsub_cons e d (o_zero Rops) (repeat (o_zero Rops) (length d))), IH. cbn [o_zero Rops]. f_equal. ring.
Qed.
Lemma sum2_zeros_r : forall (k : R -> R -> R), (forall a, k a 0 = 0) -> forall w n, sum2 Rops k w (Rzeros n) = 0.
Proof. intros k Hk. induction w as [|a w IH]; intros [|n]; try reflexivity. unfold zeros in *. cbn [repeat sum2 o_zero Rops]. rewrite Hk, IH. rops. lra. Qed.

Lemma wrem_weights_only : forall c m cb dw k, length dw = m ->
  wrem (repeat c m ++ cb) (dw ++ Rzeros k) = c * Rdot (dw ++ Rzeros k) (dw ++ Rzeros k).
Proof.
  intros c m cb dw k H. unfold wrem, dot. rewrite !sum2_app by (rewrite ?repeat_length; lia).
  rewrite !sum2_zeros_r by (intros; rops; ring).
  assert (E : forall d, sum2 Rops (fun c0 e => c0 * (e * e)) (repeat c (length d)) d = c * sum2 Rops (o_mul Rops) d d).
  { induction d as [|e d IH]; [simpl; rops; ring|]. cbn [length repeat sum2]. rewrite IH. rops. ring. }
  subst m. rewrite E. ring.
Qed.

Lemma lin_convex_weights : forall D L G data l1 l2 c m cb xw zw b, loss_convex_on D L G ->
  length xw = m -> length zw = m -> length cb = length b -> 0 <= c -> Forall (fun e => 0 <= e) cb ->
  Forall (sample_ok D (m + length b) (xw ++ b)) data ->
  let cw := repeat c m ++ cb in let x := xw ++ b in let z := zw ++ b in
  lin_v Rops L data l1 l2 cw z >= lin_v Rops L data l1 l2 cw x + Rdot (lin_g Rops G data l1 l2 cw x) (Rvsub z x)
                                  + (l2 * c) / 2 * Rdot (Rvsub z x) (Rvsub z x).
Proof.
  intros D L G data l1 l2 c m cb xw zw b HL Hx Hz Hcb Hc Hcb0 Hok. cbv zeta.
  assert (Hcw : Forall (fun e => 0 <= e) (repeat c m ++ cb)).
  { apply Forall_app. split; [apply Forall_forall; intros e He; apply repeat_spec in He; subst; exact Hc | exact Hcb0]. }
  generalize (lin_convex D L G data l1 l2 (repeat c m ++ cb) (xw ++ b) (zw ++ b) (m + length b) HL
                ltac:(rewrite app_length; lia) ltac:(rewrite app_length; lia) ltac:(rewrite app_length, repeat_length; lia) Hcw Hok).
  rewrite (vsub_app zw xw b b) by lia. rewrite vsub_self.
  rewrite (wrem_weights_only c m cb (Rvsub zw xw) (length b)) by (rewrite vsub_length; lia).
  generalize (dot_self_ge0 (Rvsub zw xw ++ Rzeros (length b))) (pospart_nonneg l2). intros Hd Hp.
  set (dd := Rdot (Rvsub zw xw ++ Rzeros (length b)) (Rvsub zw xw ++ Rzeros (length b))) in *.
  assert (Hl : pospart Rops l2 >= l2) by (unfold pospart; rops; rcases; lra).
  intros I. assert (Hcd : 0 <= c * dd) by nra. assert (Q : pospart Rops l2 / 2 * (c * dd) >= l2 * c / 2 * dd) by nra. lra.
Qed.

(* ... but not for pairs that move the (unregularised) bias: inputs [0],[1],[2], targets 8, 9, 10, mae, l2 = 1,
   x = (W = 0, b = 0), z = (W = 0, b = 1): f(x) = 9, g = (-1, -1), f(z) = 8 < 9 - 1 + 1/2 *)
Lemma Rltb_true : forall a b, a < b -> Rltb a b = true.
Proof. intros a b H. unfold Rltb. destruct (Rlt_dec a b); [reflexivity | contradiction]. Qed.
Lemma Rltb_false : forall a b, b <= a -> Rltb a b = false.
Proof. intros a b H. unfold Rltb. destruct (Rlt_dec a b); [lra | reflexivity]. Qed.
Ltac decide_tests :=
  repeat match goal with |- context [Rltb ?a ?b] => first [rewrite (Rltb_true a b) by lra | rewrite (Rltb_false a b) by lra] end.

Definition probe_data : list (list R * list (list R) * list R) :=
  [([8], design Rops 1 1 [0], [0]); ([9], design Rops 1 1 [1], [0]); ([10], design Rops 1 1 [2], [0])].

Lemma lin_bias_not_strongly_convex :
  let L := loss_v Rops (k_mae_v Rops) in let G := loss_g (k_mae_g Rops) in
  let cw := lin_cw Rops 1 1 in let x := [0; 0] in let z := [0; 1] in
  Forall (sample_ok (fun _ _ => True) 2 x) probe_data /\
  lin_v Rops L probe_data 0 1 cw z <
  lin_v Rops L probe_data 0 1 cw x + Rdot (lin_g Rops G probe_data 0 1 cw x) (Rvsub z x)
  + (1 * inv_nat Rops (1 * 1)) / 2 * Rdot (Rvsub z x) (Rvsub z x).
Proof.
  cbv zeta. split.
  - unfold probe_data, sample_ok, rows_len, design, design_row. repeat constructor.
  - unfold lin_v, lin_g, erm_v, erm_g, wreg_v, wreg_g, probe_data, lin_cw, design, design_row, sample_out, loss_v, loss_g, inv_nat,
           k_mae_v, k_mae_g, pospart, pabs, psgn, mv, dot, vsub, vadd, vscale, zeros, total.
    cbn [seq map app repeat unit_at pred Nat.mul Nat.sub Nat.add length fold_right sum2 map2 mtv fst snd]. unfold zeros, vadd, vscale.
    cbn [repeat map map2 sum2 o_add o_sub o_mul o_opp o_zero o_one o_ofQ o_ltb Rops]. unfold Q2R. cbn [Qnum Qden Pos.of_nat Pos.succ].
    decide_tests. lra.
Qed.

(* ------------------------------------------------------------------------------------------------ *)
(* 6. statements: the declaration of the source together with what it promises                        *)
(* ------------------------------------------------------------------------------------------------ *)
(* the sub-gradient inequality at a fixed dimension n *)
Definition convex_on_n (n : nat) (f : list R -> R) (g : list R -> list R) (mu : R) : Prop :=
  forall x z, length x = n -> length z = n -> f z >= f x + Rdot (g x) (Rvsub z x) + mu / 2 * Rdot (Rvsub z x) (Rvsub z x).

Definition kernel_loss_convex (kv kg : R -> R -> R) : kernel_subgrad kv kg ->
  loss_convex_on (fun _ _ => True) (loss_v Rops kv) (loss_g kg).
Proof. intros Hk t o o' _ Hl. apply loss_subgrad; assumption. Qed.

Lemma classnll_loss_convex : loss_convex_on (fun t o => length t = length o /\ o <> []) classnll_ideal classnll_ideal_g.
Proof. intros t o o' (Ht & Ho) Hl. apply classnll_ideal_convex; assumption. Qed.

Import String.
Local Open Scope string_scope.

Lemma s2_fn_trid : declares "fn:trid" "yes" "yes" "" /\ convex_on (trid_v Rops) (trid_g Rops) 0 /\
  (forall x z, List.length z = List.length x ->
     trid_v Rops z = (trid_v Rops x + Rdot (trid_g Rops x) (Rvsub z x) + trid_q (Rvsub z x))%R) /\
  (forall d, (2 * trid_q d)%R = sos_from 0 d).
Proof. split; [reflexivity|]. split; [apply convex0, trid_convex|]. split; [exact trid_expand | exact trid_q_sos]. Qed.

Lemma s2_fn_rotated : declares "fn:rotated-ellipsoid" "yes" "yes" "" /\ convex_on (rotated_v Rops) (rotated_g Rops) 0 /\
  (forall x z, List.length z = List.length x ->
     rotated_v Rops z = (rotated_v Rops x + Rdot (rotated_g Rops x) (Rvsub z x) + rotated_v Rops (Rvsub z x))%R).
Proof. split; [reflexivity|]. split; [apply convex0, rotated_convex | exact rotated_expand]. Qed.

Lemma s2_fn_maxq : declares "fn:maxq" "yes" "no" "0.0" /\ convex_on (maxq_v Rops) (maxq_g Rops) 0.
Proof. split; [reflexivity | apply convex0, maxq_convex]. Qed.

Lemma s2_fn_maxhilb : declares "fn:maxhilb" "yes" "no" "0.0" /\ convex_on (maxhilb_v Rops) (maxhilb_g Rops) 0 /\
  (forall A, convex_on (maxabs_v Rops A) (maxabs_g Rops A) 0) /\
  (forall i j : Z, src_c06_maxhilb_den i j = (i + j + 1)%Z).
Proof.
  split; [reflexivity|]. split; [apply convex0, maxhilb_convex|]. split; [intro A; apply convex0, maxabs_convex | exact maxhilb_den_as_in_source].
Qed.

Lemma s2_fn_kinks : declares "fn:kinks" "yes" "no" "" /\
  forall K off n, rows_len n K -> convex_on_n n (kinks_v Rops K off) (kinks_g Rops K) 0.
Proof.
  split; [reflexivity|]. intros K off n HK x z Hx Hz. subst n.
  generalize (kinks_convex K off x z ltac:(lia) HK). lra.
Qed.

Lemma s2_fn_maxquad : declares "fn:maxquad" "yes" "no" "0.0" /\
  (forall n Abs, Forall (mq_ok n) Abs -> convex_on_n n (maxquad_v Rops Abs) (maxquad_g Rops Abs) 0) /\
  (forall kfx fx : Z, src_c06_maxquad_test kfx fx = o_ltb Rops (IZR fx) (IZR kfx)).
Proof.
  split; [reflexivity|]. split; [|exact maxquad_test_as_in_source].
  intros n Abs Hok x z Hx Hz. generalize (maxquad_convex n Abs x z Hok Hx Hz). lra.
Qed.

Lemma s2_fn_geometric : declares "fn:geometric-optimization" "yes" "yes" "" /\
  forall a A n, rows_len n A -> List.length a = List.length A -> convex_on_n n (geo_v a A) (geo_g a A) 0.
Proof.
  split; [reflexivity|]. intros a A n HA Ha x z Hx Hz. subst n.
  generalize (geo_convex a A x z ltac:(lia) HA Ha). lra.
Qed.

(* quadratic forms *)
Lemma quad_convex_mu : forall a A n mu, List.length A = n -> List.length a = n -> sym_form n A -> rayleigh n A mu ->
  convex_on_n n (quad_v Rops a A) (quad_g Rops a A) mu.
Proof.
  intros a A n mu HA Ha Hs Hr x z Hx Hz. rewrite (quad_expand a A x z n HA Ha Hx Hz Hs).
  generalize (Hr (Rvsub z x) ltac:(rewrite vsub_length; lia)). lra.
Qed.

Lemma s2_fn_quadratic : declares "fn:quadratic" "yes" "yes" "nano::strong_convexity(m_A)" /\
  (* any symmetric A: exact expansion, and mu-strong convexity for every lower bound mu of the Rayleigh quotient *)
  (forall a A n x z, List.length A = n -> List.length a = n -> List.length x = n -> List.length z = n -> sym_form n A ->
     quad_v Rops a A z = (quad_v Rops a A x + Rdot (quad_g Rops a A x) (Rvsub z x) + / 2 * Rdot (Rvsub z x) (Rmv A (Rvsub z x)))%R) /\
  (forall a A n mu, List.length A = n -> List.length a = n -> sym_form n A -> rayleigh n A mu ->
     convex_on_n n (quad_v Rops a A) (quad_g Rops a A) mu) /\
  (* the matrix of the constructor, I + B B': symmetric, Rayleigh quotient >= 1 *)
  (forall a B m, rows_len m B -> List.length a = List.length B ->
     convex_on_n (List.length B) (quad_v Rops a (gram1 Rops B)) (quad_g Rops a (gram1 Rops B)) 1).
Proof.
  split; [reflexivity|]. split; [intros a A n x z; apply quad_expand|]. split; [exact quad_convex_mu|].
  intros a B m HB Ha. apply quad_convex_mu; [apply gram1_length | exact Ha | apply (gram1_sym m), HB | apply (gram1_rayleigh m), HB].
Qed.

Lemma cq_convex_iff : forall P q r n mu, List.length P = n -> rows_len n P -> List.length q = n ->
  (rayleigh n P mu <-> convex_on_n n (cq_v Rops P q r) (cq_g Rops P q) mu).
Proof.
  intros P q r n mu HP Hr Hq. split.
  - intros Hm x z Hx Hz. rewrite (cq_expand P q r x z n HP Hr Hq Hx Hz).
    generalize (Hm (Rvsub z x) ltac:(rewrite vsub_length; lia)). lra.
  - intros Hc d Hd. specialize (Hc (Rzeros n) d (zeros_length n) Hd).
    rewrite (cq_expand P q r (Rzeros n) d n HP Hr Hq (zeros_length n) Hd) in Hc.
    assert (E : Rvsub d (Rzeros n) = d) by (rewrite <- Hd; apply vsub_zeros_r).
    rewrite E in Hc. lra.
Qed.

Lemma s2_cons_quadratic :
  declares "cons:quadratic" "nano::convex(constraint.m_P)" "yes" "nano::strong_convexity(constraint.m_P)" /\
  decl "util:convex(P)" = Some ("(0.5*(P.matrix()+P.matrix().transpose())).eigenvalues()", "", "") /\
  decl "util:strong_convexity(P)" = Some ("(0.5*(P.matrix()+P.matrix().transpose())).eigenvalues()", "", "") /\
  (* ANY square P: the returned 1/2 (P + P') x + q is the derivative (exact expansion) *)
  (forall P q r x z n, List.length P = n -> rows_len n P -> List.length q = n -> List.length x = n -> List.length z = n ->
     cq_v Rops P q r z = (cq_v Rops P q r x + Rdot (cq_g Rops P q x) (Rvsub z x) + / 2 * Rdot (Rvsub z x) (Rmv P (Rvsub z x)))%R) /\
  (* mu-strongly convex (mu = 0: convex) exactly when mu bounds the Rayleigh quotient d'Pd / d'd from below *)
  (forall P q r n mu, List.length P = n -> rows_len n P -> List.length q = n ->
     (rayleigh n P mu <-> convex_on_n n (cq_v Rops P q r) (cq_g Rops P q) mu)).
Proof. repeat split; try reflexivity; [exact cq_expand | apply cq_convex_iff; assumption | apply cq_convex_iff; assumption]. Qed.

Lemma s2_cons_coord : declares "cons:constant" "yes" "yes" "0.0" /\
  forall s v dm x z, List.length z = List.length x -> (dm < List.length x)%nat ->
    cons_coord_v Rops s v dm z = (cons_coord_v Rops s v dm x + Rdot (cons_coord_g Rops s dm x) (Rvsub z x))%R.
Proof. split; [reflexivity | exact cons_coord_expand]. Qed.

(* class-NLL *)
Lemma s2_loss_classnll : declares "loss:classnll" "yes" "yes" "" /\
  (forall x z, List.length z = List.length x -> x <> [] -> lse z >= lse x + Rdot (softmax x) (Rvsub z x))%R /\
  (forall t o, List.length t = List.length o -> o <> [] -> classnll_g t o = classnll_ideal_g t o) /\
  (forall t x z, List.length z = List.length x -> List.length t = List.length x -> x <> [] ->
     classnll_ideal t z >= classnll_ideal t x + Rdot (classnll_g t x) (Rvsub z x))%R /\
  (forall eps t o, 0 <= eps -> o <> [] -> classnll_ideal t o <= classnll_code eps t o <= classnll_ideal t o + ln (1 + eps))%R /\
  (forall eps t x z, 0 <= eps -> List.length z = List.length x -> List.length t = List.length x -> x <> [] ->
     classnll_code eps t z >= classnll_code eps t x + Rdot (classnll_g t x) (Rvsub z x) - ln (1 + eps))%R /\
  (forall eps, 0 <= eps -> ln (1 + eps) <= eps)%R.
Proof.
  split; [reflexivity|]. split; [exact lse_convex|]. split; [exact classnll_g_is_ideal|]. split.
  - intros t x z H Ht Hx. rewrite (classnll_g_is_ideal t x Ht Hx). apply classnll_ideal_convex; assumption.
  - split; [exact classnll_code_gap|]. split; [exact classnll_code_convex_slack | exact ln1p_le].
Qed.

(* elastic net *)
Lemma s2_fn_enet : declares "fn:enet" "tloss::convex" "m_alpha1==0.0&&tloss::smooth" "m_alpha2" /\
  declares "enet-loss:mse" "yes" "yes" "" /\ declares "enet-loss:mae" "yes" "no" "" /\ declares "enet-loss:hinge" "yes" "no" "" /\
  declares "enet-loss:logistic" "yes" "yes" "" /\
  forall D L G data a1 a2 n, loss_convex_on D L G -> (0 <= a1)%R ->
    forall x z, List.length x = n -> List.length z = n -> Forall (sample_ok D n x) data ->
    (enet_v Rops L data a1 a2 z >= enet_v Rops L data a1 a2 x + Rdot (enet_g Rops G data a1 a2 x) (Rvsub z x)
                                  + a2 / 2 * Rdot (Rvsub z x) (Rvsub z x))%R.
Proof. repeat split; try reflexivity. intros. eapply enet_convex; eassumption. Qed.

(* linear model, gboost *)
Lemma s2_ml_linear :
  declares "ml:linear" "m_loss.convex()" "m_loss.smooth()&&m_l1reg<=0.0" "m_l2reg/static_cast<scalar_t>(m_isize*m_tsize)" /\
  (* convex in all parameters whenever the loss is convex in its outputs *)
  (forall D L G data l1 l2 cw n, loss_convex_on D L G -> List.length cw = n -> Forall (fun c => 0 <= c)%R cw ->
     forall x z, List.length x = n -> List.length z = n -> Forall (sample_ok D n x) data ->
     (lin_v Rops L data l1 l2 cw z >= lin_v Rops L data l1 l2 cw x + Rdot (lin_g Rops G data l1 l2 cw x) (Rvsub z x))%R) /\
  (* the declared coefficient l2 / (isize * tsize) is right for pairs that move the weights only *)
  (forall D L G data l1 l2 isize tsize xw zw b, loss_convex_on D L G ->
     List.length xw = (isize * tsize)%nat -> List.length zw = (isize * tsize)%nat -> List.length b = tsize ->
     Forall (sample_ok D (isize * tsize + tsize) (xw ++ b)%list) data ->
     let cw := lin_cw Rops isize tsize in let x := (xw ++ b)%list in let z := (zw ++ b)%list in
     (lin_v Rops L data l1 l2 cw z >= lin_v Rops L data l1 l2 cw x + Rdot (lin_g Rops G data l1 l2 cw x) (Rvsub z x)
                                     + (l2 * inv_nat Rops (isize * tsize)) / 2 * Rdot (Rvsub z x) (Rvsub z x))%R) /\
  (* the guards of the source *)
  (forall l : Z, src_c06_linear_l1_guard l = Rltb 0 (IZR l) /\ src_c06_linear_l2_guard l = Rltb 0 (IZR l)) /\
  (* every coefficient-wise loss kernel with the tangent inequality, and the class-NLL, qualify *)
  (forall kv kg, kernel_subgrad kv kg -> loss_convex_on (fun _ _ => True) (loss_v Rops kv) (loss_g kg)) /\
  loss_convex_on (fun t o => List.length t = List.length o /\ o <> []) classnll_ideal classnll_ideal_g.
Proof.
  split; [reflexivity|]. split.
  - intros D L G data l1 l2 cw n HL Hc Hcw x z Hx Hz Hok.
    generalize (lin_convex D L G data l1 l2 cw x z n HL Hx Hz Hc Hcw Hok) (pospart_nonneg l2).
    assert (W : (0 <= wrem cw (Rvsub z x))%R).
    { unfold wrem. generalize (Rvsub z x). clear - Hcw. induction cw as [|c cw IH]; intros [|e d]; simpl; rops; try lra.
      inversion Hcw; subst. specialize (IH H2 d). generalize (sqr_ge0 e). nra. }
    intros I Hp. assert (0 <= pospart Rops l2 / 2 * wrem cw (Rvsub z x))%R by nra. lra.
  - split.
    + intros D L G data l1 l2 isize tsize xw zw b HL Hx Hz Hb Hok. cbv zeta. unfold lin_cw.
      apply (lin_convex_weights D L G data l1 l2 (inv_nat Rops (isize * tsize)) (isize * tsize)%nat (Rzeros tsize) xw zw b HL Hx Hz);
        [rewrite zeros_length; lia | apply inv_nat_nonneg | | rewrite Hb; exact Hok].
      apply Forall_forall. intros e He. unfold zeros in He. apply repeat_spec in He. subst. cbn. lra.
    + split; [exact linear_guards_as_in_source|]. split; [exact kernel_loss_convex | exact classnll_loss_convex].
Qed.

Lemma s2_ml_linear_bias_refuted :
  let L := loss_v Rops (k_mae_v Rops) in let G := loss_g (k_mae_g Rops) in
  let cw := lin_cw Rops 1 1 in let x := [0; 0]%R in let z := [0; 1]%R in
  Forall (sample_ok (fun _ _ => True) 2 x) probe_data /\
  (lin_v Rops L probe_data 0 1 cw z <
   lin_v Rops L probe_data 0 1 cw x + Rdot (lin_g Rops G probe_data 0 1 cw x) (Rvsub z x)
   + (1 * inv_nat Rops (1 * 1)) / 2 * Rdot (Rvsub z x) (Rvsub z x))%R.
Proof. exact lin_bias_not_strongly_convex. Qed.

Lemma s2_ml_gboost : declares "ml:gboost-bias" "loss.convex()" "loss.smooth()" "" /\
  declares "ml:gboost-scale" "loss.convex()" "loss.smooth()" "" /\
  forall D L G data n, loss_convex_on D L G -> forall x z, List.length x = n -> List.length z = n -> Forall (sample_ok D n x) data ->
    (erm_v Rops L data z >= erm_v Rops L data x + Rdot (erm_g Rops G data x) (Rvsub z x))%R.
Proof. repeat split; try reflexivity. intros D L G data n HL x z Hx Hz Hok. apply (erm_convex D L G data x z n HL Hx Hz Hok). Qed.

Lemma s2_pointwise_max : forall fs gs, fs <> [] -> List.length gs = List.length fs ->
  (forall k, (k < List.length fs)%nat -> convex_on (nth k fs (fun _ => 0%R)) (nth k gs (fun _ => [])) 0) ->
  convex_on (pmax_v fs) (pmax_g fs gs) 0.
Proof. exact pointwise_max_convex. Qed.
