(* extraction of the exact-rational C07 model (QUAD extension).  Z / positive are mapped to Zarith big integers
   (ExtrOcamlZBigInt); Qred reduces through Z.ggcd, which is mapped to Zarith's gcd with the specification of Z.ggcd
   (Z.ggcd a b = (g, (a/g, b/g)), g = gcd a b >= 0, (0,(0,0)) for a = b = 0) exactly as in Extract_C01Q.v -- the structural
   binary gcd on emulated positives is too slow for the numerators that occur with the non-dyadic default parameters. *)
From Coq Require Import List ZArith QArith Qabs Extraction ExtrOcamlBasic ExtrOcamlZBigInt.
From LN Require Import C07_Quad_Defs.
Extraction Language OCaml.
Extract Constant Z.ggcd => "(fun a b -> let g = Big_int_Z.gcd_big_int a b in
  if Big_int_Z.sign_big_int g = 0 then (g, (g, g)) else (g, (Big_int_Z.div_big_int a g, Big_int_Z.div_big_int b g)))".
Extraction "extracted/c07q_model.ml" q_ls_get qalg_of_Z q_do_get q_init_step q_shrink q_grow q_init_state q_update
  q_cg_first_secant q_cg_done q_cg_accept q_mt_converged q_has_descent q_has_armijo q_has_wolfe q_has_strong_wolfe q_has_approx_wolfe
  q_interpolate q_cubic q_quadratic q_secant q_bisection qstep_of qsqrt qsqrt_exact
  quad quad0 quad_f quad_g tstar armijo_hi wolfe_lo swolfe_hi bt_bound bt_bound_quadratic lem_bound geo_steps geo_grow
  q_eps0 q_eps1 q_stpmin q_k03 Qred Qle_bool Qeq_bool.
