(* extraction of the executable (exact rational) instance of the C06 model; Z / positive / Q stay the extracted inductives *)
From Coq Require Import List ZArith QArith Extraction ExtrOcamlBasic.
From LN Require Import C06_Defs C06_Convex2_Defs C06_Rest_Defs.
Extraction Language OCaml.
Extraction "extracted/c06_model.ml" Qops Qplus Qminus Qmult Qopp Qle_bool Qred
  k_mse_v k_mse_g k_mae_v k_mae_g k_hinge_v k_hinge_g k_sqhinge_v k_sqhinge_g k_pinball_v k_pinball_g
  loss_v loss_g err_absdiff err_count err_sclass argmax
  sphere_v sphere_g axis_v axis_g schumer_v schumer_g chung_v chung_g sargan_v sargan_g zakharov_v zakharov_g
  qing_v qing_g styblinski_v styblinski_g trid_v trid_g rosenbrock_v rosenbrock_g dixon_v dixon_g
  chained_lq_v chained_lq_g rotated_v rotated_g maxq_v maxq_g
  cons_ball_v cons_ball_g cons_linear_v cons_linear_g cons_coord_v cons_coord_g
  size_rosenbrock size_powell size_enet size_linear size_surrogate_fit
  (* extension (C06_Convex2_Defs) *)
  zeros mv mtv identity madd gram gram1 quad_v quad_g cq_v cq_g wreg_v wreg_g pospart maxval maxabs_v maxabs_g hilbert maxhilb_v maxhilb_g
  kinks_v kinks_g mq_piece mq_grad maxquad_v maxquad_g maxquad_test inv_nat sample_out erm_v erm_g lin_v lin_g enet_v enet_g design lin_cw
  (* second extension (C06_Rest_Defs) *)
  along rem_poly schumer_r2 schumer_r3 schumer_r4 styblinski_r2 qing_r2 axis_r2 chung_r2 chung_r3 chung_r4 sargan_r2 sargan_r3 sargan_r4
  zakharov_r2 zakharov_r3 zakharov_r4 rosenbrock_r2 rosenbrock_r3 rosenbrock_r4 dixon_r2 dixon_r3 dixon_r4
  powell_v powell_g powell_r2 powell_r3 powell_r4 p2_row sur_v sur_g sur_q fit_data fit_v fit_g grads_v grads_g mqf_matrix
  functional_convex functional_smooth functional_strong_convexity grads_convex surrogate_fit_convex.
