(* C12 (extension) -- executable model of gboost::sampler_t (src/gboost/sampler.cpp) on top of the sampling models of
   C12_Defs and the binary64 count of C12_Float_Defs.

     sampler_t(samples, type, seed, ratio): m_weights has `src_gb_weights_alloc` entries
     sample(errors_losses, gradients):
        count = static_cast<tensor_size_t>(m_ratio * static_cast<scalar_t>(m_samples.size()))       (gb_count)
        switch (m_type): which sampling function is called with which arguments                      (gb_call: the translated
                                                                                                     `return ...;` of each case)
        the weighted kinds first fill m_weights(i) for i in [first, size): the loss of / the gradient magnitude of sample
        m_samples(i) -- destination index, row and column are translated kernels.

   Oracles (as in C12_Defs): std::shuffle's position permutation, the positions drawn by uniform_int_distribution /
   discrete_distribution; the per-sample gradient magnitudes gradients.vector(s).lpNorm<2>() (an Eigen reduction).
   No proofs in this file. *)
From Coq Require Import List ZArith Bool Floats.
From LNGen Require Import Src_numeric Src_splitter Src_sampling Src_gbsampler.
From LN Require Import C12_Defs C12_Float_Defs.
Import ListNotations.
Local Open Scope Z_scope.

(* enum class gboost_subsample : uint8_t { off, subsample, bootstrap, wei_loss_bootstrap, wei_grad_bootstrap }
   (the harness prints the numeric values of the enumerators on every run; the driver compares them with these) *)
Definition k_off : Z := 0.
Definition k_subsample : Z := 1.
Definition k_bootstrap : Z := 2.
Definition k_wei_loss : Z := 3.
Definition k_wei_grad : Z := 4.

(* the call made by the case of the switch that handles `kind`:
   0 = return m_samples, 1 = sample_without_replacement(m_samples, count, m_rng),
   2 = sample_with_replacement(m_samples, count, m_rng), 3 = sample_with_replacement(m_samples, m_weights, count, m_rng);
   -1 = the default case (assert(false); an empty index set) *)
Definition gb_call (kind : Z) : Z :=
  if kind =? k_subsample then src_gb_case_subsample
  else if kind =? k_bootstrap then src_gb_case_bootstrap
  else if kind =? k_wei_loss then src_gb_case_wei_loss
  else if kind =? k_wei_grad then src_gb_case_wei_grad
  else if kind =? k_off then src_gb_case_off
  else -1.

Definition gb_alloc (kind size : Z) : Z :=
  src_gb_weights_alloc kind size k_off k_subsample k_bootstrap k_wei_loss k_wei_grad.

(* value of a table row at a sample index (0.0 outside: never used when the indices are in range) *)
Definition fnth (row : list float) (i : Z) : float := if i <? 0 then fzero else nth (Z.to_nat i) row fzero.

(* what the loss loop stores, in loop order: errors_losses(row, col) for i = first .. size-1 *)
Definition gb_weights_loss (l : list Z) (tbl : list (list float)) : list float :=
  let size := zlen l in
  map (fun i => let s := nth (Z.to_nat i) l 0 in
                fnth (nth (Z.to_nat (src_gb_loss_row s i size)) tbl []) (src_gb_loss_col s i size))
      (zrange_from (src_gb_loop_first size) (src_gb_loop_size size - src_gb_loop_first size)).

(* what the gradient loop stores: |gradients.vector(col)|_2, looked up in the oracle table of per-sample magnitudes *)
Definition gb_weights_grad (l : list Z) (gmag : list float) : list float :=
  let size := zlen l in
  map (fun i => let s := nth (Z.to_nat i) l 0 in fnth gmag (src_gb_grad_col s i size))
      (zrange_from (src_gb_loop2_first size) (src_gb_loop2_size size - src_gb_loop2_first size)).

Definition gb_weights (kind : Z) (l : list Z) (tbl : list (list float)) (gmag : list float) : list float :=
  if kind =? k_wei_loss then gb_weights_loss l tbl
  else if kind =? k_wei_grad then gb_weights_grad l gmag
  else [].

(* the loops write m_weights(0), m_weights(1), ..., m_weights(size - 1) of a vector that has exactly `size` entries:
   only then is the list above the content of m_weights (NDEBUG Eigen does not check the index) *)
Definition gb_layoutb (kind size : Z) (i : Z) : bool :=
  (src_gb_loss_dst 0 i size =? i) && (src_gb_grad_dst 0 i size =? i) &&
  (src_gb_loop_first size =? 0) && (src_gb_loop_size size =? size) &&
  (src_gb_loop2_first size =? 0) && (src_gb_loop2_size size =? size) &&
  (negb ((kind =? k_wei_loss) || (kind =? k_wei_grad)) || (gb_alloc kind size =? size)) &&
  (negb ((kind =? k_off) || (kind =? k_bootstrap)) || (gb_alloc kind size =? 0)).

Definition wpos_of (w : list float) : list bool := map (fun x => PrimFloat.ltb fzero x) w.

Section Sampler.
  Variable shuffle : Z -> nat -> list Z -> list Z.

  (* one call of sampler_t::sample; `picks` = the positions drawn by the distribution of the with-replacement kinds *)
  Definition gb_sample (seed : Z) (call : nat) (kind : Z) (ratio : float) (l : list Z) (picks : list Z) : list Z :=
    let count := gb_count ratio (zlen l) in
    let c := gb_call kind in
    if c =? 0 then l
    else if c =? 1 then sample_without shuffle seed call count l
    else if c =? 2 then sample_with picks l
    else if c =? 3 then sample_with picks l
    else [].
End Sampler.

(* the contract of the distribution that produced `picks`, per kind (checked by the driver on every observed answer) *)
Definition gb_contractb (kind : Z) (ratio : float) (l : list Z) (w : list float) (picks : list Z) : bool :=
  let count := gb_count ratio (zlen l) in
  let c := gb_call kind in
  if c =? 2 then picks_in_rangeb (zlen l) count picks && (zlen picks =? count)
  else if c =? 3 then picks_weightedb (wpos_of w) picks && (zlen picks =? count)
  else true.

(* examples *)
Definition ex_tbl : list (list float) :=
  [[fzero; fzero; fzero; fzero; fzero; fzero; fzero; fzero]; [1%float; fzero; 2%float; fzero; 0.5%float; 3%float; fzero; 4%float]].
Definition ex_gl : list Z := [5; 0; 7; 2; 4; 1; 6].
Definition ex_gmag : list float := [fzero; 5%float; fzero; fzero; 10%float; 15%float; fzero; 20%float].
(* the weights of the samples of ex_gl, in position order: loss (row 1 of ex_tbl) resp. gradient magnitude of sample l[i] *)
Definition ex_wl_expected : list float := [3%float; 1%float; 4%float; 2%float; 0.5%float; fzero; fzero].
Definition ex_wg_expected : list float := [15%float; fzero; 20%float; fzero; 10%float; 5%float; fzero].
