(* C19 -- Parameters stay inside their declared domain; clones are configuration-equal.
   Only statements + `exact` + Print Assumptions live here.  Model: C19_Defs (imports the kernels translated from
   src/parameter.cpp, src/configurable.cpp and numeric.h on every run).  `in_dom s r` is the declared domain as
   mathematics (<=, < on Z; PrimFloat.leb/ltb = true and finiteness on doubles; membership for enumerations),
   `Inv s` says that the stored value of `s` is in it. *)
From Coq Require Import List ZArith Bool.
From Coq Require Floats.
From LN Require Import C19_Defs C19_Proofs.
From LNGen Require Import Src_c19_params.
From LN Require Import C19_FactoryDefs C19_Factory.
Import ListNotations.
Local Open Scope Z_scope.

(* construction (make_integer / make_scalar / make_*_pair / make_enum / make_string): a parameter exists exactly
   when its initial value is in the declared domain, and it then stores exactly what was given *)
Theorem C19_construction : forall s, (Inv s /\ make s = Ok s) \/ (~ Inv s /\ make s = Throw).
Proof. exact make_spec. Qed.
Print Assumptions C19_construction.

(* after ANY history of assignments (ints, doubles incl. NaN/inf/out of range, pairs, strings, enums, write+read;
   accepted or rejected) the history is defined (no undefined behaviour is reached), the stored value is in the
   declared domain and the domain itself is the one declared at construction *)
Theorem C19_inv : forall s0 s h,
  make s0 = Ok s -> exists s', run s h = Some s' /\ Inv s' /\ domain_of s' = domain_of s0.
Proof.
  intros s0 s h M. destruct (make_spec s0) as [[I E]|[_ E]]; rewrite E in M; [|discriminate].
  inversion M; subst. exact (run_inv h s I).
Qed.
Print Assumptions C19_inv.

(* an accepted assignment is read back (in the parameter's own kind) as the argument converted to that kind, the
   converted value is in the domain, and the domain is untouched; write+read is the identity *)
Theorem C19_accept_readback : forall s a s',
  step s a = Ok s' ->
  (is_wr a = true /\ s' = s) \/
  (is_wr a = false /\ exists r, convert s a = Some r /\ in_dom s r /\ natural_read s' = r /\
                                 domain_of s' = domain_of s).
Proof.
  intros s a s' H. destruct (step_ok s a s' H) as [L|[W (r & C & D & R & Dm & _)]]; [left; exact L|].
  right. split; [exact W|]. exists r. rewrite natural_read_stored. repeat split; assumption.
Qed.
Print Assumptions C19_accept_readback.

(* the decision itself, for EVERY assignment: accepted exactly when a converted value exists and lies in the
   domain, throws otherwise, and there is no third outcome *)
Theorem C19_accept_iff : forall s a,
  is_wr a = false ->
  ((exists s', step s a = Ok s') <-> (exists r, convert s a = Some r /\ in_dom s r)) /\
  (step s a = Throw <-> (convert s a = None \/ exists r, convert s a = Some r /\ ~ in_dom s r)) /\
  step s a <> UB.
Proof.
  intros s a W. split; [split|split; [split|]].
  - intros [s' H]. destruct (step_ok s a s' H) as [[W2 _]|[_ (r & C & D & _)]]; [rewrite W in W2; discriminate|].
    exists r. split; assumption.
  - intros (r & C & D). exact (step_accepts s a r W C D).
  - intro H. apply step_throw in H. apply H.
  - intros [C|(r & C & D)]; rewrite (step_factor s a W), C; [reflexivity|].
    destruct (upd_of_spec s r) as [[D2 _]|[_ E]]; [contradiction|exact E].
  - exact (step_no_ub s a).
Qed.
Print Assumptions C19_accept_iff.

(* a rejected assignment throws and leaves the previous value intact: it is invisible to every continuation,
   for a single parameter and through a configurable *)
Theorem C19_reject_unchanged :
  (forall s a h, step s a = Throw -> run s (a :: h) = run s h) /\
  (forall c o h, cstep c o = CThrow -> crun c (o :: h) = crun c h).
Proof.
  split.
  - intros s a h H. simpl. rewrite H. reflexivity.
  - intros c o h H. simpl. rewrite H. reflexivity.
Qed.
Print Assumptions C19_reject_unchanged.

(* fix 0c6dfeb: a double that is not convertible to int64 -- NaN, +-inf, v < -2^63 or v >= 2^63, decided with the very
   double comparisons of `convertible` (translated kernel src_convertible) -- is REJECTED by integer and integer-pair
   parameters (throws, hence unchanged by C19_reject_unchanged); a convertible one has a defined truncation inside
   int64, so static_cast<int64_t> is only ever executed on its defined domain; no assignment reaches UB *)
Theorem C19_nonconvertible_rejected :
  (forall v mn mx c1 c2 f, conv_i f = false -> step (SIRange v mn mx c1 c2) (AFlt f) = Throw) /\
  (forall v1 v2 mn mx c1 c2 c3 a b, conv_i a = false \/ conv_i b = false ->
     step (SIPair v1 v2 mn mx c1 c2 c3) (AFPair a b) = Throw) /\
  (forall f, conv_i f = false ->
     PrimFloat.is_finite f = false \/ PrimFloat.leb dbl_lowest f = false \/
     PrimFloat.ltb f (PrimFloat.opp dbl_lowest) = false) /\
  (forall f, conv_i f = true -> exists z, f2i f = Some z /\ int64_min <= z <= int64_max) /\
  (forall s a, step s a <> UB) /\ (forall c o, cstep c o <> CUB).
Proof.
  destruct nonconvertible_rejected as [H1 H2].
  split; [exact H1|]. split; [exact H2|]. split; [exact conv_false_cases|]. split; [|split; [exact step_no_ub|exact cstep_no_ub]].
  intros f C. destruct (conv_f2i f C) as [z E]. exists z. split; [exact E|].
  unfold f2i in E. destruct (trunc_f f) as [t|]; [|discriminate]. destruct (in_int64 t) eqn:R; [|discriminate].
  inversion E; subst. unfold in_int64 in R. apply andb_true_iff in R. destruct R as [R1 R2].
  apply Z.leb_le in R1. apply Z.leb_le in R2. split; assumption.
Qed.
Print Assumptions C19_nonconvertible_rejected.

(* what REMAINS outside the repaired path (explicit): make_integer / make_integer_pair called with double constants
   cast them with an unguarded static_cast<int64_t> in make_scalar_ (include/nano/parameter.h) -- undefined exactly when
   one of the programmer-given doubles does not truncate into int64; likewise value<int64_t>() of a floating-point
   parameter whose value is >= 2^63 in magnitude (RUB in read_i64) *)
Theorem C19_outside_construction_cast : forall v mn mx c1 c2,
  make_integer_d v mn mx c1 c2 = UB <-> (f2i v = None \/ f2i mn = None \/ f2i mx = None).
Proof. exact make_integer_d_ub. Qed.
Print Assumptions C19_outside_construction_cast.

(* type-mismatched reads and assignments throw; matching reads do not *)
Theorem C19_type_mismatch : forall s,
  ((kind_scalar s = false -> read_i64 s = RThrow /\ read_f64 s = RThrow) /\
   (kind_pair s = false -> read_ip s = RThrow /\ read_fp s = RThrow) /\
   (kind_string s = false -> read_str s = RThrow) /\
   (kind_enum s = false -> read_enum s = RThrow)) /\
  ((kind_scalar s = true -> read_i64 s <> RThrow /\ read_f64 s <> RThrow) /\
   (kind_pair s = true -> read_ip s <> RThrow /\ read_fp s <> RThrow) /\
   (kind_string s = true -> read_str s <> RThrow) /\
   (kind_enum s = true -> read_enum s <> RThrow)) /\
  ((kind_scalar s = false -> forall z f, step s (AInt z) = Throw /\ step s (AFlt f) = Throw) /\
   (kind_pair s = false -> forall a b x y, step s (AIPair a b) = Throw /\ step s (AFPair x y) = Throw) /\
   (kind_enum s = false -> forall v, step s (AEnum v) = Throw) /\
   (s = SNone -> forall v d0 d1 d2, step s (AStr v d0 d1 d2) = Throw)).
Proof. intro s. split; [exact (reads_mismatch s)|split; [exact (reads_match s)|exact (assign_mismatch s)]]. Qed.
Print Assumptions C19_type_mismatch.

(* unknown parameter names throw (assignment and read); a known name addresses the first parameter carrying it *)
Theorem C19_unknown_name : forall c name,
  (~ In name (names c) -> (forall a, cassign c name a = CThrow) /\ (forall rd, cread c name rd = RThrow)) /\
  (In name (names c) -> forall rd, exists p, In p c /\ pname p = name /\ cread c name rd = rd (pstore p)).
Proof.
  intros c name. split.
  - intro H. split; [intro a; exact (cassign_unknown c name a H)|intro rd; exact (cread_unknown c name rd H)].
  - intros H rd. destruct (cread_known c name rd H) as (p & Hp & Np & E). exists p.
    split; [exact (nth_error_In _ _ Hp)|split; assumption].
Qed.
Print Assumptions C19_unknown_name.

(* every history of registrations and assignments on a configurable is defined, and the configurable it reaches has
   pairwise distinct parameter names and every parameter (in particular every registered default) inside its domain *)
Theorem C19_defaults_in_domain : forall h,
  exists c, crun [] h = Some c /\ NoDup (names c) /\ Forall (fun p => Inv (pstore p)) c.
Proof. intro h. exact (crun_total_inv h [] CInv_nil). Qed.
Print Assumptions C19_defaults_in_domain.

(* an accepted assignment through parameter(name) changes the value of that parameter and nothing else *)
Theorem C19_config_frame : forall c name a c',
  cassign c name a = COk c' ->
  names c' = names c /\
  exists i p s', nth_error c i = Some p /\ pname p = name /\ step (pstore p) a = Ok s' /\
                 nth_error c' i = Some (mkParam name s') /\
                 forall j, j <> i -> nth_error c' j = nth_error c j.
Proof. exact cassign_frame. Qed.
Print Assumptions C19_config_frame.

(* a clone has equal parameters, and whatever is done afterwards to other objects (the clone included) never
   changes object j *)
Theorem C19_clone_equal_independent :
  (forall st i c, nth_error st i = Some c ->
     nth_error (sclone st i) (length st) = Some c /\ length (sclone st i) = S (length st) /\
     forall j, (j < length st)%nat -> nth_error (sclone st i) j = nth_error st j) /\
  (forall h st st' j, (j < length st)%nat -> forallb (fun o => negb (targets o j)) h = true ->
     srun st h = Some st' -> nth_error st' j = nth_error st j).
Proof. split; [exact sclone_spec|exact srun_other]. Qed.
Print Assumptions C19_clone_equal_independent.

(* write followed by read reproduces name, value and domain (in particular the three comparison flags of a pair
   are written and read in the same order) *)
Theorem C19_write_read_roundtrip : forall name s, decode (encode name s) = Some (name, s).
Proof. exact decode_encode. Qed.
Print Assumptions C19_write_read_roundtrip.

(* split_pair: with tokens separated (and surrounded) by runs of the delimiters ";,:|/ ", the pair is the first and
   the last token *)
Theorem C19_split_pair : forall t1 ts d pre post,
  Forall (fun t => no_delim t /\ t <> []) (t1 :: ts) -> all_delim d -> d <> [] -> all_delim pre -> all_delim post ->
  split_pair (pre ++ joined (t1 :: ts) d ++ post) = (t1, last ts []).
Proof. exact split_pair_joined. Qed.
Print Assumptions C19_split_pair.

(* the model of std::stoll on [white space][sign]digits[rest]: the decimal value, or out_of_range outside int64;
   and invalid_argument when no digit follows the optional sign *)
Theorem C19_stoll_decimal : forall ws neg ds rest,
  Forall (fun c => is_space c = true) ws -> all_digits ds -> ds <> [] -> stops rest ->
  stoll (ws ++ sign_str neg ++ ds ++ rest) =
    let z := if sign_neg neg then - dec_value ds 0 else dec_value ds 0 in
    if in_int64 z then PVal z else PRange.
Proof. exact stoll_decimal. Qed.
Print Assumptions C19_stoll_decimal.

Theorem C19_stoll_invalid : forall ws neg rest,
  Forall (fun c => is_space c = true) ws -> stops rest ->
  match rest with [] => True | c :: _ => is_space c = false /\ (neg = None -> c <> 45 /\ c <> 43) end ->
  stoll (ws ++ sign_str neg ++ rest) = PInvalid.
Proof. exact stoll_no_digits. Qed.
Print Assumptions C19_stoll_invalid.

(* NOT proved in general (visible here, searched on the implementation on every run): an integer of magnitude <= 2^53
   assigned to a floating-point parameter is read back, as int64, unchanged.  Only the listed boundary points
   (0..299, 2^k-1, 2^k, 2^k+1 for k <= 52, 2^53-1, 2^53, ... and their negatives) are established, by computation. *)
Definition C19_int_roundtrip_full_statement : Prop := forall z, - 2 ^ 53 <= z <= 2 ^ 53 -> f2i (i2f z) = Some z.

Theorem C19_int_roundtrip_partial :
  Forall (fun z => - 2 ^ 53 <= z <= 2 ^ 53 /\ f2i (i2f z) = Some z) rt_points /\ (length rt_points > 900)%nat.
Proof. split; [exact int_roundtrip_points|vm_compute; repeat constructor]. Qed.
Print Assumptions C19_int_roundtrip_partial.

(* ---------------------------------------------------------------------------------------------- *)
(* non-vacuity: the hypotheses are satisfiable and every outcome occurs                             *)
Example C19_nonvacuous_int :
  make (SIRange 5 0 10 LE LT) = Ok (SIRange 5 0 10 LE LT) /\ make (SIRange 10 0 10 LE LT) = Throw /\
  step (SIRange 5 0 10 LE LT) (AInt 9) = Ok (SIRange 9 0 10 LE LT) /\
  step (SIRange 5 0 10 LE LT) (AInt 10) = Throw /\
  step (SIRange 5 0 10 LE LT) (AFlt fx_2_7) = Ok (SIRange 2 0 10 LE LT) /\
  step (SIRange 5 0 10 LE LT) (AFlt PrimFloat.nan) = Throw /\ step (SIRange 5 0 10 LE LT) (AFlt fx_2p63) = Throw /\
  conv_i fx_2p63 = false /\ conv_i fx_m2p63 = true /\ conv_i PrimFloat.infinity = false /\
  step (SIRange 0 int64_min 0 LE LE) (AFlt PrimFloat.infinity) = Throw /\
  step (SIRange 0 int64_min 0 LE LE) (AFlt fx_m2p63) = Ok (SIRange int64_min int64_min 0 LE LE) /\
  make_integer_d PrimFloat.nan fx_0 fx_1 LE LE = UB /\
  step (SIRange 5 0 10 LE LT) (AStr [32; 55; 120] None None None) = Ok (SIRange 7 0 10 LE LT) /\
  step (SIRange 5 0 10 LE LT) (AStr [120] None None None) = Throw /\
  run (SIRange 5 0 10 LE LT) [AInt 9; AInt 10; AEnum [97]; AWriteRead [120]] = Some (SIRange 9 0 10 LE LT).
Proof. vm_compute. repeat split; reflexivity. Qed.

Example C19_nonvacuous_float :
  let p := SFRange fx_05 fx_0 fx_1 LT LE in
  make p = Ok p /\ make (SFRange fx_0 fx_0 fx_1 LT LE) = Throw /\
  step p (AFlt fx_1) = Ok (SFRange fx_1 fx_0 fx_1 LT LE) /\
  step p (AFlt fx_1up) = Throw /\
  step p (AFlt PrimFloat.nan) = Throw /\ step p (AFlt PrimFloat.infinity) = Throw /\
  step p (AInt 1) = Ok (SFRange fx_1 fx_0 fx_1 LT LE) /\
  step p (AStr [48] (Some fx_025) None None) = Ok (SFRange fx_025 fx_0 fx_1 LT LE) /\
  i2f 9007199254740993 = fx_2p53 /\ f2i fx_m2p63 = Some int64_min /\ f2i fx_2p63 = None.
Proof. vm_compute. repeat split; reflexivity. Qed.

Example C19_nonvacuous_pair_enum :
  step (SIPair 1 2 0 10 LE LT LE) (AIPair 3 3) = Throw /\
  step (SIPair 1 2 0 10 LE LT LE) (AStr [49; 44; 32; 50; 59; 57] None None None) = Ok (SIPair 1 9 0 10 LE LT LE) /\
  step (SFPair fx_025 fx_05 fx_0 fx_1 LE LE LE) (AFPair fx_05 fx_05) = Ok (SFPair fx_05 fx_05 fx_0 fx_1 LE LE LE) /\
  step (SFPair fx_025 fx_05 fx_0 fx_1 LE LE LE) (AFPair fx_075 fx_05) = Throw /\
  step (SEnum [97] [[97]; [98]]) (AStr [98] None None None) = Ok (SEnum [98] [[97]; [98]]) /\
  step (SEnum [97] [[97]; [98]]) (AEnum [99]) = Throw /\
  split_pair [49; 44; 32; 50; 59; 57] = ([49], [57]) /\
  stoll [32; 45; 52; 50; 120] = PVal (-42) /\ stoll [45] = PInvalid /\
  stoll [57; 50; 50; 51; 51; 55; 50; 48; 51; 54; 56; 53; 52; 55; 55; 53; 56; 48; 56] = PRange.
Proof. vm_compute. repeat split; reflexivity. Qed.

Example C19_nonvacuous_config :
  let p := SIRange 5 0 10 LE LE in
  crun [] [CRegister [97] p; CRegister [97] p; CRegister [98] (SFRange fx_2 fx_0 fx_1 LE LE); CAssign [97] (AInt 7);
           CAssign [99] (AInt 7); CAssign [97] (AInt 11)] = Some [mkParam [97] (SIRange 7 0 10 LE LE)] /\
  cread [mkParam [97] p] [98] read_i64 = RThrow /\ cread [mkParam [97] p] [97] read_i64 = RI 5 /\
  srun [[mkParam [97] p]] [SClone 0; SOp 1 (CAssign [97] (AInt 7))] =
    Some [[mkParam [97] p]; [mkParam [97] (SIRange 7 0 10 LE LE)]].
Proof. vm_compute. repeat split; reflexivity. Qed.

(* ============================================================================================== *)
(* Extension: the factory clause as theorems about the parameter table REGENERATED FROM THE SOURCE on every run
   (LNGen.Src_c19_params, written by tools/checks/c19_params.py from every register_parameter(parameter_t::make_*(...))
   call, every constructor and every parameter("name") use of src/ and include/).  The finite table is the domain of the
   statements; it is compared exactly with what the compiled library registers on every run (stage FACTTAB). *)

(* every declared default lies in its declared domain, ordering constraint of pairs included; no make_* argument is
   cast outside the defined range of static_cast<int64_t> (param_storage = None otherwise); the parameter stores the
   declared values.  `make`/`Inv` are the predicates of C19_construction / C19_inv. *)
Theorem C19_factory_defaults_in_domain : forall p, In p src_c19_params ->
  exists s, param_storage p = Some s /\ make s = Ok s /\ Inv s.
Proof. exact defaults_in_domain. Qed.
Print Assumptions C19_factory_defaults_in_domain.

(* per class (constructor chain: base classes first, ::config helpers inlined, assignments of constructor bodies): no
   statement of the constructor throws, names are pairwise distinct, every parameter is inside its domain, one parameter
   per register_parameter call *)
Theorem C19_factory_objects_constructible : forall o, In o src_c19_objects ->
  exists h c, object_ops o = Some h /\ cbuild [] h = Some c /\ crun [] h = Some c /\
              NoDup (names c) /\ Forall (fun p => Inv (pstore p)) c /\ List.length c = regs o.
Proof. exact objects_constructible. Qed.
Print Assumptions C19_factory_objects_constructible.

(* a completed constructor is a history without a throwing statement (all histories) *)
Theorem C19_factory_cbuild_no_throw : forall h1 o h2 c c',
  cbuild c (h1 ++ o :: h2) = Some c' ->
  exists c1 c2, cbuild c h1 = Some c1 /\ cstep c1 o = COk c2 /\ cbuild c2 h2 = Some c'.
Proof. exact cbuild_no_throw. Qed.
Print Assumptions C19_factory_cbuild_no_throw.

(* the per-class objects consist of source records only *)
Theorem C19_factory_objects_from_source : forall o i name, In o src_c19_objects -> In (EReg i name) (so_entries o) ->
  exists p, nth_error src_c19_params i = Some p /\ In p src_c19_params /\
            name_matches (sp_name p) (so_type_id o) name = true.
Proof. exact objects_instances. Qed.
Print Assumptions C19_factory_objects_from_source.

(* every parameter("name") used by the library's own code names a parameter of (each most derived class of) the object
   it is evaluated on; the typed read next to it has the declared kind (enumerations: the same name table), its integer
   result type contains the declared range, it does not truncate a floating-point parameter (two accepted exceptions,
   lossy_reads_accepted); a constant assigned there is accepted *)
Theorem C19_factory_uses_resolve : forall u, In u src_c19_uses ->
  exists o c s, nth_error src_c19_objects (su_obj u) = Some o /\ object_config o = Some c /\
                find_store c (bytes_of (su_name u)) = Some s /\ use_ok (su_name u) (su_read u) s = true.
Proof. exact uses_resolve. Qed.
Print Assumptions C19_factory_uses_resolve.

(* ... therefore, after ANY history of assignments to that parameter, the lookup succeeds and the typed read does not
   throw (kind never changes: C19_inv) *)
Theorem C19_factory_reads_never_throw : forall u f, In u src_c19_uses -> reader (su_read u) = Some f ->
  exists o c s, nth_error src_c19_objects (su_obj u) = Some o /\ object_config o = Some c /\
                In (bytes_of (su_name u)) (names c) /\
                (forall rd, cread c (bytes_of (su_name u)) rd = rd s) /\
                forall h, exists s', run s h = Some s' /\ Inv s' /\ f s' <> RThrow.
Proof. exact reads_never_throw. Qed.
Print Assumptions C19_factory_reads_never_throw.

(* kind_ok is the model's type-mismatch rule, for all states: compatible => no throw in any state with that domain,
   incompatible (non-enumeration reads) => throws *)
Theorem C19_factory_kind_rule :
  (forall rd f s s', reader rd = Some f -> kind_ok rd s = true -> domain_of s' = domain_of s -> f s' <> RThrow) /\
  (forall rd f s, reader rd = Some f -> (forall ty names, rd <> RdEnum ty names) -> kind_ok rd s = false -> f s = RThrow).
Proof. split; [exact kind_ok_no_throw|exact kind_bad_throws]. Qed.
Print Assumptions C19_factory_kind_rule.

(* non-vacuity: the tables are not empty, the hypotheses are inhabited, and each check rejects what it must *)
Example C19_factory_nonvacuous_tables :
  (100 <= List.length src_c19_params)%nat /\ (80 <= List.length src_c19_objects)%nat /\ (200 <= List.length src_c19_uses)%nat.
Proof. exact table_sizes. Qed.

Example C19_factory_nonvacuous_rejects :
  param_ok bad_default_at_lt_bound = false /\ param_ok bad_swapped_bounds = false /\ param_ok bad_cast = false /\
  param_ok bad_pair_order = false /\
  cbuild [] [CRegister [97] (SIRange 1 0 2 LE LE); CRegister [97] (SIRange 1 0 2 LE LE)] = None /\
  cbuild [] [CRegister [97] (SIRange 1 0 2 LE LE); CAssign [98] (AInt 1)] = None /\
  cbuild [] [CRegister [97] (SIRange 1 0 2 LE LE); CAssign [97] (AInt 3)] = None /\
  find_store [mkParam [97] (SIRange 1 0 2 LE LE)] [98] = None /\
  use_ok (String.String (Ascii.ascii_of_nat 97) String.EmptyString) RdPairF (SIRange 1 0 2 LE LE) = false /\
  use_ok (String.String (Ascii.ascii_of_nat 97) String.EmptyString) RdI64 (SFRange fx_05 fx_0 fx_1 LE LE) = false /\
  use_ok (String.String (Ascii.ascii_of_nat 97) String.EmptyString) RdF64 (SFRange fx_05 fx_0 fx_1 LE LE) = true /\
  cbuild [] [CRegister [97] (SIRange 1 0 2 LE LE); CAssign [97] (AInt 2)] = Some [mkParam [97] (SIRange 2 0 2 LE LE)].
Proof. vm_compute. repeat split; reflexivity. Qed.

Example C19_factory_nonvacuous_reader : exists u f, In u src_c19_uses /\ reader (su_read u) = Some f.
Proof.
  assert (K : existsb (fun v => match reader (su_read v) with Some _ => true | None => false end) src_c19_uses = true)
    by (vm_compute; reflexivity).
  apply existsb_exists in K. destruct K as (v & Iv & Kv).
  destruct (reader (su_read v)) as [f|] eqn:R; [|discriminate]. exists v, f. split; [exact Iv|exact R].
Qed.

(* ============================================================================================== *)
(* Third extension: the clone clause as theorems about the CLONE table regenerated from the source on every run
   (LNGen.Src_c19_clones, written by tools/checks/c19_clones.py: every class that overrides clone() with its return
   expression classified, every class of those hierarchies with its bases, data members and copy constructor), and a
   semantic model on top of it (C19_ClonesDefs: object = class + parameter state + owned components; `oclone` = virtual
   clone() as the table classifies it).  Stage CLONETAB ties the table and `oclone` to the compiled library. *)
From Coq Require Import String.
From LNGen Require Import Src_c19_clones.
From LN Require Import C19_ClonesDefs C19_Clones.

(* every clone() of src/ and include/ returns std::make_unique<T>( *this ) with T its own class (as written in the
   definition, or the injected class name) *)
Theorem C19_clones_copy_this : forall r, In r src_c19_clones ->
  exists t, sc_ret r = CopyOfThis t /\ (t = sc_class r \/ t = sc_key r).
Proof. exact clones_copy_this. Qed.
Print Assumptions C19_clones_copy_this.

(* every user-written copy constructor of those hierarchies has an empty body, passes `other` to every base class, copies
   or deep-clones every data member of its class (owning pointers: deep-cloned), and has no other initialiser *)
Theorem C19_copy_ctors_complete : forall c file line inits be,
  In c src_c19_classes -> cl_copy c = UserCopy file line inits be ->
  be = true /\
  (forall b, In b (cl_bases c) -> In (IBase b true) inits) /\
  (forall m, In m (cl_members c) -> In (ICopied (sm_name m)) inits \/ In (IDeepCloned (sm_name m)) inits) /\
  (forall m, In m (cl_members c) -> owning (sm_kind m) = true -> In (IDeepCloned (sm_name m)) inits) /\
  (forall i, In i inits -> (forall m t, i <> IOther m t) /\ (forall b, i <> IBase b false)).
Proof. exact copy_ctors_complete. Qed.
Print Assumptions C19_copy_ctors_complete.

(* adequacy of the value model of copies: no class of the hierarchies has a deleted copy constructor or a member through
   which a member-wise copy would alias mutable state (raw pointer / reference to non-const, shared_ptr); classes without
   a user-written copy constructor have no owning pointer (their implicit copy is well-formed and deep) *)
Theorem C19_copies_no_aliasing : forall c, In c src_c19_classes ->
  cl_copy c <> DeletedCopy /\
  (forall m, In m (cl_members c) -> aliasing (sm_kind m) = false) /\
  ((cl_copy c = ImplicitCopy \/ cl_copy c = DefaultedCopy) -> forall m, In m (cl_members c) -> owning (sm_kind m) = false).
Proof. exact copies_no_aliasing. Qed.
Print Assumptions C19_copies_no_aliasing.

(* the clone clause on objects WITH owned components (extends C19_clone_equal_independent, which speaks about parameter
   lists): for the table of the run, in every state -- (1) the clone of any object over the table is the object itself
   (class, parameter state, owned components recursively, e.g. the two line-search objects of a solver, the prototype /
   weak-learner lists of gboost_model_t); (2) every history of assignments (to parameters of the object or of any nested
   component) and clones is defined and a clone taken in the reached state appends an equal object and leaves the others
   untouched; (3) operations on other objects never change object j *)
Theorem C19_clone_object_equal_independent :
  (forall o, src_shaped o = true -> src_oclone o = Some o) /\
  (forall h st, Forall (fun o => src_shaped o = true) st ->
     exists st', orun src_c19_clones src_c19_classes default_obj st h = Some st' /\ Forall (fun o => src_shaped o = true) st' /\
       forall i o, nth_error st' i = Some o ->
         ostep src_c19_clones src_c19_classes default_obj st' (OClone i) = Some (st' ++ [o]) /\
         nth_error (st' ++ [o]) (List.length st') = Some o /\
         forall j, (j < List.length st')%nat -> nth_error (st' ++ [o]) j = nth_error st' j) /\
  (forall h st st' j, (j < List.length st)%nat -> forallb (fun op => negb (otargets op j)) h = true ->
     orun src_c19_clones src_c19_classes default_obj st h = Some st' -> nth_error st' j = nth_error st j).
Proof. exact clone_equal_independent. Qed.
Print Assumptions C19_clone_object_equal_independent.

(* the same for ANY table: clone() = CopyOfThis of the own class, `other` handed down to configurable_t along the class
   chain, every owning member deep-cloned  =>  clone is the identity on objects (all states, all component trees) *)
Theorem C19_clone_equal_generic : forall clones classes fresh,
  (forall r, In r clones -> class_clone_ok clones classes (sc_key r) = true) ->
  forall o, shaped clones classes o = true -> oclone clones classes fresh o = Some o.
Proof. exact clone_equal_generic. Qed.
Print Assumptions C19_clone_equal_generic.

(* ... and the hypotheses are needed: with `DefaultConstructed` the statement is refuted by "change a parameter, clone";
   a copy constructor that forgets an owning member loses the state of that component; one that does not pass `other` to
   its configurable_t base loses every parameter *)
Theorem C19_clone_default_constructed_refuted :
  exists o o', o = oset (demo_obj 5 5) [] [97] (AInt 7) /\
    shaped (demo_clones (DefaultConstructed "S"%string)) (demo_classes demo_copy_good) o = true /\
    oclone (demo_clones (DefaultConstructed "S"%string)) (demo_classes demo_copy_good) demo_fresh o = Some o' /\
    obj_cfg o' <> obj_cfg o.
Proof. exact default_constructed_refuted. Qed.
Print Assumptions C19_clone_default_constructed_refuted.

Theorem C19_clone_forgotten_member_refuted :
  exists o o', o = oset (demo_obj 5 5) [0%nat] [97] (AInt 7) /\
    shaped (demo_clones (CopyOfThis "S"%string)) (demo_classes demo_copy_forgets) o = true /\
    oclone (demo_clones (CopyOfThis "S"%string)) (demo_classes demo_copy_forgets) demo_fresh o = Some o' /\
    obj_cfg o' = obj_cfg o /\ obj_comps o' <> obj_comps o.
Proof. exact forgotten_member_refuted. Qed.
Print Assumptions C19_clone_forgotten_member_refuted.

Theorem C19_clone_base_not_passed_refuted :
  exists o', oclone (demo_clones (CopyOfThis "S"%string)) (demo_classes demo_copy_nobase) demo_fresh (demo_obj 7 8) = Some o' /\
    obj_cfg o' = [] /\ obj_comps o' = obj_comps (demo_obj 7 8).
Proof. exact base_not_passed_refuted. Qed.
Print Assumptions C19_clone_base_not_passed_refuted.

(* non-vacuity *)
Example C19_clones_nonvacuous_tables :
  (100 <= List.length src_c19_clones)%nat /\ (100 <= List.length src_c19_classes)%nat /\
  existsb (fun c => match cl_copy c with UserCopy _ _ _ _ => true | _ => false end) src_c19_classes = true /\
  existsb (fun c => existsb (fun m => owning (sm_kind m)) (cl_members c)) src_c19_classes = true.
Proof. exact clone_table_sizes. Qed.

Example C19_clones_nonvacuous_demo :
  (forall r, In r (demo_clones (CopyOfThis "S"%string)) ->
     class_clone_ok (demo_clones (CopyOfThis "S"%string)) (demo_classes demo_copy_good) (sc_key r) = true) /\
  shaped (demo_clones (CopyOfThis "S"%string)) (demo_classes demo_copy_good) (demo_obj 7 8) = true /\
  oclone (demo_clones (CopyOfThis "S"%string)) (demo_classes demo_copy_good) demo_fresh (demo_obj 7 8) = Some (demo_obj 7 8).
Proof. exact demo_good. Qed.

Example C19_clones_nonvacuous_rejects :
  oclone (demo_clones (CopyOfThis "L"%string)) (demo_classes demo_copy_good) demo_fresh (demo_obj 7 8) = None /\
  clone_copy_this (mkSClone "demo.cpp"%string 1 "S"%string "S"%string false (CopyOfThis "L"%string)) = false /\
  clone_copy_this (mkSClone "demo.cpp"%string 1 "S"%string "S"%string false (DefaultConstructed "S"%string)) = false /\
  clone_copy_this (mkSClone "demo.cpp"%string 1 "S<a, b>"%string "S"%string false (CopyOfThis "S<a, c>"%string)) = false /\
  clone_copy_this (mkSClone "demo.cpp"%string 1 "S<a, b>"%string "S"%string true (CopyOfThis "S"%string)) = true /\
  copy_ctor_complete (mkSClass "S"%string "demo.h"%string 1 ["B"%string] [mkSMember "m_l"%string "rl_t"%string MUniquePtr "L"%string] demo_copy_forgets) = false /\
  copy_ctor_complete (mkSClass "S"%string "demo.h"%string 1 ["configurable_t"%string] [mkSMember "m_l"%string "rl_t"%string MUniquePtr "L"%string; mkSMember "m_type"%string "int"%string MValue ""%string] demo_copy_nobase) = false /\
  copy_ctor_complete (mkSClass "S"%string "demo.h"%string 1 ["configurable_t"%string] [mkSMember "m_l"%string "rl_t"%string MUniquePtr "L"%string; mkSMember "m_type"%string "int"%string MValue ""%string] demo_copy_good) = true /\
  implicit_copy_memberwise (mkSClass "S"%string "demo.h"%string 1 [] [mkSMember "m_p"%string "x_t*"%string MRawPtr ""%string] ImplicitCopy) = false /\
  implicit_copy_memberwise (mkSClass "S"%string "demo.h"%string 1 [] [mkSMember "m_p"%string "rl_t"%string MUniquePtr "L"%string] ImplicitCopy) = false.
Proof. vm_compute. repeat split; reflexivity. Qed.

(* an object over the table of the run with owned components: a solver with its two line-search objects *)
Example C19_clones_nonvacuous_shaped :
  src_shaped (Obj "solver_gd_t"%string [] [("m_lsearch0"%string, Obj "lsearch0_quadratic_t"%string [] []);
                                    ("m_lsearchk"%string, Obj "lsearchk_backtrack_t"%string [] [])]) = true /\
  src_shaped (Obj "solver_gd_t"%string [] [("m_nothing"%string, Obj "lsearch0_quadratic_t"%string [] [])]) = false.
Proof. vm_compute. split; reflexivity. Qed.
