(* C04 -- executable exact-rational model of the Newton iteration of solver_t::solve_with_inequality and of
   program_t::update / program_t::solve (src/program/solver.cpp):

     update(x, u, v, miu, state)   fx, rdual, eta (m > 0), rprim (p > 0), rcent (m > 0) as written, a state transformer
     Gxh = G x - h;  hessvar = G' diag(u / Gxh) G;  lmat = [[Q - hessvar, A'], [A, 0]]  (-hessvar for a linear program)
     lvec = (-(rdual + G' (rcent / Gxh)), -rprim);   (dx, dv) = LDLT solve -- an ORACLE ANSWER here
     du = (rcent - u .* (G dx)) / Gxh
     s = s0 * make_smax(u, du)                                           (C04_Step.v)
     stage 1: for (iter = 0; iter < max_ls; ++iter) if (max(G (x + s dx) - h) < 0) break; else s *= beta;     exit 2 if exhausted
     stage 2: r0 = residual(); for (...) { update(x + s dx, u + s du, v + s dv); if (residual() <= (1 - alpha s) r0) break; else s *= beta; }
              exhausted: if (residual() > r0) update(x, u, v);  done();  exit 3
     x += s dx; u += s du; v += s dv;   non-finite -> failed (exit 4);  max(prev - curr of eta, |rdual|, |rprim|) < eps0 -> done() (exit 5)

   Integer guards, loop tests and the comparisons are the expressions translated from the source (LNGen.Src_c04); comparisons of
   doubles are instantiated at order embeddings of the rational quantities: a residual norm sqrt(R) is represented by its square R
   ([phi] of C04_Defs is the order embedding t -> t|t|), the sign of sqrt(a) - sqrt(b) - e is decided exactly ([sgn_sd]).
   What is an oracle: the answer (dx, dv) of the linear solve, and the two "is everything finite" tests (exact rationals are always
   finite): [a_stable] (rcond, dx, dv, du finite) and [a_finite] (eta, |rdual|, |rprim| finite after the step).
   [qnorm] reduces a fraction (Coq's Qplus/Qmult do not): it is the identity up to Qeq and only keeps the numbers small.
   NaN start values of the state (solver_state_t ctor) are represented by 0: only their lengths matter, update overwrites them.
   No proofs in this file. *)
From Coq Require Import List ZArith QArith Qminmax Qabs Bool.
From LNGen Require Import Src_c04.
From LN Require Import C04_Defs C04_Step.
Import ListNotations.
Local Open Scope Q_scope.

(* ---- reduction of fractions ----------------------------------------------------------------------------------------- *)
Definition qnorm (q : Q) : Q :=
  let g := Z.gcd (Qnum q) (Zpos (Qden q)) in
  match (Zpos (Qden q) / g)%Z with
  | Zpos d => Qmake (Qnum q / g) d
  | _ => q
  end.
Definition vnorm (v : vec) : vec := map qnorm v.

(* ---- elementwise vector / matrix helpers ------------------------------------------------------------------------------ *)
Fixpoint vmul (a b : vec) : vec :=
  match a, b with
  | x :: a', y :: b' => (x * y) :: vmul a' b'
  | _, _ => []
  end.
Fixpoint vquo (a b : vec) : vec :=
  match a, b with
  | x :: a', y :: b' => (x / y) :: vquo a' b'
  | _, _ => []
  end.
Definition vopp (a : vec) : vec := map Qopp a.
Definition outer (a b : vec) : mat := map (fun ai => vscale ai b) a.
Fixpoint madd (M N : mat) : mat :=
  match M, N with
  | r :: M', t :: N' => vadd r t :: madd M' N'
  | _, _ => []
  end.
Fixpoint msub (M N : mat) : mat :=
  match M, N with
  | r :: M', t :: N' => vsub r t :: msub M' N'
  | _, _ => []
  end.
Definition mopp (M : mat) : mat := map vopp M.
Definition mzero (n : nat) : mat := repeat (zeros n) n.
Fixpoint happ (M N : mat) : mat :=
  match M, N with
  | r :: M', t :: N' => (r ++ t) :: happ M' N'
  | _, _ => []
  end.
Definition col (j : nat) (M : mat) : vec := map (fun r => nth j r 0) M.
Definition tcols (n : nat) (M : mat) : mat := map (fun j => col j M) (seq 0 n).   (* M' for M with n columns *)

(* ---- program_t::update ---------------------------------------------------------------------------------------------- *)
(* the fields of solver_state_t that update() writes *)
Record resid := mkRes { s_fx : Q; s_eta : Q; s_rdual : vec; s_rprim : vec; s_rcent : vec }.

Definition upd (P : program) (mufx miu : Q) (x u v : vec) (st : resid) : resid :=
  let m := Z.of_nat (length (pG P)) in
  let p := Z.of_nat (length (pA P)) in
  let g := vnorm (gxh P x) in
  let fx := qnorm (m_fx mufx P x) in                                       (* both branches, then `m_fx *= m_mufx` *)
  let rd0 := grad P x in                                                   (* `c` or `Q x + c` *)
  let eta := if src_c04_upd_gap_guard m then qnorm (- dot u g) else s_eta st in
  let rd1 := if src_c04_upd_eq_guard p then vadd rd0 (mtv (dim P) (pA P) v) else rd0 in
  let rp := if src_c04_upd_eq_guard p then vnorm (m_rprim P x) else s_rprim st in
  let rd2 := if src_c04_upd_ineq_guard m then vadd rd1 (mtv (dim P) (pG P) u) else rd1 in
  let rc := if src_c04_upd_ineq_guard m
            then vnorm (vsub (repeat (- eta / (miu * inject_Z m)) (length (pG P))) (vmul u g))
            else s_rcent st in
  mkRes fx eta (vnorm rd2) rp rc.

(* solver_state_t::residual(), squared *)
Definition res2 (st : resid) : Q := qnorm (sumsq (s_rdual st) + sumsq (s_rcent st) + sumsq (s_rprim st)).

(* the state as the constructor leaves it (NaN = 0 here) *)
Definition res_init (P : program) : resid :=
  mkRes 0 0 (zeros (dim P)) (zeros (length (pA P))) (zeros (length (pG P))).

(* ---- the reduced KKT system handed to the LDLT ------------------------------------------------------------------------ *)
Definition wvec (P : program) (x u : vec) : vec := vnorm (vquo u (vnorm (gxh P x))).      (* u / (G x - h) *)

(* G' diag(w) G as the sum over the rows g_k of w_k g_k g_k' *)
Fixpoint hess_rows (n : nat) (G : mat) (w : vec) : mat :=
  match G, w with
  | g :: G', wk :: w' => map vnorm (madd (outer (vscale wk g) g) (hess_rows n G' w'))
  | _, _ => mzero n
  end.
Definition hessvar (P : program) (x u : vec) : mat := hess_rows (dim P) (pG P) (wvec P x u).

(* `m_lmat.block(0, 0, n, n) = -hessvar` (no Q) / `= Q() - hessvar` *)
Definition lmat_tl (P : program) (x u : vec) : mat :=
  match pQ P with
  | [] => mopp (hessvar P x u)
  | _ => msub (pQ P) (hessvar P x u)
  end.

(* [[tl, A'], [A, 0]] (the off-diagonal blocks are written by the program_t ctor) *)
Definition lmat (P : program) (x u : vec) : mat :=
  happ (lmat_tl P x u) (tcols (dim P) (pA P)) ++ map (fun a => a ++ zeros (length (pA P))) (pA P).

(* `m_lvec = (-(rdual + G' (rcent / Gxh)), -rprim)` on the residuals stored in the state *)
Definition lvec (P : program) (x rd rc rp : vec) : vec :=
  vopp (vadd rd (mtv (dim P) (pG P) (vquo rc (vnorm (gxh P x))))) ++ vopp rp.

(* `du = (rcent - u .* (G dx)) / Gxh` *)
Definition back_subst (P : program) (x u rc dx : vec) : vec :=
  vnorm (vquo (vsub rc (vmul u (mv (pG P) dx))) (vnorm (gxh P x))).

(* ---- the tests ---------------------------------------------------------------------------------------------------------- *)
Definition trial (x dx : vec) (s : Q) : vec := vnorm (vadd x (vscale s dx)).             (* `x + s * dx` *)

Definition zs2 (a b : Q) : Z * Z := ((Qnum a * Zpos (Qden b))%Z, (Qnum b * Zpos (Qden a))%Z).

(* stage 1: `(G * (x + s * dx) - h).maxCoeff() < 0.0` *)
Definition stage1_ok (P : program) (x dx : vec) (s : Q) : bool :=
  src_c04_stage1_ok (Qnum (vmaxc (gxh P (trial x dx s)))).

(* stage 2: `residual() <= (1.0 - alpha * s) * r0` with residual() = sqrt R2, r0 = sqrt R0 *)
Definition stage2_ok (R2 alpha s R0 : Q) : bool :=
  let (z1, z2) := zs2 R2 (phi (1 - alpha * s) * R0) in src_c04_stage2_ok z1 z2.

(* `residual() > r0` *)
Definition revert_test (R2 R0 : Q) : bool :=
  let (z1, z2) := zs2 R2 R0 in src_c04_revert z1 z2.

(* sign of sqrt a - sqrt b - e for a, b >= 0, decided in Q *)
Definition sgn_sd_nonneg (a b e : Q) : comparison :=
  let t := a - b - e * e in
  if Qltb t 0 then Lt else (t * t) ?= (4 * e * e * b).
Definition sgn_sd (a b e : Q) : comparison :=
  if Qle_bool 0 e then sgn_sd_nonneg a b e else CompOpp (sgn_sd_nonneg b a (- e)).
Definition z_of_cmp (c : comparison) : Z := match c with Lt => (-1)%Z | Eq => 0%Z | Gt => 1%Z end.

(* `std::max({prev_eta - curr_eta, prev_rdual - curr_rdual, prev_rprim - curr_rprim}) < epsilon0`: every difference enters the
   translated formula through its sign relative to epsilon0 (epsilon0 -> 0) *)
Definition precise_test (peta ceta prd2 crd2 prp2 crp2 eps0 : Q) : bool :=
  src_c04_precise (z_of_cmp ((peta - ceta) ?= eps0)) (z_of_cmp (sgn_sd prd2 crd2 eps0)) (z_of_cmp (sgn_sd prp2 crp2 eps0)) 0.

(* ---- the iteration ------------------------------------------------------------------------------------------------------- *)
Record istate := mkI { i_x : vec; i_u : vec; i_v : vec; i_res : resid; i_status : Z }.
Record params := mkPar { p_s0 : Q; p_miu : Q; p_alpha : Q; p_beta : Q; p_eps : Q; p_eps0 : Q; p_eps2 : Q; p_maxls : Z; p_big : Q }.
Record answer := mkAns { a_dx : vec; a_dv : vec; a_stable : bool; a_finite : bool }.
(* what the driver compares besides the state: du, s0*smax, s after stage 1 and its counter, after stage 2 and its counter, r0^2 *)
Record trace := mkT { t_du : vec; t_sinit : Q; t_s1 : Q; t_k1 : Z; t_s2 : Q; t_k2 : Z; t_r0sq : Q }.

Definition st_failed : Z := 2.   (* nano::solver_status::failed *)

(* solver_t::done on the numbers stored in the state *)
Definition i_done (P : program) (par : params) (st : istate) : istate :=
  mkI (i_x st) (i_u st) (i_v st) (i_res st)
      (model_done P (i_x st) (s_eta (i_res st)) (s_rdual (i_res st)) (s_rprim (i_res st)) (p_eps par) (p_eps2 par)).

Fixpoint stage1 (fuel : nat) (iter maxls : Z) (P : program) (x dx : vec) (s beta : Q) : Z * Q :=
  match fuel with
  | O => (iter, s)
  | S f =>
      if src_c04_ls_cond1 iter maxls
      then if stage1_ok P x dx s then (iter, s)
           else stage1 f (iter + 1) maxls P x dx (qnorm (qmul_with src_c04_step_shrink1 s beta)) beta
      else (iter, s)
  end.

Fixpoint stage2 (fuel : nat) (iter maxls : Z) (P : program) (mufx miu alpha : Q) (x u v dx du dv : vec) (s beta r0sq : Q)
         (res : resid) : Z * Q * resid :=
  match fuel with
  | O => (iter, s, res)
  | S f =>
      if src_c04_ls_cond2 iter maxls
      then let res' := upd P mufx miu (trial x dx s) (trial u du s) (trial v dv s) res in
           if stage2_ok (res2 res') alpha s r0sq then (iter, s, res')
           else stage2 f (iter + 1) maxls P mufx miu alpha x u v dx du dv (qnorm (qmul_with src_c04_step_shrink2 s beta)) beta r0sq res'
      else (iter, s, res)
  end.

(* one pass of the loop body, for a given du *)
Definition iter_core (P : program) (mufx : Q) (par : params) (st : istate) (ans : answer) (du : vec) : Z * istate * trace :=
  let x := i_x st in let u := i_u st in let v := i_v st in let res := i_res st in
  let dx := a_dx ans in let dv := a_dv ans in
  let maxls := p_maxls par in
  let shape := Nat.eqb (length dx) (dim P) && Nat.eqb (length dv) (length (pA P)) && Nat.eqb (length du) (length u) in
  if negb (a_stable ans && shape) then (1%Z, i_done P par st, mkT du 0 0 0 0 0 0)
  else
    let sinit := qnorm (step_init (p_s0 par) (make_smax (p_big par) u du)) in
    let '(k1, s1) := stage1 (S (Z.to_nat maxls)) src_c04_ls_start1 maxls P x dx sinit (p_beta par) in
    if src_c04_ls_exhausted1 k1 maxls then (2%Z, i_done P par st, mkT du sinit s1 k1 0 0 0)
    else
      let r0sq := res2 res in
      let '(k2, s2, res') := stage2 (S (Z.to_nat maxls)) src_c04_ls_start2 maxls P mufx (p_miu par) (p_alpha par)
                                    x u v dx du dv s1 (p_beta par) r0sq res in
      let tr := mkT du sinit s1 k1 s2 k2 r0sq in
      if src_c04_ls_exhausted2 k2 maxls
      then let res'' := if revert_test (res2 res') r0sq then upd P mufx (p_miu par) x u v res' else res' in
           (3%Z, i_done P par (mkI x u v res'' (i_status st)), tr)
      else
        let st' := mkI (trial x dx s2) (vnorm (step_point u du s2)) (trial v dv s2) res' (i_status st) in
        if negb (a_finite ans) then (4%Z, mkI (i_x st') (i_u st') (i_v st') res' st_failed, tr)
        else if precise_test (s_eta res) (s_eta res') (sumsq (s_rdual res)) (sumsq (s_rdual res'))
                             (sumsq (s_rprim res)) (sumsq (s_rprim res')) (p_eps0 par)
             then (5%Z, i_done P par st', tr)
             else (0%Z, st', tr).

Definition iter_step (P : program) (mufx : Q) (par : params) (st : istate) (ans : answer) : Z * istate * trace :=
  iter_core P mufx par st ans (back_subst P (i_x st) (i_u st) (s_rcent (i_res st)) (a_dx ans)).

(* the start: `mGxh >= 0.0` => unfeasible (None); u = -1 / (G x0 - h), v = 0, update *)
Definition iter_start (P : program) (mufx : Q) (par : params) (x0 : vec) : option istate :=
  if start_unfeasible_dec P x0 then None
  else let u0 := vnorm (map (fun t => - (1) / t) (gxh P x0)) in
       let v0 := zeros (length (pA P)) in
       Some (mkI x0 u0 v0 (upd P mufx (p_miu par) x0 u0 v0 (res_init P)) 0).

(* the loop `for (m_iters = 0; m_iters < max_iters; ++m_iters)`: one oracle answer per pass *)
Fixpoint iter_run (fuel : nat) (iters maxit : Z) (P : program) (mufx : Q) (par : params) (st : istate) (answers : list answer)
  : istate * Z :=
  match fuel, answers with
  | S f, ans :: rest =>
      if src_c04_outer_cond iters maxit
      then match iter_step P mufx par st ans with
           | (k, st', _) => if Z.eqb k 0 then iter_run f (iters + 1) maxit P mufx par st' rest else (st', iters)
           end
      else (st, iters)
  | _, _ => (st, iters)
  end.

(* the residual of the reduced system for an answer: lmat (dx, dv) - lvec (exactly zero for an exact answer) *)
Definition sys_residual (P : program) (x u rd rc rp dx dv : vec) : vec :=
  vsub (mv (lmat P x u) (dx ++ dv)) (lvec P x rd rc rp).
Definition all_zero_b (v : vec) : bool := forallb (fun t => Qeq_bool t 0) v.
Definition strict_b (P : program) (x : vec) : bool := forallb (fun t => Qltb t 0) (gxh P x).
