(* C06 -- the returned gradient is the derivative of the returned value (Coquelicot [is_derive]).

   1. the smooth per-coefficient loss kernels (polynomial and transcendental);
   2. lifting to a sample: along every direction d, s |-> loss(t, o + s d) has the derivative g(t, o) . d at s = 0;
   3. the separable benchmark functions through the same lifting. *)
From Coq Require Import ZArith QArith List Bool Reals Lra Lia Psatz.
From Coquelicot Require Import Coquelicot.
From LN Require Import C06_Defs C06_Proofs.
Import ListNotations.
Local Open Scope R_scope.

Ltac plainR := repeat match goal with o : AbsRing.sort R_AbsRing |- _ => change (AbsRing.sort R_AbsRing) with R in o end.

Definition kernel_deriv (kv kg : R -> R -> R) : Prop := forall t o, is_derive (fun u => kv t u) o (kg t o).

Lemma d_mse : kernel_deriv (k_mse_v Rops) (k_mse_g Rops).
Proof. intros t o. unfold k_mse_v, k_mse_g. rops. auto_derive; auto. lra. Qed.

Lemma d_exponential : kernel_deriv kr_exponential_v kr_exponential_g.
Proof. intros t o. unfold kr_exponential_v, kr_exponential_g. auto_derive; auto. ring. Qed.

Lemma d_logistic : kernel_deriv kr_logistic_v kr_logistic_g.
Proof.
  intros t o. unfold kr_logistic_v, kr_logistic_g. auto_derive.
  - generalize (exp_pos (- t * o)); lra.
  - unfold Rdiv; ring.
Qed.

Lemma d_cauchy : kernel_deriv kr_cauchy_v kr_cauchy_g.
Proof.
  intros t o. unfold kr_cauchy_v, kr_cauchy_g. auto_derive.
  - generalize (sqr_ge0 (t - o)); lra.
  - plainR. field. generalize (sqr_ge0 (o - t)) (sqr_ge0 (t - o)); repeat split; nra.
Qed.

Lemma d_savage : kernel_deriv kr_savage_v kr_savage_g.
Proof.
  intros t o. unfold kr_savage_v, kr_savage_g. auto_derive.
  - generalize (exp_pos (t * o)); nra.
  - replace (exp (- t * o)) with (/ exp (t * o)) by (rewrite <- exp_Ropp; f_equal; ring). plainR.
    field. generalize (exp_pos (t * o)); repeat split; nra.
Qed.

Lemma d_tangent : kernel_deriv kr_tangent_v kr_tangent_g.
Proof.
  intros t o. unfold kr_tangent_v, kr_tangent_g. auto_derive; auto. plainR. field.
  generalize (sqr_ge0 (t * o)); repeat split; nra.
Qed.

(* ---- lifting to lists: directional derivative of a separable sum ---- *)
Lemma sum2_is_derive : forall k kg : R -> R -> R, (forall a u, is_derive (fun v => k a v) u (kg a u)) ->
  forall w x d, length d = length x ->
  is_derive (fun s => sum2 Rops k w (Rvadd x (Rvscale s d))) 0 (Rdot (map2 kg w x) d).
Proof.
  intros k kg Hk. induction w as [|a w IH]; intros x d Hl.
  - apply (is_derive_ext (fun _ => 0)); [reflexivity|]. apply @is_derive_const.
  - destruct x as [|u x]; destruct d as [|e d]; try discriminate.
    + apply (is_derive_ext (fun _ => 0)); [reflexivity|]. apply @is_derive_const.
    + injection Hl as Hl. specialize (IH x d Hl).
      replace (Rdot (map2 kg (a :: w) (u :: x)) (e :: d)) with (plus (scal e (kg a u)) (Rdot (map2 kg w x) d))
        by (unfold plus, scal; simpl; unfold mult; simpl; unfold dot; simpl; rops; ring).
      apply (is_derive_ext (fun s => plus (k a (u + s * e)) (sum2 Rops k w (Rvadd x (Rvscale s d))))); [reflexivity|].
      apply @is_derive_plus; [|exact IH].
      apply (is_derive_comp (fun v => k a v) (fun s => u + s * e)).
      * replace (u + 0 * e) with u by ring. apply Hk.
      * auto_derive; auto. ring.
Qed.

(* a sample's loss: along every direction the derivative is gradient . direction *)
Lemma loss_is_derive : forall kv kg, kernel_deriv kv kg ->
  forall t o d, length d = length o ->
  is_derive (fun s => loss_v Rops kv t (Rvadd o (Rvscale s d))) 0 (Rdot (loss_g kg t o) d).
Proof. intros kv kg H t o d Hl. unfold loss_v, loss_g. apply sum2_is_derive; auto. Qed.

(* ---- separable benchmark functions ---- *)
Lemma vadd_vscale_length : forall x d s, length d = length x -> length (Rvadd x (Rvscale s d)) = length x.
Proof.
  induction x as [|u x IH]; intros [|e d] s H; simpl in *; try discriminate; auto.
  f_equal. apply (IH d s). lia.
Qed.

Ltac kd := intros; rops; auto_derive; auto; plainR; try field.

Lemma axis_is_derive : forall x d, length d = length x ->
  is_derive (fun s => axis_v Rops (Rvadd x (Rvscale s d))) 0 (Rdot (axis_g Rops x) d).
Proof.
  intros x d H. unfold axis_v, axis_g.
  apply (is_derive_ext (fun s => sum2 Rops (fun w u => sq Rops u * w) (bias1 Rops x) (Rvadd x (Rvscale s d)))).
  - intro s. now rewrite (bias1_same x _ (vadd_vscale_length x d s H)).
  - apply (sum2_is_derive (fun w u => sq Rops u * w) (fun w u => two Rops * u * w)); [kd | exact H].
Qed.

Lemma qing_is_derive : forall x d, length d = length x ->
  is_derive (fun s => qing_v Rops (Rvadd x (Rvscale s d))) 0 (Rdot (qing_g Rops x) d).
Proof.
  intros x d H. unfold qing_v, qing_g.
  apply (is_derive_ext (fun s => sum2 Rops (fun w u => sq Rops (sq Rops u - w)) (bias1 Rops x) (Rvadd x (Rvscale s d)))).
  - intro s. now rewrite (bias1_same x _ (vadd_vscale_length x d s H)).
  - apply (sum2_is_derive (fun w u => sq Rops (sq Rops u - w)) (fun w u => cst Rops 4 1 * (sq Rops u - w) * u)); [kd | exact H].
Qed.

Lemma self_sum_is_derive : forall (phi phi' : R -> R), (forall u, is_derive phi u (phi' u)) ->
  forall x d, length d = length x ->
  is_derive (fun s => sum2 Rops (fun _ u => phi u) (Rvadd x (Rvscale s d)) (Rvadd x (Rvscale s d))) 0
            (Rdot (map2 (fun _ u => phi' u) x x) d).
Proof.
  intros phi phi' Hp x d H.
  apply (is_derive_ext (fun s => sum2 Rops (fun _ u => phi u) x (Rvadd x (Rvscale s d)))).
  - intro s. apply sum2_irrelevant; auto using vadd_vscale_length. now rewrite vadd_vscale_length.
  - apply (sum2_is_derive (fun _ u => phi u) (fun _ u => phi' u)); auto.
Qed.

Lemma schumer_is_derive : forall x d, length d = length x ->
  is_derive (fun s => schumer_v Rops (Rvadd x (Rvscale s d))) 0 (Rdot (schumer_g Rops x) d).
Proof.
  intros x d H. unfold schumer_v, schumer_g.
  apply (self_sum_is_derive (fun u => quartic Rops u) (fun u => cst Rops 4 1 * cube Rops u)); [kd | exact H].
Qed.

Lemma styblinski_is_derive : forall x d, length d = length x ->
  is_derive (fun s => styblinski_v Rops (Rvadd x (Rvscale s d))) 0 (Rdot (styblinski_g Rops x) d).
Proof.
  intros x d H. unfold styblinski_v, styblinski_g.
  apply (self_sum_is_derive (fun u => quartic Rops u - cst Rops 16 1 * sq Rops u + cst Rops 5 1 * u)
                            (fun u => cst Rops 4 1 * cube Rops u - cst Rops 32 1 * u + cst Rops 5 1)); [kd | exact H].
Qed.
