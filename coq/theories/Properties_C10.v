(* C10 -- Weak learners fit residuals optimally in their class and predict consistently.
   Only statements + `exact` + Print Assumptions live here. Model: C10_Defs (exact rationals; the integer expressions come
   from src/wlearner/{util,table,dtree}.cpp and src/dataset/iterator.cpp on every run), proofs: C10_Proofs.
   A column [c : col K] is one feature gathered over the selected samples (repetitions included): (Some value | None = missing,
   residual vector); [rss_of no pred c] is the brute-force residual sum of squares of a predictor (zero on missing samples);
   [clamp floor] is make_score's std::max(rss, epsilon * 1e3); [thresholds c] are the mid-points of consecutive distinct sorted
   present values. *)
From Coq Require Import List ZArith QArith Bool Permutation.
From LNGen Require Import Src_c10.
From LN Require Import C10_Defs C10_Proofs.
Import ListNotations.
Local Open Scope Q_scope.

(* ---- least-squares lemmas ---------------------------------------------------------------------------------------------- *)
(* sum (r - c)^2 >= sum r^2 - (sum r)^2 / n for every constant c, with equality at the mean *)
Theorem C10_mean_minimises_rss : forall (l : list (Q * Q)) (c : Q), l <> [] ->
  ms frr l - ms fr l * ms fr l / ms f1 l <= ms (sqerr 0 c) l /\
  ms (sqerr 0 (ms fr l / ms f1 l)) l == ms frr l - ms fr l * ms fr l / ms f1 l.
Proof. exact mean_minimises_rss. Qed.
Print Assumptions C10_mean_minimises_rss.

(* least squares through the origin: sum (r - beta u)^2 >= sum r^2 - (sum r u)^2 / sum u^2 *)
Theorem C10_ls_origin : forall (l : list (Q * Q)) (beta : Q), 0 < ms fxx l ->
  ms frr l - ms frx l * ms frx l / ms fxx l <= ms (sqerr beta 0) l.
Proof. exact ls_origin. Qed.
Print Assumptions C10_ls_origin.

(* one-variable normal equations: the closed form of affine.cpp minimises the moment expression of the RSS, which is the sum of
   squared errors of the line *)
Theorem C10_affine_normal_equations :
  (forall m w b, 0 < m_x0 m -> 0 < adet m -> arss m (aw m) (ab m) <= arss m w b) /\
  (forall w b l, arss (mom_of1 l) w b == ms (sqerr w b) l) /\
  (forall l, 0 <= adet (mom_of1 l)).
Proof. exact (conj arss_min (conj arss_is_rss adet_nonneg)). Qed.
Print Assumptions C10_affine_normal_equations.

(* ---- the sweep ---------------------------------------------------------------------------------------------------------------- *)
(* the running accumulator of the sorted sweep holds, at every evaluated cut, exactly the moments of the entries before the cut *)
Theorem C10_running_moments : forall (B : Type) no (emit : Q -> vmom -> list B) l pre,
  sweep no emit (vmom_of no pre) l = flat_map (fun c => emit (fst (fst c)) (vmom_of no (snd (fst c)))) (cuts pre l).
Proof. exact @sweep_cuts. Qed.
Print Assumptions C10_running_moments.

(* ---- optimality ------------------------------------------------------------------------------------------------------------------ *)
Theorem C10_stump_optimal : forall no floor (cs : list (col Q)),
  match stump_fit no floor cs with
  | Some s =>
      (exists c thr lo hi, In c cs /\ In thr (thresholds c) /\ s == clamp floor (rss_of no (stump_pred thr lo hi) c)) /\
      (forall c thr lo hi, In c cs -> In thr (thresholds c) -> s <= clamp floor (rss_of no (stump_pred thr lo hi) c))
  | None => forall c, In c cs -> thresholds c = []
  end.
Proof. exact stump_fit_optimal. Qed.
Print Assumptions C10_stump_optimal.

Theorem C10_hinge_optimal : forall no floor (cs : list (col Q)),
  match hinge_fit no floor cs with
  | Some s =>
      (exists c thr dir beta, In c cs /\ In thr (thresholds c) /\ s == clamp floor (rss_of no (hinge_pred no thr dir beta) c)) /\
      (forall c thr dir beta, In c cs -> In thr (thresholds c) -> s <= clamp floor (rss_of no (hinge_pred no thr dir beta) c))
  | None => forall c, In c cs -> thresholds c = []
  end.
Proof. exact hinge_fit_optimal. Qed.
Print Assumptions C10_hinge_optimal.

Theorem C10_affine_optimal : forall no floor (cs : list (col Q)),
  match affine_fit no floor cs with
  | Some s =>
      (exists c w b, In c cs /\ affine_ok no c /\ s == clamp floor (rss_of no (affine_pred no w b) c)) /\
      (forall c w b, In c cs -> affine_ok no c -> s <= clamp floor (rss_of no (affine_pred no w b) c))
  | None => forall c, In c cs -> ~ affine_ok no c
  end.
Proof. exact affine_fit_optimal. Qed.
Print Assumptions C10_affine_optimal.

(* a feature is left out of the affine fit only if its present values are all equal (equality case of Cauchy-Schwarz) *)
Theorem C10_affine_degenerate : forall l : list (Q * Q),
  ms fxx l * ms f1 l - ms fx l * ms fx l == 0 -> forall a b, In a l -> In b l -> fst a == fst b.
Proof. exact det_zero_const. Qed.
Print Assumptions C10_affine_degenerate.

(* the thresholds tried by the stump and hinge sweeps are exactly the mid-points of two present values without a present value
   strictly in between (compared as rationals) *)
Theorem C10_thresholds_are_midpoints : forall (c : col Q),
  (forall t, In t (thresholds c) ->
     exists a b, In a (map fst (present c)) /\ In b (map fst (present c)) /\ a < b /\ t = (1 # 2) * (a + b) /\
                 forall x, In x (map fst (present c)) -> x <= a \/ b <= x) /\
  (forall a b, In a (map fst (present c)) -> In b (map fst (present c)) -> a < b ->
     (forall x, In x (map fst (present c)) -> x <= a \/ b <= x) -> exists t, In t (thresholds c) /\ t == (1 # 2) * (a + b)).
Proof. exact (fun c => conj (thresholds_sound c) (thresholds_complete c)). Qed.
Print Assumptions C10_thresholds_are_midpoints.

(* dense table: minimum over all features and ALL tables (any vector for any label set) *)
Theorem C10_dense_optimal : forall no floor (cs : list (col Z)),
  match dense_fit no floor cs with
  | Some s => (exists c T, In c cs /\ s == clamp floor (rss_of no T c)) /\
              (forall c T, In c cs -> s <= clamp floor (rss_of no T c))
  | None => cs = []
  end.
Proof. exact dense_fit_optimal. Qed.
Print Assumptions C10_dense_optimal.

(* k-best table. Full statement (NOT proved): for every k, the k-th partial sum of the gain sweep is the minimum RSS over the tables
   supported on at most k label sets (top-k gains). *)
Definition C10_kbest_topk_full_statement : Prop :=
  forall no (c : col Z) (k : nat) x (keys : list Z) (T : Z -> list Q), (0 < no)%nat ->
    nth_error (kbest_rss_seq no (-1) c) k = Some x -> NoDup keys -> (length keys <= S k)%nat ->
    (forall key, ~ In key keys -> T key = []) -> x <= rss_of no T c.
(* proved: with the RSS criterion the fit takes the minimum over k, which is the dense optimum over the features that have at
   least one present value (the partial sums decrease to it) ... *)
Theorem C10_kbest_optimal_partial : forall no floor maxk (cs : list (col Z)), (0 < no)%nat -> (maxk < 1)%Z ->
  match kbest_fit no floor maxk cs with
  | Some s => (exists c T, In c cs /\ keys_of (present c) <> [] /\ s == clamp floor (rss_of no T c)) /\
              (forall c T, In c cs -> keys_of (present c) <> [] -> s <= clamp floor (rss_of no T c))
  | None => forall c, In c cs -> keys_of (present c) = []
  end.
Proof. exact kbest_fit_optimal. Qed.
Print Assumptions C10_kbest_optimal_partial.
(* ... and k = 1 (the discrete-step table): minimum over the tables that predict one vector for one label set and zero elsewhere *)
Theorem C10_dstep_optimal : forall no floor (cs : list (col Z)), (0 < no)%nat ->
  match kbest_fit no floor 1 cs with
  | Some s => (exists c k0 t, In c cs /\ keys_of (present c) <> [] /\ s == clamp floor (rss_of no (single k0 t) c)) /\
              (forall c k0 t, In c cs -> keys_of (present c) <> [] -> s <= clamp floor (rss_of no (single k0 t) c))
  | None => forall c, In c cs -> keys_of (present c) = []
  end.
Proof. exact dstep_fit_optimal. Qed.
Print Assumptions C10_dstep_optimal.

(* per-thread caches + min_reduce: whatever the concurrency (chunk size from select_iterator_t), the reduced score is the minimum
   of all candidates *)
Theorem C10_chunks_irrelevant : forall concurrency (percol : list (list Q)),
  match fit_chunked concurrency percol, best_of (concat percol) with
  | Some a, Some b => a == b
  | None, None => True
  | _, _ => False
  end.
Proof. exact fit_chunked_spec. Qed.
Print Assumptions C10_chunks_irrelevant.

(* ---- consistency of the fitted learners (all kinds, incl. k-best / k-split tables and trees) ------------------------------------ *)
Theorem C10_predict_additive : forall no w s out o, (o < no)%nat ->
  rget o (predict no w s out) == rget o out + rget o (predict no w s (zeros no)).
Proof. exact predict_additive. Qed.
Print Assumptions C10_predict_additive.

Theorem C10_missing_zero : forall no w s out,
  (group w s = None -> predict no w s out = out) /\
  (forall f, feature_of w = Some f -> fget f s = FMiss -> group w s = None).
Proof. exact missing_zero. Qed.
Print Assumptions C10_missing_zero.

Theorem C10_split_table : forall no w s g, group w s = Some g ->
  if table_like w then incr no w s = Some (znth g (tables_of w) [])
  else g = 0%Z /\ exists f x, feature_of w = Some f /\ fget f s = FNum x /\
                              incr no w s = Some (affine_pred no (znth 0%Z (tables_of w) []) (znth 1%Z (tables_of w) []) x).
Proof. exact split_table. Qed.
Print Assumptions C10_split_table.

Theorem C10_scale : forall no sc w s o, (o < no)%nat -> (table_like w = false -> sfac sc 0 == sfac sc 1) ->
  group (scale sc w) s = group w s /\
  rget o (predict no (scale sc w) s (zeros no))
  == (match group w s with Some g => sfac sc g | None => 1 end) * rget o (predict no w s (zeros no)).
Proof. exact scale_spec. Qed.
Print Assumptions C10_scale.
(* the factor: one scale for all groups, or the scale of the group *)
Theorem C10_scale_factor :
  (forall k i, (0 <= i)%Z -> sfac [k] i = k) /\
  (forall sc i, (0 <= i < Z.of_nat (length sc))%Z -> sfac sc i = znth i sc 0).
Proof. exact (conj sfac_single sfac_own). Qed.
Print Assumptions C10_scale_factor.

Theorem C10_merge_sum : forall no ws s out o, (o < no)%nat ->
  rget o (predict_all no (merge ws) s out) == rget o (predict_all no ws s out).
Proof. exact merge_sum. Qed.
Print Assumptions C10_merge_sum.

Theorem C10_tree_depth1_is_stump : forall no f thr lo hi s out,
  (forall size minsize, src_c10_tree_terminal_fit size minsize 0 1 = true) /\
  group (tree_of_stump f thr lo hi) s = group (WStump f thr lo hi) s /\
  predict no (tree_of_stump f thr lo hi) s out = predict no (WStump f thr lo hi) s out.
Proof. exact tree_depth1_is_stump. Qed.
Print Assumptions C10_tree_depth1_is_stump.

(* ---- non-vacuity ------------------------------------------------------------------------------------------------------------------ *)
Definition ex_col : col Q := [(Some 0, [1]); (Some 1, [2]); (Some 2, [4]); (None, [1]); (Some 1, [3])].
Example C10_nonvacuous_thresholds : thresholds ex_col = [(1 # 2) * (0 + 1); (1 # 2) * (1 + 2)].
Proof. vm_compute. reflexivity. Qed.
Example C10_nonvacuous_stump : exists s, stump_fit 1 (1 # 1000) [ex_col] = Some s /\ s == 3.
Proof. eexists. split; [vm_compute; reflexivity | vm_compute; reflexivity]. Qed.
Example C10_nonvacuous_hinge : exists s, hinge_fit 1 (1 # 1000) [ex_col] = Some s /\ s == 52 # 11.
Proof. eexists. split; [vm_compute; reflexivity | vm_compute; reflexivity]. Qed.
Example C10_nonvacuous_affine : exists s, affine_fit 1 (1 # 1000) [ex_col] = Some s /\ affine_ok 1 ex_col /\ s == 3 # 2.
Proof. eexists. split; [vm_compute; reflexivity | split; [vm_compute; discriminate | vm_compute; reflexivity]]. Qed.
Example C10_nonvacuous_mean : [(0, 1); (0, 3)] <> [] /\ ms frr [(0, 1); (0, 3)] - ms fr [(0, 1); (0, 3)] * ms fr [(0, 1); (0, 3)] / ms f1 [(0, 1); (0, 3)] == 2.
Proof. split; [discriminate | vm_compute; reflexivity]. Qed.
Example C10_nonvacuous_ls_origin : 0 < ms fxx [(1, 1); (2, 3)] /\ ms frr [(1, 1); (2, 3)] - ms frx [(1, 1); (2, 3)] * ms frx [(1, 1); (2, 3)] / ms fxx [(1, 1); (2, 3)] == 1 # 5.
Proof. split; vm_compute; reflexivity. Qed.
Example C10_nonvacuous_normal_equations : 0 < m_x0 (mom_of1 [(0, 1); (1, 2); (2, 4)]) /\ 0 < adet (mom_of1 [(0, 1); (1, 2); (2, 4)]).
Proof. split; vm_compute; reflexivity. Qed.
Example C10_nonvacuous_degenerate : ms fxx [(2, 1); (2, 5)] * ms f1 [(2, 1); (2, 5)] - ms fx [(2, 1); (2, 5)] * ms fx [(2, 1); (2, 5)] == 0.
Proof. vm_compute. reflexivity. Qed.
Example C10_nonvacuous_running : cuts [] [(0, [1]); (1, [2]); (1, [3]); (2, [4])] <> [] /\ length (cuts [] [(0, [1]); (1, [2]); (1, [3]); (2, [4])]) = 2%nat.
Proof. split; [vm_compute; discriminate | vm_compute; reflexivity]. Qed.
(* categorical column: label sets 7, 3, 7, missing, 5 with two outputs *)
Definition ex_ccol : col Z := [(Some 7%Z, [1; 0]); (Some 3%Z, [2; 1]); (Some 7%Z, [3; 0]); (None, [1; 1]); (Some 5%Z, [0; 0])].
Example C10_nonvacuous_dense : exists s, dense_fit 2 (1 # 1000) [ex_ccol] = Some s /\ s == 4.
Proof. eexists. split; [vm_compute; reflexivity | vm_compute; reflexivity]. Qed.
Example C10_nonvacuous_kbest : (0 < 2)%nat /\ (-1 < 1)%Z /\ keys_of (present ex_ccol) = [3%Z; 5%Z; 7%Z] /\
  exists s, kbest_fit 2 (1 # 1000) (-1) [ex_ccol] = Some s /\ s == 4 /\ length (kbest_rss_seq 2 (-1) ex_ccol) = 3%nat.
Proof.
  split; [repeat constructor|]. split; [reflexivity|]. split; [vm_compute; reflexivity|].
  eexists. split; [vm_compute; reflexivity | split; vm_compute; reflexivity].
Qed.
Example C10_nonvacuous_dstep : exists s, kbest_fit 2 (1 # 1000) 1 [ex_ccol] = Some s /\ s == 9.
Proof. eexists. split; [vm_compute; reflexivity | vm_compute; reflexivity]. Qed.
Example C10_nonvacuous_chunks : exists a, fit_chunked 2 [[3]; [1; 2]; []; [1]; [5]] = Some a /\ a == 1 /\
  src_c10_features_per_thread 5 2 = 3%Z.
Proof. eexists. split; [vm_compute; reflexivity | split; vm_compute; reflexivity]. Qed.
(* learners: a k-best table whose hashes are stored in gain order, a tree of depth 2, an affine learner *)
Definition ex_table : wl := WTable 1 [3%Z; 9%Z] [0%Z; 1%Z] [[1; 2]; [3; 4]].
Definition ex_tree : wl :=
  WTree [mknode 0 (1 # 2) 2 (-1); mknode 0 (1 # 2) 4 (-1); mknode 0 (-1) 0 0; mknode 0 (-1) 0 1; mknode 0 2 0 2; mknode 0 2 0 3]
        [[1]; [2]; [3]; [4]].
Definition ex_sample : sample := [FNum 1; FCls 9%Z].
Example C10_nonvacuous_predict : group ex_table ex_sample = Some 1%Z /\ predict 2 ex_table ex_sample [10; 20] = [10 + 3; 20 + 4] /\
  group ex_tree ex_sample = Some 2%Z /\ group ex_tree [FNum 5; FMiss] = Some 3%Z /\ group ex_tree [FNum (-3); FMiss] = Some 0%Z.
Proof. repeat split; vm_compute; reflexivity. Qed.
Example C10_nonvacuous_missing : feature_of ex_table = Some 1%nat /\ fget 1 [FNum 1; FMiss] = FMiss /\ group ex_tree [FMiss; FMiss] = None.
Proof. repeat split; vm_compute; reflexivity. Qed.
Example C10_nonvacuous_split : table_like ex_table = true /\ table_like (WAffine 0 [2] [1]) = false /\
  group (WAffine 0 [2] [1]) ex_sample = Some 0%Z /\ group (WHinge 0 3 true [2] [1]) ex_sample = Some 0%Z /\
  group (WHinge 0 3 false [2] [1]) ex_sample = None.
Proof. repeat split; vm_compute; reflexivity. Qed.
Example C10_nonvacuous_scale : sfac [2] 0 == sfac [2] 1 /\ sfac [2; 3] 1 = 3 /\
  rget 0 (predict 1 (scale [2] (WAffine 0 [2] [1])) ex_sample (zeros 1)) == 6 /\
  predict 2 (scale [2; 5] ex_table) ex_sample (zeros 2) = [0 + 3 * 5; 0 + 4 * 5].
Proof. repeat split; vm_compute; reflexivity. Qed.
(* merge: the first two affine learners merge, the stump stops the outer loop, the two tables behind it stay apart *)
Definition ex_list : list wl := [WAffine 0 [2] [1]; WAffine 0 [1] [1]; WStump 0 0 [1] [2]; ex_table; ex_table].
Example C10_nonvacuous_merge : length (merge ex_list) = 4%nat /\ length (merge [ex_table; WStump 0 0 [1] [2]; ex_table]) = 2%nat /\
  length (merge [WStump 0 0 [1] [2]; ex_table; ex_table]) = 3%nat.
Proof. repeat split; vm_compute; reflexivity. Qed.
Example C10_nonvacuous_depth1 : group (tree_of_stump 0 (1 # 2) [1] [2]) ex_sample = Some 1%Z /\
  src_c10_tree_terminal_fit 60 3 0 1 = true /\ src_c10_tree_terminal_fit 60 3 0 2 = false.
Proof. repeat split; vm_compute; reflexivity. Qed.

(* ======================================================================================================================================== *)
(* Extension: general top-k for the k-best table, the k-split table, decision trees of any depth, AIC / AICc / BIC                          *)
(* (model: C10_Ext_Defs, proofs: C10_Ext, C10_ExtCrit)                                                                                      *)
(* ======================================================================================================================================== *)
From Coq Require Import Sorted Reals Lia Lra.
From LN Require Import C10_Ext_Defs C10_Ext C10_ExtCrit.

(* ---- k-best table, every k --------------------------------------------------------------------------------------------------------- *)
(* the statement left open above: the k-th partial sum of the gain sweep is a lower bound of the RSS of EVERY table supported on at most
   k + 1 label sets (exchange argument over the sorted gains) ... *)
Theorem C10_kbest_topk : C10_kbest_topk_full_statement.
Proof. exact kbest_topk. Qed.
Print Assumptions C10_kbest_topk.
(* ... and it is attained by the table score_kbest stores: the bin means on the first k + 1 label sets of the sorted (delta, bin) pairs
   (duplicate-free, all of them seen label sets), zero elsewhere *)
Theorem C10_kbest_topk_attained : forall no (c : col Z) (k : nat) x, (0 < no)%nat -> nth_error (kbest_rss_seq no (-1) c) k = Some x ->
  x == rss_of no (kbest_pred no c (S k)) c /\ NoDup (kbest_hashes no c (S k)) /\ length (kbest_hashes no c (S k)) = S k /\
  incl (kbest_hashes no c (S k)) (keys_of (present c)) /\
  (forall key, ~ In key (kbest_hashes no c (S k)) -> kbest_pred no c (S k) key = []).
Proof. exact kbest_attained. Qed.
Print Assumptions C10_kbest_topk_attained.
(* the stored order is std::sort's order on the (delta, bin) pairs: larger gain first, equal gains by increasing hash; the deltas alone are
   the sorted deltas the RSS sequence sums *)
Theorem C10_kbest_order : forall no (c : col Z),
  StronglySorted lexlt (kbest_sorted no c) /\
  map fst (kbest_sorted no c) = isort (fun d : Q => d) (deltas_of no (present c)) /\
  Permutation (keys_of (present c)) (map snd (kbest_sorted no c)).
Proof. exact (fun no c => conj (kbest_sorted_lex no c) (conj (kbest_sorted_fst no c) (kbest_sorted_snd no c))). Qed.
Print Assumptions C10_kbest_order.

(* ---- k-split table ---------------------------------------------------------------------------------------------------------------------- *)
(* accumulator_t::cluster() is a greedy agglomerative clustering (closest pair of mean outputs), NOT a contiguous split of the labels
   sorted by mean. Every trial: one valid group id per label set, positive counts; RSS at least the dense RSS; the first trial is the
   dense table *)
Theorem C10_ksplit_trials : forall no (c : col Z), (0 < no)%nat ->
  (forall x, In x (ksplit_rss_seq no c) -> dense_rss no c <= x) /\
  (keys_of (present c) <> [] -> exists x, In x (ksplit_rss_seq no c) /\ x == dense_rss no c) /\
  (keys_of (present c) = [] -> ksplit_rss_seq no c = []) /\
  (forall t, In t (ksplit_trials no c) -> length (snd t) = length (keys_of (present c)) /\
                                            Forall (fun id => (id < length (fst t))%nat) (snd t) /\ Forall (fun cl => 0 < c_x0 cl) (fst t)).
Proof. exact ksplit_seq_spec. Qed.
Print Assumptions C10_ksplit_trials.
(* RSS criterion: the k-split fit is the minimum over all features with a present value and ALL tables *)
Theorem C10_ksplit_optimal : forall no floor (cs : list (col Z)), (0 < no)%nat ->
  match ksplit_fit no floor cs with
  | Some s => (exists c T, In c cs /\ keys_of (present c) <> [] /\ s == clamp floor (rss_of no T c)) /\
              (forall c T, In c cs -> keys_of (present c) <> [] -> s <= clamp floor (rss_of no T c))
  | None => forall c, In c cs -> keys_of (present c) = []
  end.
Proof. exact ksplit_fit_optimal. Qed.
Print Assumptions C10_ksplit_optimal.
(* one merge step: one cluster less, ids in range, the RSS does not decrease (u^2/x + v^2/y >= (u+v)^2/(x+y)) *)
Theorem C10_ksplit_merge_step : forall no st, kinv st -> (2 <= length (fst st))%nat ->
  kinv (merge_step no st) /\ length (fst (merge_step no st)) = pred (length (fst st)) /\
  length (snd (merge_step no st)) = length (snd st) /\
  forall miss, kstate_rss no miss st <= kstate_rss no miss (merge_step no st).
Proof. exact merge_step_spec. Qed.
Print Assumptions C10_ksplit_merge_step.
(* for a FIXED number of groups the source's grouping is not RSS-optimal (so no Fisher-type exhaustiveness holds): witness *)
Theorem C10_ksplit_fixed_k_refuted :
  exists (c : col Z) (T : Z -> list Q) x, nth_error (ksplit_rss_seq 1 c) 1 = Some x /\
    (forall k1 k2, In k1 [2%Z; 3%Z] -> In k2 [2%Z; 3%Z] -> T k1 = T k2) /\ rss_of 1 T c < x.
Proof. exact ksplit_fixed_k_refuted. Qed.
Print Assumptions C10_ksplit_fixed_k_refuted.

(* ---- decision trees of any depth ------------------------------------------------------------------------------------------------------- *)
(* in a well-formed node table (the check [tree_wf] is run on every fitted tree) every sample has exactly one outcome: dropped at the
   first pair on its path whose feature it misses (no group, outputs untouched) or exactly one leaf, whose index split() reports, in range,
   and whose table predict() adds *)
Theorem C10_tree_walk : forall no nodes tables s, tree_wf nodes (Z.of_nat (length tables)) = true ->
  walk nodes s 0 (group (WTree nodes tables) s) /\
  (forall r, walk nodes s 0 r -> r = group (WTree nodes tables) s) /\
  match group (WTree nodes tables) s with
  | Some g => (0 <= g < Z.of_nat (length tables))%Z /\ incr no (WTree nodes tables) s = Some (znth g tables []) /\
              forall out, predict no (WTree nodes tables) s out = tab no (fun o => rget o out + rget o (znth g tables []))
  | None => forall out, predict no (WTree nodes tables) s out = out
  end.
Proof. exact tree_walk_total. Qed.
Print Assumptions C10_tree_walk.
(* a tree is the stump of its root composed with the sub-trees on the two sides; depth 1 is the terminal case *)
Theorem C10_tree_compose : forall nodes tables s, tree_wf nodes (Z.of_nat (length tables)) = true ->
  let root := znth 0%Z nodes node0 in
  group (WTree nodes tables) s =
  match group (WStump (n_feature root) (n_thr root) [] []) s with
  | None => None
  | Some g => if src_c10_tree_terminal (n_next root) then Some (src_c10_tree_leaf (n_table root) g)
              else walk_from nodes (n_next (znth (src_c10_tree_child 0 g) nodes node0)) s
  end.
Proof. exact tree_compose. Qed.
Print Assumptions C10_tree_compose.
(* the walk from any pair of a well-formed table ends within the table (the fuel of the model is never exhausted), at a valid leaf *)
Theorem C10_tree_subwalk : forall nodes nt s, tree_wf nodes nt = true ->
  forall fuel p, (0 <= p)%Z -> Z.even p = true -> (p + 1 < nlen nodes)%Z -> (nlen nodes - p <= Z.of_nat fuel)%Z ->
    walk nodes s p (tree_group fuel nodes p s) /\ (forall g, tree_group fuel nodes p s = Some g -> (0 <= g < nt)%Z).
Proof. exact tree_walk_fuel. Qed.
Print Assumptions C10_tree_subwalk.
(* the side of a value at a node, as the source writes it *)
Theorem C10_tree_side : forall v t, src_c10_stump_side v t = if (v <? t)%Z then 0%Z else 1%Z.
Proof. exact stump_side_shape. Qed.
Print Assumptions C10_tree_side.

(* ---- the breadth-first do_split over a sample SET (follow-up of repo fix 2030fc5: empty branches) ------------------------------------------ *)
(* for EVERY list of (id, sample) pairs whose ids determine the sample -- the empty list, single samples and lists that leave whole
   branches empty included -- the queue-based split of dtree_wlearner_t::do_split (children are queued even with an empty sample set)
   assigns to every listed sample exactly the leaf of its own walk and nothing to the others *)
Theorem C10_tree_bfs_is_walk : forall nodes nt fuel ss, tree_wf nodes nt = true -> bfs_done fuel nodes [(0%Z, ss)] = true ->
  (forall i s s', In (i, s) ss -> In (i, s') ss -> s = s') ->
  forall i, (forall s, In (i, s) ss -> assigned i (tree_bfs fuel nodes [(0%Z, ss)]) = walk_from nodes 0 s) /\
            ((forall s, ~ In (i, s) ss) -> assigned i (tree_bfs fuel nodes [(0%Z, ss)]) = None).
Proof. exact bfs_is_walk. Qed.
Print Assumptions C10_tree_bfs_is_walk.
(* the queue empties for every well-formed table and every list once the fuel reaches [bfs_fuel] (the driver checks [bfs_done] of its runs) *)
Theorem C10_tree_bfs_fuel : forall nodes nt ss fuel, tree_wf nodes nt = true -> (bfs_fuel nodes [(0%Z, ss)] <= fuel)%nat ->
  bfs_done fuel nodes [(0%Z, ss)] = true.
Proof. exact bfs_fuel_root. Qed.
Print Assumptions C10_tree_bfs_fuel.
(* predictions / groups depend only on the sample: splitting a sample within any two lists gives the same group *)
Theorem C10_tree_sublist : forall nodes nt f1 f2 ss1 ss2, tree_wf nodes nt = true ->
  bfs_done f1 nodes [(0%Z, ss1)] = true -> bfs_done f2 nodes [(0%Z, ss2)] = true ->
  (forall i s s', In (i, s) ss1 -> In (i, s') ss1 -> s = s') -> (forall i s s', In (i, s) ss2 -> In (i, s') ss2 -> s = s') ->
  forall i s, In (i, s) ss1 -> In (i, s) ss2 ->
    assigned i (tree_bfs f1 nodes [(0%Z, ss1)]) = assigned i (tree_bfs f2 nodes [(0%Z, ss2)]).
Proof. exact bfs_sublist. Qed.
Print Assumptions C10_tree_sublist.
Definition ex_nodes : list node := match ex_tree with WTree n _ => n | _ => [] end.
Example C10_nonvacuous_bfs : tree_wf ex_nodes 4 = true /\ bfs_done 8 ex_nodes [(0%Z, [])] = true /\ bfs_done 3 ex_nodes [(0%Z, [(0%nat, [FNum 1])])] = true /\
  bfs_done 2 ex_nodes [(0%Z, [])] = false /\ (bfs_fuel ex_nodes [(0%Z, [])] <= 15)%nat /\
  tree_bfs 3 ex_nodes [(0%Z, [(7%nat, [FNum 1]); (9%nat, [FMiss]); (4%nat, [FNum (-3)])])] = [(4%nat, 0%Z); (7%nat, 2%Z)] /\
  tree_bfs 3 ex_nodes [(0%Z, [])] = [] /\ assigned 9 [(4%nat, 0%Z); (7%nat, 2%Z)] = None.
Proof. repeat split; vm_compute; try reflexivity. Qed.

(* ---- selection criteria ------------------------------------------------------------------------------------------------------------------ *)
(* the translated AIC / AICc / BIC expressions and the k, n arguments of every learner have the shape the real-valued model evaluates *)
Theorem C10_criterion_shape :
  (forall dk dn lr ln_, IZR (src_c10_aic dk dn lr ln_) = aic_poly (IZR dk) (IZR dn) (IZR lr) (IZR ln_)) /\
  (forall dk dn lr ln_, IZR (src_c10_bic dk dn lr ln_) = bic_poly (IZR dk) (IZR dn) (IZR lr) (IZR ln_)) /\
  (forall aic dk dn, src_c10_aicc aic dk dn = (aic + Z.quot (2 * (dk * dk + dk)) (dn - dk - 1))%Z).
Proof. exact (conj aic_shape (conj bic_shape aicc_shape)). Qed.
Print Assumptions C10_criterion_shape.
Theorem C10_criterion_args :
  (forall t, src_c10_k_stump t = 2 * t + 1)%Z /\ (forall t, src_c10_k_hinge t = t + 1)%Z /\ (forall t, src_c10_k_affine t = 2 * t)%Z /\
  (forall b t, src_c10_k_dense b t = b * t)%Z /\ (forall b t, src_c10_k_kbest b t = b * t)%Z /\ (forall b t, src_c10_k_ksplit b t = b * t)%Z /\
  (forall b ic, src_c10_ksplit_groups b ic = b - ic)%Z /\
  (forall x m, src_c10_n_stump x m = x + m)%Z /\
  (forall xn xp m, src_c10_n_hinge_left xn xp m = xn + m)%Z /\ (forall xn xp m, src_c10_n_hinge_right xn xp m = xp + m)%Z.
Proof. exact crit_args_shape. Qed.
Print Assumptions C10_criterion_args.
(* for fixed k and n every criterion is increasing in the RSS, strictly, also through the clamp of make_score: among candidates with the
   same number of parameters the minimiser of the criterion is the RSS minimiser *)
Theorem C10_criterion_monotone : forall c k n, (0 < n)%Z ->
  (forall r1 r2, (0 < r1)%R -> (r1 <= r2)%R -> (crit_score c r1 k n <= crit_score c r2 k n)%R) /\
  (forall r1 r2, (0 < r1)%R -> (r1 < r2)%R -> (crit_score c r1 k n < crit_score c r2 k n)%R) /\
  (forall floor r1 r2, (0 < floor)%R -> (r1 <= r2)%R -> (make_score c floor r1 k n <= make_score c floor r2 k n)%R) /\
  (forall floor (l : list R) r, (0 < floor)%R -> In r l -> (forall x, In x l -> (r <= x)%R) ->
     forall x, In x l -> (make_score c floor r k n <= make_score c floor x k n)%R).
Proof.
  exact (fun c k n Hn => conj (fun r1 r2 => crit_mono c k n r1 r2 Hn) (conj (fun r1 r2 => crit_strict c k n r1 r2 Hn)
          (conj (fun floor r1 r2 => make_score_mono c floor k n r1 r2 Hn) (fun floor l r => make_score_argmin c floor k n l r Hn)))).
Qed.
Print Assumptions C10_criterion_monotone.
(* across different numbers of parameters the AICc correction is not monotone: it is negative as soon as k > n - 1 *)
Theorem C10_aicc_correction_negative : exists k n : Z, (0 < k)%Z /\ (0 < n)%Z /\ (aicc_poly 0 (IZR k) (IZR n) < 0)%R.
Proof. exact aicc_correction_negative. Qed.
Print Assumptions C10_aicc_correction_negative.

(* ---- non-vacuity of the extension ----------------------------------------------------------------------------------------------------- *)
Example C10_nonvacuous_topk : (0 < 2)%nat /\ (exists x, nth_error (kbest_rss_seq 2 (-1) ex_ccol) 1 = Some x /\ x == 9 - 5) /\
  NoDup [7%Z; 3%Z] /\ (length [7%Z; 3%Z] <= 2)%nat /\ kbest_hashes 2 ex_ccol 2 = [7%Z; 3%Z] /\ kbest_pred 2 ex_ccol 2 5%Z = [].
Proof.
  split; [repeat constructor|]. split; [eexists; split; vm_compute; reflexivity|]. split; [repeat constructor; cbn; intuition congruence|].
  split; [cbn; lia|]. split; vm_compute; reflexivity.
Qed.
Example C10_nonvacuous_kbest_order : kbest_sorted 1 [(Some 4%Z, [1]); (Some 2%Z, [1]); (Some 9%Z, [2])] = [(- (4), 9%Z); (- (1), 2%Z); (- (1), 4%Z)].
Proof. vm_compute. reflexivity. Qed.
Example C10_nonvacuous_ksplit : (0 < 2)%nat /\ keys_of (present ex_ccol) <> [] /\ length (ksplit_trials 2 ex_ccol) = 3%nat /\
  (exists s, ksplit_fit 2 (1 # 1000) [ex_ccol] = Some s /\ s == 4) /\ kinv (ksplit_init 2 ex_ccol) /\ (2 <= length (fst (ksplit_init 2 ex_ccol)))%nat /\
  map snd (ksplit_trials 2 ex_ccol) = [[0; 1; 2]; [0; 1; 0]; [0; 0; 0]]%nat.
Proof.
  split; [repeat constructor|]. split; [vm_compute; discriminate|]. split; [vm_compute; reflexivity|].
  split; [eexists; split; vm_compute; reflexivity|]. split; [apply ksplit_init_inv; repeat constructor|]. split; vm_compute; [lia | reflexivity].
Qed.
Example C10_nonvacuous_tree : tree_wf (match ex_tree with WTree n _ => n | _ => [] end) 4 = true /\
  group ex_tree [FNum 1; FMiss] = Some 2%Z /\ walk_from (match ex_tree with WTree n _ => n | _ => [] end) 4 [FNum 1; FMiss] = Some 2%Z /\
  tree_wf [mknode 0 0 0 0; mknode 0 0 0 1] 2 = true /\ tree_wf [mknode 0 0 2 (-1); mknode 0 0 0 (-1); mknode 0 0 0 0; mknode 0 0 0 1] 2 = false /\
  (0 <= 4)%Z /\ Z.even 4 = true /\ (4 + 1 < nlen (match ex_tree with WTree n _ => n | _ => [] end))%Z.
Proof. repeat split; vm_compute; try reflexivity; discriminate. Qed.
Example C10_nonvacuous_criterion : (0 < 10)%Z /\ (0 < 1)%R /\ (1 <= 2)%R /\ (1 < 2)%R /\ In 1%R [1%R; 2%R] /\
  src_c10_aic 3 10 5 2 = 36%Z /\ src_c10_bic 3 10 5 2 = 56%Z /\ src_c10_aicc 36 3 10 = 40%Z /\ src_c10_k_stump 3 = 7%Z /\
  src_c10_n_hinge_left 4 6 1 = 5%Z.
Proof. repeat split; try reflexivity; try lia; try lra. now left. Qed.

(* ======================================================================================================================================== *)
(* Extension 3: the greedy decision-tree FIT, dtree_wlearner_t::do_fit (model: C10_TreeFit_Defs, proofs: C10_TreeFit)                       *)
(*   dataset = list of rows [ds], residual vectors [res], sample list [ids] (row indices, repetitions kept); [adm n] = the candidates of a   *)
(*   stump fitted on n samples have a finite score (false only for AICc with n = k + 1); [tree_fit] runs the work queue with the fuel       *)
(*   [fit_fuel max_depth]; its result carries the trace: for pair k (entries 2k, 2k+1) the sample list and depth its stump was fitted on.    *)
(* ======================================================================================================================================== *)
From LN Require Import C10_TreeFit_Defs C10_TreeFit.

(* the stump fitted at a node returns the argmin whose score is the (proved optimal) stump_fit of C10_stump_optimal on the node's columns *)
Theorem C10_treefit_stump_is_stump_fit : forall no floor ds res nf ids,
  option_map sc_score (stump_best no floor ds res nf ids) = stump_fit no floor (tcols ds res nf ids).
Proof. exact stump_best_score. Qed.
Print Assumptions C10_treefit_stump_is_stump_fit.
(* ... its score is the clamped RSS of exactly the stump it stores (feature, mid-point threshold, two tables), a lower bound of the clamped
   RSS of EVERY stump on EVERY feature / threshold / pair of tables over the node's samples, and its tables are the mean residuals of the
   rows below / above the threshold *)
Theorem C10_treefit_stump_optimal : forall no floor adm ds res nf ids x, stump_node no floor adm ds res nf ids = Some x ->
  adm (Z.of_nat (length ids)) = true /\ (sc_f x < nf)%nat /\ In (sc_thr x) (thresholds (tcol ds res (sc_f x) ids)) /\
  sc_score x == clamp floor (rss_of no (stump_pred (sc_thr x) (sc_lo x) (sc_hi x)) (tcol ds res (sc_f x) ids)) /\
  (forall f thr lo hi, (f < nf)%nat -> In thr (thresholds (tcol ds res f ids)) ->
     sc_score x <= clamp floor (rss_of no (stump_pred thr lo hi) (tcol ds res f ids))) /\
  (exists n p, Permutation (present (tcol ds res (sc_f x) ids)) (n ++ p) /\ n <> [] /\ p <> [] /\
               Forall (fun e => fst e < sc_thr x) n /\ Forall (fun e => sc_thr x < fst e) p /\
               sc_lo x = tab no (fun o => mean_of (mom_of1 (proj o n))) /\
               (forall o, (o < no)%nat -> rget o (sc_hi x) == mean_of (mom_of1 (proj o p)))).
Proof. exact stump_node_optimal. Qed.
Print Assumptions C10_treefit_stump_optimal.

(* (1) every fitted node table is well formed: C10_tree_walk / C10_tree_compose / C10_tree_bfs_is_walk apply to every fitted tree *)
Theorem C10_treefit_wf : forall no floor adm ds res nf max_depth min_split ids nodes tables score tr,
  tree_fit no floor adm ds res nf max_depth min_split ids = FitOK nodes tables score tr ->
  tree_wf nodes (Z.of_nat (length tables)) = true.
Proof. exact treefit_wf. Qed.
Print Assumptions C10_treefit_wf.

(* (2) greedy optimality: two entries per recorded sample list; the first list is the fit list at depth 0; every pair carries feature and
   threshold of the stump fitted (same criterion) on ITS recorded list ([greedy_pair]); a terminal pair (translated test on the size of the
   list, the minimum node size from the number of ROWS, the depth) stores that stump's two tables; the two entries of a split pair point
   forward to pairs whose lists are exactly cluster.indices(side) of the parent's list -- increasing row indices WITHOUT repetitions, one
   level deeper; every pair but the first is the child of exactly such an entry; and every sample recorded at a pair REACHES it: its walk from
   the root is its walk from that pair (so the recorded samples are samples of the fit list whose path goes through the pair) *)
Theorem C10_treefit_greedy : forall no floor adm ds res nf max_depth min_split ids nodes tables score tr,
  tree_fit no floor adm ds res nf max_depth min_split ids = FitOK nodes tables score tr ->
  let min_size := src_c10_min_samples (Z.of_nat (length ds)) min_split in
  nlen nodes = (2 * Z.of_nat (length tr))%Z /\ (exists sfx, tr = (ids, 0%Z) :: sfx) /\
  (forall k, (k < length tr)%nat -> greedy_pair no floor adm ds res nf max_depth min_size nodes tables tr k) /\
  (forall k, (0 < k < length tr)%nat -> exists j g, (j < k)%nat /\ (g = 0 \/ g = 1)%Z /\
      term_of max_depth min_size (tr_at tr j) = false /\ n_next (znth (zk j + g) nodes node0) = zk k) /\
  (forall k, (k < length tr)%nat -> forall i, In i (fst (tr_at tr k)) ->
      In i ids /\ walk_from nodes 0 (nth i ds []) = walk_from nodes (zk k) (nth i ds [])).
Proof. exact treefit_greedy. Qed.
Print Assumptions C10_treefit_greedy.
(* the children's lists, spelled out *)
Theorem C10_treefit_child_ids : forall ds f thr g ids i, In i (child_ids ds f thr g ids) <->
  In i ids /\ (i < length ds)%nat /\ exists v, fget f (nth i ds []) = FNum v /\ side_of v thr = g.
Proof. exact in_child_ids. Qed.
Print Assumptions C10_treefit_child_ids.

(* (4) the root of ANY fitted tree is the stump fit of the whole sample list; when the root is terminal (max_depth = 1, or fewer samples
   than the minimum node size) the tree IS that stump: two entries, the stump's tables, the stump's score *)
Theorem C10_treefit_root : forall no floor adm ds res nf max_depth min_split ids nodes tables score tr,
  tree_fit no floor adm ds res nf max_depth min_split ids = FitOK nodes tables score tr ->
  exists x, stump_node no floor adm ds res nf ids = Some x /\
            n_feature (znth 0%Z nodes node0) = sc_f x /\ n_thr (znth 0%Z nodes node0) = sc_thr x /\
            (src_c10_tree_terminal_fit (Z.of_nat (length ids)) (src_c10_min_samples (Z.of_nat (length ds)) min_split) 0 max_depth = true ->
             nodes = [mknode (sc_f x) (sc_thr x) 0 0; mknode (sc_f x) (sc_thr x) 0 1] /\ tables = [sc_lo x; sc_hi x] /\ score == sc_score x).
Proof. exact treefit_root. Qed.
Print Assumptions C10_treefit_root.

(* (3) the returned score is the sum over the TERMINAL pairs of their stump scores, and that is the sum over the terminal pairs of the
   clamped RSS of the TREE's own predictions (walk from the root; a sample without a leaf is predicted zero) on the samples recorded for the
   pair. Samples of the fit list that are recorded at no terminal pair -- dropped at a split pair because they miss its feature, or the
   repetitions of a bootstrap list below the root -- do not enter the score ... *)
Theorem C10_treefit_score : forall no floor adm ds res nf max_depth min_split ids nodes tables score tr,
  tree_fit no floor adm ds res nf max_depth min_split ids = FitOK nodes tables score tr ->
  let min_size := src_c10_min_samples (Z.of_nat (length ds)) min_split in
  score == leaf_sum no floor adm ds res nf max_depth min_size tr /\
  score == leaf_rss_sum no floor ds res max_depth min_size nodes tables tr.
Proof. exact treefit_score. Qed.
Print Assumptions C10_treefit_score.
(* ... so "the predictions reproduce the score" is FALSE for trees deeper than 1 (observation F7; the property states that clause for
   stump ... dstep only): 5 rows, the fifth misses the only feature and is dropped at the root; score 2/1000, RSS of the predictions 100 *)
Theorem C10_treefit_score_omits_dropped_refuted : exists nodes tables score tr,
  tree_fit 1 (1 # 1000) (fun _ => true) f7_ds f7_res 1 2 1 f7_ids = FitOK nodes tables score tr /\
  length nodes = 6%nat /\ walk_from nodes 0 [FMiss] = None /\
  score == 2 # 1000 /\ tree_rss 1 f7_ds f7_res nodes tables f7_ids == 100.
Proof. exact treefit_score_omits_dropped. Qed.
Print Assumptions C10_treefit_score_omits_dropped_refuted.

(* (5) the fuel of the model always suffices; at most 2^max_depth - 1 stumps are fitted and the table has at most 2^(max_depth+1) - 2 entries *)
Theorem C10_treefit_terminates : forall no floor adm ds res nf max_depth min_split ids,
  tree_fit no floor adm ds res nf max_depth min_split ids <> FitFuel /\
  forall nodes tables score tr, tree_fit no floor adm ds res nf max_depth min_split ids = FitOK nodes tables score tr ->
    (length nodes <= 2 ^ (Z.to_nat (Z.max 1 max_depth) + 1) - 2)%nat /\ (length tr <= 2 ^ Z.to_nat (Z.max 1 max_depth) - 1)%nat.
Proof. exact treefit_terminates. Qed.
Print Assumptions C10_treefit_terminates.

(* no_fit_score propagates: as soon as ANY queued sample list has no stump (no feature with two distinct values, or a non-finite criterion)
   the whole fit fails, whatever was fitted before; in particular when the fit list itself has no stump *)
Theorem C10_treefit_nofit : forall no floor adm ds res nf max_depth min_split,
  (forall fuel q nodes tables score tr, (exists c, In c q /\ stump_node no floor adm ds res nf (tc_ids c) = None) ->
     forall n t s r, fit_loop no floor adm ds res nf max_depth (src_c10_min_samples (Z.of_nat (length ds)) min_split)
                              fuel q nodes tables score tr <> FitOK n t s r) /\
  (forall ids, stump_node no floor adm ds res nf ids = None -> tree_fit no floor adm ds res nf max_depth min_split ids = FitNone [(ids, 0%Z)]).
Proof.
  exact (fun no floor adm ds res nf max_depth min_split =>
           conj (loop_nofit_propagates no floor adm ds res nf max_depth min_split)
                (fun ids => treefit_nofit_root no floor adm ds res nf max_depth min_split ids)).
Qed.
Print Assumptions C10_treefit_nofit.

(* the integer expressions of do_fit, translated on every run: parent test, link, child depth / parent entry, leaf table index, terminal
   test (sample count of the LIST against the minimum node size, depth), minimum node size from the number of ROWS of the dataset *)
Theorem C10_treefit_kernels :
  (forall p n, src_c10_tree_has_parent p n = (p <? n)%Z) /\ (forall n, src_c10_tree_link n = n) /\
  (forall d, src_c10_tree_child_depth d = (d + 1)%Z) /\ (forall n, src_c10_tree_child_parent n = n) /\
  (forall t, src_c10_tree_leaf_table t = t) /\
  (forall size ms d md, src_c10_tree_terminal_fit size ms d md = ((size <? ms) || (md <=? d + 1))%Z) /\
  (forall rows ms, src_c10_min_samples rows ms = Z.min 10 (Z.quot (rows * ms) 100)).
Proof. exact treefit_kernels. Qed.
Print Assumptions C10_treefit_kernels.

(* ---- non-vacuity of extension 3 ---------------------------------------------------------------------------------------------------------- *)
Example C10_nonvacuous_treefit : exists nodes tables score tr,
  tree_fit 1 (1 # 1000) (fun _ => true) f7_ds f7_res 1 2 1 f7_ids = FitOK nodes tables score tr /\
  map n_next nodes = [2; 4; 0; 0; 0; 0]%Z /\ map n_table nodes = [-1; -1; 0; 1; 2; 3]%Z /\ map fst tr = [[0; 1; 2; 3; 4]; [0; 1]; [2; 3]]%nat /\
  tree_wf nodes 4 = true /\ (exists x, stump_node 1 (1 # 1000) (fun _ => true) f7_ds f7_res 1 f7_ids = Some x /\ sc_thr x == 3 # 2) /\
  child_ids f7_ds 0 (3 # 2) 1 [3; 2; 3; 4]%nat = [2; 3]%nat.
Proof.
  eexists _, _, _, _. split; [vm_compute; reflexivity|]. repeat split; try (vm_compute; reflexivity).
  eexists. split; vm_compute; reflexivity.
Qed.
Example C10_nonvacuous_treefit_depth1 : exists nodes tables score tr,
  tree_fit 1 (1 # 1000) (fun _ => true) f7_ds f7_res 1 1 1 f7_ids = FitOK nodes tables score tr /\ length nodes = 2%nat /\
  src_c10_tree_terminal_fit 5 (src_c10_min_samples 5 1) 0 1 = true.
Proof. eexists _, _, _, _. split; [vm_compute; reflexivity|]. split; reflexivity. Qed.
Example C10_nonvacuous_treefit_nofit :
  tree_fit 1 (1 # 1000) (fun _ => true) f7_ds f7_res 1 3 1 f7_ids = FitNone [(f7_ids, 0%Z); ([0; 1]%nat, 1%Z); ([2; 3]%nat, 1%Z); ([0]%nat, 2%Z)] /\
  stump_node 1 (1 # 1000) (fun _ => true) f7_ds f7_res 1 [0%nat] = None /\
  stump_node 1 (1 # 1000) (fun n => negb (n =? 4)%Z) f7_ds f7_res 1 [0; 1; 2; 3]%nat = None /\
  tree_fit 1 (1 # 1000) (fun _ => true) f7_ds f7_res 1 3 1 f7_ids <> FitFuel.
Proof. repeat split; try (vm_compute; reflexivity). vm_compute. discriminate. Qed.
