(* C10 -- Weak learners fit residuals optimally in their class and predict consistently.
   Only statements + `exact` + Print Assumptions live here. Model: C10_Defs (exact rationals; the integer expressions come
   from src/wlearner/{util,table,dtree}.cpp and src/dataset/iterator.cpp on every run), proofs: C10_Proofs.
   A column [c : col K] is one feature gathered over the selected samples (repetitions included): (Some value | None = missing,
   residual vector); [rss_of no pred c] is the brute-force residual sum of squares of a predictor (zero on missing samples);
   [clamp floor] is make_score's std::max(rss, epsilon * 1e3); [thresholds c] are the mid-points of consecutive distinct sorted
   present values. *)
From Coq Require Import List ZArith QArith Bool Permutation.
From LNGen Require Import Src_c10.
From LN Require Import C10_Defs C10_Proofs.
Import ListNotations.
Local Open Scope Q_scope.

(* ---- least-squares lemmas ---------------------------------------------------------------------------------------------- *)
(* sum (r - c)^2 >= sum r^2 - (sum r)^2 / n for every constant c, with equality at the mean *)
Theorem C10_mean_minimises_rss : forall (l : list (Q * Q)) (c : Q), l <> [] ->
  ms frr l - ms fr l * ms fr l / ms f1 l <= ms (sqerr 0 c) l /\
  ms (sqerr 0 (ms fr l / ms f1 l)) l == ms frr l - ms fr l * ms fr l / ms f1 l.
Proof. exact mean_minimises_rss. Qed.
Print Assumptions C10_mean_minimises_rss.

(* least squares through the origin: sum (r - beta u)^2 >= sum r^2 - (sum r u)^2 / sum u^2 *)
Theorem C10_ls_origin : forall (l : list (Q * Q)) (beta : Q), 0 < ms fxx l ->
  ms frr l - ms frx l * ms frx l / ms fxx l <= ms (sqerr beta 0) l.
Proof. exact ls_origin. Qed.
Print Assumptions C10_ls_origin.

(* one-variable normal equations: the closed form of affine.cpp minimises the moment expression of the RSS, which is the sum of
   squared errors of the line *)
Theorem C10_affine_normal_equations :
  (forall m w b, 0 < m_x0 m -> 0 < adet m -> arss m (aw m) (ab m) <= arss m w b) /\
  (forall w b l, arss (mom_of1 l) w b == ms (sqerr w b) l) /\
  (forall l, 0 <= adet (mom_of1 l)).
Proof. exact (conj arss_min (conj arss_is_rss adet_nonneg)). Qed.
Print Assumptions C10_affine_normal_equations.

(* ---- the sweep ---------------------------------------------------------------------------------------------------------------- *)
(* the running accumulator of the sorted sweep holds, at every evaluated cut, exactly the moments of the entries before the cut *)
Theorem C10_running_moments : forall (B : Type) no (emit : Q -> vmom -> list B) l pre,
  sweep no emit (vmom_of no pre) l = flat_map (fun c => emit (fst (fst c)) (vmom_of no (snd (fst c)))) (cuts pre l).
Proof. exact @sweep_cuts. Qed.
Print Assumptions C10_running_moments.

(* ---- optimality ------------------------------------------------------------------------------------------------------------------ *)
Theorem C10_stump_optimal : forall no floor (cs : list (col Q)),
  match stump_fit no floor cs with
  | Some s =>
      (exists c thr lo hi, In c cs /\ In thr (thresholds c) /\ s == clamp floor (rss_of no (stump_pred thr lo hi) c)) /\
      (forall c thr lo hi, In c cs -> In thr (thresholds c) -> s <= clamp floor (rss_of no (stump_pred thr lo hi) c))
  | None => forall c, In c cs -> thresholds c = []
  end.
Proof. exact stump_fit_optimal. Qed.
Print Assumptions C10_stump_optimal.

Theorem C10_hinge_optimal : forall no floor (cs : list (col Q)),
  match hinge_fit no floor cs with
  | Some s =>
      (exists c thr dir beta, In c cs /\ In thr (thresholds c) /\ s == clamp floor (rss_of no (hinge_pred no thr dir beta) c)) /\
      (forall c thr dir beta, In c cs -> In thr (thresholds c) -> s <= clamp floor (rss_of no (hinge_pred no thr dir beta) c))
  | None => forall c, In c cs -> thresholds c = []
  end.
Proof. exact hinge_fit_optimal. Qed.
Print Assumptions C10_hinge_optimal.

Theorem C10_affine_optimal : forall no floor (cs : list (col Q)),
  match affine_fit no floor cs with
  | Some s =>
      (exists c w b, In c cs /\ affine_ok no c /\ s == clamp floor (rss_of no (affine_pred no w b) c)) /\
      (forall c w b, In c cs -> affine_ok no c -> s <= clamp floor (rss_of no (affine_pred no w b) c))
  | None => forall c, In c cs -> ~ affine_ok no c
  end.
Proof. exact affine_fit_optimal. Qed.
Print Assumptions C10_affine_optimal.

(* a feature is left out of the affine fit only if its present values are all equal (equality case of Cauchy-Schwarz) *)
Theorem C10_affine_degenerate : forall l : list (Q * Q),
  ms fxx l * ms f1 l - ms fx l * ms fx l == 0 -> forall a b, In a l -> In b l -> fst a == fst b.
Proof. exact det_zero_const. Qed.
Print Assumptions C10_affine_degenerate.

(* the thresholds tried by the stump and hinge sweeps are exactly the mid-points of two present values without a present value
   strictly in between (compared as rationals) *)
Theorem C10_thresholds_are_midpoints : forall (c : col Q),
  (forall t, In t (thresholds c) ->
     exists a b, In a (map fst (present c)) /\ In b (map fst (present c)) /\ a < b /\ t = (1 # 2) * (a + b) /\
                 forall x, In x (map fst (present c)) -> x <= a \/ b <= x) /\
  (forall a b, In a (map fst (present c)) -> In b (map fst (present c)) -> a < b ->
     (forall x, In x (map fst (present c)) -> x <= a \/ b <= x) -> exists t, In t (thresholds c) /\ t == (1 # 2) * (a + b)).
Proof. exact (fun c => conj (thresholds_sound c) (thresholds_complete c)). Qed.
Print Assumptions C10_thresholds_are_midpoints.

(* dense table: minimum over all features and ALL tables (any vector for any label set) *)
Theorem C10_dense_optimal : forall no floor (cs : list (col Z)),
  match dense_fit no floor cs with
  | Some s => (exists c T, In c cs /\ s == clamp floor (rss_of no T c)) /\
              (forall c T, In c cs -> s <= clamp floor (rss_of no T c))
  | None => cs = []
  end.
Proof. exact dense_fit_optimal. Qed.
Print Assumptions C10_dense_optimal.

(* k-best table. Full statement (NOT proved): for every k, the k-th partial sum of the gain sweep is the minimum RSS over the tables
   supported on at most k label sets (top-k gains). *)
Definition C10_kbest_topk_full_statement : Prop :=
  forall no (c : col Z) (k : nat) x (keys : list Z) (T : Z -> list Q), (0 < no)%nat ->
    nth_error (kbest_rss_seq no (-1) c) k = Some x -> NoDup keys -> (length keys <= S k)%nat ->
    (forall key, ~ In key keys -> T key = []) -> x <= rss_of no T c.
(* proved: with the RSS criterion the fit takes the minimum over k, which is the dense optimum over the features that have at
   least one present value (the partial sums decrease to it) ... *)
Theorem C10_kbest_optimal_partial : forall no floor maxk (cs : list (col Z)), (0 < no)%nat -> (maxk < 1)%Z ->
  match kbest_fit no floor maxk cs with
  | Some s => (exists c T, In c cs /\ keys_of (present c) <> [] /\ s == clamp floor (rss_of no T c)) /\
              (forall c T, In c cs -> keys_of (present c) <> [] -> s <= clamp floor (rss_of no T c))
  | None => forall c, In c cs -> keys_of (present c) = []
  end.
Proof. exact kbest_fit_optimal. Qed.
Print Assumptions C10_kbest_optimal_partial.
(* ... and k = 1 (the discrete-step table): minimum over the tables that predict one vector for one label set and zero elsewhere *)
Theorem C10_dstep_optimal : forall no floor (cs : list (col Z)), (0 < no)%nat ->
  match kbest_fit no floor 1 cs with
  | Some s => (exists c k0 t, In c cs /\ keys_of (present c) <> [] /\ s == clamp floor (rss_of no (single k0 t) c)) /\
              (forall c k0 t, In c cs -> keys_of (present c) <> [] -> s <= clamp floor (rss_of no (single k0 t) c))
  | None => forall c, In c cs -> keys_of (present c) = []
  end.
Proof. exact dstep_fit_optimal. Qed.
Print Assumptions C10_dstep_optimal.

(* per-thread caches + min_reduce: whatever the concurrency (chunk size from select_iterator_t), the reduced score is the minimum
   of all candidates *)
Theorem C10_chunks_irrelevant : forall concurrency (percol : list (list Q)),
  match fit_chunked concurrency percol, best_of (concat percol) with
  | Some a, Some b => a == b
  | None, None => True
  | _, _ => False
  end.
Proof. exact fit_chunked_spec. Qed.
Print Assumptions C10_chunks_irrelevant.

(* ---- consistency of the fitted learners (all kinds, incl. k-best / k-split tables and trees) ------------------------------------ *)
Theorem C10_predict_additive : forall no w s out o, (o < no)%nat ->
  rget o (predict no w s out) == rget o out + rget o (predict no w s (zeros no)).
Proof. exact predict_additive. Qed.
Print Assumptions C10_predict_additive.

Theorem C10_missing_zero : forall no w s out,
  (group w s = None -> predict no w s out = out) /\
  (forall f, feature_of w = Some f -> fget f s = FMiss -> group w s = None).
Proof. exact missing_zero. Qed.
Print Assumptions C10_missing_zero.

Theorem C10_split_table : forall no w s g, group w s = Some g ->
  if table_like w then incr no w s = Some (znth g (tables_of w) [])
  else g = 0%Z /\ exists f x, feature_of w = Some f /\ fget f s = FNum x /\
                              incr no w s = Some (affine_pred no (znth 0%Z (tables_of w) []) (znth 1%Z (tables_of w) []) x).
Proof. exact split_table. Qed.
Print Assumptions C10_split_table.

Theorem C10_scale : forall no sc w s o, (o < no)%nat -> (table_like w = false -> sfac sc 0 == sfac sc 1) ->
  group (scale sc w) s = group w s /\
  rget o (predict no (scale sc w) s (zeros no))
  == (match group w s with Some g => sfac sc g | None => 1 end) * rget o (predict no w s (zeros no)).
Proof. exact scale_spec. Qed.
Print Assumptions C10_scale.
(* the factor: one scale for all groups, or the scale of the group *)
Theorem C10_scale_factor :
  (forall k i, (0 <= i)%Z -> sfac [k] i = k) /\
  (forall sc i, (0 <= i < Z.of_nat (length sc))%Z -> sfac sc i = znth i sc 0).
Proof. exact (conj sfac_single sfac_own). Qed.
Print Assumptions C10_scale_factor.

Theorem C10_merge_sum : forall no ws s out o, (o < no)%nat ->
  rget o (predict_all no (merge ws) s out) == rget o (predict_all no ws s out).
Proof. exact merge_sum. Qed.
Print Assumptions C10_merge_sum.

Theorem C10_tree_depth1_is_stump : forall no f thr lo hi s out,
  (forall size minsize, src_c10_tree_terminal_fit size minsize 0 1 = true) /\
  group (tree_of_stump f thr lo hi) s = group (WStump f thr lo hi) s /\
  predict no (tree_of_stump f thr lo hi) s out = predict no (WStump f thr lo hi) s out.
Proof. exact tree_depth1_is_stump. Qed.
Print Assumptions C10_tree_depth1_is_stump.

(* ---- non-vacuity ------------------------------------------------------------------------------------------------------------------ *)
Definition ex_col : col Q := [(Some 0, [1]); (Some 1, [2]); (Some 2, [4]); (None, [1]); (Some 1, [3])].
Example C10_nonvacuous_thresholds : thresholds ex_col = [(1 # 2) * (0 + 1); (1 # 2) * (1 + 2)].
Proof. vm_compute. reflexivity. Qed.
Example C10_nonvacuous_stump : exists s, stump_fit 1 (1 # 1000) [ex_col] = Some s /\ s == 3.
Proof. eexists. split; [vm_compute; reflexivity | vm_compute; reflexivity]. Qed.
Example C10_nonvacuous_hinge : exists s, hinge_fit 1 (1 # 1000) [ex_col] = Some s /\ s == 52 # 11.
Proof. eexists. split; [vm_compute; reflexivity | vm_compute; reflexivity]. Qed.
Example C10_nonvacuous_affine : exists s, affine_fit 1 (1 # 1000) [ex_col] = Some s /\ affine_ok 1 ex_col /\ s == 3 # 2.
Proof. eexists. split; [vm_compute; reflexivity | split; [vm_compute; discriminate | vm_compute; reflexivity]]. Qed.
Example C10_nonvacuous_mean : [(0, 1); (0, 3)] <> [] /\ ms frr [(0, 1); (0, 3)] - ms fr [(0, 1); (0, 3)] * ms fr [(0, 1); (0, 3)] / ms f1 [(0, 1); (0, 3)] == 2.
Proof. split; [discriminate | vm_compute; reflexivity]. Qed.
Example C10_nonvacuous_ls_origin : 0 < ms fxx [(1, 1); (2, 3)] /\ ms frr [(1, 1); (2, 3)] - ms frx [(1, 1); (2, 3)] * ms frx [(1, 1); (2, 3)] / ms fxx [(1, 1); (2, 3)] == 1 # 5.
Proof. split; vm_compute; reflexivity. Qed.
Example C10_nonvacuous_normal_equations : 0 < m_x0 (mom_of1 [(0, 1); (1, 2); (2, 4)]) /\ 0 < adet (mom_of1 [(0, 1); (1, 2); (2, 4)]).
Proof. split; vm_compute; reflexivity. Qed.
Example C10_nonvacuous_degenerate : ms fxx [(2, 1); (2, 5)] * ms f1 [(2, 1); (2, 5)] - ms fx [(2, 1); (2, 5)] * ms fx [(2, 1); (2, 5)] == 0.
Proof. vm_compute. reflexivity. Qed.
Example C10_nonvacuous_running : cuts [] [(0, [1]); (1, [2]); (1, [3]); (2, [4])] <> [] /\ length (cuts [] [(0, [1]); (1, [2]); (1, [3]); (2, [4])]) = 2%nat.
Proof. split; [vm_compute; discriminate | vm_compute; reflexivity]. Qed.
(* categorical column: label sets 7, 3, 7, missing, 5 with two outputs *)
Definition ex_ccol : col Z := [(Some 7%Z, [1; 0]); (Some 3%Z, [2; 1]); (Some 7%Z, [3; 0]); (None, [1; 1]); (Some 5%Z, [0; 0])].
Example C10_nonvacuous_dense : exists s, dense_fit 2 (1 # 1000) [ex_ccol] = Some s /\ s == 4.
Proof. eexists. split; [vm_compute; reflexivity | vm_compute; reflexivity]. Qed.
Example C10_nonvacuous_kbest : (0 < 2)%nat /\ (-1 < 1)%Z /\ keys_of (present ex_ccol) = [3%Z; 5%Z; 7%Z] /\
  exists s, kbest_fit 2 (1 # 1000) (-1) [ex_ccol] = Some s /\ s == 4 /\ length (kbest_rss_seq 2 (-1) ex_ccol) = 3%nat.
Proof.
  split; [repeat constructor|]. split; [reflexivity|]. split; [vm_compute; reflexivity|].
  eexists. split; [vm_compute; reflexivity | split; vm_compute; reflexivity].
Qed.
Example C10_nonvacuous_dstep : exists s, kbest_fit 2 (1 # 1000) 1 [ex_ccol] = Some s /\ s == 9.
Proof. eexists. split; [vm_compute; reflexivity | vm_compute; reflexivity]. Qed.
Example C10_nonvacuous_chunks : exists a, fit_chunked 2 [[3]; [1; 2]; []; [1]; [5]] = Some a /\ a == 1 /\
  src_c10_features_per_thread 5 2 = 3%Z.
Proof. eexists. split; [vm_compute; reflexivity | split; vm_compute; reflexivity]. Qed.
(* learners: a k-best table whose hashes are stored in gain order, a tree of depth 2, an affine learner *)
Definition ex_table : wl := WTable 1 [3%Z; 9%Z] [0%Z; 1%Z] [[1; 2]; [3; 4]].
Definition ex_tree : wl :=
  WTree [mknode 0 (1 # 2) 2 (-1); mknode 0 (1 # 2) 4 (-1); mknode 0 (-1) 0 0; mknode 0 (-1) 0 1; mknode 0 2 0 2; mknode 0 2 0 3]
        [[1]; [2]; [3]; [4]].
Definition ex_sample : sample := [FNum 1; FCls 9%Z].
Example C10_nonvacuous_predict : group ex_table ex_sample = Some 1%Z /\ predict 2 ex_table ex_sample [10; 20] = [10 + 3; 20 + 4] /\
  group ex_tree ex_sample = Some 2%Z /\ group ex_tree [FNum 5; FMiss] = Some 3%Z /\ group ex_tree [FNum (-3); FMiss] = Some 0%Z.
Proof. repeat split; vm_compute; reflexivity. Qed.
Example C10_nonvacuous_missing : feature_of ex_table = Some 1%nat /\ fget 1 [FNum 1; FMiss] = FMiss /\ group ex_tree [FMiss; FMiss] = None.
Proof. repeat split; vm_compute; reflexivity. Qed.
Example C10_nonvacuous_split : table_like ex_table = true /\ table_like (WAffine 0 [2] [1]) = false /\
  group (WAffine 0 [2] [1]) ex_sample = Some 0%Z /\ group (WHinge 0 3 true [2] [1]) ex_sample = Some 0%Z /\
  group (WHinge 0 3 false [2] [1]) ex_sample = None.
Proof. repeat split; vm_compute; reflexivity. Qed.
Example C10_nonvacuous_scale : sfac [2] 0 == sfac [2] 1 /\ sfac [2; 3] 1 = 3 /\
  rget 0 (predict 1 (scale [2] (WAffine 0 [2] [1])) ex_sample (zeros 1)) == 6 /\
  predict 2 (scale [2; 5] ex_table) ex_sample (zeros 2) = [0 + 3 * 5; 0 + 4 * 5].
Proof. repeat split; vm_compute; reflexivity. Qed.
(* merge: the first two affine learners merge, the stump stops the outer loop, the two tables behind it stay apart *)
Definition ex_list : list wl := [WAffine 0 [2] [1]; WAffine 0 [1] [1]; WStump 0 0 [1] [2]; ex_table; ex_table].
Example C10_nonvacuous_merge : length (merge ex_list) = 4%nat /\ length (merge [ex_table; WStump 0 0 [1] [2]; ex_table]) = 2%nat /\
  length (merge [WStump 0 0 [1] [2]; ex_table; ex_table]) = 3%nat.
Proof. repeat split; vm_compute; reflexivity. Qed.
Example C10_nonvacuous_depth1 : group (tree_of_stump 0 (1 # 2) [1] [2]) ex_sample = Some 1%Z /\
  src_c10_tree_terminal_fit 60 3 0 1 = true /\ src_c10_tree_terminal_fit 60 3 0 2 = false.
Proof. repeat split; vm_compute; reflexivity. Qed.
