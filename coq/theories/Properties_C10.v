(* C10 -- Weak learners fit residuals optimally in their class and predict consistently.
   Only statements + `exact` + Print Assumptions live here. Model: C10_Defs (exact rationals; the integer expressions come
   from src/wlearner/{util,table,dtree}.cpp and src/dataset/iterator.cpp on every run), proofs: C10_Proofs.
   A column [c : col K] is one feature gathered over the selected samples (repetitions included): (Some value | None = missing,
   residual vector); [rss_of no pred c] is the brute-force residual sum of squares of a predictor (zero on missing samples);
   [clamp floor] is make_score's std::max(rss, epsilon * 1e3); [thresholds c] are the mid-points of consecutive distinct sorted
   present values. *)
From Coq Require Import List ZArith QArith Bool Permutation.
From LN Require Import C10_Defs C10_Proofs.
Import ListNotations.
Local Open Scope Q_scope.

(* ---- least-squares lemmas ---------------------------------------------------------------------------------------------- *)
(* sum (r - c)^2 >= sum r^2 - (sum r)^2 / n for every constant c, with equality at the mean *)
Theorem C10_mean_minimises_rss : forall (l : list (Q * Q)) (c : Q), l <> [] ->
  ms frr l - ms fr l * ms fr l / ms f1 l <= ms (sqerr 0 c) l /\
  ms (sqerr 0 (ms fr l / ms f1 l)) l == ms frr l - ms fr l * ms fr l / ms f1 l.
Proof. exact mean_minimises_rss. Qed.
Print Assumptions C10_mean_minimises_rss.

(* least squares through the origin: sum (r - beta u)^2 >= sum r^2 - (sum r u)^2 / sum u^2 *)
Theorem C10_ls_origin : forall (l : list (Q * Q)) (beta : Q), 0 < ms fxx l ->
  ms frr l - ms frx l * ms frx l / ms fxx l <= ms (sqerr beta 0) l.
Proof. exact ls_origin. Qed.
Print Assumptions C10_ls_origin.

(* one-variable normal equations: the closed form of affine.cpp minimises the moment expression of the RSS, which is the sum of
   squared errors of the line *)
Theorem C10_affine_normal_equations :
  (forall m w b, 0 < m_x0 m -> 0 < adet m -> arss m (aw m) (ab m) <= arss m w b) /\
  (forall w b l, arss (mom_of1 l) w b == ms (sqerr w b) l) /\
  (forall l, 0 <= adet (mom_of1 l)).
Proof. exact (conj arss_min (conj arss_is_rss adet_nonneg)). Qed.
Print Assumptions C10_affine_normal_equations.

(* ---- the sweep ---------------------------------------------------------------------------------------------------------------- *)
(* the running accumulator of the sorted sweep holds, at every evaluated cut, exactly the moments of the entries before the cut *)
Theorem C10_running_moments : forall (B : Type) no (emit : Q -> vmom -> list B) l pre,
  sweep no emit (vmom_of no pre) l = flat_map (fun c => emit (fst (fst c)) (vmom_of no (snd (fst c)))) (cuts pre l).
Proof. exact @sweep_cuts. Qed.
Print Assumptions C10_running_moments.

(* ---- optimality ------------------------------------------------------------------------------------------------------------------ *)
Theorem C10_stump_optimal : forall no floor (cs : list (col Q)),
  match stump_fit no floor cs with
  | Some s =>
      (exists c thr lo hi, In c cs /\ In thr (thresholds c) /\ s == clamp floor (rss_of no (stump_pred thr lo hi) c)) /\
      (forall c thr lo hi, In c cs -> In thr (thresholds c) -> s <= clamp floor (rss_of no (stump_pred thr lo hi) c))
  | None => forall c, In c cs -> thresholds c = []
  end.
Proof. exact stump_fit_optimal. Qed.
Print Assumptions C10_stump_optimal.

Theorem C10_hinge_optimal : forall no floor (cs : list (col Q)),
  match hinge_fit no floor cs with
  | Some s =>
      (exists c thr dir beta, In c cs /\ In thr (thresholds c) /\ s == clamp floor (rss_of no (hinge_pred no thr dir beta) c)) /\
      (forall c thr dir beta, In c cs -> In thr (thresholds c) -> s <= clamp floor (rss_of no (hinge_pred no thr dir beta) c))
  | None => forall c, In c cs -> thresholds c = []
  end.
Proof. exact hinge_fit_optimal. Qed.
Print Assumptions C10_hinge_optimal.

Theorem C10_affine_optimal : forall no floor (cs : list (col Q)),
  match affine_fit no floor cs with
  | Some s =>
      (exists c w b, In c cs /\ affine_ok no c /\ s == clamp floor (rss_of no (affine_pred no w b) c)) /\
      (forall c w b, In c cs -> affine_ok no c -> s <= clamp floor (rss_of no (affine_pred no w b) c))
  | None => forall c, In c cs -> ~ affine_ok no c
  end.
Proof. exact affine_fit_optimal. Qed.
Print Assumptions C10_affine_optimal.

(* ---- non-vacuity ------------------------------------------------------------------------------------------------------------------ *)
Definition ex_col : col Q := [(Some 0, [1]); (Some 1, [2]); (Some 2, [4]); (None, [1]); (Some 1, [3])].
Example C10_nonvacuous_thresholds : thresholds ex_col = [(1 # 2) * (0 + 1); (1 # 2) * (1 + 2)].
Proof. vm_compute. reflexivity. Qed.
Example C10_nonvacuous_stump : exists s, stump_fit 1 (1 # 1000) [ex_col] = Some s /\ s == 3.
Proof. eexists. split; [vm_compute; reflexivity | vm_compute; reflexivity]. Qed.
Example C10_nonvacuous_hinge : exists s, hinge_fit 1 (1 # 1000) [ex_col] = Some s /\ s == 52 # 11.
Proof. eexists. split; [vm_compute; reflexivity | vm_compute; reflexivity]. Qed.
Example C10_nonvacuous_affine : exists s, affine_fit 1 (1 # 1000) [ex_col] = Some s /\ affine_ok 1 ex_col /\ s == 3 # 2.
Proof. eexists. split; [vm_compute; reflexivity | split; [vm_compute; discriminate | vm_compute; reflexivity]]. Qed.
Example C10_nonvacuous_mean : [(0, 1); (0, 3)] <> [] /\ ms frr [(0, 1); (0, 3)] - ms fr [(0, 1); (0, 3)] * ms fr [(0, 1); (0, 3)] / ms f1 [(0, 1); (0, 3)] == 2.
Proof. split; [discriminate | vm_compute; reflexivity]. Qed.
