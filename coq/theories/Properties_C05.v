(* C05 -- Penalty / augmented-Lagrangian functions match their definitions; `converged` of the augmented-Lagrangian
   solver implies feasibility. Only statements + `exact` + Print Assumptions live here.
   Model: C05_Defs (imports the decision kernels translated from src/function/penalty.cpp, src/function/constraint.cpp,
   src/solver/augmented.cpp and src/solver.cpp on every run). Arithmetic is over exact rationals. *)
From Coq Require Import List ZArith QArith Bool.
From LN Require Import C05_Defs C05_Proofs.
Import ListNotations.
Local Open Scope Q_scope.

(* ---- definitions -----------------------------------------------------------------------------------------
   [es] is the list of evaluated constraints (is_equality, value, gradient) in registration order, [f0] = (f(x),
   grad f(x)); [eqs]/[ineqs] select the equalities / inequalities. The loops of penalty.cpp return exactly
     f + rho sum|h_j| + rho sum max(0,g_i),   f + rho sum h_j^2 + rho sum max(0,g_i)^2,
     f + rho/2 sum (h_j + lambda_j/rho)^2 + rho/2 sum max(0, g_i + miu_i/rho)^2
   and every gradient component is the matching sum (sgn(0) = +1, pos(v) = [v > 0]: the sub-gradient the code picks). *)
Theorem C05_defs_linear : forall rho f0 es,
  fst (linear_penalty rho f0 es) ==
    fst f0 + rho * qsum (map (fun e => qabs (ce_val e)) (eqs es))
           + rho * qsum (map (fun e => qmax 0 (ce_val e)) (ineqs es)) /\
  (forall j, vnth (snd (linear_penalty rho f0 es)) j ==
    vnth (snd f0) j + rho * qsum (map (fun e => sgn (ce_val e) * vnth (ce_grad e) j) (eqs es))
                    + rho * qsum (map (fun e => pos (ce_val e) * vnth (ce_grad e) j) (ineqs es))).
Proof. exact defs_linear. Qed.
Print Assumptions C05_defs_linear.

Theorem C05_defs_quadratic : forall rho f0 es,
  fst (quadratic_penalty rho f0 es) ==
    fst f0 + rho * qsum (map (fun e => ce_val e * ce_val e) (eqs es))
           + rho * qsum (map (fun e => qmax 0 (ce_val e) * qmax 0 (ce_val e)) (ineqs es)) /\
  (forall j, vnth (snd (quadratic_penalty rho f0 es)) j ==
    vnth (snd f0) j + 2 * rho * qsum (map (fun e => ce_val e * vnth (ce_grad e) j) (eqs es))
                    + 2 * rho * qsum (map (fun e => qmax 0 (ce_val e) * vnth (ce_grad e) j) (ineqs es))).
Proof. exact defs_quadratic. Qed.
Print Assumptions C05_defs_quadratic.

(* [shifted rho (e, mu)] = value + mu / rho; the j-th equality is paired with lambda_j, the i-th inequality with
   miu_i although the loop walks the constraints interleaved with two counters *)
Theorem C05_defs_augmented : forall rho lambda miu f0 es,
  length lambda = length (eqs es) -> length miu = length (ineqs es) ->
  fst (augmented_lagrangian rho lambda miu f0 es) ==
    fst f0 + (1 # 2) * rho * qsum (map (fun p => shifted rho p * shifted rho p) (combine (eqs es) lambda))
           + (1 # 2) * rho * qsum (map (fun p => qmax 0 (shifted rho p) * qmax 0 (shifted rho p)) (combine (ineqs es) miu)) /\
  (forall j, vnth (snd (augmented_lagrangian rho lambda miu f0 es)) j ==
    vnth (snd f0) j + rho * qsum (map (fun p => shifted rho p * vnth (ce_grad (fst p)) j) (combine (eqs es) lambda))
                    + rho * qsum (map (fun p => qmax 0 (shifted rho p) * vnth (ce_grad (fst p)) j) (combine (ineqs es) miu))).
Proof. exact defs_augmented. Qed.
Print Assumptions C05_defs_augmented.

(* non-vacuity: a mix x0 = 1 violated inequality, 1 equality, 1 inactive inequality; the three values are
   f + the penalty terms (f = 10, rho = 2: 10 + 2*3 + 2*|−1| = 18; 10 + 2*9 + 2*1 = 30; AL with lambda = 2, miu = (4, 2):
   10 + (3+2)^2 + (−1+1)^2 + max(0,−5+1)^2 = 35) *)
Example C05_defs_nonvacuous :
  let es := [mkcev false 3 [1; 0]; mkcev true (-1) [0; 1]; mkcev false (-5) [1; 1]] in
  length [2] = length (eqs es) /\ length [4; 2] = length (ineqs es) /\
  fst (linear_penalty 2 (10, [0; 0]) es) == 18 /\ fst (quadratic_penalty 2 (10, [0; 0]) es) == 30 /\
  fst (augmented_lagrangian 2 [2] [4; 2] (10, [0; 0]) es) == 35 /\
  vnth (snd (augmented_lagrangian 2 [2] [4; 2] (10, [0; 0]) es)) 0 == 10 /\
  vnth (snd (augmented_lagrangian 2 [2] [4; 2] (10, [0; 0]) es)) 1 == 0.
Proof. vm_compute. repeat split. Qed.

(* ---- the gradient of every non-functional constraint kind is the derivative of its value --------------------
   exact expansion c(x + d) = c(x) + grad c(x).d + remainder(d) with remainder 0 (bounds, linear), |d|^2 (ball),
   1/2 d.Pd (quadratic, P symmetric as a bilinear form); bound kinds: the gradient is the signed unit vector *)
Theorem C05_grad_is_derivative : forall c x d, well_formed c (length x) -> length d = length x ->
  fst (cvgrad c (vadd x d)) == fst (cvgrad c x) + directional c x d + remainder c d.
Proof. exact grad_is_derivative. Qed.
Print Assumptions C05_grad_is_derivative.

Theorem C05_bound_gradients : forall v k x j,
  vnth (snd (cvgrad (CConstant v k) x)) j = (if (j <? length x)%nat && (j =? k)%nat then 1 else 0) /\
  vnth (snd (cvgrad (CMaximum v k) x)) j = (if (j <? length x)%nat && (j =? k)%nat then 1 else 0) /\
  vnth (snd (cvgrad (CMinimum v k) x)) j = (if (j <? length x)%nat && (j =? k)%nat then -1 else 0).
Proof. exact bound_gradients. Qed.
Print Assumptions C05_bound_gradients.

Example C05_grad_nonvacuous_ball : well_formed (CBallIneq [1; 2] 3) (length [0; 0]).
Proof. reflexivity. Qed.
Example C05_grad_nonvacuous_quad : well_formed (CQuadEq [[2; 1]; [1; 3]] [1; 1] 5) (length [0; 0]).
Proof.
  split; [|reflexivity]. intros u v Hu Hv.
  destruct u as [|a [|b [|]]]; try discriminate Hu. destruct v as [|c [|e [|]]]; try discriminate Hv.
  simpl. ring.
Qed.

(* ... and the coefficient every branch of the three loops adds to the gradient is the derivative of the value it
   adds, as a function of the constraint value t (then the chain rule with the theorem above): exact expansion for
   the squares, tangent <= phi <= tangent + k s^2 for k max(0,t)^2, sub-gradient + derivative away from the kink for
   k|t| and k max(0,t). [ty] with t + s <= ty: monotone composition with a convex constraint. *)
Theorem C05_penalty_term_derivative :
  (forall k t s, k * (t + s) * (t + s) == k * t * t + (2 * k * t) * s + k * s * s) /\
  (forall k t s ty, 0 <= k -> t + s <= ty ->
     k * qmax 0 t * qmax 0 t + (2 * k * qmax 0 t) * s <= k * qmax 0 ty * qmax 0 ty) /\
  (forall k t s, 0 <= k ->
     k * qmax 0 (t + s) * qmax 0 (t + s) <= k * qmax 0 t * qmax 0 t + (2 * k * qmax 0 t) * s + k * s * s) /\
  (forall k v s, 0 <= k -> k * qabs v + (k * sgn v) * s <= k * qabs (v + s)) /\
  (forall k v s, qabs s < qabs v -> k * qabs (v + s) == k * qabs v + (k * sgn v) * s) /\
  (forall k v s vy, 0 <= k -> v + s <= vy -> k * qmax 0 v + (k * pos v) * s <= k * qmax 0 vy) /\
  (forall k v s, qabs s < qabs v -> k * qmax 0 (v + s) == k * qmax 0 v + (k * pos v) * s).
Proof.
  exact (conj term_square (conj term_hinge_square (conj term_hinge_square_upper (conj term_abs_subgradient
        (conj term_abs_derivative (conj term_hinge_subgradient term_hinge_derivative)))))).
Qed.
Print Assumptions C05_penalty_term_derivative.

(* ---- feasible point, zero multipliers: the three functions coincide with the objective ---------------------- *)
Theorem C05_feasible_coincide : forall rho lambda miu f0 es,
  feasible es -> all_zero lambda -> all_zero miu ->
  fst (linear_penalty rho f0 es) == fst f0 /\
  fst (quadratic_penalty rho f0 es) == fst f0 /\
  fst (augmented_lagrangian rho lambda miu f0 es) == fst f0 /\
  (forall j, vnth (snd (quadratic_penalty rho f0 es)) j == vnth (snd f0) j) /\
  (forall j, vnth (snd (augmented_lagrangian rho lambda miu f0 es)) j == vnth (snd f0) j) /\
  (forall j, vnth (snd (linear_penalty rho f0 es)) j ==
             vnth (snd f0) j + rho * qsum (map (fun e => vnth (ce_grad e) j) (eqs es))).
Proof. exact feasible_coincide. Qed.
Print Assumptions C05_feasible_coincide.

(* the plain statement "gradient = objective's gradient" is false of the linear penalty (faithful model): at h = 0 the
   code adds +rho grad h (a valid sub-gradient of rho|h|, not zero) *)
Theorem C05_linear_feasible_grad_refuted :
  exists rho f0 es, feasible es /\ ~ (forall j, vnth (snd (linear_penalty rho f0 es)) j == vnth (snd f0) j).
Proof. exact linear_feasible_grad_refuted. Qed.
Print Assumptions C05_linear_feasible_grad_refuted.

Example C05_feasible_nonvacuous :
  feasible [mkcev true 0 [1]; mkcev false (-2) [1]; mkcev false 0 [3]] /\ all_zero [0] /\ all_zero [0; 0].
Proof. repeat constructor; try reflexivity; simpl; discriminate. Qed.

(* ---- the convex flag ------------------------------------------------------------------------------------------
   ::convex(function) is set iff the objective is flagged convex, every constraint is flagged convex and every
   equality is a linear equality (constant_t / linear_equality_t: affine by C05_grad_is_derivative with remainder 0).
   Under what the flags claim (objective convex between x and y = x + d; every inequality convex, every equality
   affine along d: [along]) the sub-gradient inequality P(y) >= P(x) + G(x).d holds for the three objects
   (rho >= 0, resp. rho > 0 for the augmented Lagrangian; any multipliers). *)
Theorem C05_convex_flag :
  (forall fconvex cos, pen_convex fconvex cos = true ->
     fconvex = true /\
     Forall (fun co => ct_convex co = true /\ (is_equality (fst co) = true -> is_linear_equality (fst co) = true)) cos) /\
  (forall rho n d fx fy esx esy,
     0 <= rho -> fst fx + dotn n (snd fx) d <= fst fy -> Forall2 (along n d) esx esy ->
     fst (linear_penalty rho fx esx) + dotn n (snd (linear_penalty rho fx esx)) d <= fst (linear_penalty rho fy esy)) /\
  (forall rho n d fx fy esx esy,
     0 <= rho -> fst fx + dotn n (snd fx) d <= fst fy -> Forall2 (along n d) esx esy ->
     fst (quadratic_penalty rho fx esx) + dotn n (snd (quadratic_penalty rho fx esx)) d <=
     fst (quadratic_penalty rho fy esy)) /\
  (forall rho lambda miu n d fx fy esx esy,
     0 < rho -> fst fx + dotn n (snd fx) d <= fst fy -> Forall2 (along n d) esx esy ->
     fst (augmented_lagrangian rho lambda miu fx esx) + dotn n (snd (augmented_lagrangian rho lambda miu fx esx)) d <=
     fst (augmented_lagrangian rho lambda miu fy esy)).
Proof. exact (conj pen_convex_spec (conj convex_linear (conj convex_quadratic convex_augmented))). Qed.
Print Assumptions C05_convex_flag.

(* non-vacuity: g(x) = x^2 - 1 (convex inequality) and h(x) = x - 2 (affine equality) at x = 0 and y = 3 (d = 3) *)
Example C05_convex_nonvacuous :
  Forall2 (along 1 [3]) [mkcev false (-1) [0]; mkcev true (-2) [1]] [mkcev false 8 [6]; mkcev true 1 [1]] /\
  pen_convex true [(CBallIneq [0] 1, false); (CConstant 2 0, false)] = true /\
  pen_convex true [(CBallEq [0] 1, true)] = false.
Proof.
  split; [|split; reflexivity].
  repeat constructor; simpl; unfold dotn; simpl; vm_compute; intro H; discriminate H.
Qed.

(* ---- solver_state_t::update_constraints -------------------------------------------------------------------------
   whatever m_ceq / m_cineq held before (stale values of another point), after the loop they are exactly the
   equality / inequality constraint values at x in registration order, and the counters end at their sizes *)
Theorem C05_state_constraints : forall cs x gx meq mineq ceq0 cineq0,
  length ceq0 = length (eq_cs cs) -> length cineq0 = length (ineq_cs cs) ->
  let s := update_constraints cs x gx meq mineq ceq0 cineq0 in
  uc_ceq s = map (fun c => fst (cvgrad c x)) (eq_cs cs) /\
  uc_cineq s = map (fun c => fst (cvgrad c x)) (ineq_cs cs) /\
  uc_ie s = length ceq0 /\ uc_ii s = length cineq0.
Proof. exact state_constraints. Qed.
Print Assumptions C05_state_constraints.

(* the feasibility KKT residuals (tests 1 and 2) are <= eps iff every |h_j| <= eps and every max(g_i, 0) <= eps *)
Theorem C05_kkt_feasibility : forall eps ceq cineq, 0 <= eps ->
  (kkt2 ceq <= eps /\ kkt1 cineq <= eps <->
   Forall (fun h => qabs h <= eps) ceq /\ Forall (fun g => qmax g 0 <= eps) cineq).
Proof. exact kkt_feasibility. Qed.
Print Assumptions C05_kkt_feasibility.

Example C05_state_nonvacuous :
  let cs := [CMaximum 1 0; CLinEq [1; 1] (-2); CBallIneq [0; 0] 1] in
  length [77] = length (eq_cs cs) /\ length [77; 77] = length (ineq_cs cs) /\
  uc_ceq (update_constraints cs [3; 4] [0; 0] [0] [0; 0] [77] [77; 77]) = [3 * 1 + (4 * 1 + 0) + -2] /\
  kkt2 [5] == 5 /\ kkt1 [-3; 2] == 2.
Proof. vm_compute. repeat split; intro H; discriminate H. Qed.

(* ---- the augmented-Lagrangian outer loop ---------------------------------------------------------------
   For EVERY instantiation R of the rounded operations (no hypothesis: |max(g, sh)| >= max(g, 0) whatever the shift
   -miu/ro evaluates to), every parameter set, every starting state and EVERY sequence of inner-solver results
   (oracle history: points, constraint values, validity flags, the dx-convergence flag) with the same number of
   inequalities: if the loop ends with status `converged` then every |h_j| <= eps and every max(g_i, 0) <= eps for
   the constraint values stored in the returned state, and the returned (x, ceq, cineq) is the initial one or
   exactly what one of the inner runs delivered (so, by C05_state_constraints, the constraint values at x). *)
Theorem C05_al_feasible : forall R P x0 ceq0 cineq0 ro0 es,
  Forall (fun e => length (e_cineq e) = length cineq0) es ->
  let s := al_run R P (al_init R x0 ceq0 cineq0 ro0) es in
  (s_status s = Converged ->
     Forall (fun h => qabs h <= p_eps P) (s_ceq s) /\ Forall (fun g => qmax g 0 <= p_eps P) (s_cineq s)) /\
  ((s_x s, s_ceq s, s_cineq s) = (x0, ceq0, cineq0) \/
   In (s_x s, s_ceq s, s_cineq s) (map (fun e => (e_x e, e_ceq e, e_cineq e)) es)).
Proof. exact al_feasible. Qed.
Print Assumptions C05_al_feasible.

(* non-vacuity: a two-iteration history in which the converging iteration does NOT improve the criterion (so the best
   state is not updated: it stays at the first inner solution) still ends `converged` *)
Example C05_al_nonvacuous_run :
  let P := mkparams (1 # 10) (1 # 2) 10 100 (-100) 100 100 in
  let e1 := mkevent [1 # 20] [1 # 20] [-1] true false true in
  let e2 := mkevent [1 # 16] [1 # 16] [-1] true true true in
  let s := al_run exact_rops P (al_init exact_rops [1] [1] [-1] 1) [e1; e2] in
  Forall (fun e => length (e_cineq e) = length [-1]) [e1; e2] /\
  s_status s = Converged /\ s_x s = [1 # 20] /\ s_stopped s = true.
Proof. vm_compute. repeat split; repeat constructor. Qed.
