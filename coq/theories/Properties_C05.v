(* C05 -- Penalty / augmented-Lagrangian functions match their definitions; `converged` of the augmented-Lagrangian
   solver implies feasibility. Only statements + `exact` + Print Assumptions live here.
   Model: C05_Defs (imports the decision kernels translated from src/function/penalty.cpp, src/function/constraint.cpp,
   src/solver/augmented.cpp and src/solver.cpp on every run). Arithmetic is over exact rationals. *)
From Coq Require Import List ZArith QArith Bool Lqa.
From LN Require Import C05_Defs C05_Proofs C05_Outer_Defs C05_Outer.
Import ListNotations.
Local Open Scope Q_scope.

(* ---- definitions -----------------------------------------------------------------------------------------
   [es] is the list of evaluated constraints (is_equality, value, gradient) in registration order, [f0] = (f(x),
   grad f(x)); [eqs]/[ineqs] select the equalities / inequalities. The loops of penalty.cpp return exactly
     f + rho sum|h_j| + rho sum max(0,g_i),   f + rho sum h_j^2 + rho sum max(0,g_i)^2,
     f + rho/2 sum (h_j + lambda_j/rho)^2 + rho/2 sum max(0, g_i + miu_i/rho)^2
   and every gradient component is the matching sum (sgn(0) = +1, pos(v) = [v > 0]: the sub-gradient the code picks). *)
Theorem C05_defs_linear : forall rho f0 es,
  fst (linear_penalty rho f0 es) ==
    fst f0 + rho * qsum (map (fun e => qabs (ce_val e)) (eqs es))
           + rho * qsum (map (fun e => qmax 0 (ce_val e)) (ineqs es)) /\
  (forall j, vnth (snd (linear_penalty rho f0 es)) j ==
    vnth (snd f0) j + rho * qsum (map (fun e => sgn (ce_val e) * vnth (ce_grad e) j) (eqs es))
                    + rho * qsum (map (fun e => pos (ce_val e) * vnth (ce_grad e) j) (ineqs es))).
Proof. exact defs_linear. Qed.
Print Assumptions C05_defs_linear.

Theorem C05_defs_quadratic : forall rho f0 es,
  fst (quadratic_penalty rho f0 es) ==
    fst f0 + rho * qsum (map (fun e => ce_val e * ce_val e) (eqs es))
           + rho * qsum (map (fun e => qmax 0 (ce_val e) * qmax 0 (ce_val e)) (ineqs es)) /\
  (forall j, vnth (snd (quadratic_penalty rho f0 es)) j ==
    vnth (snd f0) j + 2 * rho * qsum (map (fun e => ce_val e * vnth (ce_grad e) j) (eqs es))
                    + 2 * rho * qsum (map (fun e => qmax 0 (ce_val e) * vnth (ce_grad e) j) (ineqs es))).
Proof. exact defs_quadratic. Qed.
Print Assumptions C05_defs_quadratic.

(* [shifted rho (e, mu)] = value + mu / rho; the j-th equality is paired with lambda_j, the i-th inequality with
   miu_i although the loop walks the constraints interleaved with two counters *)
Theorem C05_defs_augmented : forall rho lambda miu f0 es,
  length lambda = length (eqs es) -> length miu = length (ineqs es) ->
  fst (augmented_lagrangian rho lambda miu f0 es) ==
    fst f0 + (1 # 2) * rho * qsum (map (fun p => shifted rho p * shifted rho p) (combine (eqs es) lambda))
           + (1 # 2) * rho * qsum (map (fun p => qmax 0 (shifted rho p) * qmax 0 (shifted rho p)) (combine (ineqs es) miu)) /\
  (forall j, vnth (snd (augmented_lagrangian rho lambda miu f0 es)) j ==
    vnth (snd f0) j + rho * qsum (map (fun p => shifted rho p * vnth (ce_grad (fst p)) j) (combine (eqs es) lambda))
                    + rho * qsum (map (fun p => qmax 0 (shifted rho p) * vnth (ce_grad (fst p)) j) (combine (ineqs es) miu))).
Proof. exact defs_augmented. Qed.
Print Assumptions C05_defs_augmented.

(* non-vacuity: a mix x0 = 1 violated inequality, 1 equality, 1 inactive inequality; the three values are
   f + the penalty terms (f = 10, rho = 2: 10 + 2*3 + 2*|−1| = 18; 10 + 2*9 + 2*1 = 30; AL with lambda = 2, miu = (4, 2):
   10 + (3+2)^2 + (−1+1)^2 + max(0,−5+1)^2 = 35) *)
Example C05_defs_nonvacuous :
  let es := [mkcev false 3 [1; 0]; mkcev true (-1) [0; 1]; mkcev false (-5) [1; 1]] in
  length [2] = length (eqs es) /\ length [4; 2] = length (ineqs es) /\
  fst (linear_penalty 2 (10, [0; 0]) es) == 18 /\ fst (quadratic_penalty 2 (10, [0; 0]) es) == 30 /\
  fst (augmented_lagrangian 2 [2] [4; 2] (10, [0; 0]) es) == 35 /\
  vnth (snd (augmented_lagrangian 2 [2] [4; 2] (10, [0; 0]) es)) 0 == 10 /\
  vnth (snd (augmented_lagrangian 2 [2] [4; 2] (10, [0; 0]) es)) 1 == 0.
Proof. vm_compute. repeat split. Qed.

(* ---- the gradient of every non-functional constraint kind is the derivative of its value --------------------
   exact expansion c(x + d) = c(x) + grad c(x).d + remainder(d) with remainder 0 (bounds, linear), |d|^2 (ball),
   1/2 d.Pd (quadratic, P symmetric as a bilinear form); bound kinds: the gradient is the signed unit vector *)
Theorem C05_grad_is_derivative : forall c x d, well_formed c (length x) -> length d = length x ->
  fst (cvgrad c (vadd x d)) == fst (cvgrad c x) + directional c x d + remainder c d.
Proof. exact grad_is_derivative. Qed.
Print Assumptions C05_grad_is_derivative.

Theorem C05_bound_gradients : forall v k x j,
  vnth (snd (cvgrad (CConstant v k) x)) j = (if (j <? length x)%nat && (j =? k)%nat then 1 else 0) /\
  vnth (snd (cvgrad (CMaximum v k) x)) j = (if (j <? length x)%nat && (j =? k)%nat then 1 else 0) /\
  vnth (snd (cvgrad (CMinimum v k) x)) j = (if (j <? length x)%nat && (j =? k)%nat then -1 else 0).
Proof. exact bound_gradients. Qed.
Print Assumptions C05_bound_gradients.

Example C05_grad_nonvacuous_ball : well_formed (CBallIneq [1; 2] 3) (length [0; 0]).
Proof. reflexivity. Qed.
Example C05_grad_nonvacuous_quad : well_formed (CQuadEq [[2; 1]; [1; 3]] [1; 1] 5) (length [0; 0]).
Proof.
  split; [|reflexivity]. intros u v Hu Hv.
  destruct u as [|a [|b [|]]]; try discriminate Hu. destruct v as [|c [|e [|]]]; try discriminate Hv.
  simpl. ring.
Qed.

(* ... and the coefficient every branch of the three loops adds to the gradient is the derivative of the value it
   adds, as a function of the constraint value t (then the chain rule with the theorem above): exact expansion for
   the squares, tangent <= phi <= tangent + k s^2 for k max(0,t)^2, sub-gradient + derivative away from the kink for
   k|t| and k max(0,t). [ty] with t + s <= ty: monotone composition with a convex constraint. *)
Theorem C05_penalty_term_derivative :
  (forall k t s, k * (t + s) * (t + s) == k * t * t + (2 * k * t) * s + k * s * s) /\
  (forall k t s ty, 0 <= k -> t + s <= ty ->
     k * qmax 0 t * qmax 0 t + (2 * k * qmax 0 t) * s <= k * qmax 0 ty * qmax 0 ty) /\
  (forall k t s, 0 <= k ->
     k * qmax 0 (t + s) * qmax 0 (t + s) <= k * qmax 0 t * qmax 0 t + (2 * k * qmax 0 t) * s + k * s * s) /\
  (forall k v s, 0 <= k -> k * qabs v + (k * sgn v) * s <= k * qabs (v + s)) /\
  (forall k v s, qabs s < qabs v -> k * qabs (v + s) == k * qabs v + (k * sgn v) * s) /\
  (forall k v s vy, 0 <= k -> v + s <= vy -> k * qmax 0 v + (k * pos v) * s <= k * qmax 0 vy) /\
  (forall k v s, qabs s < qabs v -> k * qmax 0 (v + s) == k * qmax 0 v + (k * pos v) * s).
Proof.
  exact (conj term_square (conj term_hinge_square (conj term_hinge_square_upper (conj term_abs_subgradient
        (conj term_abs_derivative (conj term_hinge_subgradient term_hinge_derivative)))))).
Qed.
Print Assumptions C05_penalty_term_derivative.

(* ---- feasible point, zero multipliers: the three functions coincide with the objective ---------------------- *)
Theorem C05_feasible_coincide : forall rho lambda miu f0 es,
  feasible es -> all_zero lambda -> all_zero miu ->
  fst (linear_penalty rho f0 es) == fst f0 /\
  fst (quadratic_penalty rho f0 es) == fst f0 /\
  fst (augmented_lagrangian rho lambda miu f0 es) == fst f0 /\
  (forall j, vnth (snd (quadratic_penalty rho f0 es)) j == vnth (snd f0) j) /\
  (forall j, vnth (snd (augmented_lagrangian rho lambda miu f0 es)) j == vnth (snd f0) j) /\
  (forall j, vnth (snd (linear_penalty rho f0 es)) j ==
             vnth (snd f0) j + rho * qsum (map (fun e => vnth (ce_grad e) j) (eqs es))).
Proof. exact feasible_coincide. Qed.
Print Assumptions C05_feasible_coincide.

(* the plain statement "gradient = objective's gradient" is false of the linear penalty (faithful model): at h = 0 the
   code adds +rho grad h (a valid sub-gradient of rho|h|, not zero) *)
Theorem C05_linear_feasible_grad_refuted :
  exists rho f0 es, feasible es /\ ~ (forall j, vnth (snd (linear_penalty rho f0 es)) j == vnth (snd f0) j).
Proof. exact linear_feasible_grad_refuted. Qed.
Print Assumptions C05_linear_feasible_grad_refuted.

Example C05_feasible_nonvacuous :
  feasible [mkcev true 0 [1]; mkcev false (-2) [1]; mkcev false 0 [3]] /\ all_zero [0] /\ all_zero [0; 0].
Proof. repeat constructor; try reflexivity; simpl; discriminate. Qed.

(* ---- the convex flag ------------------------------------------------------------------------------------------
   ::convex(function) is set iff the objective is flagged convex, every constraint is flagged convex and every
   equality is a linear equality (constant_t / linear_equality_t: affine by C05_grad_is_derivative with remainder 0).
   Under what the flags claim (objective convex between x and y = x + d; every inequality convex, every equality
   affine along d: [along]) the sub-gradient inequality P(y) >= P(x) + G(x).d holds for the three objects
   (rho >= 0, resp. rho > 0 for the augmented Lagrangian; any multipliers). *)
Theorem C05_convex_flag :
  (forall fconvex cos, pen_convex fconvex cos = true ->
     fconvex = true /\
     Forall (fun co => ct_convex co = true /\ (is_equality (fst co) = true -> is_linear_equality (fst co) = true)) cos) /\
  (forall rho n d fx fy esx esy,
     0 <= rho -> fst fx + dotn n (snd fx) d <= fst fy -> Forall2 (along n d) esx esy ->
     fst (linear_penalty rho fx esx) + dotn n (snd (linear_penalty rho fx esx)) d <= fst (linear_penalty rho fy esy)) /\
  (forall rho n d fx fy esx esy,
     0 <= rho -> fst fx + dotn n (snd fx) d <= fst fy -> Forall2 (along n d) esx esy ->
     fst (quadratic_penalty rho fx esx) + dotn n (snd (quadratic_penalty rho fx esx)) d <=
     fst (quadratic_penalty rho fy esy)) /\
  (forall rho lambda miu n d fx fy esx esy,
     0 < rho -> fst fx + dotn n (snd fx) d <= fst fy -> Forall2 (along n d) esx esy ->
     fst (augmented_lagrangian rho lambda miu fx esx) + dotn n (snd (augmented_lagrangian rho lambda miu fx esx)) d <=
     fst (augmented_lagrangian rho lambda miu fy esy)).
Proof. exact (conj pen_convex_spec (conj convex_linear (conj convex_quadratic convex_augmented))). Qed.
Print Assumptions C05_convex_flag.

(* non-vacuity: g(x) = x^2 - 1 (convex inequality) and h(x) = x - 2 (affine equality) at x = 0 and y = 3 (d = 3) *)
Example C05_convex_nonvacuous :
  Forall2 (along 1 [3]) [mkcev false (-1) [0]; mkcev true (-2) [1]] [mkcev false 8 [6]; mkcev true 1 [1]] /\
  pen_convex true [(CBallIneq [0] 1, false); (CConstant 2 0, false)] = true /\
  pen_convex true [(CBallEq [0] 1, true)] = false.
Proof.
  split; [|split; reflexivity].
  repeat constructor; simpl; unfold dotn; simpl; vm_compute; intro H; discriminate H.
Qed.

(* ---- solver_state_t::update_constraints -------------------------------------------------------------------------
   whatever m_ceq / m_cineq held before (stale values of another point), after the loop they are exactly the
   equality / inequality constraint values at x in registration order, and the counters end at their sizes *)
Theorem C05_state_constraints : forall cs x gx meq mineq ceq0 cineq0,
  length ceq0 = length (eq_cs cs) -> length cineq0 = length (ineq_cs cs) ->
  let s := update_constraints cs x gx meq mineq ceq0 cineq0 in
  uc_ceq s = map (fun c => fst (cvgrad c x)) (eq_cs cs) /\
  uc_cineq s = map (fun c => fst (cvgrad c x)) (ineq_cs cs) /\
  uc_ie s = length ceq0 /\ uc_ii s = length cineq0.
Proof. exact state_constraints. Qed.
Print Assumptions C05_state_constraints.

(* the feasibility KKT residuals (tests 1 and 2) are <= eps iff every |h_j| <= eps and every max(g_i, 0) <= eps *)
Theorem C05_kkt_feasibility : forall eps ceq cineq, 0 <= eps ->
  (kkt2 ceq <= eps /\ kkt1 cineq <= eps <->
   Forall (fun h => qabs h <= eps) ceq /\ Forall (fun g => qmax g 0 <= eps) cineq).
Proof. exact kkt_feasibility. Qed.
Print Assumptions C05_kkt_feasibility.

Example C05_state_nonvacuous :
  let cs := [CMaximum 1 0; CLinEq [1; 1] (-2); CBallIneq [0; 0] 1] in
  length [77] = length (eq_cs cs) /\ length [77; 77] = length (ineq_cs cs) /\
  uc_ceq (update_constraints cs [3; 4] [0; 0] [0] [0; 0] [77] [77; 77]) = [3 * 1 + (4 * 1 + 0) + -2] /\
  kkt2 [5] == 5 /\ kkt1 [-3; 2] == 2.
Proof. vm_compute. repeat split; intro H; discriminate H. Qed.

(* ---- the augmented-Lagrangian outer loop ---------------------------------------------------------------
   For EVERY instantiation R of the rounded operations (no hypothesis: |max(g, sh)| >= max(g, 0) whatever the shift
   -miu/ro evaluates to), every parameter set, every starting state and EVERY sequence of inner-solver results
   (oracle history: points, constraint values, validity flags, the dx-convergence flag) with the same number of
   inequalities: if the loop ends with status `converged` then every |h_j| <= eps and every max(g_i, 0) <= eps for
   the constraint values stored in the returned state, and the returned (x, ceq, cineq) is the initial one or
   exactly what one of the inner runs delivered (so, by C05_state_constraints, the constraint values at x). *)
Theorem C05_al_feasible : forall R P x0 ceq0 cineq0 ro0 es,
  Forall (fun e => length (e_cineq e) = length cineq0) es ->
  let s := al_run R P (al_init R x0 ceq0 cineq0 ro0) es in
  (s_status s = Converged ->
     Forall (fun h => qabs h <= p_eps P) (s_ceq s) /\ Forall (fun g => qmax g 0 <= p_eps P) (s_cineq s)) /\
  ((s_x s, s_ceq s, s_cineq s) = (x0, ceq0, cineq0) \/
   In (s_x s, s_ceq s, s_cineq s) (map (fun e => (e_x e, e_ceq e, e_cineq e)) es)).
Proof. exact al_feasible. Qed.
Print Assumptions C05_al_feasible.

(* non-vacuity: a two-iteration history in which the converging iteration does NOT improve the criterion (so the best
   state is not updated: it stays at the first inner solution) still ends `converged` *)
Example C05_al_nonvacuous_run :
  let P := mkparams (1 # 10) (1 # 2) 10 100 (-100) 100 100 in
  let e1 := mkevent [1 # 20] [1 # 20] [-1] true false true in
  let e2 := mkevent [1 # 16] [1 # 16] [-1] true true true in
  let s := al_run exact_rops P (al_init exact_rops [1] [1] [-1] 1) [e1; e2] in
  Forall (fun e => length (e_cineq e) = length [-1]) [e1; e2] /\
  s_status s = Converged /\ s_x s = [1 # 20] /\ s_stopped s = true.
Proof. vm_compute. repeat split; repeat constructor. Qed.

(* ==================================================================================================================
   Extension "Outer" (model: C05_Outer_Defs, proofs: C05_Outer): the complete outer loop of the augmented-Lagrangian
   solver -- make_ro1, ::nano::converged, the multiplier / penalty updates, the multipliers stored in the best state:
   nothing but the inner solver's answers is an input --, what the multipliers mean (first-order identity, KKT), and
   the outer loop of solver_penalty_t::minimize (linear- and quadratic-penalty solvers).
   ================================================================================================================== *)

(* the complete loop refines the loop of C05_Defs: same state, the events only get their dx-convergence flag filled in
   (so every theorem about al_run, e.g. C05_al_feasible, holds for the complete loop) *)
Theorem C05_al_outer_refines : forall R P s es,
  o_core (alo_run R P s es) = al_run R P (o_core s) (alo_decorate R P s es) /\
  map ev_data (alo_decorate R P s es) = map ev_data es.
Proof. intros R P s es. exact (conj (alo_run_core R P es s) (alo_decorate_data R P es s)). Qed.
Print Assumptions C05_al_outer_refines.

(* invariants of EVERY history and EVERY rounding R of the loop's arithmetic: 0 <= miu <= miu_max for the current
   multipliers and for those stored in the best state; lambda (current / stored) is the initial zero vector or lies
   within [lambda_min, lambda_max]; all sizes stay those of the problem *)
Theorem C05_al_multiplier_invariants : forall R P f0 x0 ceq0 cineq0 es,
  0 <= p_miu_max P -> p_lmin P <= p_lmax P ->
  Forall (fun e => length (e_ceq e) = length ceq0 /\ length (e_cineq e) = length cineq0) es ->
  let s := alo_run R P (alo_init R f0 x0 ceq0 cineq0) es in
  in_range 0 (p_miu_max P) (s_miu (o_core s)) /\ in_range 0 (p_miu_max P) (o_mineq s) /\
  (in_range (p_lmin P) (p_lmax P) (s_lambda (o_core s)) \/ s_lambda (o_core s) = repeat 0 (length ceq0)) /\
  (in_range (p_lmin P) (p_lmax P) (o_meq s) \/ o_meq s = repeat 0 (length ceq0)) /\
  length (s_lambda (o_core s)) = length ceq0 /\ length (s_miu (o_core s)) = length cineq0 /\
  length (o_meq s) = length ceq0 /\ length (o_mineq s) = length cineq0 /\
  length (s_ceq (o_core s)) = length ceq0 /\ length (s_cineq (o_core s)) = length cineq0.
Proof. exact al_multiplier_invariants. Qed.
Print Assumptions C05_al_multiplier_invariants.

(* non-vacuity: one iteration whose updates 0 + 2/5 * 5 = 2 are clamped to lambda_max = miu_max = 1 *)
Example C05_al_multipliers_nonvacuous :
  let P := mkparams (1 # 10) (1 # 2) 10 1 (-1) 1 100 in
  let es := [mkevent [7] [5] [5] true false true] in
  let s := alo_run exact_rops P (alo_init exact_rops 1 [0] [1] [2]) es in
  0 <= p_miu_max P /\ p_lmin P <= p_lmax P /\ 0 < p_gamma P /\
  Forall (fun e => length (e_ceq e) = length [1] /\ length (e_cineq e) = length [2]) es /\
  s_lambda (o_core s) = [1] /\ s_miu (o_core s) = [1] /\ s_stopped (o_core s) = false.
Proof. vm_compute. repeat split; try discriminate; repeat constructor. Qed.

(* the penalty parameter (exact arithmetic): ro_1 = make_ro1 lies within [1e-6, 10] whatever the start, ro is ro_1 times
   a power of gamma (at most one factor per outer iteration), hence positive *)
Theorem C05_al_ro_rule : forall P f0 x0 ceq0 cineq0 es,
  let ro1 := make_ro1 exact_rops f0 ceq0 cineq0 in
  let s := alo_run exact_rops P (alo_init exact_rops f0 x0 ceq0 cineq0) es in
  ro_min <= ro1 /\ ro1 <= ro_max /\
  (exists k, (Z.of_nat k <= s_outer (o_core s))%Z /\ s_ro (o_core s) == ro1 * qpow (p_gamma P) k) /\
  (exists k, (Z.of_nat k <= s_outer (o_core s))%Z /\ o_bro s == ro1 * qpow (p_gamma P) k) /\
  (0 < p_gamma P -> 0 < s_ro (o_core s) /\ 0 < o_bro s).
Proof. exact al_ro_rule. Qed.
Print Assumptions C05_al_ro_rule.

(* the first-order identity that justifies the method: for EVERY point (es = the evaluated constraints), every
   ro > 0 and every multipliers, the gradient the augmented-Lagrangian object returns is the gradient of the ordinary
   Lagrangian grad f + sum lambda+_j grad h_j + sum miu+_i grad g_i (accumulated as update_constraints does: m_lgx) at the
   UN-clamped updated multipliers lambda+ = lambda + ro h, miu+ = max(0, miu + ro g) *)
Theorem C05_al_gradient_identity : forall rho lambda miu f0 es,
  0 < rho -> length lambda = length (eqs es) -> length miu = length (ineqs es) ->
  let lambda' := next_lambda rho lambda (map ce_val (eqs es)) in
  let miu' := next_miu rho miu (map ce_val (ineqs es)) in
  forall j,
    vnth (snd (augmented_lagrangian rho lambda miu f0 es)) j == vnth (lagrangian_grad (snd f0) es lambda' miu') j /\
    vnth (lagrangian_grad (snd f0) es lambda' miu') j ==
      vnth (snd f0) j + qsum (map (fun p => snd p * vnth (ce_grad (fst p)) j) (combine (eqs es) lambda'))
                      + qsum (map (fun p => snd p * vnth (ce_grad (fst p)) j) (combine (ineqs es) miu')).
Proof. exact al_gradient_identity. Qed.
Print Assumptions C05_al_gradient_identity.

(* non-vacuity: the mix of C05_defs_nonvacuous (ro = 2, lambda = 2, miu = (4, 2)): lambda+ = 0, miu+ = (10, 0), both
   gradients are (10, 0) *)
Example C05_al_gradient_identity_nonvacuous :
  let es := [mkcev false 3 [1; 0]; mkcev true (-1) [0; 1]; mkcev false (-5) [1; 1]] in
  0 < 2 /\ length [2] = length (eqs es) /\ length [4; 2] = length (ineqs es) /\
  vnth (lagrangian_grad [0; 0] es (next_lambda 2 [2] (map ce_val (eqs es))) (next_miu 2 [4; 2] (map ce_val (ineqs es)))) 0 == 10 /\
  vnth (snd (augmented_lagrangian 2 [2] [4; 2] (10, [0; 0]) es)) 0 == 10.
Proof. vm_compute. repeat split. Qed.

(* KKT: a `converged` run of the complete loop (exact arithmetic, constraint values of the events = those of the
   problem) returns a point x with the stored multipliers (lambda, miu) = o_meq / o_mineq and the penalty ro of the
   iteration that produced it such that, with lambda+ = lambda + ro h(x), miu+ = max(0, miu + ro g(x)):
     ro > 0; the stored constraint values are the problem's at x;
     stationarity: grad L(x, lambda+, miu+) = grad L_A(x; ro, lambda, miu) component-wise -- so an inner solution with
       |grad L_A|_inf <= eps0 is an eps0-stationary point of the ordinary Lagrangian;
     primal feasibility: every |h_j| <= eps, max(g_i, 0) <= eps;   dual feasibility: miu+ >= 0 (and miu >= 0);
     approximate complementarity, per inequality: |max(g_i, -miu_i/ro)| <= eps (what make_criterion measures), hence
       miu+_i > 0 -> -eps <= g_i <= eps, and miu+_i = 0 -> miu_i <= ro eps.
   Hypotheses: gamma > 0, miu_max >= 0, lambda_min <= lambda_max (the parameter domains). The clamps cost exactly this:
   the multipliers the NEXT iteration would use are the projections of lambda+ / miu+ onto the boxes (al_step), the
   identity holds for the un-clamped ones. *)
Theorem C05_al_kkt : forall fobj cs P f0 x0 ceq0 cineq0 es,
  0 < p_gamma P -> 0 <= p_miu_max P -> p_lmin P <= p_lmax P ->
  consistent_triple cs (x0, ceq0, cineq0) -> Forall (consistent cs) es ->
  let s := alo_run exact_rops P (alo_init exact_rops f0 x0 ceq0 cineq0) es in
  let c := o_core s in
  s_status c = Converged ->
  let ro := o_bro s in
  let x := s_x c in
  let lambda' := next_lambda ro (o_meq s) (s_ceq c) in
  let miu' := next_miu ro (o_mineq s) (s_cineq c) in
  0 < ro /\
  consistent_triple cs (x, s_ceq c, s_cineq c) /\
  (forall j, vnth (snd (augmented_lagrangian_at fobj cs ro (o_meq s) (o_mineq s) x)) j ==
             vnth (lagrangian_grad (snd (fobj x)) (evals cs x) lambda' miu') j) /\
  (forall eps0, (forall j, qabs (vnth (snd (augmented_lagrangian_at fobj cs ro (o_meq s) (o_mineq s) x)) j) <= eps0) ->
                forall j, qabs (vnth (lagrangian_grad (snd (fobj x)) (evals cs x) lambda' miu') j) <= eps0) /\
  (Forall (fun h => qabs h <= p_eps P) (s_ceq c) /\ Forall (fun g => qmax g 0 <= p_eps P) (s_cineq c)) /\
  Forall (fun m => 0 <= m) miu' /\ Forall (fun m => 0 <= m) (o_mineq s) /\
  Forall2 (fun g m => qabs (qmax g ((- m) / ro)) <= p_eps P /\
                      (0 < qmax 0 (m + ro * g) -> - p_eps P <= g /\ g <= p_eps P) /\
                      (qmax 0 (m + ro * g) == 0 -> m <= ro * p_eps P)) (s_cineq c) (o_mineq s).
Proof. exact al_kkt. Qed.
Print Assumptions C05_al_kkt.

(* non-vacuity: h(x) = x - 2, g(x) = x - 3 from x0 = 0; the inner solver answers x = 2 twice: the first answer replaces
   the best state, the second one converges (criterion 0, dx 0) *)
Example C05_al_kkt_nonvacuous :
  let cs := [CLinEq [1] (-2); CMaximum 3 0] in
  let ev := fun x => mkevent x (map ce_val (eqs (evals cs x))) (map ce_val (ineqs (evals cs x))) true false true in
  let P := mkparams (1 # 10) (1 # 2) 10 100 (-100) 100 100 in
  let x0 := [0] in
  let ceq0 := map ce_val (eqs (evals cs x0)) in
  let cineq0 := map ce_val (ineqs (evals cs x0)) in
  let es := [ev [2]; ev [2]] in
  let s := alo_run exact_rops P (alo_init exact_rops 1 x0 ceq0 cineq0) es in
  0 < p_gamma P /\ 0 <= p_miu_max P /\ p_lmin P <= p_lmax P /\
  consistent_triple cs (x0, ceq0, cineq0) /\ Forall (consistent cs) es /\
  s_status (o_core s) = Converged /\ o_bset s = true /\ s_x (o_core s) = [2].
Proof.
  cbv zeta. split; [reflexivity|]. split; [discriminate|]. split; [discriminate|].
  split; [split; reflexivity|]. split; [repeat constructor|]. vm_compute. repeat split.
Qed.

(* ---- the outer loop of solver_penalty_t::minimize (linear- and quadratic-penalty solvers) ---------------------------
   for EVERY rounding, every evaluation oracle [orig] of the ORIGINAL function, every parameters, start and history
   of inner-solver answers: the returned state is a state of the original function (its value / constraint values are
   [orig] at the returned point, not the penalised ones) and its point is the start or a usable (valid) inner solution;
   the status facts of done(): still running -> max_iters; converged -> stopped, the state is valid and the last inner
   solution moved less than epsilon max(1, |bstate.x|) away from the previous best point (start or an inner solution);
   failed -> stopped with an invalid state *)
Theorem C05_pen_returned_and_status : forall R orig P x0 es,
  let s := ps_run R orig P (ps_init orig P x0) es in
  q_eval s = orig (q_x s) /\
  (q_x s = x0 \/ exists e, In e es /\ pe_ok e = true /\ q_x s = pe_x e) /\
  (q_stopped s = false -> q_status s = MaxIters) /\
  (q_status s = Converged ->
     q_stopped s = true /\ oe_valid (q_eval s) = true /\
     exists e bx, In e es /\ pe_ok e = true /\ q_x s = pe_x e /\
                  (bx = x0 \/ exists e', In e' es /\ pe_ok e' = true /\ bx = pe_x e') /\
                  dx_converged R (ps_eps P) bx (pe_x e) = true) /\
  (q_status s = Failed -> q_stopped s = true /\ oe_valid (q_eval s) = false).
Proof. exact pen_returned_and_status. Qed.
Print Assumptions C05_pen_returned_and_status.

(* (exact arithmetic) the k-th inner solve uses penalty0 * eta^k -- also across the `continue` branch of unusable inner
   solutions --, there are at most max_outer_iters inner solves, and the inner precision is epsilon0 * epsilonK^j *)
Theorem C05_pen_penalty_sequence : forall orig P x0 es,
  let s := ps_run exact_rops orig P (ps_init orig P x0) es in
  Forall2 Qeq (q_trace s) (pow_trace (ps_penalty0 P) (ps_eta P) (length (q_trace s))) /\
  (Z.of_nat (length (q_trace s)) <= Z.max 0 (ps_max_outers P))%Z /\
  length (q_trace s) = (Z.to_nat (q_outer s) + (if q_stopped s then 1 else 0))%nat /\
  q_penalty s == ps_penalty0 P * qpow (ps_eta P) (Z.to_nat (q_outer s)) /\
  (exists j, (j <= Z.to_nat (q_outer s))%nat /\ q_inner_eps s == ps_eps0 P * qpow (ps_epsK P) j).
Proof. exact pen_penalty_sequence. Qed.
Print Assumptions C05_pen_penalty_sequence.

(* non-vacuity: an unusable inner solution (penalty 10 -> 50, nothing else changes), then a converging one *)
Example C05_pen_nonvacuous_run :
  let orig := fun x => mkoeval (hd 0 x * hd 0 x) [hd 0 x - 1] [] true in
  let P := mkps (1 # 1000000) 5 10 (1 # 1000000) (1 # 2) 20 in
  let s := ps_run exact_rops orig P (ps_init orig P [10 # 11]) [mkpse [] false; mkpse [10 # 11] true] in
  q_status s = Converged /\ q_stopped s = true /\ q_x s = [10 # 11] /\ length (q_trace s) = 2%nat /\
  q_penalty s == 50 /\ q_outer s = 1%Z.
Proof. vm_compute. repeat split. Qed.

(* `converged` of a penalty solver does NOT imply feasibility (the property only speaks about the augmented-Lagrangian
   solver): min x^2 s.t. x = 1, quadratic penalty 10, the exact inner minimiser 10/11 returned from x0 = 10/11 *)
Theorem C05_pen_converged_feasible_refuted :
  exists (orig : vec -> oeval) P x0 es,
    let s := ps_run exact_rops orig P (ps_init orig P x0) es in
    q_status s = Converged /\ ~ (Forall (fun h => qabs h <= ps_eps P) (oe_ceq (q_eval s)) /\
                                 Forall (fun g => qmax g 0 <= ps_eps P) (oe_cineq (q_eval s))).
Proof. exact pen_converged_feasible_refuted. Qed.
Print Assumptions C05_pen_converged_feasible_refuted.

(* exactness of the linear penalty over Q: a feasible minimiser of the penalised function minimises the objective over
   the feasible set *)
Theorem C05_pen_linear_exact : forall fobj cs rho x,
  feasible (evals cs x) ->
  (forall y, fst (linear_penalty_at fobj cs rho x) <= fst (linear_penalty_at fobj cs rho y)) ->
  forall y, feasible (evals cs y) -> fst (fobj x) <= fst (fobj y).
Proof. exact pen_linear_exact. Qed.
Print Assumptions C05_pen_linear_exact.

(* Fiacco-McCormick monotonicity of the quadratic penalty: for 0 <= rho1 < rho2 and points x1, x2 each at least as good
   as the other for its own penalty (in particular: respective minimisers), the violation sum h^2 + sum max(0,g)^2 does
   not increase and the objective does not decrease *)
Theorem C05_pen_quadratic_monotone : forall fobj cs r1 r2 x1 x2,
  0 <= r1 -> r1 < r2 ->
  fst (quadratic_penalty_at fobj cs r1 x1) <= fst (quadratic_penalty_at fobj cs r1 x2) ->
  fst (quadratic_penalty_at fobj cs r2 x2) <= fst (quadratic_penalty_at fobj cs r2 x1) ->
  violation2 (evals cs x2) <= violation2 (evals cs x1) /\ fst (fobj x1) <= fst (fobj x2).
Proof. exact pen_quadratic_monotone. Qed.
Print Assumptions C05_pen_quadratic_monotone.

(* non-vacuity: min x^2 s.t. x = 1: the minimisers r/(1+r) for r = 1, 3 are 1/2, 3/4; the linear penalty of
   g(x) = x - 1 <= 0 over a constant objective is minimised by the feasible x = 0 *)
Example C05_pen_classical_nonvacuous :
  let fobj := fun x : vec => (hd 0 x * hd 0 x, [2 * hd 0 x]) in
  let cs := [CLinEq [1] (-1)] in
  0 <= 1 /\ 1 < 3 /\
  fst (quadratic_penalty_at fobj cs 1 [1 # 2]) <= fst (quadratic_penalty_at fobj cs 1 [3 # 4]) /\
  fst (quadratic_penalty_at fobj cs 3 [3 # 4]) <= fst (quadratic_penalty_at fobj cs 3 [1 # 2]) /\
  violation2 (evals cs [3 # 4]) == 1 # 16 /\
  feasible (evals [CMaximum 1 0] [0]) /\
  (forall y, fst (linear_penalty_at (fun _ => (0, [0])) [CMaximum 1 0] 1 [0]) <=
             fst (linear_penalty_at (fun _ => (0, [0])) [CMaximum 1 0] 1 y)).
Proof.
  cbv zeta. split; [discriminate|]. split; [reflexivity|]. split; [vm_compute; discriminate|].
  split; [vm_compute; discriminate|]. split; [vm_compute; reflexivity|].
  split; [repeat constructor; vm_compute; discriminate|].
  intro y. destruct (C05_defs_linear 1 (0, [0]) (evals [CMaximum 1 0] y)) as [Hy _].
  unfold linear_penalty_at. rewrite Hy. cbn.
  pose proof (qmax_l 0 (vnth y 0 - 1)). lra.
Qed.

(* what the clamps cost (exact arithmetic): whenever the loop goes on, the multipliers of the next inner solve are the
   projections of the un-clamped lambda+ = lambda + ro h, miu+ = max(0, miu + ro g) of C05_al_gradient_identity onto
   [lambda_min, lambda_max] resp. [0, miu_max] (ro = the penalty THIS solve used, not the grown one); so the
   stationarity transfer of C05_al_kkt is exact for the next iterate unless a bound is active *)
Theorem C05_al_update_clamped : forall P s e,
  let c := o_core s in
  let s' := alo_step exact_rops P s e in
  s_stopped (o_core s') = false ->
  s_lambda (o_core s') = map (fun v => qmin (qmax v (p_lmin P)) (p_lmax P)) (next_lambda (s_ro c) (s_lambda c) (e_ceq e)) /\
  Forall2 Qeq (s_miu (o_core s')) (map (fun v => qmin v (p_miu_max P)) (next_miu (s_ro c) (s_miu c) (e_cineq e))) /\
  (s_outer (o_core s') = s_outer c + 1)%Z.
Proof. exact al_update_clamped. Qed.
Print Assumptions C05_al_update_clamped.

(* non-vacuity: the step of C05_al_multipliers_nonvacuous goes on (and its un-clamped updates are 2, 2) *)
Example C05_al_update_clamped_nonvacuous :
  let P := mkparams (1 # 10) (1 # 2) 10 1 (-1) 1 100 in
  let s := alo_init exact_rops 1 [0] [1] [2] in
  let e := mkevent [7] [5] [5] true false true in
  s_stopped (o_core (alo_step exact_rops P s e)) = false /\
  Forall2 Qeq (next_lambda (s_ro (o_core s)) (s_lambda (o_core s)) (e_ceq e)) [2] /\
  Forall2 Qeq (next_miu (s_ro (o_core s)) (s_miu (o_core s)) (e_cineq e)) [2].
Proof. vm_compute. repeat split; repeat constructor. Qed.
