(* C05 -- Penalty / augmented-Lagrangian functions match their definitions; `converged` of the augmented-Lagrangian
   solver implies feasibility. Only statements + `exact` + Print Assumptions live here.
   Model: C05_Defs (imports the decision kernels translated from src/function/penalty.cpp, src/function/constraint.cpp,
   src/solver/augmented.cpp and src/solver.cpp on every run). Arithmetic is over exact rationals. *)
From Coq Require Import List ZArith QArith Bool.
From LN Require Import C05_Defs C05_Proofs.
Import ListNotations.
Local Open Scope Q_scope.

(* ---- the augmented-Lagrangian outer loop ---------------------------------------------------------------
   For every instantiation R of the rounded operations that keeps signs (IEEE round-to-nearest does), every
   parameter set the solver accepts (gamma > 1, miu_max >= 0), every starting state and EVERY sequence of
   inner-solver results (oracle history: points, constraint values, validity flags, the dx-convergence flag):
   if the loop ends with status `converged` then every |h_j| <= eps and every max(g_i, 0) <= eps for the
   constraint values stored in the returned state, and the returned (x, ceq, cineq) is the initial one or exactly
   what one of the inner runs delivered. *)
Theorem C05_al_feasible : forall R P x0 ceq0 cineq0 ro0 es,
  rops_ok R -> params_ok P -> 0 < ro0 ->
  Forall (fun e => length (e_cineq e) = length cineq0) es ->
  let s := al_run R P (al_init R x0 ceq0 cineq0 ro0) es in
  (s_status s = Converged ->
     Forall (fun h => qabs h <= p_eps P) (s_ceq s) /\ Forall (fun g => qmax g 0 <= p_eps P) (s_cineq s)) /\
  ((s_x s, s_ceq s, s_cineq s) = (x0, ceq0, cineq0) \/
   In (s_x s, s_ceq s, s_cineq s) (map (fun e => (e_x e, e_ceq e, e_cineq e)) es)).
Proof. exact al_feasible. Qed.
Print Assumptions C05_al_feasible.

(* non-vacuity: exact arithmetic satisfies the hypotheses on R; a two-iteration history in which the converging
   iteration does NOT improve the criterion (so the best state is not updated) still ends `converged` *)
Example C05_al_nonvacuous_rops : rops_ok exact_rops.
Proof. exact exact_rops_ok. Qed.
Example C05_al_nonvacuous_run :
  let P := mkparams (1 # 10) (1 # 2) 10 100 (-100) 100 100 in
  let e1 := mkevent [1 # 20] [1 # 20] [-1] true false true in
  let e2 := mkevent [1 # 16] [1 # 16] [-1] true true true in
  let s := al_run exact_rops P (al_init exact_rops [1] [1] [-1] 1) [e1; e2] in
  params_ok P /\ s_status s = Converged /\ s_x s = [1 # 20] /\ s_stopped s = true.
Proof. vm_compute. repeat split; intro H; discriminate H. Qed.
