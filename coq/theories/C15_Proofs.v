(* C15 -- proofs about the codec model of C15_Defs.v *)
From Coq Require Import List ZArith NArith Bool Lia Arith.
From LNGen Require Import Src_stream.
From LN Require Import C15_Defs.
Import ListNotations.
Local Open Scope N_scope.

Definition strict_prefix (p s : bytes) : Prop := exists q, q <> [] /\ s = p ++ q.

(* ---- lists --------------------------------------------------------------------------------------------------- *)
Lemma app_split {A} (p q a b : list A) :
  p ++ q = a ++ b ->
  (exists t, t <> [] /\ a = p ++ t /\ q = t ++ b) \/ (exists t, p = a ++ t /\ b = t ++ q).
Proof.
  revert a. induction p as [|x p IH]; intros a H; cbn in H.
  - destruct a as [|y a].
    + right. exists []. cbn in *. auto.
    + left. exists (y :: a). repeat split; [discriminate | assumption].
  - destruct a as [|y a].
    + right. exists (x :: p). cbn in *. auto.
    + cbn in H. injection H as -> H. destruct (IH _ H) as [(t & Ht & -> & ->)|(t & -> & ->)].
      * left. exists t. auto.
      * right. exists t. auto.
Qed.

Lemma strict_prefix_app (p a b : bytes) :
  strict_prefix p (a ++ b) ->
  strict_prefix p a \/ (exists t, p = a ++ t /\ strict_prefix t b).
Proof.
  intros (q & Hq & H). symmetry in H. destruct (app_split _ _ _ _ H) as [(t & Ht & -> & _)|(t & -> & ->)].
  - left. exists t. auto.
  - right. exists t. split; [reflexivity|]. exists q. auto.
Qed.

Lemma strict_prefix_nil (p : bytes) : ~ strict_prefix p [].
Proof. intros (q & Hq & H). destruct p; destruct q; cbn in H; congruence. Qed.

Lemma strict_prefix_length (p s : bytes) : strict_prefix p s -> (length p < length s)%nat.
Proof. intros (q & Hq & ->). rewrite app_length. destruct q; [congruence|cbn; lia]. Qed.

(* ---- primitive readers --------------------------------------------------------------------------------------- *)
Lemma at_least_spec (bs : bytes) (n : N) : at_least bs n = (n <=? N.of_nat (length bs)).
Proof.
  revert n. induction bs as [|b r IH]; intros n; cbn [at_least length].
  - destruct (N.eqb_spec n 0) as [->|H]; [reflexivity|]. symmetry. apply N.leb_gt. lia.
  - destruct (N.eqb_spec n 0) as [->|H]; [reflexivity|]. rewrite IH.
    destruct (N.leb_spec (N.pred n) (N.of_nat (length r))); destruct (N.leb_spec n (N.of_nat (S (length r)))); lia.
Qed.

Lemma short_spec (bs : bytes) (n : N) : short bs n = (N.of_nat (length bs) <? n).
Proof. unfold short. rewrite at_least_spec. rewrite N.ltb_antisym. reflexivity. Qed.

Lemma take_app (k : nat) (h r : bytes) : length h = k -> take k (h ++ r) = Some (h, r).
Proof.
  revert h. induction k as [|k IH]; intros h H.
  - destruct h; [reflexivity|discriminate].
  - destruct h as [|b h]; [discriminate|]. cbn. rewrite IH; [reflexivity|]. cbn in H. lia.
Qed.

Lemma take_short (k : nat) (p : bytes) : (length p < k)%nat -> take k p = None.
Proof.
  revert p. induction k as [|k IH]; intros p H; [lia|].
  destruct p as [|b p]; [reflexivity|]. cbn. rewrite IH; [reflexivity|]. cbn in H. lia.
Qed.

Lemma take_some (k : nat) (bs h r : bytes) : take k bs = Some (h, r) -> bs = h ++ r /\ length h = k.
Proof.
  revert bs h r. induction k as [|k IH]; intros bs h r H; cbn in H.
  - injection H as <- <-. auto.
  - destruct bs as [|b bs]; [discriminate|]. destruct (take k bs) as [[h' r']|] eqn:E; [|discriminate].
    injection H as <- <-. destruct (IH _ _ _ E) as [-> <-]. auto.
Qed.

Lemma le_enc_length (k : nat) (n : N) : length (le_enc k n) = k.
Proof. revert n. induction k as [|k IH]; intros n; cbn; [reflexivity|]. rewrite IH. reflexivity. Qed.

Lemma le_dec_enc (k : nat) (n : N) : n < 256 ^ N.of_nat k -> le_dec (le_enc k n) = n.
Proof.
  revert n. induction k as [|k IH]; intros n H.
  - cbn in *. lia.
  - cbn [le_enc le_dec]. rewrite IH.
    + pose proof (N.div_mod n 256). lia.
    + rewrite Nat2N.inj_succ, N.pow_succ_r' in H. apply N.div_lt_upper_bound; lia.
Qed.

Lemma le_enc_dec (h : bytes) : Forall (fun b => b < 256) h -> le_enc (length h) (le_dec h) = h.
Proof.
  induction h as [|b h IH]; intros H; [reflexivity|]. inversion H as [|? ? Hb Hh]; subst.
  cbn [length le_enc le_dec]. f_equal.
  - rewrite (N.mul_comm 256), N.mod_add by lia. apply N.mod_small. assumption.
  - rewrite (N.mul_comm 256), N.div_add by lia. rewrite N.div_small by assumption. cbn. auto.
Qed.

Lemma le_enc_nonempty (k : nat) (n : N) : (0 < k)%nat -> le_enc k n <> [].
Proof. destruct k; [lia|]. cbn. discriminate. Qed.

(* ---- the generic theorem: round trip ------------------------------------------------------------------------- *)
Lemma concat_nonempty_length (e : fmt) (l : list val) :
  Forall (fun x => wt e x /\ enc e x <> []) l -> (length l <= length (concat (map (enc e) l)))%nat.
Proof.
  induction 1 as [|x l [_ Hx] _ IH]; cbn; [lia|]. rewrite app_length.
  destruct (enc e x); [congruence|]. cbn. lia.
Qed.

Lemma rep_roundtrip (e : fmt) (l : list val) (rest : bytes) :
  (forall v r, wt e v -> dec e (enc e v ++ r) = Some (v, r)) ->
  Forall (fun x => wt e x /\ enc e x <> []) l ->
  rep_dec (dec e) (length l) (concat (map (enc e) l) ++ rest) = Some (l, rest).
Proof.
  intros He. induction 1 as [|x l [Hx _] _ IH]; cbn; [reflexivity|].
  rewrite <- app_assoc, (He _ _ Hx), IH. reflexivity.
Qed.

Theorem codec_roundtrip : forall f v rest, wt f v -> dec f (enc f v ++ rest) = Some (v, rest).
Proof.
  induction f as [| |k|n|a IHa b IHb|a IHa g IHg|n e IHe|a IHa p]; intros v rest H; cbn [wt] in H.
  - contradiction.
  - subst. reflexivity.
  - destruct H as (n & -> & Hn). cbn [enc dec]. rewrite take_app by apply le_enc_length.
    rewrite le_dec_enc by assumption. reflexivity.
  - destruct H as (b & -> & Hb). cbn [enc dec]. rewrite short_spec, app_length.
    destruct (N.ltb_spec (N.of_nat (length b + length rest)) n) as [Hlt|_]; [lia|].
    rewrite take_app by lia. reflexivity.
  - destruct H as (x & y & -> & Hx & Hy). cbn [enc dec]. rewrite <- app_assoc, (IHa _ _ Hx), (IHb _ _ Hy). reflexivity.
  - destruct H as (x & y & -> & Hx & Hy). cbn [enc dec]. rewrite <- app_assoc, (IHa _ _ Hx), (IHg _ _ _ Hy). reflexivity.
  - destruct H as (l & -> & Hn & Hl). cbn [enc dec]. rewrite short_spec, app_length.
    pose proof (concat_nonempty_length e l Hl) as Hlen.
    destruct (N.ltb_spec (N.of_nat (length (concat (map (enc e) l)) + length rest)) n) as [Hlt|_]; [lia|].
    replace (N.to_nat n) with (length l) by lia. rewrite (rep_roundtrip e l rest IHe Hl). reflexivity.
  - destruct H as (Hv & Hp). cbn [enc dec]. rewrite (IHa _ _ Hv), Hp. reflexivity.
Qed.

(* ---- the generic theorem: every strict prefix of a written stream is rejected -------------------------------- *)
Lemma rep_prefix (e : fmt) (l : list val) :
  (forall v r, wt e v -> dec e (enc e v ++ r) = Some (v, r)) ->
  (forall v p, wt e v -> strict_prefix p (enc e v) -> dec e p = None) ->
  Forall (fun x => wt e x /\ enc e x <> []) l ->
  forall p, strict_prefix p (concat (map (enc e) l)) -> rep_dec (dec e) (length l) p = None.
Proof.
  intros Hrt Hpre. induction 1 as [|x l [Hx _] _ IH]; intros p Hp; cbn in *.
  - exfalso. exact (strict_prefix_nil _ Hp).
  - destruct (strict_prefix_app _ _ _ Hp) as [H1|(t & -> & Ht)].
    + rewrite (Hpre _ _ Hx H1). reflexivity.
    + rewrite (Hrt _ _ Hx), (IH _ Ht). reflexivity.
Qed.

Theorem codec_prefix_rejected : forall f v p, wt f v -> strict_prefix p (enc f v) -> dec f p = None.
Proof.
  induction f as [| |k|n|a IHa b IHb|a IHa g IHg|n e IHe|a IHa q]; intros v p H Hp; cbn [wt] in H.
  - contradiction.
  - subst. exfalso. exact (strict_prefix_nil _ Hp).
  - destruct H as (n & -> & Hn). cbn [enc] in Hp. cbn [dec]. apply strict_prefix_length in Hp.
    rewrite le_enc_length in Hp. rewrite take_short by assumption. reflexivity.
  - destruct H as (b & -> & Hb). cbn [enc] in Hp. cbn [dec]. apply strict_prefix_length in Hp.
    rewrite short_spec. destruct (N.ltb_spec (N.of_nat (length p)) n) as [_|Hge]; [reflexivity|lia].
  - destruct H as (x & y & -> & Hx & Hy). cbn [enc] in Hp. cbn [dec].
    destruct (strict_prefix_app _ _ _ Hp) as [H1|(t & -> & Ht)].
    + rewrite (IHa _ _ Hx H1). reflexivity.
    + rewrite (codec_roundtrip _ _ _ Hx), (IHb _ _ Hy Ht). reflexivity.
  - destruct H as (x & y & -> & Hx & Hy). cbn [enc] in Hp. cbn [dec].
    destruct (strict_prefix_app _ _ _ Hp) as [H1|(t & -> & Ht)].
    + rewrite (IHa _ _ Hx H1). reflexivity.
    + rewrite (codec_roundtrip _ _ _ Hx), (IHg _ _ _ Hy Ht). reflexivity.
  - destruct H as (l & -> & Hn & Hl). cbn [enc] in Hp. cbn [dec].
    destruct (short p n); [reflexivity|]. replace (N.to_nat n) with (length l) by lia.
    rewrite (rep_prefix e l (fun v r => codec_roundtrip e v r) IHe Hl p Hp). reflexivity.
  - destruct H as (Hv & Hq). cbn [dec].
    cbn [enc] in Hp. rewrite (IHa _ _ Hv Hp). reflexivity.
Qed.

(* ---- the generic theorem: whatever the reader accepts is the canonical encoding of what it returns ------------ *)
Definition is_byte (b : N) : Prop := b < 256.

Lemma rep_dec_enc (e : fmt) :
  (forall bs v r, Forall is_byte bs -> dec e bs = Some (v, r) -> bs = enc e v ++ r) ->
  forall k bs l r, Forall is_byte bs -> rep_dec (dec e) k bs = Some (l, r) ->
                   bs = concat (map (enc e) l) ++ r /\ length l = k.
Proof.
  intros He. induction k as [|k IH]; intros bs l r Hb H; cbn in H.
  - injection H as <- <-. auto.
  - destruct (dec e bs) as [[v t]|] eqn:E; [|discriminate].
    destruct (rep_dec (dec e) k t) as [[l' r']|] eqn:E'; [|discriminate]. injection H as <- <-.
    pose proof (He _ _ _ Hb E) as ->. apply Forall_app in Hb. destruct Hb as [_ Hb].
    destruct (IH _ _ _ Hb E') as [-> <-]. cbn. rewrite app_assoc. auto.
Qed.

Theorem codec_accept_exact : forall f bs v r, Forall is_byte bs -> dec f bs = Some (v, r) -> bs = enc f v ++ r.
Proof.
  induction f as [| |k|n|a IHa b IHb|a IHa g IHg|n e IHe|a IHa q]; intros bs v r Hb H; cbn [dec] in H.
  - discriminate.
  - injection H as <- <-. reflexivity.
  - destruct (take k bs) as [[h t]|] eqn:E; [|discriminate]. injection H as <- <-.
    destruct (take_some _ _ _ _ E) as [-> Hl]. cbn [enc]. apply Forall_app in Hb. destruct Hb as [Hh _].
    rewrite <- Hl, le_enc_dec by assumption. reflexivity.
  - destruct (short bs n); [discriminate|]. destruct (take (N.to_nat n) bs) as [[h t]|] eqn:E; [|discriminate].
    injection H as <- <-. destruct (take_some _ _ _ _ E) as [-> _]. reflexivity.
  - destruct (dec a bs) as [[x t]|] eqn:E; [|discriminate]. destruct (dec b t) as [[y t']|] eqn:E'; [|discriminate].
    injection H as <- <-. pose proof (IHa _ _ _ Hb E) as ->. apply Forall_app in Hb. destruct Hb as [_ Hb].
    pose proof (IHb _ _ _ Hb E') as ->. cbn [enc]. rewrite app_assoc. reflexivity.
  - destruct (dec a bs) as [[x t]|] eqn:E; [|discriminate]. destruct (dec (g x) t) as [[y t']|] eqn:E'; [|discriminate].
    injection H as <- <-. pose proof (IHa _ _ _ Hb E) as ->. apply Forall_app in Hb. destruct Hb as [_ Hb].
    pose proof (IHg _ _ _ _ Hb E') as ->. cbn [enc]. rewrite app_assoc. reflexivity.
  - destruct (short bs n); [discriminate|].
    destruct (rep_dec (dec e) (N.to_nat n) bs) as [[l t]|] eqn:E; [|discriminate]. injection H as <- <-.
    destruct (rep_dec_enc e IHe _ _ _ _ Hb E) as [-> _]. reflexivity.
  - destruct (dec a bs) as [[x t]|] eqn:E; [|discriminate]. destruct (q x); [|discriminate]. injection H as <- <-.
    pose proof (IHa _ _ _ Hb E) as ->. reflexivity.
Qed.

(* the filters of an accepted stream hold: exposed for the tensor format below *)
Lemma dec_filter (a : fmt) (q : val -> bool) (bs : bytes) (v : val) (r : bytes) :
  dec (F_filter a q) bs = Some (v, r) -> dec a bs = Some (v, r) /\ q v = true.
Proof.
  cbn [dec]. destruct (dec a bs) as [[x t]|]; [|discriminate]. destruct (q x) eqn:E; [|discriminate].
  intros H. injection H as <- <-. auto.
Qed.
