(* C16 -- executable model of the three tensor storages (include/nano/tensor/storage.h) and their conversions.
   A heap is a list of buffers; a freed buffer stays in the list as None (so that a read through a stale pointer is visible).
   A storage is (kind, buffer, offset, dims): the contiguous range [off, off + size dims) of its buffer.
     KOwn  = tensor_vector_storage_t (owns its buffer, offset 0, resizable)
     KCMap = tensor_carray_storage_t (constant view), KMMap = tensor_marray_storage_t (mutable view)
   No proofs in this file. *)
From Coq Require Import List ZArith Bool.
From LN Require Import C16_Defs.
Import ListNotations.
Local Open Scope Z_scope.

Inductive skind := KOwn | KCMap | KMMap.
Record sto := mkSto { s_kind : skind; s_buf : nat; s_off : Z; s_dims : dims }.
Definition heap := list (option (list Z)).

Definition slice_list (l : list Z) (o n : Z) : list Z := firstn (Z.to_nat n) (skipn (Z.to_nat o) l).

(* what dereferencing data()[0 .. size) yields; None = the range is not inside a live buffer *)
Definition hread (h : heap) (s : sto) : option (list Z) :=
  match nth_error h (s_buf s) with
  | Some (Some b) =>
      if (0 <=? s_off s) && (0 <=? size (s_dims s)) && (s_off s + size (s_dims s) <=? Z.of_nat (length b))
      then Some (slice_list b (s_off s) (size (s_dims s))) else None
  | _ => None
  end.

Fixpoint set_nth {A} (n : nat) (v : A) (l : list A) : list A :=
  match n, l with
  | O, _ :: r => v :: r
  | S k, x :: r => x :: set_nth k v r
  | _, [] => []
  end.

(* overwrite [o, o + |v|) of a list *)
Definition splice (b : list Z) (o : Z) (v : list Z) : list Z :=
  firstn (Z.to_nat o) b ++ v ++ skipn (Z.to_nat o + length v) b.

(* tensor_vector_storage_t(const map&): a fresh buffer holding a copy of the viewed elements *)
Definition own_of (h : heap) (src : sto) : option (heap * sto) :=
  match hread h src with
  | Some d => Some (h ++ [Some d], mkSto KOwn (length h) 0 (s_dims src))
  | None => None
  end.

(* tensor_vector_storage_t::operator=(const map&) as the code does it:
     eigen_vector_t data = map_vector(other.data(), other.size());   -- copy FIRST
     _resize(other.dims()); std::swap(data, m_data);                 -- then the old buffer dies with `data` *)
Definition own_assign (h : heap) (dst src : sto) : option (heap * sto) :=
  match hread h src with
  | Some d => Some (set_nth (s_buf dst) None h ++ [Some d], mkSto KOwn (length h) 0 (s_dims src))
  | None => None
  end.

(* the variant that resizes (= frees and re-allocates) the destination before reading the source: `m_data.resize(size());
   m_data = map_vector(other.data(), other.size())` -- kept to state what goes wrong with it *)
Definition own_assign_resize_first (h : heap) (dst src : sto) : option (heap * sto) :=
  let h1 := set_nth (s_buf dst) None h in
  match hread h1 src with
  | Some d => Some (h1 ++ [Some d], mkSto KOwn (length h) 0 (s_dims src))
  | None => None
  end.

(* tensor_{c,m}array_storage_t(storage&): same pointer, same dims *)
Definition map_of (k : skind) (src : sto) : sto := mkSto k (s_buf src) (s_off src) (s_dims src).

(* first-axis slice of a view: tensor_t::slice(b, e) (offset and dims from the translated kernels of C16_Defs) *)
Definition slice_of (k : skind) (src : sto) (b e : Z) : sto :=
  let v := view_slice (s_dims src) b e in mkSto k (s_buf src) (s_off src + fst v) (snd v).

(* tensor_marray_storage_t::operator=(const storage&): copy(other) -- assert(size() == other.size());
   map_vector(m_data, size()) = map_vector(other.data(), other.size()) *)
Definition map_assign (h : heap) (dst src : sto) : option heap :=
  match hread h src, hread h dst, nth_error h (s_buf dst) with
  | Some d, Some old, Some (Some b) =>
      if Nat.eqb (length d) (length old) then Some (set_nth (s_buf dst) (Some (splice b (s_off dst) d)) h) else None
  | _, _, _ => None
  end.

(* ranges of two storages do not overlap (or live in different buffers) *)
Definition disjointb (a b : sto) : bool :=
  negb (Nat.eqb (s_buf a) (s_buf b)) || (s_off a + size (s_dims a) <=? s_off b) || (s_off b + size (s_dims b) <=? s_off a).

(* ---- a tiny script interpreter for the correspondence: an environment of storages over one heap ---------------- *)
Inductive sop :=
| SOwnOf (dst src : nat)                    (* env[dst] := tensor(env[src])              (constructor)  *)
| SOwnAssign (dst src : nat)                (* env[dst] = env[src]                       (owning = view) *)
| SMapOf (dst src : nat) (mut : bool)       (* env[dst] := (c)map(env[src])                              *)
| SSlice (dst src : nat) (mut : bool) (b e : Z)
| SMapAssign (dst src : nat).               (* env[dst] = env[src]                       (mutable view = any) *)

Definition kind_of (mut : bool) := if mut then KMMap else KCMap.

Definition sstep (st : heap * list sto) (o : sop) : option (heap * list sto) :=
  let '(h, env) := st in
  let get i := nth_error env i in
  match o with
  | SOwnOf d s => match get s with
                  | Some x => match own_of h x with Some (h', t) => Some (h', set_nth d t env) | None => None end
                  | None => None end
  | SOwnAssign d s => match get d, get s with
                      | Some y, Some x => match s_kind y with
                                          | KOwn => match own_assign h y x with Some (h', t) => Some (h', set_nth d t env) | None => None end
                                          | _ => None end
                      | _, _ => None end
  | SMapOf d s mut => match get s with Some x => Some (h, set_nth d (map_of (kind_of mut) x) env) | None => None end
  | SSlice d s mut b e => match get s with
                          | Some x => if slice_validb (s_dims x) b e then Some (h, set_nth d (slice_of (kind_of mut) x b e) env) else None
                          | None => None end
  | SMapAssign d s => match get d, get s with
                      | Some y, Some x => match s_kind y with
                                          | KMMap => match map_assign h y x with Some h' => Some (h', env) | None => None end
                                          | _ => None end
                      | _, _ => None end
  end.

Fixpoint srun (st : heap * list sto) (ops : list sop) : option (heap * list sto) :=
  match ops with
  | [] => Some st
  | o :: r => match sstep st o with Some st' => srun st' r | None => None end
  end.

(* contents of every storage of the environment (None for a dangling one) *)
Definition sdump (st : heap * list sto) : list (option (list Z)) := map (hread (fst st)) (snd st).
