(* extraction of the executable C18 model (ExtrOcamlBasic only; Z / nat stay the extracted inductives) *)
From Coq Require Import List ZArith Extraction ExtrOcamlBasic.
From LN Require Import C17_Defs C18_Defs.
Extraction Language OCaml.
Extraction "extracted/c18_model.ml" conflictb pairwise_free task_fp obs_fp overlaps_free time_overlap tnum_in_range
  loop_inline loop_chunks select_chunk index_of count_of pool_size worker_ids
  tune_fp tobs_fp tune_index tune_decodes tune_overlaps_free tune_batch_inline tune_slot closest_okb tune_add_fp
  user_fp user_fps private_of clones_in_place bins sum_reduce zsum fit_select caches best min_reduce
  solo exec finished_prog.
