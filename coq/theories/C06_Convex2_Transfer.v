(* C06 extension -- Q2R transfer for the objects of C06_Convex2_Defs.v: Q2R (obj Qops q) = obj Rops (map Q2R q), so that the theorems of
   C06_Convex2.v (about Rops) apply verbatim to what the driver evaluates with the extracted Qops instance on the doubles of the library.
   Not covered: hilbert / gram1 / design / lin_cw (parameter builders made of o_ofQ constants, 0 and 1), maxquad. *)
From Coq Require Import ZArith QArith Qreals List Bool Reals Lra Lia.
From LN Require Import C06_Defs C06_Convex2_Defs C06_Transfer.
Import ListNotations.
Local Open Scope R_scope.
Notation QRR := (map (map Q2R)).

Lemma h_zeros : forall n, QR (zeros Qops n) = zeros Rops n.
Proof. induction n as [|n IH]; [reflexivity|]. unfold zeros in *. cbn [repeat map]. rewrite IH, h_zero. reflexivity. Qed.
Lemma h_mv : forall A x, QR (mv Qops A x) = mv Rops (QRR A) (QR x).
Proof. intros. unfold mv. rewrite !map_map. apply map_ext. intro r. apply h_dot. Qed.
Lemma h_mtv : forall n A y, QR (mtv Qops n A y) = mtv Rops n (QRR A) (QR y).
Proof.
  intros n. induction A as [|r A IH]; intros y; [apply h_zeros|]. destruct y as [|v y]; [apply h_zeros|].
  cbn [mtv map]. rewrite h_vadd, h_vscale, IH. reflexivity.
Qed.
Lemma h_quad_v : forall a A x, Q2R (quad_v Qops a A x) = quad_v Rops (QR a) (QRR A) (QR x).
Proof. intros. unfold quad_v. rewrite h_dot, h_vadd, h_vscale, h_mv, h_half. reflexivity. Qed.
Lemma h_quad_g : forall a A x, QR (quad_g Qops a A x) = quad_g Rops (QR a) (QRR A) (QR x).
Proof. intros. unfold quad_g. rewrite h_vadd, h_mv. reflexivity. Qed.
Lemma h_cq_v : forall P q r x, Q2R (cq_v Qops P q r x) = cq_v Rops (QRR P) (QR q) (Q2R r) (QR x).
Proof. intros. unfold cq_v. hom. rewrite !h_dot, h_mv. reflexivity. Qed.
Lemma h_cq_g : forall P q x, QR (cq_g Qops P q x) = cq_g Rops (QRR P) (QR q) (QR x).
Proof. intros. unfold cq_g. rewrite h_vadd, h_vscale, h_vadd, h_mv, h_mtv, h_half, map_length. reflexivity. Qed.
Lemma h_wreg_v : forall a1 a2 cw x, Q2R (wreg_v Qops a1 a2 cw x) = wreg_v Rops (Q2R a1) (Q2R a2) (QR cw) (QR x).
Proof. intros. unfold wreg_v. apply h_sum2. intros. now homs. Qed.
Lemma h_wreg_g : forall a1 a2 cw x, QR (wreg_g Qops a1 a2 cw x) = wreg_g Rops (Q2R a1) (Q2R a2) (QR cw) (QR x).
Proof. intros. unfold wreg_g. apply h_map2. intros. now homs. Qed.
Lemma h_pospart : forall l, Q2R (pospart Qops l) = pospart Rops (Q2R l).
Proof. intros. unfold pospart. hom. reflexivity. Qed.
Lemma h_maxval : forall v, Q2R (maxval Qops v) = maxval Rops (QR v).
Proof. intros. unfold maxval. now rewrite h_nth, h_argmax. Qed.
Lemma h_maxabs_v : forall A x, Q2R (maxabs_v Qops A x) = maxabs_v Rops (QRR A) (QR x).
Proof. intros. unfold maxabs_v. rewrite h_maxval, (h_map (pabs Qops) (pabs Rops) h_pabs), h_mv. reflexivity. Qed.
Lemma h_nth_row : forall i (A : list (list Q)), QR (nth i A []) = nth i (QRR A) [].
Proof. induction i as [|i IH]; intros [|r A]; simpl; auto. Qed.
Lemma h_maxabs_g : forall A x, QR (maxabs_g Qops A x) = maxabs_g Rops (QRR A) (QR x).
Proof.
  intros. unfold maxabs_g. cbv zeta. rewrite h_vscale, h_nth_row, h_argmax, (h_map (pabs Qops) (pabs Rops) h_pabs), h_mv.
  f_equal. hom. rewrite h_dot, h_nth_row. reflexivity.
Qed.
Lemma h_kinks_v : forall K off x, Q2R (kinks_v Qops K off x) = kinks_v Rops (QRR K) (Q2R off) (QR x).
Proof.
  intros. unfold kinks_v. rewrite h_sub, h_total. f_equal. f_equal. rewrite !map_map. apply map_ext. intro r.
  apply (h_loss_v (k_mae_v Qops) (k_mae_v Rops) h_mae_v).
Qed.
Lemma h_kinks_g : forall K x, QR (kinks_g Qops K x) = kinks_g Rops (QRR K) (QR x).
Proof.
  intros K x. unfold kinks_g. rewrite map_length. induction K as [|r K IH]; [apply h_zeros|].
  cbn [fold_right map]. rewrite h_vadd, IH, (h_loss_g (k_mae_g Qops) (k_mae_g Rops) h_mae_g). reflexivity.
Qed.

Definition QRs (s : list Q * list (list Q) * list Q) : list R * list (list R) * list R :=
  (QR (fst (fst s)), QRR (snd (fst s)), QR (snd s)).
Lemma h_inv_nat : forall n, Q2R (inv_nat Qops n) = inv_nat Rops n.
Proof. reflexivity. Qed.
Lemma h_sample_out : forall s x, QR (sample_out Qops s x) = sample_out Rops (QRs s) (QR x).
Proof. intros [[t M] c] x. unfold sample_out, QRs. cbn [fst snd]. rewrite h_vadd, h_mv. reflexivity. Qed.
Lemma h_erm_v : forall Lq Lr, (forall t o, Q2R (Lq t o) = Lr (QR t) (QR o)) ->
  forall data x, Q2R (erm_v Qops Lq data x) = erm_v Rops Lr (map QRs data) (QR x).
Proof.
  intros Lq Lr H data x. unfold erm_v. rewrite h_mul, h_total, map_length, h_inv_nat. f_equal. f_equal.
  rewrite !map_map. apply map_ext. intros [[t M] c]. rewrite H, h_sample_out. reflexivity.
Qed.
Lemma h_erm_g : forall Gq Gr, (forall t o, QR (Gq t o) = Gr (QR t) (QR o)) ->
  forall data x, QR (erm_g Qops Gq data x) = erm_g Rops Gr (map QRs data) (QR x).
Proof.
  intros Gq Gr H data x. unfold erm_g. rewrite h_vscale, !map_length, h_inv_nat. f_equal.
  induction data as [|[[t M] c] data IH]; cbn [fold_right map]; [apply h_zeros|].
  rewrite h_vadd, IH, h_mtv, H, h_sample_out. reflexivity.
Qed.
Lemma h_lin_v : forall Lq Lr, (forall t o, Q2R (Lq t o) = Lr (QR t) (QR o)) ->
  forall data l1 l2 cw x, Q2R (lin_v Qops Lq data l1 l2 cw x) = lin_v Rops Lr (map QRs data) (Q2R l1) (Q2R l2) (QR cw) (QR x).
Proof. intros Lq Lr H data l1 l2 cw x. unfold lin_v. rewrite h_add, (h_erm_v Lq Lr H), h_wreg_v, !h_pospart. reflexivity. Qed.
Lemma h_lin_g : forall Gq Gr, (forall t o, QR (Gq t o) = Gr (QR t) (QR o)) ->
  forall data l1 l2 cw x, QR (lin_g Qops Gq data l1 l2 cw x) = lin_g Rops Gr (map QRs data) (Q2R l1) (Q2R l2) (QR cw) (QR x).
Proof. intros Gq Gr H data l1 l2 cw x. unfold lin_g. rewrite h_vadd, (h_erm_g Gq Gr H), h_wreg_g, !h_pospart. reflexivity. Qed.
Lemma h_ones : forall n, QR (repeat (o_one Qops) n) = repeat (o_one Rops) n.
Proof. induction n as [|n IH]; [reflexivity|]. cbn [repeat map]. rewrite IH, h_one. reflexivity. Qed.
Lemma h_enet_v : forall Lq Lr, (forall t o, Q2R (Lq t o) = Lr (QR t) (QR o)) ->
  forall data a1 a2 x, Q2R (enet_v Qops Lq data a1 a2 x) = enet_v Rops Lr (map QRs data) (Q2R a1) (Q2R a2) (QR x).
Proof. intros Lq Lr H data a1 a2 x. unfold enet_v. rewrite h_add, (h_erm_v Lq Lr H), h_wreg_v, h_ones, map_length. reflexivity. Qed.
Lemma h_enet_g : forall Gq Gr, (forall t o, QR (Gq t o) = Gr (QR t) (QR o)) ->
  forall data a1 a2 x, QR (enet_g Qops Gq data a1 a2 x) = enet_g Rops Gr (map QRs data) (Q2R a1) (Q2R a2) (QR x).
Proof. intros Gq Gr H data a1 a2 x. unfold enet_g. rewrite h_vadd, (h_erm_g Gq Gr H), h_wreg_g, h_ones, map_length. reflexivity. Qed.

Lemma model_transfer_ext :
  (forall A x, QR (mv Qops A x) = mv Rops (QRR A) (QR x)) /\ (forall n A y, QR (mtv Qops n A y) = mtv Rops n (QRR A) (QR y)) /\
  (forall a A x, Q2R (quad_v Qops a A x) = quad_v Rops (QR a) (QRR A) (QR x)) /\ (forall a A x, QR (quad_g Qops a A x) = quad_g Rops (QR a) (QRR A) (QR x)) /\
  (forall P q r x, Q2R (cq_v Qops P q r x) = cq_v Rops (QRR P) (QR q) (Q2R r) (QR x)) /\ (forall P q x, QR (cq_g Qops P q x) = cq_g Rops (QRR P) (QR q) (QR x)) /\
  (forall a1 a2 cw x, Q2R (wreg_v Qops a1 a2 cw x) = wreg_v Rops (Q2R a1) (Q2R a2) (QR cw) (QR x)) /\
  (forall a1 a2 cw x, QR (wreg_g Qops a1 a2 cw x) = wreg_g Rops (Q2R a1) (Q2R a2) (QR cw) (QR x)) /\
  (forall A x, Q2R (maxabs_v Qops A x) = maxabs_v Rops (QRR A) (QR x)) /\ (forall A x, QR (maxabs_g Qops A x) = maxabs_g Rops (QRR A) (QR x)) /\
  (forall K off x, Q2R (kinks_v Qops K off x) = kinks_v Rops (QRR K) (Q2R off) (QR x)) /\ (forall K x, QR (kinks_g Qops K x) = kinks_g Rops (QRR K) (QR x)) /\
  (forall Lq Lr, (forall t o, Q2R (Lq t o) = Lr (QR t) (QR o)) ->
     forall data l1 l2 cw x, Q2R (lin_v Qops Lq data l1 l2 cw x) = lin_v Rops Lr (map QRs data) (Q2R l1) (Q2R l2) (QR cw) (QR x)) /\
  (forall Gq Gr, (forall t o, QR (Gq t o) = Gr (QR t) (QR o)) ->
     forall data l1 l2 cw x, QR (lin_g Qops Gq data l1 l2 cw x) = lin_g Rops Gr (map QRs data) (Q2R l1) (Q2R l2) (QR cw) (QR x)) /\
  (forall Lq Lr, (forall t o, Q2R (Lq t o) = Lr (QR t) (QR o)) ->
     forall data a1 a2 x, Q2R (enet_v Qops Lq data a1 a2 x) = enet_v Rops Lr (map QRs data) (Q2R a1) (Q2R a2) (QR x)) /\
  (forall Gq Gr, (forall t o, QR (Gq t o) = Gr (QR t) (QR o)) ->
     forall data a1 a2 x, QR (enet_g Qops Gq data a1 a2 x) = enet_g Rops Gr (map QRs data) (Q2R a1) (Q2R a2) (QR x)).
Proof.
  exact (conj h_mv (conj h_mtv (conj h_quad_v (conj h_quad_g (conj h_cq_v (conj h_cq_g (conj h_wreg_v (conj h_wreg_g (conj h_maxabs_v
        (conj h_maxabs_g (conj h_kinks_v (conj h_kinks_g (conj h_lin_v (conj h_lin_g (conj h_enet_v h_enet_g))))))))))))))).
Qed.
