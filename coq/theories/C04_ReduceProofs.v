(* C04 -- proofs about the model of program::reduce (C04_Reduce.v).

   Shape of the argument.  Let M = [A|b] (r x c), P M^T Q = L U the oracle's factorisation, n = min(r, c).
   Transposing, M = Q (U^T L^T P), i.e. row q_j of M is row j of U^T L^T P.  The code forms the first `rank` rows of that
   product: the reduced system consists of the rows q_0 .. q_{rank-1} of [A|b] themselves ([assemble_entry]).  Q does not
   appear in the product the code forms and need not: it only says WHICH row of [A|b] each row of U^T L^T P is, and a
   solution set does not depend on the order of the equations; what is used of Q is that it is a permutation of all r rows
   (every row of [A|b] is some q_j).  The remaining rows q_j, j >= rank, are implied: with y = L^T P z one has
   (M z)_{q_j} = sum_t U(t,j) y_t ([rowsum_as_Uy]); the first `rank` of these equations form a triangular system with
   non-zero pivots, so they force y_t = 0 for t < rank ([y_zero]), and rows rank.. of U vanish, so every (M z)_{q_j} is 0.
   Unit-lower-triangularity of L is not needed for the solution set (it is what makes the kept rows independent). *)
From Coq Require Import List ZArith QArith Bool Arith Lia Lqa Permutation.
From LNGen Require Import Src_c04.
From LN Require Import C04_Defs C04_Proofs C04_Reduce.
Import ListNotations.
Local Open Scope Q_scope.

(* ---- finite sums ---------------------------------------------------------------------------------------------------- *)
Lemma sumQ_app a b : sumQ (a ++ b) == sumQ a + sumQ b.
Proof. induction a as [|x a IH]; simpl; [ring | rewrite IH; ring]. Qed.

Lemma sum_upto_S n f : sum_upto (S n) f == sum_upto n f + f n.
Proof. unfold sum_upto. rewrite seq_S, map_app, sumQ_app. simpl. ring. Qed.

Lemma sum_upto_0 f : sum_upto 0 f == 0.
Proof. reflexivity. Qed.

Lemma sum_upto_ext n f g : (forall i, (i < n)%nat -> f i == g i) -> sum_upto n f == sum_upto n g.
Proof.
  induction n as [|n IH]; intros H; [reflexivity|].
  rewrite !sum_upto_S, IH, (H n) by (intros; try apply H; lia). reflexivity.
Qed.

Lemma sum_upto_zero n f : (forall i, (i < n)%nat -> f i == 0) -> sum_upto n f == 0.
Proof.
  induction n as [|n IH]; intros H; [reflexivity|].
  rewrite sum_upto_S, IH, (H n) by (intros; try apply H; lia). ring.
Qed.

Lemma sum_upto_plus n f g : sum_upto n (fun i => f i + g i) == sum_upto n f + sum_upto n g.
Proof. induction n as [|n IH]; [unfold sum_upto; simpl; ring|]. rewrite !sum_upto_S, IH. ring. Qed.

Lemma sum_upto_scale_l n a f : sum_upto n (fun i => a * f i) == a * sum_upto n f.
Proof. induction n as [|n IH]; [unfold sum_upto; simpl; ring|]. rewrite !sum_upto_S, IH. ring. Qed.

Lemma sum_upto_scale_r n a f : sum_upto n (fun i => f i * a) == sum_upto n f * a.
Proof. induction n as [|n IH]; [unfold sum_upto; simpl; ring|]. rewrite !sum_upto_S, IH. ring. Qed.

Lemma sum_upto_swap n m (f : nat -> nat -> Q) :
  sum_upto n (fun i => sum_upto m (fun j => f i j)) == sum_upto m (fun j => sum_upto n (fun i => f i j)).
Proof.
  induction n as [|n IH].
  - symmetry. apply sum_upto_zero. intros; reflexivity.
  - rewrite sum_upto_S, IH, <- sum_upto_plus. apply sum_upto_ext. intros j _. rewrite sum_upto_S. reflexivity.
Qed.

Lemma sum_upto_single n f i : (i < n)%nat -> (forall t, (t < n)%nat -> t <> i -> f t == 0) -> sum_upto n f == f i.
Proof.
  induction n as [|n IH]; intros Hi H; [lia|].
  rewrite sum_upto_S. destruct (Nat.eq_dec i n) as [->|Hne].
  - rewrite sum_upto_zero; [ring|]. intros t Ht. apply H; lia.
  - rewrite IH, (H n) by (intros; try apply H; lia). ring.
Qed.

Lemma sum_upto_shift n f : sum_upto (S n) f == f 0%nat + sum_upto n (fun i => f (S i)).
Proof. unfold sum_upto. simpl. rewrite <- seq_shift, map_map. reflexivity. Qed.

Lemma sumQ_map_perm (h : nat -> Q) l l' : Permutation l l' -> sumQ (map h l) == sumQ (map h l').
Proof.
  induction 1 as [|x l l' _ IH|x y l|l l' l'' _ IH1 _ IH2]; simpl.
  - reflexivity.
  - rewrite IH. reflexivity.
  - ring.
  - rewrite IH1. exact IH2.
Qed.

Lemma map_pidx_seq p : map (pidx p) (seq 0 (length p)) = p.
Proof.
  induction p as [|a p IH]; [reflexivity|].
  simpl length. simpl seq. simpl map. unfold pidx at 1. simpl. f_equal.
  rewrite <- seq_shift, map_map. exact IH.
Qed.

Lemma perm_length p n : Permutation p (seq 0 n) -> length p = n.
Proof. intros H. apply Permutation_length in H. rewrite seq_length in H. exact H. Qed.

Lemma sum_perm p n (h : nat -> Q) : Permutation p (seq 0 n) -> sum_upto n (fun k => h (pidx p k)) == sum_upto n h.
Proof.
  intros H. unfold sum_upto.
  rewrite <- (map_map (pidx p) h). rewrite <- (perm_length p n H) at 1. rewrite map_pidx_seq.
  apply sumQ_map_perm. exact H.
Qed.

Lemma perm_lt p n k : Permutation p (seq 0 n) -> (k < n)%nat -> (pidx p k < n)%nat.
Proof.
  intros H Hk. assert (In (pidx p k) (seq 0 n)) as Hin.
  { apply (Permutation_in _ H). unfold pidx. apply nth_In. rewrite (perm_length p n H). exact Hk. }
  apply in_seq in Hin. lia.
Qed.

Lemma perm_onto p n i : Permutation p (seq 0 n) -> (i < n)%nat -> exists k, (k < n)%nat /\ pidx p k = i.
Proof.
  intros H Hi. assert (In i p) as Hin.
  { apply (Permutation_in _ (Permutation_sym H)). apply in_seq. lia. }
  destruct (In_nth p i 0%nat Hin) as [k [Hk E]]. exists k. rewrite (perm_length p n H) in Hk. split; assumption.
Qed.

(* ---- lists as index functions --------------------------------------------------------------------------------------- *)
Lemma nth_nil_Q i : nth i (@nil Q) 0 = 0.
Proof. destruct i; reflexivity. Qed.

Lemma dot_sum : forall a b, dot a b == sum_upto (length a) (fun i => nth i a 0 * nth i b 0).
Proof.
  induction a as [|x a IH]; intros b; [reflexivity|].
  destruct b as [|y b].
  - simpl dot. symmetry. apply sum_upto_zero. intros i _. rewrite nth_nil_Q. ring.
  - simpl dot. simpl length. rewrite sum_upto_shift. simpl nth. rewrite IH. reflexivity.
Qed.

Lemma nth_map_seq {T} (g : nat -> T) n i d : (i < n)%nat -> nth i (map g (seq 0 n)) d = g i.
Proof.
  intros H. rewrite (nth_indep _ d (g 0%nat)) by (rewrite map_length, seq_length; exact H).
  rewrite map_nth, seq_nth by exact H. reflexivity.
Qed.

Lemma tab_entry r c f i j : (i < r)%nat -> (j < c)%nat -> entry (tab r c f) i j = f i j.
Proof. intros Hi Hj. unfold entry, tab. rewrite (nth_map_seq _ r i []) by exact Hi. apply nth_map_seq. exact Hj. Qed.

Definition shape (M : mat) (r c : nat) : Prop := length M = r /\ Forall (fun row => length row = c) M.

Lemma tab_shape r c f : shape (tab r c f) r c.
Proof.
  split; unfold tab; [rewrite map_length, seq_length; reflexivity|].
  apply Forall_forall. intros row Hin. apply in_map_iff in Hin. destruct Hin as [i [E _]]. subst row.
  rewrite map_length, seq_length. reflexivity.
Qed.

(* sum_col M(i, col) * z_col *)
Definition rowsum (M : mat) (c i : nat) (z : vec) : Q := sum_upto c (fun col => entry M i col * nth col z 0).

Lemma dot_row M r c i z : shape M r c -> (i < r)%nat -> dot (nth i M []) z == rowsum M c i z.
Proof.
  intros [Hl Hr] Hi. rewrite dot_sum. unfold rowsum, entry.
  assert (length (nth i M []) = c) as E.
  { rewrite Forall_forall in Hr. apply Hr. apply nth_In. lia. }
  rewrite E. reflexivity.
Qed.

(* the homogeneous form: every row of M is orthogonal to z (for M = [A|b] and z = (x, -1) this is A x = b) *)
Definition hom (M : mat) (z : vec) : Prop := Forall (fun row => dot row z == 0) M.

Lemma hom_iff M r c z : shape M r c -> (hom M z <-> forall i, (i < r)%nat -> rowsum M c i z == 0).
Proof.
  intros Hs. unfold hom. rewrite Forall_forall. split.
  - intros H i Hi. rewrite <- (dot_row M r c i z Hs Hi). apply H. apply nth_In. destruct Hs; lia.
  - intros H row Hin. destruct (In_nth M row [] Hin) as [i [Hi E]]. subst row.
    destruct Hs as [Hl Hr]. rewrite (dot_row M r c i z (conj Hl Hr)) by lia. apply H. lia.
Qed.

(* ---- what "the oracle's answer is a factorisation" means ------------------------------------------------------------- *)
Record lu_valid (M : mat) (r c : nat) (f : lufact) : Prop := mkValid {
  lv_p : Permutation (lu_p f) (seq 0 c);                     (* P is a permutation of the c rows of M^T *)
  lv_q : Permutation (lu_q f) (seq 0 r);                     (* Q is a permutation of the r columns of M^T (rows of M) *)
  lv_rank : (lu_rank f <= inner_dim r c)%nat;
  lv_fact : forall k j, (k < c)%nat -> (j < r)%nat -> pmq_entry M f k j == lu_entry (inner_dim r c) f k j;   (* P M^T Q = L U *)
  lv_Uzero : forall t j, (t < inner_dim r c)%nat -> (j < r)%nat -> (lu_rank f <= t)%nat -> entry (lu_U f) t j == 0;
  lv_Uupper : forall t j, (t < inner_dim r c)%nat -> (j < r)%nat -> (j < t)%nat -> entry (lu_U f) t j == 0;
  lv_Udiag : forall t, (t < lu_rank f)%nat -> ~ entry (lu_U f) t t == 0;
  lv_Lunit : forall k, (k < c)%nat -> (k < inner_dim r c)%nat -> entry (lu_L f) k k == 1;
  lv_Llower : forall k t, (k < c)%nat -> (t < inner_dim r c)%nat -> (k < t)%nat -> entry (lu_L f) k t == 0 }.

Lemma inner_dim_min r c : inner_dim r c = Nat.min r c.
Proof. unfold inner_dim, src_c04_reduce_n. rewrite Z2Nat.inj_min, !Nat2Z.id. reflexivity. Qed.

Lemma u_rows_eq r c : u_rows r c = inner_dim r c.
Proof. unfold u_rows, src_c04_reduce_urows. apply Nat2Z.id. Qed.

Lemma l_cols_eq r c : l_cols r c = inner_dim r c.
Proof. unfold l_cols, src_c04_reduce_lcols. apply Nat2Z.id. Qed.

(* the early return and the assembled product, with the translated integer expressions evaluated *)
Lemma reduce_sys_full M r c f : lu_rank f = r -> reduce_sys M r c f = M.
Proof. intros E. unfold reduce_sys, src_c04_reduce_full_rank. rewrite E, Z.eqb_refl. reflexivity. Qed.

Lemma reduce_sys_else M r c f : lu_rank f <> r ->
  reduce_sys M r c f = assemble c f 0 0 (lu_rank f) (inner_dim r c).
Proof.
  intros E. unfold reduce_sys, src_c04_reduce_full_rank.
  destruct (Z.eqb_spec (Z.of_nat (lu_rank f)) (Z.of_nat r)) as [H|_]; [apply Nat2Z.inj in H; contradiction|].
  unfold src_c04_reduce_block_r0, src_c04_reduce_block_c0, src_c04_reduce_block_rows, src_c04_reduce_block_cols.
  rewrite !Nat2Z.id, u_rows_eq. reflexivity.
Qed.

Section Reduce.
  Variables (M : mat) (r c : nat) (f : lufact).
  Hypothesis Hshape : shape M r c.
  Hypothesis Hv : lu_valid M r c f.

  Let n := inner_dim r c.
  Let rk := lu_rank f.

  Lemma rk_le_r : (rk <= r)%nat.
  Proof. pose proof (lv_rank _ _ _ _ Hv) as H. rewrite inner_dim_min in H. unfold rk. lia. Qed.

  Lemma n_le_r : (n <= r)%nat.
  Proof. unfold n. rewrite inner_dim_min. lia. Qed.

  (* the assembled product consists of the rows q_0 .. q_{rank-1} of M *)
  Lemma assemble_entry i col : (i < rk)%nat -> (col < c)%nat ->
    entry (assemble c f 0 0 rk n) i col == entry M (pidx (lu_q f) i) col.
  Proof.
    intros Hi Hc. unfold assemble. rewrite tab_entry by assumption.
    assert (i < r)%nat as Hir by (pose proof rk_le_r; lia).
    pose (h := fun j : nat => entry M (pidx (lu_q f) i) j * (if Nat.eqb j col then 1 else 0)).
    transitivity (sum_upto c (fun k => h (pidx (lu_p f) k))).
    - apply sum_upto_ext. intros k Hk. unfold h, pmat_entry.
      assert (ul_entry f 0 0 n i k == entry M (pidx (lu_q f) i) (pidx (lu_p f) k)) as E.
      { pose proof (lv_fact _ _ _ _ Hv k i Hk Hir) as F. unfold pmq_entry in F. rewrite F.
        unfold ul_entry, lu_entry. fold n. apply sum_upto_ext. intros t _. simpl. ring. }
      rewrite E. reflexivity.
    - rewrite (sum_perm (lu_p f) c h (lv_p _ _ _ _ Hv)).
      rewrite (sum_upto_single c h col Hc).
      + unfold h. rewrite Nat.eqb_refl. ring.
      + intros t _ Hne. unfold h. destruct (Nat.eqb_spec t col) as [E|_]; [contradiction|ring].
  Qed.

  Variable z : vec.
  Let zp (k : nat) : Q := nth (pidx (lu_p f) k) z 0.
  Let y (t : nat) : Q := sum_upto c (fun k => entry (lu_L f) k t * zp k).       (* y = L^T P z *)
  Let S (j : nat) : Q := sum_upto n (fun t => entry (lu_U f) t j * y t).        (* (U^T y)_j *)

  Lemma rowsum_as_Uy j : (j < r)%nat -> rowsum M c (pidx (lu_q f) j) z == S j.
  Proof.
    intros Hj. unfold rowsum.
    rewrite <- (sum_perm (lu_p f) c (fun col => entry M (pidx (lu_q f) j) col * nth col z 0) (lv_p _ _ _ _ Hv)).
    rewrite (sum_upto_ext c _ (fun k => sum_upto n (fun t => entry (lu_L f) k t * entry (lu_U f) t j * zp k))).
    - rewrite sum_upto_swap. unfold S. apply sum_upto_ext. intros t _. unfold y.
      rewrite <- sum_upto_scale_l. apply sum_upto_ext. intros k _. ring.
    - intros k Hk. cbv beta. pose proof (lv_fact _ _ _ _ Hv k j Hk Hj) as F. unfold pmq_entry in F. rewrite F.
      unfold lu_entry. fold n. rewrite <- sum_upto_scale_r. apply sum_upto_ext. intros t _. unfold zp. ring.
  Qed.

  (* triangular system: the first rank equations force y_t = 0 for t < rank *)
  Lemma y_zero : (forall i, (i < rk)%nat -> S i == 0) -> forall t, (t < rk)%nat -> y t == 0.
  Proof.
    intros HS t. induction t as [t IH] using lt_wf_ind. intros Ht.
    assert (t < n)%nat as Htn by (pose proof (lv_rank _ _ _ _ Hv); unfold n, rk in *; lia).
    assert (t < r)%nat as Htr by (pose proof n_le_r; lia).
    pose proof (HS t Ht) as E. unfold S in E.
    rewrite (sum_upto_single n _ t Htn) in E.
    - destruct (Qmult_integral _ _ E) as [E0|E0]; [|exact E0].
      exfalso. exact (lv_Udiag _ _ _ _ Hv t Ht E0).
    - intros t' Ht' Hne. destruct (Nat.lt_ge_cases t' t) as [Hlt|Hge].
      + rewrite (IH t' Hlt) by lia. ring.
      + rewrite (lv_Uupper _ _ _ _ Hv t' t Ht' Htr) by lia. ring.
  Qed.

  Lemma S_zero : (forall t, (t < rk)%nat -> y t == 0) -> forall j, (j < r)%nat -> S j == 0.
  Proof.
    intros Hy j Hj. unfold S. apply sum_upto_zero. intros t Ht.
    destruct (Nat.lt_ge_cases t rk) as [Hlt|Hge].
    - rewrite (Hy t Hlt). ring.
    - rewrite (lv_Uzero _ _ _ _ Hv t j Ht Hj Hge). ring.
  Qed.

  Lemma reduce_hom_iff : hom M z <-> hom (reduce_sys M r c f) z.
  Proof.
    destruct (Nat.eq_dec (lu_rank f) r) as [E|E].
    - rewrite reduce_sys_full by exact E. reflexivity.
    - rewrite reduce_sys_else by exact E. fold n. fold rk.
      rewrite (hom_iff M r c z Hshape).
      rewrite (hom_iff (assemble c f 0 0 rk n) rk c z) by (unfold assemble; apply tab_shape).
      assert (forall i, (i < rk)%nat -> rowsum (assemble c f 0 0 rk n) c i z == rowsum M c (pidx (lu_q f) i) z) as Hrow.
      { intros i Hi. unfold rowsum. apply sum_upto_ext. intros col Hc. rewrite (assemble_entry i col Hi Hc). reflexivity. }
      split.
      + intros H i Hi. rewrite (Hrow i Hi). apply H. apply perm_lt; [exact (lv_q _ _ _ _ Hv)|]. pose proof rk_le_r. lia.
      + intros H i Hi.
        destruct (perm_onto (lu_q f) r i (lv_q _ _ _ _ Hv) Hi) as [j [Hj Ej]]. rewrite <- Ej.
        rewrite (rowsum_as_Uy j Hj). apply S_zero; [|exact Hj].
        apply y_zero. intros i' Hi'. assert (i' < r)%nat as Hi'r by (pose proof rk_le_r; lia).
        rewrite <- (rowsum_as_Uy i' Hi'r), <- (Hrow i' Hi'). apply H. exact Hi'.
  Qed.
End Reduce.

(* ---- the kept rows are linearly independent (this is where L unit lower triangular is used) -------------------------- *)
Definition rows_independent (M' : mat) (k c : nat) : Prop :=
  forall w : nat -> Q, (forall col, (col < c)%nat -> sum_upto k (fun i => w i * entry M' i col) == 0) ->
                       forall i, (i < k)%nat -> w i == 0.

Section Independent.
  Variables (M : mat) (r c : nat) (f : lufact).
  Hypothesis Hshape : shape M r c.
  Hypothesis Hv : lu_valid M r c f.

  Let n := inner_dim r c.
  Let rk := lu_rank f.

  Lemma assemble_rows_independent : rows_independent (assemble c f 0 0 rk n) rk c.
  Proof.
    intros w Hw.
    assert (rk <= n)%nat as Hrn by (exact (lv_rank _ _ _ _ Hv)).
    assert (n <= r)%nat as Hnr by (unfold n; rewrite inner_dim_min; lia).
    assert (n <= c)%nat as Hnc by (unfold n; rewrite inner_dim_min; lia).
    pose (g := fun t : nat => sum_upto rk (fun i => entry (lu_U f) t i * w i)).
    (* L g = 0 *)
    assert (forall k, (k < c)%nat -> sum_upto n (fun t => entry (lu_L f) k t * g t) == 0) as HLg.
    { intros k Hk.
      pose proof (Hw (pidx (lu_p f) k) (perm_lt _ _ _ (lv_p _ _ _ _ Hv) Hk)) as E. rewrite <- E.
      transitivity (sum_upto rk (fun i => sum_upto n (fun t => entry (lu_L f) k t * (entry (lu_U f) t i * w i)))).
      - rewrite sum_upto_swap. apply sum_upto_ext. intros t _. unfold g. rewrite <- sum_upto_scale_l. reflexivity.
      - apply sum_upto_ext. intros i Hi.
        pose proof (assemble_entry M r c f Hv i _ Hi (perm_lt _ _ _ (lv_p _ _ _ _ Hv) Hk)) as AE.
        change (lu_rank f) with rk in AE. change (inner_dim r c) with n in AE. rewrite AE.
        pose proof (lv_fact _ _ _ _ Hv k i Hk ltac:(lia)) as F. unfold pmq_entry in F. rewrite F.
        unfold lu_entry. fold n. rewrite <- sum_upto_scale_l. apply sum_upto_ext. intros t _. ring. }
    (* forward substitution with the unit lower triangular L: g = 0 *)
    assert (forall t, (t < n)%nat -> g t == 0) as Hg.
    { intros t. induction t as [t IH] using lt_wf_ind. intros Ht.
      pose proof (HLg t ltac:(lia)) as E.
      rewrite (sum_upto_single n _ t Ht) in E.
      - rewrite (lv_Lunit _ _ _ _ Hv t ltac:(lia) Ht) in E. rewrite <- E. ring.
      - intros t' Ht' Hne. destruct (Nat.lt_ge_cases t' t) as [Hlt|Hge].
        + rewrite (IH t' Hlt Ht'). ring.
        + rewrite (lv_Llower _ _ _ _ Hv t t' ltac:(lia) Ht' ltac:(lia)). ring. }
    (* back substitution with the non-zero pivots of U: w = 0 *)
    assert (forall d i, (rk - i = d)%nat -> (i < rk)%nat -> w i == 0) as Hback.
    { induction d as [d IH] using lt_wf_ind. intros i Ed Hi.
      pose proof (Hg i ltac:(lia)) as E. unfold g in E.
      rewrite (sum_upto_single rk _ i Hi) in E.
      - destruct (Qmult_integral _ _ E) as [E0|E0]; [|exact E0].
        exfalso. exact (lv_Udiag _ _ _ _ Hv i Hi E0).
      - intros i' Hi' Hne. destruct (Nat.lt_ge_cases i' i) as [Hlt|Hge].
        + rewrite (lv_Uupper _ _ _ _ Hv i i' ltac:(lia) ltac:(lia) Hlt). ring.
        + rewrite (IH (rk - i')%nat ltac:(lia) i' eq_refl Hi'). ring. }
    intros i Hi. exact (Hback (rk - i)%nat i eq_refl Hi).
  Qed.

  Lemma reduce_rows_independent : lu_rank f <> r -> rows_independent (reduce_sys M r c f) (lu_rank f) c.
  Proof. intros E. rewrite reduce_sys_else by exact E. exact assemble_rows_independent. Qed.
End Independent.

(* ---- A x = b as the homogeneous system of [A|b] ---------------------------------------------------------------------- *)
Definition sat (A : mat) (b x : vec) : Prop := Forall2 (fun row bi => dot row x == bi) A b.

Lemma dot_app : forall a x a' x', length a = length x -> dot (a ++ a') (x ++ x') == dot a x + dot a' x'.
Proof.
  induction a as [|t a IH]; intros x a' x' Hl; destruct x as [|s x]; simpl in Hl; try discriminate.
  - simpl. ring.
  - simpl. rewrite IH by lia. ring.
Qed.

Lemma row_eq_iff row t x : length row = length x -> (dot row x == t <-> dot (row ++ [t]) (x ++ [-(1)]) == 0).
Proof.
  intros Hl. rewrite dot_app by exact Hl. simpl. split; intros H.
  - rewrite H. ring.
  - assert (dot row x == dot row x + (t * -(1) + 0) + t) as E by ring. rewrite E, H. ring.
Qed.

Lemma sat_stack ncols : forall A b x, rows_ok ncols A -> length b = length A -> length x = ncols ->
  (sat A b x <-> hom (stack A b) (x ++ [-(1)])).
Proof.
  unfold sat, hom. induction A as [|row A IH]; intros b x Hr Hb Hx; destruct b as [|t b]; simpl in Hb; try discriminate.
  - simpl. split; constructor.
  - inversion Hr as [|? ? Hrow Hrest]; subst. simpl stack. split; intros H.
    + inversion H; subst. constructor.
      * apply (proj1 (row_eq_iff row t x Hrow)). assumption.
      * apply IH; [assumption | lia | reflexivity | assumption].
    + inversion H; subst. constructor.
      * apply (proj2 (row_eq_iff row t x Hrow)). assumption.
      * apply (IH b x); [assumption | lia | reflexivity | assumption].
Qed.

Lemma stack_shape ncols : forall A b, rows_ok ncols A -> length b = length A -> shape (stack A b) (length A) (Datatypes.S ncols).
Proof.
  induction A as [|row A IH]; intros b Hr Hb; destruct b as [|t b]; simpl in Hb; try discriminate.
  - split; [reflexivity | constructor].
  - inversion Hr as [|? ? Hrow Hrest]; subst. destruct (IH b Hrest) as [Hl Hf]; [lia|].
    split; simpl; [rewrite Hl; reflexivity|]. constructor; [rewrite app_length; simpl; lia | exact Hf].
Qed.

Lemma stack_cols_eq ncols : stack_cols ncols = Datatypes.S ncols.
Proof. unfold stack_cols, src_c04_reduce_stack_cols. lia. Qed.

Lemma split_idx_A ncols : Z.to_nat (src_c04_reduce_split_A (Z.of_nat (Datatypes.S ncols))) = ncols.
Proof. unfold src_c04_reduce_split_A. lia. Qed.

Lemma split_idx_b ncols : Z.to_nat (src_c04_reduce_split_b (Z.of_nat (Datatypes.S ncols))) = ncols.
Proof. unfold src_c04_reduce_split_b. lia. Qed.

Lemma row_split ncols (row : vec) : length row = Datatypes.S ncols -> row = firstn ncols row ++ [nth ncols row 0].
Proof.
  intros Hl. rewrite <- (firstn_skipn ncols row) at 1. f_equal.
  assert (length (skipn ncols row) = 1%nat) as E by (rewrite skipn_length; lia).
  rewrite <- (firstn_skipn ncols row) at 2. rewrite app_nth2 by (rewrite firstn_length; lia).
  rewrite firstn_length, Nat.min_l by lia. rewrite Nat.sub_diag.
  destruct (skipn ncols row) as [|t [|? ?]]; simpl in E; try discriminate. reflexivity.
Qed.

Lemma sat_split ncols : forall M' x, Forall (fun row => length row = Datatypes.S ncols) M' -> length x = ncols ->
  (sat (split_A (Datatypes.S ncols) M') (split_b (Datatypes.S ncols) M') x <-> hom M' (x ++ [-(1)])).
Proof.
  unfold sat, hom, split_A, split_b. intros M' x. rewrite split_idx_A, split_idx_b.
  induction M' as [|row M' IH]; intros Hr Hx.
  - simpl. split; constructor.
  - inversion Hr as [|? ? Hrow Hrest]; subst. simpl map.
    assert (length (firstn (length x) row) = length x) as Hf by (rewrite firstn_length; lia).
    split; intros H; inversion H; subst; constructor.
    + rewrite (row_split (length x) row Hrow). apply (proj1 (row_eq_iff _ _ x Hf)). assumption.
    + apply IH; [assumption | reflexivity | assumption].
    + apply (proj2 (row_eq_iff _ _ x Hf)). rewrite <- (row_split (length x) row Hrow). assumption.
    + apply IH; [assumption | reflexivity | assumption].
Qed.

Lemma reduce_sys_rows M r c f : shape M r c -> Forall (fun row => length row = c) (reduce_sys M r c f).
Proof.
  intros Hs. destruct (Nat.eq_dec (lu_rank f) r) as [E|E].
  - rewrite reduce_sys_full by exact E. apply Hs.
  - rewrite reduce_sys_else by exact E. unfold assemble. apply tab_shape.
Qed.

Lemma reduce_empty_false (A : mat) : length A <> 0%nat -> src_c04_reduce_empty (Z.of_nat (length A)) = false.
Proof. intros H. unfold src_c04_reduce_empty. apply Z.eqb_neq. lia. Qed.

(* ---- the theorems ---------------------------------------------------------------------------------------------------- *)
Definition reduced_A (A : mat) (b : vec) (ncols : nat) (f : lufact) : mat := fst (snd (reduce_model A b ncols f)).
Definition reduced_b (A : mat) (b : vec) (ncols : nat) (f : lufact) : vec := snd (snd (reduce_model A b ncols f)).

Lemma reduce_same_solutions A b ncols f :
  rows_ok ncols A -> length b = length A ->
  lu_valid (stack A b) (length A) (Datatypes.S ncols) f ->
  forall x, length x = ncols -> (sat A b x <-> sat (reduced_A A b ncols f) (reduced_b A b ncols f) x).
Proof.
  intros Hr Hb Hv x Hx. unfold reduced_A, reduced_b, reduce_model.
  destruct (Nat.eq_dec (length A) 0) as [E0|E0].
  - unfold src_c04_reduce_empty. rewrite E0. simpl. reflexivity.
  - rewrite reduce_empty_false by exact E0. rewrite stack_cols_eq. simpl fst. simpl snd.
    pose proof (stack_shape ncols A b Hr Hb) as Hs.
    rewrite (sat_stack ncols A b x Hr Hb Hx).
    rewrite (sat_split ncols _ x (reduce_sys_rows _ _ _ f Hs) Hx).
    apply reduce_hom_iff; assumption.
Qed.

Lemma reduce_inconsistent_preserved A b ncols f :
  rows_ok ncols A -> length b = length A ->
  lu_valid (stack A b) (length A) (Datatypes.S ncols) f ->
  (forall x, length x = ncols -> ~ sat A b x) ->
  forall x, length x = ncols -> ~ sat (reduced_A A b ncols f) (reduced_b A b ncols f) x.
Proof.
  intros Hr Hb Hv Hno x Hx H. apply (Hno x Hx). apply (reduce_same_solutions A b ncols f Hr Hb Hv x Hx). exact H.
Qed.

Lemma split_stack ncols : forall A b, rows_ok ncols A -> length b = length A ->
  split_A (Datatypes.S ncols) (stack A b) = A /\ split_b (Datatypes.S ncols) (stack A b) = b.
Proof.
  unfold split_A, split_b. rewrite split_idx_A, split_idx_b.
  induction A as [|row A IH]; intros b Hr Hb; destruct b as [|t b]; simpl in Hb; try discriminate.
  - split; reflexivity.
  - inversion Hr as [|? ? Hrow Hrest]; subst. destruct (IH b Hrest) as [EA Eb]; [lia|]. simpl. split; f_equal; try assumption.
    + rewrite firstn_app, Nat.sub_diag, firstn_all. simpl. apply app_nil_r.
    + rewrite app_nth2, Nat.sub_diag by lia. reflexivity.
Qed.

(* rank = rows: the early return leaves the system as it is *)
Lemma reduce_full_rank_identity A b ncols f :
  rows_ok ncols A -> length b = length A -> lu_rank f = length A ->
  reduce_model A b ncols f = (negb (Nat.eqb (length A) 0), (A, b)).
Proof.
  intros Hr Hb E. unfold reduce_model.
  destruct (Nat.eq_dec (length A) 0) as [E0|E0].
  - unfold src_c04_reduce_empty. rewrite E0. reflexivity.
  - rewrite reduce_empty_false by exact E0. rewrite stack_cols_eq, reduce_sys_full by exact E.
    destruct (split_stack ncols A b Hr Hb) as [EA Eb]. rewrite EA, Eb.
    destruct (Nat.eqb_spec (length A) 0); [contradiction | reflexivity].
Qed.

(* the reduced system has exactly `rank` rows (when rows were removed) *)
Lemma reduce_row_count A b ncols f : length A <> 0%nat -> lu_rank f <> length A ->
  length (reduced_A A b ncols f) = lu_rank f /\ length (reduced_b A b ncols f) = lu_rank f.
Proof.
  intros E0 E. unfold reduced_A, reduced_b, reduce_model. rewrite reduce_empty_false by exact E0. simpl.
  rewrite reduce_sys_else by exact E. unfold split_A, split_b, assemble, tab. rewrite !map_length, seq_length. split; reflexivity.
Qed.

(* ---- the executable validity test implies the hypothesis of the theorems --------------------------------------------- *)
Lemma forall_upto_spec n g : forall_upto n g = true <-> forall i, (i < n)%nat -> g i = true.
Proof.
  unfold forall_upto. rewrite forallb_forall. split.
  - intros H i Hi. apply H. apply in_seq. lia.
  - intros H i Hi. apply in_seq in Hi. apply H. lia.
Qed.

Lemma perm_b_sound p n : perm_b p n = true -> Permutation p (seq 0 n).
Proof.
  unfold perm_b. intros H. apply andb_prop in H. destruct H as [Hl Hc].
  apply Nat.eqb_eq in Hl. rewrite forall_upto_spec in Hc.
  apply Permutation_sym. apply NoDup_Permutation_bis.
  - apply seq_NoDup.
  - rewrite seq_length. lia.
  - intros j Hj. apply in_seq in Hj. destruct (proj1 (existsb_exists _ _) (Hc j ltac:(lia))) as [k [Hin Ek]].
    apply Nat.eqb_eq in Ek. subst k. exact Hin.
Qed.

Lemma lu_valid_b_sound M r c f : lu_valid_b M r c f = true -> lu_valid M r c f.
Proof.
  unfold lu_valid_b. intros H.
  apply andb_prop in H; destruct H as [H HL].
  apply andb_prop in H; destruct H as [H HD].
  apply andb_prop in H; destruct H as [H HU].
  apply andb_prop in H; destruct H as [H HF].
  apply andb_prop in H; destruct H as [H HR].
  apply andb_prop in H; destruct H as [HP HQ].
  pose proof (proj1 (forall_upto_spec _ _) HL) as HL'.
  pose proof (proj1 (forall_upto_spec _ _) HD) as HD'.
  pose proof (proj1 (forall_upto_spec _ _) HU) as HU'.
  pose proof (proj1 (forall_upto_spec _ _) HF) as HF'.
  constructor.
  - apply perm_b_sound; exact HP.
  - apply perm_b_sound; exact HQ.
  - apply Nat.leb_le; exact HR.
  - intros k j Hk Hj. pose proof (proj1 (forall_upto_spec _ _) (HF' k Hk) j Hj) as E. apply Qeq_bool_iff. exact E.
  - intros t j Ht Hj Hge. pose proof (proj1 (forall_upto_spec _ _) (HU' t Ht) j Hj) as E.
    apply andb_prop in E. destruct E as [Hz _]. destruct (Nat.leb_spec (lu_rank f) t); [apply Qeq_bool_iff; exact Hz | lia].
  - intros t j Ht Hj Hlt. pose proof (proj1 (forall_upto_spec _ _) (HU' t Ht) j Hj) as E.
    apply andb_prop in E. destruct E as [_ Hz]. destruct (Nat.ltb_spec j t); [apply Qeq_bool_iff; exact Hz | lia].
  - intros t Ht E. pose proof (HD' t Ht) as E'. apply negb_true_iff in E'. apply Qeq_bool_iff in E. congruence.
  - intros k Hk Hkn. pose proof (proj1 (forall_upto_spec _ _) (HL' k Hk) k Hkn) as E.
    apply andb_prop in E. destruct E as [Hz _]. rewrite Nat.eqb_refl in Hz. apply Qeq_bool_iff; exact Hz.
  - intros k t Hk Ht Hlt. pose proof (proj1 (forall_upto_spec _ _) (HL' k Hk) t Ht) as E.
    apply andb_prop in E. destruct E as [_ Hz]. destruct (Nat.ltb_spec k t); [apply Qeq_bool_iff; exact Hz | lia].
Qed.

Lemma shape_b_sound M r c : shape_b r c M = true -> shape M r c.
Proof.
  unfold shape_b. intros H. apply andb_prop in H. destruct H as [Hl Hr]. split.
  - apply Nat.eqb_eq; exact Hl.
  - rewrite forallb_forall in Hr. apply Forall_forall. intros row Hin. apply Nat.eqb_eq. apply Hr. exact Hin.
Qed.
