(* extraction of the executable C19 model (PrimFloat -> OCaml floats, Uint63 -> OCaml ints via coq-core.kernel);
   extension: the parameter table regenerated from the source (object_table / param_table; Coq strings -> char lists);
   third extension: the clone table (clone_table / class_table) and the table-driven clone of objects (src_oclone) *)
From Coq Require Import List ZArith Floats Extraction ExtrOcamlBasic ExtrOcamlString ExtrOCamlFloats ExtrOCamlInt63.
From LN Require Import C19_Defs C19_FactoryDefs C19_ClonesDefs.
Extraction Language OCaml.
Extraction "extracted/c19_model.ml" make step after run read_i64 read_f64 read_ip read_fp read_str read_enum
  natural_read convert domain_of stoll split_pair tokens f2i i2f trunc_f conv_i make_integer_d encode decode
  cregister cassign cread cstep crun cfound sclone sstep srun str_eqb
  object_table object_ops_table param_table use_table cbuild
  clone_table class_table src_oclone src_shaped default_obj.
