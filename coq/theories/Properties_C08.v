(* C08 -- All dataset views agree with the stored feature values, incl. missing ones.
   Only statements + `exact` + Print Assumptions live here. Model: C08_Defs (imports the kernels translated from
   mask.h, datasource.{h,cpp}, dataset.cpp and the generator headers on every run). *)
From Coq Require Import List ZArith Bool Lia.
From Coq Require Floats.
From LNGen Require Import Src_c08.
From LN Require Import C08_Defs C08_Proofs C08_Gradient C08_GradientProofs.
Import ListNotations.
Import PrimFloat.PrimFloatNotations.   (* notations only: the primitives print as PrimFloat.* in Print Assumptions *)
Local Open Scope Z_scope.

(* bit mask: setting the bit of sample i makes exactly that sample "given"; every sample < n addresses a byte inside
   the (n+7)/8 bytes of the row and a bit 0..7; the bytes stay bytes; a fresh mask has no sample given *)
Theorem C08_mask : forall n m i j,
  zlen m = src_mask_bytes n -> 0 <= i < n -> 0 <= j < n ->
  getbit (setbit m i) j = (i =? j) || getbit m j /\
  0 <= src_setbit_byte i < src_mask_bytes n /\ 0 <= src_getbit_byte j < src_mask_bytes n /\
  0 <= src_setbit_shift i <= 7 /\ 0 <= src_getbit_shift j <= 7 /\
  length (setbit m i) = length m /\
  (Forall (fun b => 0 <= b < 256) m -> Forall (fun b => 0 <= b < 256) (setbit m i)) /\
  getbit (mask_zero n) j = false.
Proof. exact t_mask. Qed.
Print Assumptions C08_mask.

(* storage layout chosen by resize(): every feature's row range has the feature's width, starts at >= 0, ends inside its
   pool's total, and the ranges of two features sharing a pool are disjoint (the earlier one ends before the later
   one begins); resize() and visit() pick the same pool *)
Theorem C08_storage_disjoint : forall fs rs tot,
  assign (repeat 0 npools) fs = (rs, tot) -> Forall (fun f => 0 <= width f) fs ->
  length rs = length fs /\
  (forall i f b e, nth_error fs i = Some f -> nth_error rs i = Some (b, e) ->
     0 <= b /\ e = b + width f /\ e <= nth (pool_idx (pool_resize f)) tot 0) /\
  (forall i j fi fj bi ei bj ej, (i < j)%nat ->
     nth_error fs i = Some fi -> nth_error fs j = Some fj ->
     nth_error rs i = Some (bi, ei) -> nth_error rs j = Some (bj, ej) ->
     pool_resize fi = pool_resize fj -> ei <= bj) /\
  (forall f, pool_visit f = pool_resize f).
Proof. exact t_storage_disjoint. Qed.
Print Assumptions C08_storage_disjoint.

(* one write: set-then-get returns the value, every other (feature, sample) cell and mask bit reads as before, and the
   layout invariant (all blocks in bounds, disjoint) is kept *)
Theorem C08_storage_set_get : forall st fi s vals st',
  layout_ok st -> 0 <= fi < zlen (s_feats st) -> 0 <= s < s_samples st ->
  ds_set st fi s vals = Some st' ->
  layout_ok st' /\ ds_get st' fi s = Some vals /\
  (forall fj sj, 0 <= fj < zlen (s_feats st) -> 0 <= sj < s_samples st -> (fj <> fi \/ sj <> s) ->
     ds_get st' fj sj = ds_get st fj sj).
Proof. exact t_storage_set_get. Qed.
Print Assumptions C08_storage_set_get.

(* any history of writes after resize(): every cell reads back the last value written to it, or "missing" *)
Theorem C08_storage_history : forall N fs t ws st,
  0 <= N -> Forall (fun f => 0 <= width f) fs -> writes_in_range (zlen fs) N ws ->
  run_sets (resize N fs t) ws = Some st ->
  forall fi s, 0 <= fi < zlen fs -> 0 <= s < N -> ds_get st fi s = last_write ws fi s.
Proof. exact s_storage_history. Qed.
Print Assumptions C08_storage_history.

(* the views agree: whatever the generator stack, the drop/shuffle flags, the sample and the previous (stale) contents
   of the row buffer, the flattened row is the concatenation, feature by feature, of the documented encoding
   (encode_view: one-hot +-1 with C-1 columns, 2*hit-1, row-major values, missing -> NaN) of the per-feature view *)
Theorem C08_views_agree : forall rd gs fl s r,
  gens_ok rd gs -> zlen r = columns gs ->
  flat_row rd gs fl s r =
  enc_gens (fun g f => encode_view (f_classes (g_desc g)) (select_view rd g f s)) gs fl.
Proof. exact s_views_agree. Qed.
Print Assumptions C08_views_agree.

(* the structural part of gens_ok holds for everything fit() builds: process()'s column size is update()'s *)
Theorem C08_fit_columns : forall st k ids1 ids2, Forall cols_ok (fit st k ids1 ids2).
Proof. exact fit_cols_ok. Qed.
Print Assumptions C08_fit_columns.

(* encoders, identity and product features, missing markers *)
Theorem C08_encoders : forall rd g fl s,
  (* dropped: every view is "missing" *)
  (is_dropped fl = true ->
     select_view rd g fl s = match f_type (g_desc g) with
                             | TSclass => VSclass (-1)
                             | TMclass => VMclass (zrepeat (-1) (f_classes (g_desc g)))
                             | _ => if fsize (g_desc g) =? 1 then VScalar None else VStruct (zrepeat None (fsize (g_desc g)))
                             end) /\
  (* identity: the stored value of the source at the (possibly permuted) sample; missing -> -1 / NaN *)
  (is_dropped fl = false -> g_kind g <> GProduct -> g_kind g <> GGradient ->
     select_view rd g fl s =
     match f_type (g_desc g), rd (g_o1 g) (eff_sample fl s) with
     | TSclass, Some v => VSclass (hd 0 v)        | TSclass, None => VSclass (-1)
     | TMclass, Some v => VMclass v               | TMclass, None => VMclass (zrepeat (-1) (f_classes (g_desc g)))
     | _, Some v => if fsize (g_desc g) =? 1 then VScalar (Some (hd 0 v)) else VStruct (map Some v)
     | _, None => if fsize (g_desc g) =? 1 then VScalar None else VStruct (zrepeat None (fsize (g_desc g)))
     end) /\
  (* product: the product of the two sources, missing as soon as one of them is *)
  (is_dropped fl = false -> g_kind g = GProduct -> g_desc g = f64 1 1 1 ->
     select_view rd g fl s =
     VScalar (match rd (g_o1 g) (eff_sample fl s), rd (g_o2 g) (eff_sample fl s) with
              | Some a, Some b => Some (hd 0 a * hd 0 b)
              | _, _ => None
              end)) /\
  (* one-hot with C-1 columns: +1 at the label, -1 elsewhere, the last class is all -1 *)
  (forall c l j, 0 <= l -> 0 <= j < c - 1 ->
     zlen (encode_view c (VSclass l)) = c - 1 /\
     znth j (encode_view c (VSclass l)) None = Some (if j =? l then 1 else -1)) /\
  (forall c, 1 <= c -> encode_view c (VSclass (-1)) = zrepeat None (c - 1)) /\
  (* multi-label: 2*hit-1 *)
  (forall c h, 0 <= hd 0 h -> encode_view c (VMclass h) = map (fun x => Some (2 * x - 1)) h) /\
  (forall c, encode_view c (VMclass (zrepeat (-1) c)) = zrepeat None c).
Proof. exact t_encoders. Qed.
Print Assumptions C08_encoders.

(* feature / column bookkeeping of dataset_t::update *)
Theorem C08_bookkeeping : forall gs,
  Forall (fun g => 0 <= dcols g) (all_feats gs) ->
  columns gs = zlen (column_mapping gs) /\
  columns gs = zsum (map dcols (all_feats gs)) /\
  features gs = zlen (feature_mapping gs) /\ features gs = zlen (all_feats gs) /\
  (forall f, 0 <= f < features gs -> locate gs 0 f = Some (znth f (feature_mapping gs) (0, 0))) /\
  (forall f i, 0 <= f < features gs ->
     0 <= i < dcols (znth f (all_feats gs) (mkG GScalar 0 0 dflt_feature 1)) ->
     column2feature gs (col_offset gs f + i) = f /\ 0 <= col_offset gs f + i < columns gs).
Proof. exact s_bookkeeping. Qed.
Print Assumptions C08_bookkeeping.

(* drop / shuffle histories: after any accepted history the flag of every feature is the one given by the last operation
   that addressed it since the last undo (so an operation on g changes exactly g), undrop/unshuffle restore the
   original state of every feature; a dropped feature reads as missing, a shuffled one through its permutation *)
Theorem C08_history : forall gs ops fl,
  run_ops gs (flags_init gs) ops = Some fl ->
  (forall f, 0 <= f < features gs -> flag_of gs fl f = spec_flag ops f) /\
  (forall f, spec_flag (ops ++ [OUndrop]) f = Normal /\ spec_flag (ops ++ [OUnshuffle]) f = Normal) /\
  (forall f g, f <> g -> spec_flag (ops ++ [ODrop g]) f = spec_flag ops f /\ spec_flag (ops ++ [ODrop g]) g = Dropped) /\
  (forall f g p, f <> g -> spec_flag (ops ++ [OShuffle g p]) f = spec_flag ops f /\
                           spec_flag (ops ++ [OShuffle g p]) g = Shuffled p) /\
  (forall p s, p <> [] -> eff_sample (Shuffled p) s = znth s p 0) /\
  (forall s, eff_sample Normal s = s).
Proof. exact t_history. Qed.
Print Assumptions C08_history.

(* out-of-range sample / feature indices are rejected before anything is read; accepted calls only carry valid indices *)
Theorem C08_range_rejected : forall rd n gs fl samples f st,
  (Exists (fun s => s < 0 \/ n <= s) samples ->
     flatten rd n gs fl samples = None /\ select rd n gs fl samples f = None) /\
  (Exists (fun s => s < 0 \/ s_samples st <= s) samples ->
     targets st samples = None /\ target_select st samples = None) /\
  (~ 0 <= f < features gs ->
     select rd n gs fl samples f = None /\ apply_op gs fl (ODrop f) = None /\
     forall p, apply_op gs fl (OShuffle f p) = None) /\
  (forall rows, flatten rd n gs fl samples = Some rows -> Forall (fun s => 0 <= s < n) samples) /\
  (forall vs, select rd n gs fl samples f = Some vs -> Forall (fun s => 0 <= s < n) samples /\ 0 <= f < features gs) /\
  (samples <> [] -> Forall (fun s => 0 <= s < n) samples -> flatten rd n gs fl samples <> None).
Proof. exact s_range_rejected. Qed.
Print Assumptions C08_range_rejected.

(* pairwise generators built from two feature lists (after repo fix: the stored index pair is never swapped): every
   generated feature combines an entry of the FIRST list with an entry of the SECOND list (so both row numbers are inside
   their mappings), and every unordered pair {a, b}, a in list 1, b in list 2, is generated *)
Theorem C08_pairwise_sources : forall (m1 m2 : list Z),
  (forall a b, In (a, b) (make_pairwise m1 m2) -> In a m1 /\ In b m2) /\
  (forall a b, In a m1 -> In b m2 ->
     exists a' b', In (a', b') (make_pairwise m1 m2) /\ Z.min a' b' = Z.min a b /\ Z.max a' b' = Z.max a b).
Proof.
  intros m1 m2. split; [intros a b; apply make_pairwise_sources | intros a b; apply make_pairwise_complete].
Qed.
Print Assumptions C08_pairwise_sources.

Example C08_nonvacuous_pairwise :
  make_pairwise [5; 2] [1] = [(2, 1); (5, 1)] /\ make_pairwise [5; 6] [6; 7] = [(5, 6); (5, 7); (6, 6); (6, 7)] /\
  make_pairwise [5; 2] [5; 2] = [(2, 2); (5, 2); (5, 5)].
Proof. vm_compute. repeat split; reflexivity. Qed.

(* accepted reads stay inside the pool: the cell of a valid (feature, sample) lies inside the feature's block *)
Theorem C08_reads_in_bounds : forall st fj sj,
  layout_ok st -> 0 <= fj < zlen (s_feats st) -> 0 <= sj < s_samples st ->
  let g := znth fj (s_feats st) dflt_feature in
  0 <= cell_addr st fj sj /\
  cell_addr st fj sj + width g <= zlen (nth (pool_idx (pool_visit g)) (s_pools st) []).
Proof. exact t_reads_in_bounds. Qed.
Print Assumptions C08_reads_in_bounds.

(* ---- non-vacuity ------------------------------------------------------------------------------------------ *)
Example C08_nonvacuous_mask :
  zlen (mask_zero 13) = src_mask_bytes 13 /\ setbit (mask_zero 13) 9 = [0; 64] /\
  getbit (setbit (mask_zero 13) 9) 9 = true /\ getbit (setbit (mask_zero 13) 9) 8 = false.
Proof. vm_compute. repeat split; reflexivity. Qed.

Definition ex_feats : list feature :=
  [mkF TSclass 3 1 1 1; mkF TU08 0 1 1 1; mkF TMclass 2 1 1 1; mkF TF32 0 2 1 2; mkF TF32 0 1 1 1].
Definition ex_writes : list write := [(0, 1, [2]); (1, 0, [7]); (2, 2, [1; 0]); (3, 1, [1; 2; 3; 4]); (1, 0, [9]); (4, 0, [5])].
Definition ex_store : store :=
  match run_sets (resize 3 ex_feats 9) ex_writes with Some st => st | None => resize 0 [] 0 end.
Definition ex_gens : gens :=
  [fit ex_store GSclass [] []; fit ex_store GStruct [] []; fit ex_store GProduct [] []; fit ex_store GMclass [] []].

Example C08_nonvacuous_storage :
  fst (assign (repeat 0 npools) ex_feats) = [(0, 1); (1, 2); (2, 4); (0, 4); (4, 5)] /\
  writes_in_range (zlen ex_feats) 3 ex_writes /\
  run_sets (resize 3 ex_feats 9) ex_writes <> None /\
  ds_get ex_store 1 0 = Some [9] /\ ds_get ex_store 3 1 = Some [1; 2; 3; 4] /\ ds_get ex_store 3 0 = None.
Proof.
  split; [vm_compute; reflexivity|]. split; [repeat constructor; cbn; lia|].
  split; [vm_compute; discriminate|]. vm_compute. repeat split; reflexivity.
Qed.

Example C08_nonvacuous_views :
  columns ex_gens = 2 + 4 + 3 + 2 /\ features ex_gens = 6 /\
  map (column2feature ex_gens) (zseq 11) = [0; 0; 1; 1; 1; 1; 2; 3; 4; 5; 5] /\
  flat_row (ds_reader ex_store) ex_gens (flags_init ex_gens) 0 (zrepeat (Some 99) 11) =
    [None; None; None; None; None; None; Some 81; Some 45; Some 25; None; None] /\
  flat_row (ds_reader ex_store) ex_gens (flags_init ex_gens) 1 (zrepeat (Some 99) 11) =
    [Some (-1); Some (-1); Some 1; Some 2; Some 3; Some 4; None; None; None; None; None] /\
  run_ops ex_gens (flags_init ex_gens) [OShuffle 1 [1; 2; 0]; ODrop 3; ODrop 7] = None /\
  (exists fl, run_ops ex_gens (flags_init ex_gens) [OShuffle 1 [1; 2; 0]; ODrop 3] = Some fl /\
     flat_row (ds_reader ex_store) ex_gens fl 0 (zrepeat None 11) =
       [None; None; Some 1; Some 2; Some 3; Some 4; Some 81; None; Some 25; None; None]) /\
  flatten (ds_reader ex_store) 3 ex_gens (flags_init ex_gens) [0; 3] = None /\
  flatten (ds_reader ex_store) 3 ex_gens (flags_init ex_gens) [2; 0] <> None.
Proof.
  vm_compute. repeat split; try reflexivity; try discriminate.
  eexists. split; reflexivity.
Qed.

(* ============================================================================================================ *)
(* the gradient generator at the value level (model: C08_Gradient, primitive binary64 floats; the twelve window   *)
(* offsets, the input size, the output dims, the loop bound 4 and the (channel, mode) mapping columns are the    *)
(* expressions translated from gradient.h / elemwise_gradient.{h,cpp} on every run)                              *)
(* ============================================================================================================ *)

(* every window read of every output cell lies inside the (rows + 2) x (cols + 2) input, every output write inside
   rows x cols (for all rows, cols >= 1); the output is row-major; a channel's slice lies inside the sample's block *)
Theorem C08_gradient_reads_in_bounds : forall atan2 mode kw rows cols img row col,
  1 <= rows -> 1 <= cols -> 0 <= row < rows -> 0 <= col < cols ->
  (forall r c, In (r, c) (gx_reads row col ++ gy_reads row col) ->
     0 <= r < src_grad_in_rows rows /\ 0 <= c < src_grad_in_cols cols /\
     0 <= in_index (src_grad_in_cols cols) r c < src_grad_in_rows rows * src_grad_in_cols cols) /\
  0 <= row * cols + col < rows * cols /\
  zlen (gradient3x3 atan2 mode kw rows cols img) = rows * cols /\
  znth (row * cols + col) (gradient3x3 atan2 mode kw rows cols img) f_nan =
    grad_cell atan2 mode kw (src_grad_in_cols cols) img row col /\
  (forall channels ch, 0 <= ch < channels ->
     0 <= ch * (src_grad_in_rows rows * src_grad_in_cols cols) /\
     ch * (src_grad_in_rows rows * src_grad_in_cols cols) + src_grad_in_rows rows * src_grad_in_cols cols
       <= channels * (src_grad_in_rows rows * src_grad_in_cols cols)).
Proof. exact t_gradient_reads_in_bounds. Qed.
Print Assumptions C08_gradient_reads_in_bounds.

(* generated feature index j of a source feature <-> (channel, mode) = (j / 4, j mod 4) is a bijection of [0, 4*channels)
   onto [0, channels) x [0, 4); 4 * channels features (= the translated `count +=`); every one has source i, a float64
   descriptor of dims (1, rows - 2, cols - 2) and (rows - 2) * (cols - 2) columns *)
Theorem C08_gradient_layout : forall i f,
  0 <= f_d0 f ->
  zlen (grad_block i f) = src_grad_count (f_d0 f) /\
  (forall rows cols, src_grad_applies_count rows cols = src_grad_applies rows cols) /\
  (forall j, 0 <= j < 4 * f_d0 f ->
     znth j (grad_block i f) (grad_feat i f 0) = grad_feat i f j /\
     grad_channel (grad_feat i f j) = Z.quot j 4 /\ grad_mode (grad_feat i f j) = Z.rem j 4 /\
     0 <= grad_channel (grad_feat i f j) < f_d0 f /\ 0 <= grad_mode (grad_feat i f j) < 4 /\
     grad_channel (grad_feat i f j) * 4 + grad_mode (grad_feat i f j) = j) /\
  (forall ch ty, 0 <= ch < f_d0 f -> 0 <= ty < 4 ->
     0 <= ch * 4 + ty < 4 * f_d0 f /\
     grad_channel (grad_feat i f (ch * 4 + ty)) = ch /\ grad_mode (grad_feat i f (ch * 4 + ty)) = ty /\
     forall j, 0 <= j < 4 * f_d0 f -> grad_channel (grad_feat i f j) = ch -> grad_mode (grad_feat i f j) = ty ->
               j = ch * 4 + ty) /\
  (src_grad_applies (f_d1 f) (f_d2 f) = true ->
     desc_dims (grad_desc f) = (1, f_d1 f - 2, f_d2 f - 2) /\ 1 <= f_d1 f - 2 /\ 1 <= f_d2 f - 2 /\
     desc_cols (grad_desc f) = (f_d1 f - 2) * (f_d2 f - 2) /\
     grad_rows (grad_feat i f 0) = f_d1 f - 2 /\ grad_cols (grad_feat i f 0) = f_d2 f - 2).
Proof. exact t_gradient_layout. Qed.
Print Assumptions C08_gradient_layout.

(* characterisation (pins the model): gx / gy at (row, col) are the textbook expressions over the 6 neighbours with the
   kernel weights in the code's operation order ((k0*d0 + k1*d1) + k2*d2), magnitude = sqrt(gx*gx + gy*gy), angle =
   atan2(gy, gx); the weights of make_kernel3x3 computed in double are 1/4 2/4 1/4, 3/16 10/16 3/16 and RN(1/3) x 3 *)
Theorem C08_gradient_spec : forall atan2 k0 k1 k2 ic img row col,
  let a := in_at ic img in
  let gx := make_gx (k0, k1, k2) ic img row col in
  let gy := make_gy (k0, k1, k2) ic img row col in
  let p00 := a row col in let p01 := a row (col + 1) in let p02 := a row (col + 2) in
  let p10 := a (row + 1) col in let p12 := a (row + 1) (col + 2) in
  let p20 := a (row + 2) col in let p21 := a (row + 2) (col + 1) in let p22 := a (row + 2) (col + 2) in
  gx = (k0 * (p02 - p00) + k1 * (p12 - p10) + k2 * (p22 - p20))%float /\
  gy = (k0 * (p20 - p00) + k1 * (p21 - p01) + k2 * (p22 - p02))%float /\
  grad_cell atan2 0 (k0, k1, k2) ic img row col = gx /\
  grad_cell atan2 1 (k0, k1, k2) ic img row col = gy /\
  grad_cell atan2 2 (k0, k1, k2) ic img row col = PrimFloat.sqrt (gx * gx + gy * gy)%float /\
  grad_cell atan2 3 (k0, k1, k2) ic img row col = atan2 gy gx /\
  make_kernel3x3 Sobel = (f_quarter, f_half, f_quarter) /\
  make_kernel3x3 Scharr = (f_3_16, f_10_16, f_3_16) /\
  make_kernel3x3 Prewitt = (f_third, f_third, f_third).
Proof. exact t_gradient_spec. Qed.
Print Assumptions C08_gradient_spec.

(* value fact in binary64: on a window where the image is constant and finite, gx = gy = +0 and the magnitude is +0,
   exactly, for all three kernels (x - x = +0 through FloatAxioms.sub_spec) *)
Theorem C08_gradient_constant_image : forall kern ic img row col v,
  finite v ->
  (forall r c, In (r, c) (gx_reads row col ++ gy_reads row col) -> in_at ic img r c = v) ->
  let gx := make_gx (make_kernel3x3 kern) ic img row col in
  let gy := make_gy (make_kernel3x3 kern) ic img row col in
  gx = f_zero /\ gy = f_zero /\ magnitude gx gy = f_zero.
Proof. exact t_gradient_constant. Qed.
Print Assumptions C08_gradient_constant_image.

(* value fact in binary64: the magnitude is NaN or >= 0, for ALL floats gx, gy (infinities, NaN included) *)
Theorem C08_gradient_magnitude_nonneg : forall gx gy,
  f_is_nan (magnitude gx gy) = true \/ f_nonneg (magnitude gx gy) = true.
Proof. exact t_gradient_magnitude. Qed.
Print Assumptions C08_gradient_magnitude_nonneg.

(* mirroring the image left-right negates gx (output column col <-> cols - 1 - col): stated over an ABSTRACT scalar
   structure (antisymmetric subtraction, negation commuting with * and +), of which the float code is the instance
   at PrimFloat (second clause, by reflexivity).  In binary64 itself the identity holds only up to the sign of zero:
   C08_gradient_flip_binary64_sign_of_zero is a constant image where gx(mirror) = +0 <> -0 = -gx bitwise (== holds) *)
Theorem C08_gradient_flip_negates_gx : forall (S : Type) (add sub mul : S -> S -> S) (opp : S -> S),
  (forall a b, sub a b = opp (sub b a)) -> (forall k a, mul k (opp a) = opp (mul k a)) ->
  (forall a b, add (opp a) (opp b) = opp (add a b)) ->
  (forall k0 k1 k2 a in_cols row col d,
     gx_abs S add sub mul k0 k1 k2 (flip_lr S in_cols a) row col d =
     opp (gx_abs S add sub mul k0 k1 k2 a row (in_cols - 2 - 1 - col) d)) /\
  (forall k0 k1 k2 ic img row col,
     make_gx (k0, k1, k2) ic img row col =
     gx_abs PrimFloat.float PrimFloat.add PrimFloat.sub PrimFloat.mul k0 k1 k2 (in_at ic img) row col f_nan).
Proof. exact t_gradient_flip. Qed.
Print Assumptions C08_gradient_flip_negates_gx.

Theorem C08_gradient_flip_binary64_sign_of_zero :
  make_gx (make_kernel3x3 Sobel) 3 ones9 0 0 <> (- make_gx (make_kernel3x3 Sobel) 3 (rev ones9) 0 0)%float /\
  (make_gx (make_kernel3x3 Sobel) 3 ones9 0 0 =? - make_gx (make_kernel3x3 Sobel) 3 (rev ones9) 0 0)%float = true.
Proof. exact flip_float_counterexample. Qed.
Print Assumptions C08_gradient_flip_binary64_sign_of_zero.

(* the views agree, values included: for every generator stack (one kernel type per generator), flag state, sample and
   stale buffer the float-valued flatten row is the concatenation of the encoded per-feature views; the piece of a
   gradient feature IS its select view: the row-major gradient image of the source sample's channel (cell
   row * cols + col = the model's value at (row, col)), all NaN if the feature is dropped or the source is missing *)
Theorem C08_views_agree_gradient : forall atan2 kerns rd gs fl s r,
  gens_ok_f rd gs -> zlen r = columns gs ->
  flat_row_f atan2 kerns rd gs fl s r = enc_gens_v (view_enc_f atan2 s rd) kerns gs fl /\
  (forall kern g f, In g (concat gs) -> g_kind g = GGradient ->
     view_enc_f atan2 s rd kern g f = select_view_f atan2 kern rd g f s /\
     zlen (view_enc_f atan2 s rd kern g f) = g_colsize g /\ g_colsize g = grad_rows g * grad_cols g /\
     (forall v, is_dropped f = false -> rd (g_o1 g) (eff_sample f s) = Some v ->
        view_enc_f atan2 s rd kern g f = map Some (grad_image atan2 kern g v) /\
        forall row col, 0 <= row < grad_rows g -> 0 <= col < grad_cols g ->
          znth (row * grad_cols g + col) (view_enc_f atan2 s rd kern g f) None =
          Some (grad_cell atan2 (grad_mode g) (make_kernel3x3 kern) (src_grad_in_cols (grad_cols g)) (grad_input g v) row col)) /\
     (is_dropped f = true \/ rd (g_o1 g) (eff_sample f s) = None ->
        view_enc_f atan2 s rd kern g f = zrepeat None (g_colsize g))).
Proof. exact t_views_agree_gradient. Qed.
Print Assumptions C08_views_agree_gradient.

(* the extra hypothesis of the previous theorem holds for everything fit() builds from features with dims >= 2 *)
Theorem C08_fit_gradient_ok : forall st k ids1 ids2,
  (forall i, 0 <= f_d1 (ds_feature st i) - 2 /\ 0 <= f_d2 (ds_feature st i) - 2 \/
             src_grad_applies (f_d1 (ds_feature st i)) (f_d2 (ds_feature st i)) = false) ->
  Forall grad_ok (fit st k ids1 ids2).
Proof. exact fit_grad_ok. Qed.
Print Assumptions C08_fit_gradient_ok.

(* ---- non-vacuity: a 2-channel 3x4 int16 image, its 8 gradient features, concrete values ---------------------------- *)
Definition gex_feats : list feature := [mkF TI16 0 2 3 4; mkF TF64 0 1 1 1].
Definition gex_image : list Z := [1; 2; 4; 8;  3; 5; 9; 17;  -2; 0; 32767; -32768;
                                  7; 7; 7; 7;  7; 7; 7; 7;   7; 7; 7; 7].
Definition gex_store : store :=
  match run_sets (resize 2 gex_feats 9) [(0, 1, gex_image)] with Some st => st | None => resize 0 [] 0 end.
Definition gex_gens : gens := [fit gex_store GScalar [] []; fit gex_store GGradient [] []].
Definition gex_atan2 (y x : PrimFloat.float) : PrimFloat.float := f_zero.      (* any function: the theorems are for all atan2 *)

Example C08_nonvacuous_gradient :
  (* layout: 1 scalar + 8 gradient features of 1 x 2 cells; the 6th has (channel, mode) = (1, 1) *)
  features gex_gens = 9 /\ columns gex_gens = 1 + 8 * 2 /\
  map (fun g => (grad_channel g, grad_mode g)) (fit gex_store GGradient [] []) =
    [(0, 0); (0, 1); (0, 2); (0, 3); (1, 0); (1, 1); (1, 2); (1, 3)] /\
  (* the hypotheses of C08_views_agree_gradient are satisfiable *)
  Forall grad_ok (concat gex_gens) /\ Forall cols_ok (concat gex_gens) /\
  (* values: sample 1 is given, sample 0 is missing; channel 1 is constant => exact zeros *)
  flat_row_f gex_atan2 [Sobel; Scharr] (ds_reader gex_store) gex_gens (flags_init gex_gens) 0 (zrepeat (Some f_half) 17)
    = zrepeat None 17 /\
  map (fun c => match c with Some x => FloatOps.Prim2SF x | None => SpecFloat.S754_nan end)
      (skipn 9 (flat_row_f gex_atan2 [Sobel; Scharr] (ds_reader gex_store) gex_gens (flags_init gex_gens) 1 (zrepeat None 17)))
    = repeat (SpecFloat.S754_zero false) 8 /\
  (* gx of channel 0 with the scharr weights, the two output cells: (3*3 + 10*6 + 3*32769)/16 and (3*6 + 10*12 - 3*32768)/16 *)
  firstn 2 (skipn 1 (flat_row_f gex_atan2 [Sobel; Scharr] (ds_reader gex_store) gex_gens (flags_init gex_gens) 1 (zrepeat None 17)))
    = [Some (z2f 98376 / z2f 16)%float; Some (z2f (-98166) / z2f 16)%float] /\
  finite (z2f 32767) /\ finite (z2f (-4503599627370496)).
Proof.
  split; [vm_compute; reflexivity|]. split; [vm_compute; reflexivity|]. split; [vm_compute; reflexivity|].
  split.
  { set (l := concat gex_gens). vm_compute in l. subst l.
    repeat (apply Forall_cons; [intros _; vm_compute; repeat split; discriminate|]). apply Forall_nil. }
  split.
  { set (l := concat gex_gens). vm_compute in l. subst l.
    repeat (apply Forall_cons; [vm_compute; reflexivity|]). apply Forall_nil. }
  split; [vm_compute; reflexivity|]. split; [vm_compute; reflexivity|]. split; [vm_compute; reflexivity|].
  split; vm_compute; exact I.
Qed.
