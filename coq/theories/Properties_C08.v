(* C08 -- All dataset views agree with the stored feature values, incl. missing ones.
   Only statements + `exact` + Print Assumptions live here. Model: C08_Defs (imports the kernels translated from
   mask.h, datasource.{h,cpp}, dataset.cpp and the generator headers on every run). *)
From Coq Require Import List ZArith Bool Lia.
From LNGen Require Import Src_c08.
From LN Require Import C08_Defs C08_Proofs.
Import ListNotations.
Local Open Scope Z_scope.

(* bit mask: setting the bit of sample i makes exactly that sample "given"; every sample < n addresses a byte inside
   the (n+7)/8 bytes of the row and a bit 0..7; the bytes stay bytes; a fresh mask has no sample given *)
Theorem C08_mask : forall n m i j,
  zlen m = src_mask_bytes n -> 0 <= i < n -> 0 <= j < n ->
  getbit (setbit m i) j = (i =? j) || getbit m j /\
  0 <= src_setbit_byte i < src_mask_bytes n /\ 0 <= src_getbit_byte j < src_mask_bytes n /\
  0 <= src_setbit_shift i <= 7 /\ 0 <= src_getbit_shift j <= 7 /\
  length (setbit m i) = length m /\
  (Forall (fun b => 0 <= b < 256) m -> Forall (fun b => 0 <= b < 256) (setbit m i)) /\
  getbit (mask_zero n) j = false.
Proof. exact t_mask. Qed.
Print Assumptions C08_mask.

(* storage layout chosen by resize(): every feature's row range has the feature's width, starts at >= 0, ends inside its
   pool's total, and the ranges of two features sharing a pool are disjoint (the earlier one ends before the later
   one begins); resize() and visit() pick the same pool *)
Theorem C08_storage_disjoint : forall fs rs tot,
  assign (repeat 0 npools) fs = (rs, tot) -> Forall (fun f => 0 <= width f) fs ->
  length rs = length fs /\
  (forall i f b e, nth_error fs i = Some f -> nth_error rs i = Some (b, e) ->
     0 <= b /\ e = b + width f /\ e <= nth (pool_idx (pool_resize f)) tot 0) /\
  (forall i j fi fj bi ei bj ej, (i < j)%nat ->
     nth_error fs i = Some fi -> nth_error fs j = Some fj ->
     nth_error rs i = Some (bi, ei) -> nth_error rs j = Some (bj, ej) ->
     pool_resize fi = pool_resize fj -> ei <= bj) /\
  (forall f, pool_visit f = pool_resize f).
Proof. exact t_storage_disjoint. Qed.
Print Assumptions C08_storage_disjoint.

(* one write: set-then-get returns the value, every other (feature, sample) cell and mask bit reads as before, and the
   layout invariant (all blocks in bounds, disjoint) is kept *)
Theorem C08_storage_set_get : forall st fi s vals st',
  layout_ok st -> 0 <= fi < zlen (s_feats st) -> 0 <= s < s_samples st ->
  ds_set st fi s vals = Some st' ->
  layout_ok st' /\ ds_get st' fi s = Some vals /\
  (forall fj sj, 0 <= fj < zlen (s_feats st) -> 0 <= sj < s_samples st -> (fj <> fi \/ sj <> s) ->
     ds_get st' fj sj = ds_get st fj sj).
Proof. exact t_storage_set_get. Qed.
Print Assumptions C08_storage_set_get.

(* any history of writes after resize(): every cell reads back the last value written to it, or "missing" *)
Theorem C08_storage_history : forall N fs t ws st,
  0 <= N -> Forall (fun f => 0 <= width f) fs -> writes_in_range (zlen fs) N ws ->
  run_sets (resize N fs t) ws = Some st ->
  forall fi s, 0 <= fi < zlen fs -> 0 <= s < N -> ds_get st fi s = last_write ws fi s.
Proof. exact s_storage_history. Qed.
Print Assumptions C08_storage_history.

(* the views agree: whatever the generator stack, the drop/shuffle flags, the sample and the previous (stale) contents
   of the row buffer, the flattened row is the concatenation, feature by feature, of the documented encoding
   (encode_view: one-hot +-1 with C-1 columns, 2*hit-1, row-major values, missing -> NaN) of the per-feature view *)
Theorem C08_views_agree : forall rd gs fl s r,
  gens_ok rd gs -> zlen r = columns gs ->
  flat_row rd gs fl s r =
  enc_gens (fun g f => encode_view (f_classes (g_desc g)) (select_view rd g f s)) gs fl.
Proof. exact s_views_agree. Qed.
Print Assumptions C08_views_agree.

(* the structural part of gens_ok holds for everything fit() builds: process()'s column size is update()'s *)
Theorem C08_fit_columns : forall st k ids1 ids2, Forall cols_ok (fit st k ids1 ids2).
Proof. exact fit_cols_ok. Qed.
Print Assumptions C08_fit_columns.

(* encoders, identity and product features, missing markers *)
Theorem C08_encoders : forall rd g fl s,
  (* dropped: every view is "missing" *)
  (is_dropped fl = true ->
     select_view rd g fl s = match f_type (g_desc g) with
                             | TSclass => VSclass (-1)
                             | TMclass => VMclass (zrepeat (-1) (f_classes (g_desc g)))
                             | _ => if fsize (g_desc g) =? 1 then VScalar None else VStruct (zrepeat None (fsize (g_desc g)))
                             end) /\
  (* identity: the stored value of the source at the (possibly permuted) sample; missing -> -1 / NaN *)
  (is_dropped fl = false -> g_kind g <> GProduct -> g_kind g <> GGradient ->
     select_view rd g fl s =
     match f_type (g_desc g), rd (g_o1 g) (eff_sample fl s) with
     | TSclass, Some v => VSclass (hd 0 v)        | TSclass, None => VSclass (-1)
     | TMclass, Some v => VMclass v               | TMclass, None => VMclass (zrepeat (-1) (f_classes (g_desc g)))
     | _, Some v => if fsize (g_desc g) =? 1 then VScalar (Some (hd 0 v)) else VStruct (map Some v)
     | _, None => if fsize (g_desc g) =? 1 then VScalar None else VStruct (zrepeat None (fsize (g_desc g)))
     end) /\
  (* product: the product of the two sources, missing as soon as one of them is *)
  (is_dropped fl = false -> g_kind g = GProduct -> g_desc g = f64 1 1 1 ->
     select_view rd g fl s =
     VScalar (match rd (g_o1 g) (eff_sample fl s), rd (g_o2 g) (eff_sample fl s) with
              | Some a, Some b => Some (hd 0 a * hd 0 b)
              | _, _ => None
              end)) /\
  (* one-hot with C-1 columns: +1 at the label, -1 elsewhere, the last class is all -1 *)
  (forall c l j, 0 <= l -> 0 <= j < c - 1 ->
     zlen (encode_view c (VSclass l)) = c - 1 /\
     znth j (encode_view c (VSclass l)) None = Some (if j =? l then 1 else -1)) /\
  (forall c, 1 <= c -> encode_view c (VSclass (-1)) = zrepeat None (c - 1)) /\
  (* multi-label: 2*hit-1 *)
  (forall c h, 0 <= hd 0 h -> encode_view c (VMclass h) = map (fun x => Some (2 * x - 1)) h) /\
  (forall c, encode_view c (VMclass (zrepeat (-1) c)) = zrepeat None c).
Proof. exact t_encoders. Qed.
Print Assumptions C08_encoders.

(* feature / column bookkeeping of dataset_t::update *)
Theorem C08_bookkeeping : forall gs,
  Forall (fun g => 0 <= dcols g) (all_feats gs) ->
  columns gs = zlen (column_mapping gs) /\
  columns gs = zsum (map dcols (all_feats gs)) /\
  features gs = zlen (feature_mapping gs) /\ features gs = zlen (all_feats gs) /\
  (forall f, 0 <= f < features gs -> locate gs 0 f = Some (znth f (feature_mapping gs) (0, 0))) /\
  (forall f i, 0 <= f < features gs ->
     0 <= i < dcols (znth f (all_feats gs) (mkG GScalar 0 0 dflt_feature 1)) ->
     column2feature gs (col_offset gs f + i) = f /\ 0 <= col_offset gs f + i < columns gs).
Proof. exact s_bookkeeping. Qed.
Print Assumptions C08_bookkeeping.

(* drop / shuffle histories: after any accepted history the flag of every feature is the one given by the last operation
   that addressed it since the last undo (so an operation on g changes exactly g), undrop/unshuffle restore the
   original state of every feature; a dropped feature reads as missing, a shuffled one through its permutation *)
Theorem C08_history : forall gs ops fl,
  run_ops gs (flags_init gs) ops = Some fl ->
  (forall f, 0 <= f < features gs -> flag_of gs fl f = spec_flag ops f) /\
  (forall f, spec_flag (ops ++ [OUndrop]) f = Normal /\ spec_flag (ops ++ [OUnshuffle]) f = Normal) /\
  (forall f g, f <> g -> spec_flag (ops ++ [ODrop g]) f = spec_flag ops f /\ spec_flag (ops ++ [ODrop g]) g = Dropped) /\
  (forall f g p, f <> g -> spec_flag (ops ++ [OShuffle g p]) f = spec_flag ops f /\
                           spec_flag (ops ++ [OShuffle g p]) g = Shuffled p) /\
  (forall p s, p <> [] -> eff_sample (Shuffled p) s = znth s p 0) /\
  (forall s, eff_sample Normal s = s).
Proof. exact t_history. Qed.
Print Assumptions C08_history.

(* out-of-range sample / feature indices are rejected before anything is read; accepted calls only carry valid indices *)
Theorem C08_range_rejected : forall rd n gs fl samples f st,
  (Exists (fun s => s < 0 \/ n <= s) samples ->
     flatten rd n gs fl samples = None /\ select rd n gs fl samples f = None) /\
  (Exists (fun s => s < 0 \/ s_samples st <= s) samples ->
     targets st samples = None /\ target_select st samples = None) /\
  (~ 0 <= f < features gs ->
     select rd n gs fl samples f = None /\ apply_op gs fl (ODrop f) = None /\
     forall p, apply_op gs fl (OShuffle f p) = None) /\
  (forall rows, flatten rd n gs fl samples = Some rows -> Forall (fun s => 0 <= s < n) samples) /\
  (forall vs, select rd n gs fl samples f = Some vs -> Forall (fun s => 0 <= s < n) samples /\ 0 <= f < features gs) /\
  (samples <> [] -> Forall (fun s => 0 <= s < n) samples -> flatten rd n gs fl samples <> None).
Proof. exact s_range_rejected. Qed.
Print Assumptions C08_range_rejected.

(* pairwise generators built from two feature lists (after repo fix: the stored index pair is never swapped): every
   generated feature combines an entry of the FIRST list with an entry of the SECOND list (so both row numbers are inside
   their mappings), and every unordered pair {a, b}, a in list 1, b in list 2, is generated *)
Theorem C08_pairwise_sources : forall (m1 m2 : list Z),
  (forall a b, In (a, b) (make_pairwise m1 m2) -> In a m1 /\ In b m2) /\
  (forall a b, In a m1 -> In b m2 ->
     exists a' b', In (a', b') (make_pairwise m1 m2) /\ Z.min a' b' = Z.min a b /\ Z.max a' b' = Z.max a b).
Proof.
  intros m1 m2. split; [intros a b; apply make_pairwise_sources | intros a b; apply make_pairwise_complete].
Qed.
Print Assumptions C08_pairwise_sources.

Example C08_nonvacuous_pairwise :
  make_pairwise [5; 2] [1] = [(2, 1); (5, 1)] /\ make_pairwise [5; 6] [6; 7] = [(5, 6); (5, 7); (6, 6); (6, 7)] /\
  make_pairwise [5; 2] [5; 2] = [(2, 2); (5, 2); (5, 5)].
Proof. vm_compute. repeat split; reflexivity. Qed.

(* accepted reads stay inside the pool: the cell of a valid (feature, sample) lies inside the feature's block *)
Theorem C08_reads_in_bounds : forall st fj sj,
  layout_ok st -> 0 <= fj < zlen (s_feats st) -> 0 <= sj < s_samples st ->
  let g := znth fj (s_feats st) dflt_feature in
  0 <= cell_addr st fj sj /\
  cell_addr st fj sj + width g <= zlen (nth (pool_idx (pool_visit g)) (s_pools st) []).
Proof. exact t_reads_in_bounds. Qed.
Print Assumptions C08_reads_in_bounds.

(* ---- non-vacuity ------------------------------------------------------------------------------------------ *)
Example C08_nonvacuous_mask :
  zlen (mask_zero 13) = src_mask_bytes 13 /\ setbit (mask_zero 13) 9 = [0; 64] /\
  getbit (setbit (mask_zero 13) 9) 9 = true /\ getbit (setbit (mask_zero 13) 9) 8 = false.
Proof. vm_compute. repeat split; reflexivity. Qed.

Definition ex_feats : list feature :=
  [mkF TSclass 3 1 1 1; mkF TU08 0 1 1 1; mkF TMclass 2 1 1 1; mkF TF32 0 2 1 2; mkF TF32 0 1 1 1].
Definition ex_writes : list write := [(0, 1, [2]); (1, 0, [7]); (2, 2, [1; 0]); (3, 1, [1; 2; 3; 4]); (1, 0, [9]); (4, 0, [5])].
Definition ex_store : store :=
  match run_sets (resize 3 ex_feats 9) ex_writes with Some st => st | None => resize 0 [] 0 end.
Definition ex_gens : gens :=
  [fit ex_store GSclass [] []; fit ex_store GStruct [] []; fit ex_store GProduct [] []; fit ex_store GMclass [] []].

Example C08_nonvacuous_storage :
  fst (assign (repeat 0 npools) ex_feats) = [(0, 1); (1, 2); (2, 4); (0, 4); (4, 5)] /\
  writes_in_range (zlen ex_feats) 3 ex_writes /\
  run_sets (resize 3 ex_feats 9) ex_writes <> None /\
  ds_get ex_store 1 0 = Some [9] /\ ds_get ex_store 3 1 = Some [1; 2; 3; 4] /\ ds_get ex_store 3 0 = None.
Proof.
  split; [vm_compute; reflexivity|]. split; [repeat constructor; cbn; lia|].
  split; [vm_compute; discriminate|]. vm_compute. repeat split; reflexivity.
Qed.

Example C08_nonvacuous_views :
  columns ex_gens = 2 + 4 + 3 + 2 /\ features ex_gens = 6 /\
  map (column2feature ex_gens) (zseq 11) = [0; 0; 1; 1; 1; 1; 2; 3; 4; 5; 5] /\
  flat_row (ds_reader ex_store) ex_gens (flags_init ex_gens) 0 (zrepeat (Some 99) 11) =
    [None; None; None; None; None; None; Some 81; Some 45; Some 25; None; None] /\
  flat_row (ds_reader ex_store) ex_gens (flags_init ex_gens) 1 (zrepeat (Some 99) 11) =
    [Some (-1); Some (-1); Some 1; Some 2; Some 3; Some 4; None; None; None; None; None] /\
  run_ops ex_gens (flags_init ex_gens) [OShuffle 1 [1; 2; 0]; ODrop 3; ODrop 7] = None /\
  (exists fl, run_ops ex_gens (flags_init ex_gens) [OShuffle 1 [1; 2; 0]; ODrop 3] = Some fl /\
     flat_row (ds_reader ex_store) ex_gens fl 0 (zrepeat None 11) =
       [None; None; Some 1; Some 2; Some 3; Some 4; Some 81; None; Some 25; None; None]) /\
  flatten (ds_reader ex_store) 3 ex_gens (flags_init ex_gens) [0; 3] = None /\
  flatten (ds_reader ex_store) 3 ex_gens (flags_init ex_gens) [2; 0] <> None.
Proof.
  vm_compute. repeat split; try reflexivity; try discriminate.
  eexists. split; reflexivity.
Qed.
