(* C08 -- All dataset views agree with the stored feature values, incl. missing ones.
   Only statements + `exact` + Print Assumptions live here. Model: C08_Defs (imports the kernels translated from
   mask.h, datasource.{h,cpp}, dataset.cpp and the generator headers on every run). *)
From Coq Require Import List ZArith Bool.
From LNGen Require Import Src_c08.
From LN Require Import C08_Defs C08_Proofs.
Import ListNotations.
Local Open Scope Z_scope.

(* bit mask: setting the bit of sample i makes exactly that sample "given"; every sample < n addresses a byte inside
   the (n+7)/8 bytes of the row and a bit 0..7; the bytes stay bytes; a fresh mask has no sample given *)
Theorem C08_mask : forall n m i j,
  zlen m = src_mask_bytes n -> 0 <= i < n -> 0 <= j < n ->
  getbit (setbit m i) j = (i =? j) || getbit m j /\
  0 <= src_setbit_byte i < src_mask_bytes n /\ 0 <= src_getbit_byte j < src_mask_bytes n /\
  0 <= src_setbit_shift i <= 7 /\ 0 <= src_getbit_shift j <= 7 /\
  length (setbit m i) = length m /\
  (Forall (fun b => 0 <= b < 256) m -> Forall (fun b => 0 <= b < 256) (setbit m i)) /\
  getbit (mask_zero n) j = false.
Proof. exact t_mask. Qed.
Print Assumptions C08_mask.

Example C08_nonvacuous_mask :
  zlen (mask_zero 13) = src_mask_bytes 13 /\ setbit (mask_zero 13) 9 = [0; 64] /\
  getbit (setbit (mask_zero 13) 9) 9 = true /\ getbit (setbit (mask_zero 13) 9) 8 = false.
Proof. vm_compute. repeat split; reflexivity. Qed.
