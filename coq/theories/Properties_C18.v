(* C18 -- Shared const objects are thread-safe with schedule-independent results.
   PARTIAL BY NATURE: the theorems below are about the access-discipline model of C18_Defs (footprints over abstract
   locations whose indices are translated from the source on every run).  That the C++ memory accesses follow the
   discipline is a runtime property: it is validated, not proved, by ThreadSanitizer + differential runs of the real
   library (tools/checks/c18.py), which sample schedules. *)
From Coq Require Import List Arith Bool ZArith Permutation.
From LNGen Require Import Src_c18 Src_parallel Src_mtune Src_mlresult.
From LN Require Import C17_Defs C17_Proofs C18_Defs C18_Proofs.
From LN Require C13_Defs C13_Proofs C13_Statements.
Import ListNotations.

(* (1) Calls whose footprints are pairwise conflict-free are schedule independent: under EVERY interleaving of their
   single reads and writes (programs with data-dependent control flow and addresses), a call that has returned has
   returned exactly what it returns when executed alone from the initial memory, and the memory holds on the call's
   footprint exactly what the call alone leaves there. *)
Theorem C18_deterministic :
  forall (V R : Type) (fps : list footprint) (ps : list (prog V R)) (m0 : mem V),
    length fps = length ps ->
    (forall i fp p, nth_error fps i = Some fp -> nth_error ps i = Some p -> obeys fp p) ->
    (forall i j f g, i <> j -> nth_error fps i = Some f -> nth_error fps j = Some g -> conflictb f g = false) ->
    forall (sched : list nat) i fp p r,
      nth_error fps i = Some fp -> nth_error ps i = Some p ->
      nth_error (fst (exec ps m0 sched)) i = Some (Done r) ->
      r = fst (solo p m0) /\
      (forall l, In l (reads fp ++ writes fp) -> snd (exec ps m0 sched) l = snd (solo p m0) l).
Proof. intros V R fps ps m0 Hl Ho Hf sched i fp p r. exact (s_schedule_independent V R fps ps m0 Ho Hf Hl sched i fp p r). Qed.
Print Assumptions C18_deterministic.

(* shared const state is never modified, under any schedule *)
Theorem C18_const_untouched :
  forall (V R : Type) (fps : list footprint) (ps : list (prog V R)) (m0 : mem V),
    length fps = length ps ->
    (forall i fp p, nth_error fps i = Some fp -> nth_error ps i = Some p -> obeys fp p) ->
    (forall i j f g, i <> j -> nth_error fps i = Some f -> nth_error fps j = Some g -> conflictb f g = false) ->
    forall (sched : list nat) l,
      (forall i fp, nth_error fps i = Some fp -> ~ In l (writes fp)) -> snd (exec ps m0 sched) l = m0 l.
Proof. intros V R fps ps m0 Hl Ho Hf sched l. exact (s_untouched V R fps ps m0 Ho Hf Hl sched l). Qed.
Print Assumptions C18_const_untouched.

(* (2) Tasks of a pool (dataset iterators, objective functions, weak learners).  On EVERY reachable state of the C17
   protocol model (any number of workers and submitting threads, every interleaving), two tasks that are running at the
   same time have conflict-free footprints: tasks of the same map() index the per-thread vectors with different worker
   ids (index expressions translated from the source) and write disjoint rows; tasks of different submitting threads use
   different iterator / function objects; tasks of different calls of one thread never run at the same time. *)
Theorem C18_footprints_disjoint : forall n thr progs desc,
  wf_config n progs = true -> no_enqueue progs = true -> wf_desc progs desc ->
  forall p, reachable n thr progs p ->
  forall w w' t t', w <> w' -> workers p w = WRunning t -> workers p w' = WRunning t' ->
  conflictb (task_fp (desc t) w) (task_fp (desc t') w') = false.
Proof. exact s_pool_tasks_disjoint. Qed.
Print Assumptions C18_footprints_disjoint.

(* the fast path: a map() executed by the calling thread itself (tnum 0) never conflicts with a task running in the pool
   (those belong to other threads' calls: the caller has no task of its own in the pool) *)
Theorem C18_fast_path_disjoint : forall n thr progs desc,
  wf_config n progs = true -> no_enqueue progs = true -> wf_desc progs desc ->
  forall p, reachable n thr progs p ->
  forall s ts raise rest, s < ns p -> stg (subs p s) = SReady -> todo (subs p s) = CMap ts raise :: rest ->
  forall t w' t', In t ts -> workers p w' = WRunning t' ->
  conflictb (task_fp (desc t) 0) (task_fp (desc t') w') = false.
Proof. exact s_inline_tasks_disjoint. Qed.
Print Assumptions C18_fast_path_disjoint.

(* pool_t(threads): 1 <= size <= max_size; the worker ids are 0 .. size-1 and each of them indexes an existing buffer /
   accumulator / cache of every family (sizes and index expressions translated from the source) *)
Theorem C18_worker_ids_index_buffers : forall (threads max_size : Z) (k : okind),
  (1 <= max_size)%Z ->
  let n := pool_size threads max_size in
  (1 <= n <= max_size)%Z /\ ((threads <= max_size)%Z -> (1 <= threads)%Z -> n = threads) /\
  worker_ids n = map Z.of_nat (seq 0 (Z.to_nat n)) /\
  (forall t, In t (worker_ids n) -> (0 <= index_of k t < count_of k n)%Z).
Proof. intros threads max_size k. exact (s_worker_ids threads max_size k). Qed.
Print Assumptions C18_worker_ids_index_buffers.

(* (3) ml::tune: the tasks of one batch (result.add() done before the section) never touch the same slot: the slot a task
   stores into is different from the slot every other task stores into or reads its warm-start model from. *)
Theorem C18_tune_tasks_disjoint : forall res folds old n i j ci cj,
  (0 < folds)%Z -> (0 <= old)%Z -> (old = 0%Z -> n = 1%Z) ->
  (0 <= i < src_c18_tasks folds n)%Z -> (0 <= j < src_c18_tasks folds n)%Z -> i <> j ->
  closest_okb old ci = true -> closest_okb old cj = true ->
  conflictb (tune_fp res folds old ci i) (tune_fp res folds old cj j) = false.
Proof. exact s_tune_tasks_disjoint. Qed.
Print Assumptions C18_tune_tasks_disjoint.

(* ... for every batch of every run of the library's tuners (the first batch is a single trial: C13_first_batch_single) *)
Theorem C18_tune_run_disjoint : forall srt prop f cfg,
  C13_Proofs.sort_contract srt -> C13_Statements.valid_config cfg -> C13_Statements.prop_shape prop cfg ->
  forall res folds pre b post, (0 < folds)%Z ->
  C13_Defs.calls_of (C13_Defs.optimize srt prop f cfg) = pre ++ b :: post ->
  let old := Z.of_nat (length (concat pre)) in
  let n := Z.of_nat (length b) in
  forall i j ci cj, (0 <= i < src_c18_tasks folds n)%Z -> (0 <= j < src_c18_tasks folds n)%Z -> i <> j ->
  closest_okb old ci = true -> closest_okb old cj = true ->
  conflictb (tune_fp res folds old ci i) (tune_fp res folds old cj j) = false.
Proof. exact s_tune_run_disjoint. Qed.
Print Assumptions C18_tune_run_disjoint.

(* (4) Calls through the const interface from any number of user threads, each with its own private object (function,
   buffer, output): pairwise conflict-free -- provided minimize() works on per-call clones of the line-search prototypes *)
Theorem C18_user_calls_disjoint : forall first cs,
  Forall (fun c => clones_in_place c = false) cs -> NoDup (map private_of cs) ->
  forall i j f g, i <> j -> nth_error (user_fps first cs) i = Some f -> nth_error (user_fps first cs) j = Some g ->
  conflictb f g = false.
Proof. exact s_user_calls_disjoint. Qed.
Print Assumptions C18_user_calls_disjoint.

(* (1) + (4): such calls return, under every schedule, what they return alone *)
Theorem C18_user_calls_deterministic :
  forall (V R : Type) first cs (ps : list (prog V R)) (m0 : mem V),
    Forall (fun c => clones_in_place c = false) cs -> NoDup (map private_of cs) ->
    length cs = length ps ->
    (forall i fp p, nth_error (user_fps first cs) i = Some fp -> nth_error ps i = Some p -> obeys fp p) ->
    forall (sched : list nat) i p r,
      nth_error ps i = Some p -> nth_error (fst (exec ps m0 sched)) i = Some (Done r) -> r = fst (solo p m0).
Proof.
  intros V R first cs ps m0 Hcl Hnd Hlen Ho sched i p r Hp Hd.
  assert (Hl : length (user_fps first cs) = length ps) by (rewrite user_fps_length; exact Hlen).
  destruct (nth_error (user_fps first cs) i) as [fp|] eqn:E.
  - exact (proj1 (s_schedule_independent V R (user_fps first cs) ps m0 Ho (s_user_calls_disjoint first cs Hcl Hnd) Hl sched i fp p r E Hp Hd)).
  - apply nth_error_None in E. assert (i < length ps) by (apply nth_error_Some; congruence). rewrite Hl in E.
    exfalso. apply (Nat.lt_irrefl i). eapply Nat.lt_le_trans; eassumption.
Qed.
Print Assumptions C18_user_calls_deterministic.

(* (5) Results across thread counts differ only by re-association: in exact arithmetic the value reduced from the
   per-thread accumulators (sum_reduce: accumulators 1.. added into accumulator 0, loop translated from reduce.h) is the
   plain sum of the chunk values, whichever worker executed which chunk in whatever order. *)
Theorem C18_reduction_order : forall n (assign : list (nat * Z)),
  0 < n -> Forall (fun a => fst a < n) assign -> sum_reduce (bins n assign) = zsum (map snd assign).
Proof. exact s_reduction_order. Qed.
Print Assumptions C18_reduction_order.

(* (6) Same selected feature whatever the number of threads: the weak-learner fit (per-thread caches keeping the strictly
   best score, min_reduce = first smallest) selects the same (score, feature) for every assignment of features to workers,
   every evaluation order and every two pool sizes -- when no two features have exactly the same score. *)
Theorem C18_fit_select_schedule_independent : forall n1 n2 (sched1 sched2 : list (nat * (Z * Z))),
  Forall (fun a => fst a < n1) sched1 -> Forall (fun a => fst a < n2) sched2 ->
  Permutation (map snd sched1) (map snd sched2) -> NoDup (map fst (map snd sched1)) ->
  fit_select n1 sched1 = fit_select n2 sched2.
Proof. exact s_fit_select_schedule_independent. Qed.
Print Assumptions C18_fit_select_schedule_independent.

(* ... and in any case a minimum-score pair is selected; the single-thread fit keeps the first best feature *)
Theorem C18_fit_select_minimal : forall n (sched : list (nat * (Z * Z))),
  Forall (fun a => fst a < n) sched -> sched <> [] ->
  (exists sf, fit_select n sched = Some sf /\ is_min (map snd sched) sf) /\
  fit_select 1 (map (fun x => (0, x)) (map snd sched)) = best (map snd sched).
Proof. intros n sched H1 H2. split; [exact (fit_select_is_min n sched H1 H2) | apply fit_select_sequential]. Qed.
Print Assumptions C18_fit_select_minimal.

(* WITHOUT the no-tie premise the statement is FALSE of the faithful model: two features with the same score (e.g. a
   feature and a monotone transform of it) are selected depending on which worker evaluated which of them *)
Theorem C18_fit_select_tie_refuted :
  exists n (sched1 sched2 : list (nat * (Z * Z))),
    Forall (fun a => fst a < n) sched1 /\ Forall (fun a => fst a < n) sched2 /\
    Permutation (map snd sched1) (map snd sched2) /\ fit_select n sched1 <> fit_select n sched2.
Proof.
  exists 2, [(0, (5%Z, 0%Z)); (1, (5%Z, 1%Z))], [(1, (5%Z, 0%Z)); (0, (5%Z, 1%Z))].
  split; [repeat constructor|]. split; [repeat constructor|]. split; [apply Permutation_refl|].
  vm_compute. discriminate.
Qed.
Print Assumptions C18_fit_select_tie_refuted.

(* (7) the index / slot / fast-path expressions translated for this property are the ones the C11, C13 and C17
   theorems used above are about; every per-thread index is the worker id and every vector has one entry per worker *)
Theorem C18_kernels_agree :
  (forall i f, src_c18_fold i f = src_mt_fold i f /\ src_c18_trial i f = src_mt_trial i f) /\
  (forall f n, src_c18_tasks f n = src_mt_tasks f n) /\
  (forall o t, src_c18_store_trial o t = src_mt_store_trial o t) /\
  (forall o, src_c18_closest_limit o = src_mt_closest_limit o) /\
  (forall t f n, src_c18_slot_store t f n = src_mr_slot_store t f n /\ src_c18_slot_load t f n = src_mr_slot_load t f n) /\
  (forall t f n, src_c18_slot_store t f n = Src_mlresult.src_slot_store t f n) /\
  (forall s c e, src_c18_chunked_inline s c e = src_chunked_inline s c e) /\
  (forall s e, src_c18_indexed_inline s e = src_indexed_inline s e) /\
  (forall k t, index_of k t = t) /\ (forall k n, count_of k n = n).
Proof.
  pose proof kernels_agree as [H1 [H2 [H3 [H4 [H5 [H6 [H7 H8]]]]]]].
  repeat split; try (intros; first [apply H1 | apply H2 | apply H3 | apply H4 | apply H5 | apply H6 | apply H7 | apply H8]);
    [apply index_of_id | apply count_of_id].
Qed.
Print Assumptions C18_kernels_agree.

(* (8) the selection rule of the model IS the rule of the source: the per-thread "better than the best so far" test of every
   weak-learner fit cache (affine, stump, both hinge sites, the three table sites) and the comparison of min_reduce, translated
   on every run, are the strict `<` of the model.  One strict order inside a worker AND across workers is what makes the
   selection a minimum (associative), hence ... *)
Theorem C18_selection_rule_is_source : forall k,
  (forall s b, better_src k s b = (s <? b)%Z) /\ (forall a b, src_c18_reduce_less a b = (a <? b)%Z) /\
  (forall c sf, cache_update_src k c sf = cache_update c sf) /\
  (forall n sched, fit_select_src k n sched = fit_select n sched).
Proof.
  intro k. split; [intros; apply better_src_strict|]. split; [intros; apply reduce_less_strict|].
  split; [intros; apply cache_update_src_eq | intros; apply fit_select_src_eq].
Qed.
Print Assumptions C18_selection_rule_is_source.

(* ... the selection computed WITH THE SOURCE'S COMPARISONS is the same for every assignment of features to workers, every
   evaluation order and every two pool sizes, when no two features have exactly the same score *)
Theorem C18_fit_select_src_schedule_independent : forall k n1 n2 (sched1 sched2 : list (nat * (Z * Z))),
  Forall (fun a => fst a < n1) sched1 -> Forall (fun a => fst a < n2) sched2 ->
  Permutation (map snd sched1) (map snd sched2) -> NoDup (map fst (map snd sched1)) ->
  fit_select_src k n1 sched1 = fit_select_src k n2 sched2.
Proof. intros k n1 n2 s1 s2 H1 H2 HP HN. rewrite !fit_select_src_eq. exact (s_fit_select_schedule_independent n1 n2 s1 s2 H1 H2 HP HN). Qed.
Print Assumptions C18_fit_select_src_schedule_independent.

(* a worker-side test that only accepts improvements larger than some epsilon (with the strict min_reduce) is NOT a minimum: two
   features with DIFFERENT scores 10 and 9 are selected depending on whether they were evaluated by the same worker *)
Theorem C18_epsilon_rule_refuted :
  exists eps n (sched1 sched2 : list (nat * (Z * Z))),
    Forall (fun a => fst a < n) sched1 /\ Forall (fun a => fst a < n) sched2 /\
    Permutation (map snd sched1) (map snd sched2) /\ NoDup (map fst (map snd sched1)) /\
    fit_select_eps eps n sched1 <> fit_select_eps eps n sched2.
Proof.
  exists 2%Z, 2, [(0, (10%Z, 0%Z)); (0, (9%Z, 1%Z))], [(0, (10%Z, 0%Z)); (1, (9%Z, 1%Z))].
  split; [repeat constructor|]. split; [repeat constructor|]. split; [apply Permutation_refl|].
  split; [cbn; repeat constructor; cbn; intuition discriminate|]. vm_compute. discriminate.
Qed.
Print Assumptions C18_epsilon_rule_refuted.

(* ---------------------------------------------------------------------------------------------------------------- *)
(* non-vacuity                                                                                                       *)
(* ---------------------------------------------------------------------------------------------------------------- *)
(* two calls reading the shared LConst 0 and writing their own buffer: every schedule gives the solo results ... *)
Definition ex_call (b : nat) : prog Z Z := Read (LConst 0) (fun v => Write (LBuf b 0 0) (v + Z.of_nat b)%Z (Read (LBuf b 0 0) (fun w => Done (2 * w)%Z))).
Definition ex_fp (b : nat) : footprint := {| reads := [LConst 0]; writes := [LBuf b 0 0] |}.
Example C18_nonvacuous_deterministic :
  conflictb (ex_fp 1) (ex_fp 2) = false /\ obeys (ex_fp 1) (ex_call 1) /\ obeys (ex_fp 2) (ex_call 2) /\
  map (@finished_prog Z Z) (fst (exec [ex_call 1; ex_call 2] (fun _ => 7%Z) [0; 1; 1; 0; 1; 0])) = [Some 16%Z; Some 18%Z] /\
  fst (solo (ex_call 1) (fun _ => 7%Z)) = 16%Z /\ fst (solo (ex_call 2) (fun _ => 7%Z)) = 18%Z.
Proof. cbn. repeat split; auto. Qed.

(* ... whereas two calls sharing their buffer (conflicting footprints) return schedule-dependent results *)
Example C18_nonvacuous_race_is_schedule_dependent :
  conflictb (ex_fp 1) (ex_fp 1) = true /\
  map (@finished_prog Z Z) (fst (exec [ex_call 1; Read (LConst 0) (fun v => Write (LBuf 1 0 0) 0%Z (Done v))] (fun _ => 7%Z) [0; 0; 1; 1; 0]))
    = [Some 0%Z; Some 7%Z] /\
  map (@finished_prog Z Z) (fst (exec [ex_call 1; Read (LConst 0) (fun v => Write (LBuf 1 0 0) 0%Z (Done v))] (fun _ => 7%Z) [0; 0; 0; 1; 1]))
    = [Some 16%Z; Some 7%Z].
Proof. vm_compute. repeat split. Qed.

(* a pool with 2 workers; thread 0 maps two chunks of one iterator (owner 5), thread 1 maps a chunk of another (owner 6);
   the state after push / notify / two pops has tasks 1 and 2 running at the same time on workers 0 and 1 *)
Definition ex_progs : list (list call) := [[CMap [1; 2] true]; [CMap [3] true]].
Definition ex_desc (t : tid) : tdesc :=
  match t with
  | 1 => {| d_bufs := [(5, KFlatten); (5, KTargets); (7, KLinearAcc)]; d_out := 5; d_lo := 0; d_hi := 10; d_consts := [0] |}
  | 2 => {| d_bufs := [(5, KFlatten); (5, KTargets); (7, KLinearAcc)]; d_out := 5; d_lo := 10; d_hi := 17; d_consts := [0] |}
  | _ => {| d_bufs := [(6, KFlatten)]; d_out := 6; d_lo := 0; d_hi := 17; d_consts := [0] |}
  end.
Lemma ex_wf_desc : wf_desc ex_progs ex_desc.
Proof.
  split.
  - intros s ts r t t' Hc Ht Ht' Hne. destruct s as [|[|s]]; cbn in Hc.
    + destruct Hc as [Hc|[]]. injection Hc as <- <-. cbn in Ht, Ht'.
      destruct Ht as [<-|[<-|[]]], Ht' as [<-|[<-|[]]]; try contradiction; unfold same_call_ok; cbn; right; [left | right]; apply Z.le_refl.
    + destruct Hc as [Hc|[]]. injection Hc as <- <-. cbn in Ht, Ht'. destruct Ht as [<-|[]], Ht' as [<-|[]]. contradiction.
    + destruct s; contradiction.
  - intros s s' t t' Hss Ht Ht'.
    destruct s as [|[|s]], s' as [|[|s']]; cbn in Ht, Ht'; try contradiction; try (destruct s; contradiction); try (destruct s'; contradiction).
    + destruct Ht as [<-|[<-|[]]], Ht' as [<-|[]]; split; cbn; try discriminate;
        intros x y Hx Hy; cbn in Hx, Hy; repeat (destruct Hx as [<-|Hx]; [|]); try contradiction;
        repeat (destruct Hy as [<-|Hy]; [|]); try contradiction; cbn; discriminate.
    + destruct Ht as [<-|[]], Ht' as [<-|[<-|[]]]; split; cbn; try discriminate;
        intros x y Hx Hy; cbn in Hx, Hy; repeat (destruct Hx as [<-|Hx]; [|]); try contradiction;
        repeat (destruct Hy as [<-|Hy]; [|]); try contradiction; cbn; discriminate.
Qed.
Example C18_nonvacuous_pool :
  wf_config 2 ex_progs = true /\ no_enqueue ex_progs = true /\ wf_desc ex_progs ex_desc /\
  match run (init 2 (fun _ => false) ex_progs) [EPush 0; ENotify 0 None; ECheck 0; ECheck 1] with
  | Some p => workers p 0 = WRunning 1 /\ workers p 1 = WRunning 2 /\
              conflictb (task_fp (ex_desc 1) 0) (task_fp (ex_desc 2) 1) = false /\
              (* the same two tasks handed the SAME worker id would conflict: the theorem is not trivially true *)
              conflictb (task_fp (ex_desc 1) 0) (task_fp (ex_desc 2) 0) = true
  | None => False
  end.
Proof. split; [reflexivity|]. split; [reflexivity|]. split; [exact ex_wf_desc|]. vm_compute. repeat split. Qed.

(* ml::tune, 3 folds, second batch of 2 trials after 2 old trials: the six tasks are pairwise conflict-free; the same
   tasks with result.add() inside the section, or with a slot computed as trial + fold, are not *)
Example C18_nonvacuous_tune :
  pairwise_free (map (fun i => tune_fp 0 3 2 (if (i <? 3)%Z then 0 else 1)%Z i) [0; 1; 2; 3; 4; 5]%Z) = true /\
  closest_okb 2 1 = true /\ closest_okb 0 0 = true /\ closest_okb 2 2 = false /\
  conflictb (tune_add_fp 0 12) (tune_fp 0 3 2 0 4) = true /\
  (* first batch with TWO trials (excluded by C13_first_batch_single): task (trial 1, fold 0) reads the slot task (0, 0) writes *)
  conflictb (tune_fp 0 3 0 0 3) (tune_fp 0 3 0 0 0) = true.
Proof. vm_compute. repeat split. Qed.

(* const-interface calls: 3 threads minimizing their own functions on one solver + a loss call + a predict call are
   conflict-free; sharing one function object between two minimize calls, or a minimize that used the line-search
   prototypes in place, conflicts *)
Example C18_nonvacuous_user :
  pairwise_free (user_fps 0 [UMinimize 0 10; UMinimize 0 11; UMinimize 0 12; ULoss 1 2 3 20; UPredict 4 5 21]) = true /\
  NoDup (map private_of [UMinimize 0 10; UMinimize 0 11; UMinimize 0 12; ULoss 1 2 3 20; UPredict 4 5 21]) /\
  pairwise_free (user_fps 0 [UMinimize 0 10; UMinimize 0 10]) = false /\
  pairwise_free (user_fps 0 [UMinimizeShared 0 10; UMinimizeShared 0 11]) = false.
Proof.
  split; [vm_compute; reflexivity|]. split; [|split; vm_compute; reflexivity].
  cbn. repeat constructor; cbn; intuition discriminate.
Qed.

Example C18_nonvacuous_reduction :
  sum_reduce (bins 3 [(0, 5%Z); (2, 7%Z); (1, (-3)%Z); (0, 11%Z); (2, 1%Z)]) = 21%Z /\
  bins 3 [(0, 5%Z); (2, 7%Z); (1, (-3)%Z); (0, 11%Z); (2, 1%Z)] = [16; -3; 8]%Z /\
  sum_reduce (bins 3 [(1, 5%Z); (1, 7%Z); (1, (-3)%Z); (2, 11%Z); (0, 1%Z)]) = 21%Z.
Proof. vm_compute. repeat split. Qed.

Example C18_nonvacuous_fit_select :
  fit_select 3 [(0, (9, 0)%Z); (1, (4, 1)%Z); (2, (6, 2)%Z); (0, (5, 3)%Z)] = Some (4, 1)%Z /\
  fit_select 2 [(1, (5, 3)%Z); (1, (9, 0)%Z); (0, (6, 2)%Z); (1, (4, 1)%Z)] = Some (4, 1)%Z /\
  fit_select 1 [(0, (9, 0)%Z); (0, (4, 1)%Z); (0, (6, 2)%Z); (0, (5, 3)%Z)] = Some (4, 1)%Z.
Proof. vm_compute. repeat split. Qed.

Example C18_nonvacuous_workers :
  worker_ids (pool_size 0 16) = [0]%Z /\ worker_ids (pool_size 3 16) = [0; 1; 2]%Z /\ pool_size 40 16 = 16%Z /\
  select_chunk 7 5 = 1%Z /\ select_chunk 8 3 = 3%Z /\ loop_inline 4 64 50 = true /\ loop_inline 4 10 50 = false /\
  loop_chunks 25 10 = [(0, 10); (10, 20); (20, 25)]%Z.
Proof. vm_compute. repeat split. Qed.

Example C18_nonvacuous_selection_rule :
  fit_select_src WAffine 2 [(0, (10, 0)%Z); (1, (9, 1)%Z)] = Some (9, 1)%Z /\
  fit_select_src WAffine 1 [(0, (10, 0)%Z); (0, (9, 1)%Z)] = Some (9, 1)%Z /\
  fit_select_src (WTable 2) 3 [(2, (7, 0)%Z); (0, (8, 1)%Z); (2, (6, 2)%Z)] = Some (6, 2)%Z /\
  cache_update_src WStump (Some (5, 0)%Z) (5, 1)%Z = Some (5, 0)%Z /\
  fit_select_eps 2 1 [(0, (10, 0)%Z); (0, (9, 1)%Z)] = Some (10, 0)%Z.
Proof. vm_compute. repeat split. Qed.

